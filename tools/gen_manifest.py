#!/usr/bin/env python3
"""Regenerates MANIFEST.json from tools/props.py + tools/manifest_text.py (kept valid at all times)."""
import json, os, sys
V = os.path.dirname(os.path.dirname(os.path.abspath(__file__)))
sys.path.insert(0, os.path.join(V, 'tools'))
from props import PROPS
from manifest_text import TEXT, NOT_YET
allids = [json.loads(l)['id'] for l in open(os.path.join(V, 'properties.jsonl'))]
checks = []
for pid in allids:
    if pid not in PROPS or pid not in TEXT: continue
    t = TEXT[pid]
    checks.append({
        'property_id': pid,
        'quick_cmd': f'./check {pid} --tier quick',
        'thorough_cmd': f'./check {pid} --tier thorough',
        'evidence_file': f'evidence/{pid}.json',
        'replay_cmd_template': f'./check {pid} --replay {{path}}',
        'engine': 'lean-model+extract+harness',
        'level_claimed': {'category': 'proof', 'text': t['text'], 'design_ref': t['design_ref']},
        'level_note': t['note'],
        'technique': t['technique'],
    })
m = {
    'version': 1,
    'setup_cmd': './check --setup',
    'hooks': {'guard': 'verif', 'enable': 'go build -tags verif (no hook is currently needed: every tie uses exported API, real processes, -gocmd and fault injection from outside)',
              'baseline_off_cmd': 'tools/baseline.sh /repo', 'source_commits': [], 'add_only': True},
    'engines': [
        {'name': 'lean-model', 'path': 'lean/', 'serves_properties': [c['property_id'] for c in checks], 'kind_free_text': 'Lean 4 library MageModel: executable models, property theorems (Props/), bridge theorems over regenerated facts (Bridge/, Generated/), core-only oracle executable'},
        {'name': 'extract', 'path': 'go/cmd/extract', 'serves_properties': [c['property_id'] for c in checks], 'kind_free_text': 'go/ast extractor regenerating lean/MageModel/Generated/*.lean from /repo on every run'},
        {'name': 'harness', 'path': 'go/cmd/harness', 'serves_properties': [c['property_id'] for c in checks], 'kind_free_text': 'Go differential harness driving the real packages / real mage processes; compared line by line with the Lean oracle'},
    ],
    'checks': checks,
    'not_applicable': [{'property_id': pid, 'reason': NOT_YET.get(pid, 'check not built yet in this session (planned, see DESIGN.md section 9); not claimed')} for pid in allids if pid not in [c['property_id'] for c in checks]],
    'notes': 'Technique family: machine-checked proof in Lean 4 about executable models, tied to /repo by regenerated facts with bridge theorems and by differential correspondence against a Lean oracle. See DESIGN.md.',
}
json.dump(m, open(os.path.join(V, 'MANIFEST.json'), 'w'), indent=1)
print('checks:', [c['property_id'] for c in checks], 'n/a:', len(m['not_applicable']))
