#!/bin/bash
# Rewrites lean/MageModel/Bridge/Expected.lean from /repo's current source (maintenance tool, run by hand after the
# models were re-validated against a deliberate source change such as a fix: commit; never run by ./check).
set -e
V=$(cd "$(dirname "$0")/.." && pwd)
OUT=$V/lean/MageModel/Bridge/Expected.lean
{
  echo "/-! The shapes (comment-free, alpha-renamed source text) of the functions the models transcribe, as they were when"
  echo "the models were last validated against the code.  Hand-maintained (tools/update_expected.sh); the bridge theorems compare them with the regenerated ones. -/"
  echo
  echo "namespace MageModel.Bridge.Expected"
  echo
  "$V/check" --print-shapes | grep -v '^WARNING'
  echo "end MageModel.Bridge.Expected"
} > "$OUT.new"
mv "$OUT.new" "$OUT"
