#!/bin/bash
# usage: [SOAK_IDS='C04 C06'] tools/soak.sh <tier> <seed> [<seed> ...]   — runs every claimed check (or those in SOAK_IDS) on the unchanged tree for each seed and
# prints one line per run; exit 1 if any run raised an alarm.  Meant for `vp run` (own snapshot, own build).
set -u
TIER=$1; shift
V=$(cd "$(dirname "$0")/.." && pwd); cd "$V" || exit 2
# under `vp run --with-repo` use the snapshot of /repo's HEAD, so that experiments in /repo's working tree do not leak in
[ -n "${VP_RUN_REPO:-}" ] && export VERIF_REPO="$VP_RUN_REPO"
echo "soak: repo=${VERIF_REPO:-/repo} tier=$TIER seeds=$*"
if [ ! -x lean/.lake/build/bin/oracle ]; then ./check --setup > /tmp/soak-setup.$$ 2>&1 || { tail -20 /tmp/soak-setup.$$; exit 2; }; fi
bad=0
for seed in "$@"; do
  for id in ${SOAK_IDS:-$(python3 -c "import json;print(' '.join(c['property_id'] for c in json.load(open('MANIFEST.json'))['checks']))")}; do
    t0=$(date +%s)
    out=$(VERIF_SEED=$seed ./check $id --tier $TIER 2>&1); rc=$?
    t1=$(date +%s)
    echo "seed=$seed $id rc=$rc $((t1-t0))s $(echo "$out" | grep -m1 '^VIOLATION')"
    if [ $rc != 0 ]; then bad=1; rep=$(echo "$out" | sed -n 's/.*replay=\([^ ]*\).*/\1/p' | head -1); [ -n "$rep" ] && python3 -c "
import json;r=json.load(open('$rep'));print('   ',r.get('kind'),json.dumps(r.get('input'))[:300]);print('    impl ',json.dumps(r.get('implementation'))[:300]);print('    model',json.dumps(r.get('model_expected'))[:300]);print('    broken',[p['what'] for p in r.get('broken_obligations') or []])"; fi
  done
done
exit $bad
