"""Per-property configuration of ./check: which Lean modules carry the theorems and bridges, which harness
streams tie the model to the code, and the case budgets per tier."""

def S(name, quick, thorough, search=None, args=None):
    d = {'name': name, 'quick': quick, 'thorough': thorough, 'search': search or thorough}
    if args: d['args'] = args
    return d

PROPS = {
    'C17': {
        'lean': ['MageModel.Props.C17', 'MageModel.Bridge.C17'],
        'streams': [S('c17', 150, 2500)],
        'trusted': ['os.Stat/os.Chtimes/filepath.Walk/filepath.Glob of the host (their answers are recorded and fed to the model)'],
        'assumptions': ['symlink-free readable trees; file names without "$"; no entry dated before Go\'s zero time'],
        'rule': 'random trees (<=24 nodes, depth<=4) with mtimes from a pool with ties and +-1ns/+-1s neighbours, 12 queries per tree over the eight functions; distinct = different canonical (destination, source stat/walk lists); nothing is counted trivial except queries with an empty source list',
    },
}
