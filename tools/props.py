"""Per-property configuration of ./check: which Lean modules carry the theorems and bridges, which harness
streams tie the model to the code, and the case budgets per tier."""

def S(name, quick, thorough, search=None, args=None):
    d = {'name': name, 'quick': quick, 'thorough': thorough, 'search': search or thorough}
    if args: d['args'] = args
    return d

PROPS = {
    'C01': {
        'lean': ['MageModel.Props.C01', 'MageModel.Bridge.Deps'],
        'streams': [S('deps', 150, 3000), S('ident', 400, 6000)],
        'trusted': ['Go runtime scheduler and sync.{Mutex,Once,WaitGroup} (modelled as atomic moves)', 'harness gates and the settle delay of its controller', 'the executable monitors of Deps/Monitor.lean are transcriptions of the theorem statements (self-checked on the model\'s own traces every run)'],
        'assumptions': ['acyclic dependency graphs (cycles deadlock); real interleavings inside sync primitives are sampled, not enumerated'],
        'rule': 'random acyclic programs (1-8 dependencies, 1-3 concurrent roots, 0-2 calls per body, parallel/serial/ctx forms, repeats, five outcome kinds, three function signatures) under a random gate-release schedule (5/6 gated, 1/6 free-running); distinct = different canonical (program, observed trace); trivial = trace of <= 3 events',
    },
    'C02': {
        'lean': ['MageModel.Props.C02', 'MageModel.Bridge.Deps'],
        'streams': [S('deps', 150, 3000)],
        'trusted': ['Go runtime scheduler and sync.{Mutex,Once,WaitGroup} (modelled as atomic moves)', 'harness gates and the settle delay of its controller', 'the executable monitors of Deps/Monitor.lean are transcriptions of the theorem statements (self-checked on the model\'s own traces every run)'],
        'assumptions': ['acyclic dependency graphs (cycles deadlock); real interleavings inside sync primitives are sampled, not enumerated'],
        'rule': 'random acyclic programs (1-8 dependencies, 1-3 concurrent roots, 0-2 calls per body, parallel/serial/ctx forms, repeats, five outcome kinds, three function signatures) under a random gate-release schedule (5/6 gated, 1/6 free-running); distinct = different canonical (program, observed trace); trivial = trace of <= 3 events',
    },
    'C03': {
        'lean': ['MageModel.Props.C03', 'MageModel.Bridge.Deps'],
        'streams': [S('deps', 150, 3000)],
        'trusted': ['Go runtime scheduler and sync.{Mutex,Once,WaitGroup} (modelled as atomic moves)', 'harness gates and the settle delay of its controller', 'the executable monitors of Deps/Monitor.lean are transcriptions of the theorem statements (self-checked on the model\'s own traces every run)'],
        'assumptions': ['acyclic dependency graphs (cycles deadlock); real interleavings inside sync primitives are sampled, not enumerated'],
        'rule': 'random acyclic programs (1-8 dependencies, 1-3 concurrent roots, 0-2 calls per body, parallel/serial/ctx forms, repeats, five outcome kinds, three function signatures) under a random gate-release schedule (5/6 gated, 1/6 free-running); distinct = different canonical (program, observed trace); trivial = trace of <= 3 events',
    },
    'C08': {
        'lean': ['MageModel.Props.C08', 'MageModel.Bridge.Invoke', 'MageModel.Bridge.C08'],
        'needs_mage': True,
        'streams': [S('c08', 60, 600)],
        'trusted': ['SHA-1 collision-freeness on the texts involved (hypothesis of exeBase_inj)', 'go build produces a binary that is a function of the sources it is given', 'nobody else writes the cache directory', 'the Lean SHA-1 (Invoke/Sha1.lean) is only diffed against crypto/sha1, nothing is proved about it beyond its output shape'],
        'assumptions': ['-compile output paths are not cache names', 'MAGEFILE_HASHFAST staleness w.r.t. imported non-magefile packages is documented behaviour and outside the statement ("for the magefiles themselves")'],
        'rule': '(a) 1-5 files of 14 sizes (0 B .. 64 KiB, 1 MiB thorough; SHA-1 block boundaries), with duplicates and single-bit edits, each set under 1-3 fresh name/order variants and five cache-directory spellings: the real mage.ExeName path vs the name computed by the Lean SHA-1 model from the contents, the extracted template and rebuild key and the recorded go version; (b) histories of 5-10 operations (edit to a new or an earlier token, add/remove a file, rename, -clean, run in default or hash mode, -f) over four layouts (plain, -d, -w, magefiles directory) x absolute/relative cache: printed token, rebuilt-or-reused and executable path vs the invocation model replaying the history; distinct = different canonical oracle input',
    },
    'C10': {
        'lean': ['MageModel.Props.C10', 'MageModel.Bridge.Invoke'],
        'needs_mage': True,
        'streams': [S('c10', 80, 1500)],
        'trusted': ['go/build is the arbiter at run time; the Lean evaluator (Invoke/Select.lean) was written from its rules and is diffed against it', 'go/build\'s header scanner (which comment lines count as constraints)', 'the generator\'s rendering of an expression tree as //go:build or +build text'],
        'assumptions': ['files importing "C", //go:binary-only-package and the package name "documentation" are outside the generator', 'file names are unique within a directory'],
        'rule': 'generated directories of 1-8 files from 26 name shapes (platform suffixes in every position, _test, hidden, non-Go, dotted stems), constraints = random boolean expressions of depth <= 3 over 15 tags in //go:build syntax, legacy +build lines (1-2 lines, OR/AND/negation), both, or none, optional leading comment block, occasional foreign package clauses; 4 queries per directory over -goos x -goarch (7 x 5) x GOOS/GOARCH in the harness environment (5 x 4) x magefiles-directory mode; process ring: mage -l started with GOOS/GOARCH in its environment over plain and magefiles-directory layouts; distinct = different canonical oracle input; trivial = nothing selected from a one-file directory',
    },
    'C11': {
        'lean': ['MageModel.Props.C11', 'MageModel.Bridge.Invoke'],
        'needs_mage': True,
        'streams': [S('c11', 60, 500)],
        'trusted': ['os/exec environment de-duplication (last binding wins) and the kernel delivering bytes written to inherited descriptors', 'Go\'s flag package (transcribed in Gen/Flags.lean and diffed)', 'time.ParseDuration / Duration.String (answers recorded; only their round trip for positive durations is assumed)'],
        'assumptions': ['the caller\'s environment has unique keys', 'stream integrity and ordering are observed (tie only), not proved', 'known finding C11:explicit-false-or-zero-flag-vs-env'],
        'rule': 'probe target (accessors, context deadline, cwd, full environment, stdin digest) and payload target (pattern bytes on stdout/stderr, 0 B .. 4 MiB) run through mage and the -compile\'d binary under random combinations of -v/-debug/-t/-gocmd spellings, MAGEFILE_* variables with valid and invalid values, extra variables with \'=\', spaces, empty values, GOOS/GOARCH, five -d and three -w spellings over a plain and a magefiles-directory layout; plus mage-vs-compiled pairs judged by the property itself; distinct = different canonical oracle input',
    },
    'C13': {
        'lean': ['MageModel.Props.C13', 'MageModel.Bridge.Deps'],
        'streams': [S('deps', 150, 3000)],
        'trusted': ['Go runtime scheduler and sync.{Mutex,Once,WaitGroup} (modelled as atomic moves)', 'harness gates and the settle delay of its controller', 'the executable monitors of Deps/Monitor.lean are transcriptions of the theorem statements (self-checked on the model\'s own traces every run)'],
        'assumptions': ['acyclic dependency graphs (cycles deadlock); real interleavings inside sync primitives are sampled, not enumerated'],
        'rule': 'random acyclic programs (1-8 dependencies, 1-3 concurrent roots, 0-2 calls per body, parallel/serial/ctx forms, repeats, five outcome kinds, three function signatures) under a random gate-release schedule (5/6 gated, 1/6 free-running); distinct = different canonical (program, observed trace); trivial = trace of <= 3 events',
    },
    'C04': {
        'lean': ['MageModel.Props.C04', 'MageModel.Bridge.FE'],
        'needs_mage': True,
        'streams': [S('ferun', 8, 60)],
        'trusted': ['go/parser, go/doc and go list (what they hand to mage is the abstract syntax the generator renders from)', 'the Go compiler translating the generated switch faithfully', 'strconv.Atoi/ParseBool, time.ParseDuration (answers recorded per word and given to the model)', 'ASCII identifiers (exported-ness and lower-casing are modelled for ASCII)'],
        'assumptions': ['flags are not mixed into the word list except after "--"'],
        'rule': 'generated magefile projects (1-3 files, namespaces, 0-3 mage:import packages, aliases, default) compiled by the real mage; 24 (quick) / 80 (thorough) generated command lines per project run through mage, the cached binary and a -compile\'d binary; distinct = different canonical (project, words, failing callee)',
    },
    'C05': {
        'lean': ['MageModel.Props.C05', 'MageModel.Bridge.Invoke'],
        'needs_mage': True,
        'streams': [S('c05', 60, 600)],
        'trusted': ['the operating system\'s exit-status plumbing (wait status = code mod 256)', 'Go\'s flag package (transcribed in Gen/Flags.lean and diffed)', 'strconv.Atoi/ParseBool, time.ParseDuration (answers recorded per word and given to the model)', 'the probe magefile\'s Fail(kind,a,b) target does what Oracle/Mage.lean:failOutcome says (the definition of the program under test)'],
        'assumptions': ['exit codes 1..255 (outside that range the OS truncates: witness in Props/C05); death by signal is not modelled; -clean/-init/-version success paths are modelled as status 0 only'],
        'rule': 'one probe project compiled once; command lines of 1-3 targets with the failing one at every position, 16 failure kinds (returned error, mg.Fatal/Fatalf, sh exit code, panic with error/coded error/value, os.Exit, parallel/serial/nested dependency sets with equal, different and partly-zero codes), a sweep over codes 1..255 (stride 16 quick, every code thorough), 35 malformed child and 18 malformed front-end command lines, MAGEFILE_* flag equivalents, 7 unbuildable projects x 3 lines x 2 cache modes; each through mage (default mode), mage reusing the cached binary (MAGEFILE_HASHFAST) and the -compile\'d binary; distinct = different canonical (op, env, argv)',
    },
    'C06': {
        'lean': ['MageModel.Props.C06', 'MageModel.Bridge.FE'],
        'needs_mage': True,
        'streams': [S('feparse', 60, 1200), S('ferun', 5, 40)],
        'trusted': ['go/parser, go/doc and go list (what they hand to mage is the abstract syntax the generator renders from)', 'the Go compiler translating the generated switch faithfully', 'strconv.Atoi/ParseBool, time.ParseDuration (answers recorded per word and given to the model)', 'ASCII identifiers (exported-ness and lower-casing are modelled for ASCII)'],
        'assumptions': ['completeness of the build obligations w.r.t. the Go type checker is tested (every generated project that go can build must build under mage), not proved', 'generic functions are outside the generator (known limitation D25)'],
        'rule': 'generated packages with every way of writing parameter lists (grouped, unnamed, blank, named results), invalid signatures of eight kinds, unexported names/types, non-namespace receivers, pointer receivers; in-process parse.PrimaryPackage dump and -l map keys vs the model; e2e compile of every project',
    },
    'C07': {
        'lean': ['MageModel.Props.C07', 'MageModel.Bridge.FE'],
        'streams': [S('feparse', 80, 1500)],
        'trusted': ['go/parser, go/doc and go list (what they hand to mage is the abstract syntax the generator renders from)', 'the Go compiler translating the generated switch faithfully', 'strconv.Atoi/ParseBool, time.ParseDuration (answers recorded per word and given to the model)', 'ASCII identifiers (exported-ness and lower-casing are modelled for ASCII)'],
        'assumptions': [],
        'rule': 'generated packages with one injected collision (or near miss) of seven kinds: case-variant functions, alias vs target, alias vs alias, alias vs imported target, local vs root-imported target, near misses; accept/reject class vs the model',
    },
    'C18': {
        'lean': ['MageModel.Props.C18', 'MageModel.Bridge.FE'],
        'streams': [S('feparse', 40, 600)],
        'trusted': ['go/parser, go/doc and go list (what they hand to mage is the abstract syntax the generator renders from)', 'the Go compiler translating the generated switch faithfully', 'strconv.Atoi/ParseBool, time.ParseDuration (answers recorded per word and given to the model)', 'ASCII identifiers (exported-ness and lower-casing are modelled for ASCII)'],
        'assumptions': ['string comparison is a total order (hypothesis of sort_perm_invariant)'],
        'rule': 'generated packages with competing imports (equal package names, equal aliases, the same path tagged in two files); the main file is generated 25 times per project in one process (Go re-randomises every map range) and must be byte-identical; unique names vs the model',
    },
    'C19': {
        'lean': ['MageModel.Props.C19', 'MageModel.Bridge.FE'],
        'needs_mage': True,
        'streams': [S('feparse', 80, 1500), S('ferun', 4, 30)],
        'trusted': ['go/parser, go/doc and go list (what they hand to mage is the abstract syntax the generator renders from)', 'the Go compiler translating the generated switch faithfully', 'strconv.Atoi/ParseBool, time.ParseDuration (answers recorded per word and given to the model)', 'ASCII identifiers (exported-ness and lower-casing are modelled for ASCII)'],
        'assumptions': ['strings.Fields(strings.ToLower(..)) is recorded per comment line and given to the model'],
        'rule': 'generated packages whose imports carry the tag leading/trailing/single-line/grouped with comment groups of 1-12 lines, six tag spellings, aliases, near-miss tags, the same package in two files; PkgInfo (imports, unique names, imported targets) vs the model; e2e runs of imported targets',
    },
    'C14': {
        'lean': ['MageModel.Props.C14', 'MageModel.Bridge.C14'],
        'streams': [S('c14', 1500, 30000), S('ident', 600, 8000)],
        'trusted': ['reflect (TypeOf, FuncOf, MakeFunc, Value.Call, AssignableTo)', 'encoding/json as the identity of argument lists (spec-level equality is what the oracle computes; injectivity of the JSON encoding is not proved)', 'runtime.FuncForPC naming'],
        'assumptions': ['argument strings are valid UTF-8 (known finding C14:invalid-utf8-arg otherwise)'],
        'rule': 'signatures from a pool of 17 parameter types (4 supported, context, error, three struct{}-like receivers, 8 look-alikes) x receiver/context/variadic/result shapes built with reflect.FuncOf+MakeFunc, argument lists right or mutated (missing, surplus, look-alike type, untyped nil, explicit context); identity: pairs of mg.F values over 11 real functions/methods with tricky strings, observed via Name()/ID() and executions under mg.Deps',
    },
    'C15': {
        'lean': ['MageModel.Props.C15', 'MageModel.Bridge.C15'],
        'streams': [S('c15', 300, 4000)],
        'trusted': ['os/exec (Cmd.Run, environment de-duplication: last binding wins), os.Expand (transcribed in Sh/Expand.lean and diffed), the helper child cmd/shchild'],
        'assumptions': ['exit codes 0..255; death by signal and I/O errors on the writers are outside the quantifier; inherited environment has unique keys'],
        'rule': 'random (function, verbose, inherited env, env map, command kind, $VAR argument atoms, exit code incl. a sweep over 0..255, stdout/stderr/stdin payload classes); distinct = different canonical oracle input; no case is trivial',
    },
    'C16': {
        'lean': ['MageModel.Props.C16', 'MageModel.Bridge.C16'],
        'streams': [S('c16', 120, 1500)],
        'trusted': ['Go slice/append semantics as modelled in Sh/Slices.lean (in place iff len+n <= cap)', 'the helper child cmd/shchild echoing its argv'],
        'assumptions': ['sequential consistency; the interleaving of concurrent closure calls is only sampled (8 goroutines x 3 repeats), the theorem covers sequential histories'],
        'rule': 'histories of 1-6 calls of one RunCmd/OutCmd closure (baked 0-3 args, spare capacity 0-5, extra 0-3 args, environment changes between calls), direct calls of six sh functions with the caller\'s slice and env map, and concurrent calls of one closure; distinct = different canonical oracle input',
    },
    'C17': {
        'lean': ['MageModel.Props.C17', 'MageModel.Bridge.C17'],
        'streams': [S('c17', 150, 2500)],
        'trusted': ['os.Stat/os.Chtimes/filepath.Walk/filepath.Glob of the host (their answers are recorded and fed to the model)'],
        'assumptions': ['symlink-free readable trees; file names without "$"; no entry dated before Go\'s zero time'],
        'rule': 'random trees (<=24 nodes, depth<=4) with mtimes from a pool with ties and +-1ns/+-1s neighbours, 12 queries per tree over the eight functions; distinct = different canonical (destination, source stat/walk lists); nothing is counted trivial except queries with an empty source list',
    },
}
