#!/bin/bash
# usage: tools/verify_seeded.sh <ID> <x>    (scratch tool) confirms a seeded change from /tmp/mut/<ID>/out/<x>.* and installs it
# into /verif/seeded/<ID>-<x>/ : clean tree => demo passes; patched tree => builds, full suite passes, demo fails.
ID=$1; X=$2
SRC=/tmp/mut/$ID/out
WT=/tmp/seedchk/$ID$X
export GOFLAGS=-mod=mod GOPROXY=off GOSUMDB=off GOTOOLCHAIN=local
mkdir -p /tmp/seedchk; rm -rf $WT; git -C /repo worktree prune
git -C /repo worktree add -q --detach $WT HEAD || exit 2
demo() {
  if [ -f $SRC/$X.demo/run.sh ]; then (cd $SRC/$X.demo && timeout 900 bash ./run.sh $WT) ;
  elif [ -f $SRC/$X.demo/demo.sh ]; then (cd $SRC/$X.demo && timeout 900 bash ./demo.sh $WT) ;
  else D=$(mktemp -d); cp -r $SRC/$X.demo/. $D/; (cd $D && go mod edit -replace github.com/magefile/mage=$WT && cp $WT/go.sum . 2>/dev/null; timeout 900 go test -vet=off -count=1 ./...); rc=$?; rm -rf $D; return $rc; fi
}
demo > /tmp/seedchk/$ID$X.clean.log 2>&1; CLEAN=$?
git -C $WT apply $SRC/$X.patch.diff; APPLY=$?
(cd $WT && go build ./... ) > /tmp/seedchk/$ID$X.build.log 2>&1; BUILD=$?
/verif/tools/baseline.sh $WT > /tmp/seedchk/$ID$X.tests.log 2>&1; TESTS=$?
demo > /tmp/seedchk/$ID$X.patched.log 2>&1; PATCHED=$?
git -C /repo worktree remove --force $WT
OK=no; [ $CLEAN = 0 ] && [ $APPLY = 0 ] && [ $BUILD = 0 ] && [ $TESTS = 0 ] && [ $PATCHED != 0 ] && OK=yes
echo "$ID $X clean_demo=$CLEAN apply=$APPLY build=$BUILD tests=$TESTS patched_demo=$PATCHED confirmed=$OK $(tail -1 /tmp/seedchk/$ID$X.tests.log | head -c 80)"
if [ $OK = yes ]; then
  D=/verif/seeded/$ID-$X; rm -rf $D; mkdir -p $D
  cp $SRC/$X.patch.diff $D/patch.diff; cp -r $SRC/$X.demo $D/demo; cp $SRC/$X.meta.txt $D/description.txt
  python3 - "$ID" "$X" "$D" <<'PY'
import json,sys
id,x,d=sys.argv[1:4]
desc=open(d+'/description.txt').read()
json.dump({'property':id,'variant':x,'breaks':id,'needs_to_manifest':desc,'confirmed_by':'tools/verify_seeded.sh in a scratch worktree of /repo HEAD: demo passes on the clean tree; with patch.diff applied go build ./... succeeds, the 162-test baseline passes (tools/baseline.sh) and the demo fails',
 'commands':['git -C <worktree> apply patch.diff','go build ./...','tools/baseline.sh <worktree>','sh demo/run.sh|demo.sh <worktree> (or go test in demo/ with replace => <worktree>)'],'detected_by':None}, open(d+'/meta.json','w'), indent=1)
PY
fi
