TEXT = {
 'C17': {
  'text': 'Lean theorems (Props/C17.lean) give the complete decision table of PathNewer/DirNewer/GlobNewer (true / false / error-at-index iff ...), order independence when all sources exist (any permutation of the sources and of the walk order), strictness at equal and +1ns times, the missing-destination shortcut, Dir\'s directory-destination rule via NewestModTime = maximum, and OldestModTime = minimum, for all source lists, trees and time stamps (unbounded). The model is tied to target/*.go by bridge theorems over the regenerated function shapes and by differential runs of the eight real functions on random real file trees with read-back mtimes against the Lean oracle.',
  'design_ref': 'DESIGN.md 4.F C17',
  'note': 'Trusted: Lean kernel; os.Stat/Lstat/Chtimes/filepath.Walk/Glob of the host (their observed answers are the model\'s input); the harness\' own tree traversal. Modelled, not verified: that target/*.go refines Target/Newer.lean (bridge = shape equality + differential testing). Symlinks, unreadable directories and "$" in file names are outside the quantifier.',
  'technique': 'Lean 4 proof over an executable model + regenerated-shape bridge + differential correspondence',
 },
}
NOT_YET = {}
