TEXT = {
 'C15': {
  'text': 'Lean theorems (Props/C15.lean): error is nil iff the command exited 0; for every exit code k != 0 Exec reports ran=true and mg.ExitStatus = sh.ExitStatus = k; not started => ran=false and status 1; CmdRan/ExitStatus on the raw os/exec error agree with Exec; Output removes exactly one trailing newline; for every key, every env map, every inherited environment and every map iteration order the $KEY expansion equals what the child finds in its environment (map wins, inherited passes through, empty values included); stdout gating table. Tied to sh/cmd.go and mg/errors.go by shape bridges and by differential runs of all seven functions against a reporting child (argv, environment, stdin digest, both output streams) compared with the Lean oracle, exit codes swept over 0..255.',
  'design_ref': 'DESIGN.md 4.F C15',
  'note': 'Trusted: Lean kernel; os/exec and os.Expand (the latter transcribed and diffed); harness/child. Modelled, not verified: refinement of sh/cmd.go to Sh/Exec.lean (shape equality + differential testing). Not modelled: death by signal, writer I/O errors, duplicate keys in the inherited environment.',
  'technique': 'Lean 4 proof over an executable model + regenerated-shape bridge + differential correspondence',
 },
 'C16': {
  'text': 'Heap model of Go slices (backing arrays, in-place append iff capacity allows). Lean theorems (Props/C16.lean) for the current source configuration: one closure call gives the child exactly map(expand env)(baked ++ extra) and changes no cell of any array that existed before (captured slice, caller slices, spare capacity); by induction every call of every history behaves so with the environment of that call; direct calls leave the caller\'s slice unchanged; closure call = direct call. The pinned (pre-fix) configuration is refuted by decide witnesses. The configuration is regenerated from sh/cmd.go (closures copy before append; Exec/run never assign through args[..]/env[..]) and bridged by decide; differential histories, direct calls and concurrent calls against the real closures.',
  'design_ref': 'DESIGN.md 4.F C16',
  'note': 'Trusted: Lean kernel; the append rule of the model; extractor facts. Partial: concurrent calls are covered by the no-write/ownership argument only informally (every call writes only arrays it allocated) and by sampled concurrent runs; Go memory-model effects beyond sequential consistency are not modelled.',
  'technique': 'Lean 4 proof over a heap model + regenerated facts bridged by decide + differential histories',
 },
 'C17': {
  'text': 'Lean theorems (Props/C17.lean) give the complete decision table of PathNewer/DirNewer/GlobNewer (true / false / error-at-index iff ...), order independence when all sources exist (any permutation of the sources and of the walk order), strictness at equal and +1ns times, the missing-destination shortcut, Dir\'s directory-destination rule via NewestModTime = maximum, and OldestModTime = minimum, for all source lists, trees and time stamps (unbounded). The model is tied to target/*.go by bridge theorems over the regenerated function shapes and by differential runs of the eight real functions on random real file trees with read-back mtimes against the Lean oracle.',
  'design_ref': 'DESIGN.md 4.F C17',
  'note': 'Trusted: Lean kernel; os.Stat/Lstat/Chtimes/filepath.Walk/Glob of the host (their observed answers are the model\'s input); the harness\' own tree traversal. Modelled, not verified: that target/*.go refines Target/Newer.lean (bridge = shape equality + differential testing). Symlinks, unreadable directories and "$" in file names are outside the quantifier.',
  'technique': 'Lean 4 proof over an executable model + regenerated-shape bridge + differential correspondence',
 },
}
NOT_YET = {}
