#!/bin/bash
# usage: tools/try_mutant.sh <patch.diff> <property-id> [tier]   -- applies a seeded change to /repo, runs the check, reverts
set -u
P=$1; ID=$2; TIER=${3:-quick}
cd /repo || exit 2
if ! git diff --quiet; then echo "/repo has uncommitted changes"; exit 2; fi
git apply "$P" || { echo "patch does not apply"; exit 2; }
# the evidence file of record is the one written on the unchanged tree: keep it
cp /verif/evidence/$ID.json /tmp/evidence.$ID.$$ 2>/dev/null
(cd /verif && ./check "$ID" --tier "$TIER"); rc=$?
[ -f /tmp/evidence.$ID.$$ ] && mv /tmp/evidence.$ID.$$ /verif/evidence/$ID.json
git -C /repo checkout -- . ; git -C /repo clean -fdq
echo "check exit=$rc"
exit $rc
