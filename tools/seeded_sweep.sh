#!/bin/bash
# usage: tools/seeded_sweep.sh [tier] [id-glob ...]
# Runs every seeded change under seeded/<ID>-<x>/ against the check of the property it breaks, on a scratch worktree of
# /repo (VERIF_REPO), never on /repo itself.  Meant to be started with `vp run` (own snapshot of /verif, own lean build).
# Prints one line per change and writes seeded_results.jsonl in the current directory.
set -u
TIER=${1:-quick}; shift || true
PAT="${*:-*}"
V=$(cd "$(dirname "$0")/.." && pwd)
cd "$V" || exit 2
export GOFLAGS=-mod=mod GOPROXY=off GOSUMDB=off GOTOOLCHAIN=local
SCR=${TMPDIR:-/tmp}/seedsweep.$$
mkdir -p "$SCR"
trap 'git -C /repo worktree prune; rm -rf "$SCR"' EXIT
: > seeded_results.jsonl
if [ ! -x lean/.lake/build/bin/oracle ]; then ./check --setup > "$SCR/setup.log" 2>&1 || { tail -30 "$SCR/setup.log"; echo "setup failed"; exit 2; }; fi
for d in seeded/*/; do
  name=$(basename "$d"); id=${name%-*}
  ok=0; set -f; for p in $PAT; do case "$name" in $p) ok=1;; esac; done; set +f; [ $ok = 1 ] || continue
  grep -q "'$id'" tools/props.py || { echo "$name: property not claimed, skipped"; continue; }
  grep -q '"superseded"' "$d/meta.json" 2>/dev/null && { echo "$name: superseded by a later fix in /repo (see meta.json), skipped"; continue; }
  WT="$SCR/wt-$name"
  git -C /repo worktree add -q --detach "$WT" HEAD || { echo "$name: worktree failed"; continue; }
  if ! git -C "$WT" apply "$V/$d/patch.diff"; then echo "$name: patch does not apply"; git -C /repo worktree remove --force "$WT"; continue; fi
  t0=$(date +%s)
  out=$(VERIF_REPO="$WT" ./check "$id" --tier "$TIER" 2>&1); rc=$?
  t1=$(date +%s)
  viol=$(echo "$out" | grep -m1 '^VIOLATION' || true)
  rep=$(echo "$viol" | sed -n 's/.*replay=\([^ ]*\).*/\1/p')
  kind=""; [ -n "$rep" ] && [ -f "$rep" ] && kind=$(python3 -c "import json,sys; r=json.load(open('$rep')); print(r.get('kind'), '|', ','.join(sorted({p['what'] for p in r.get('broken_obligations') or []})), '|', r.get('stream'))")
  echo "$name rc=$rc $((t1-t0))s $viol [$kind]"
  python3 - "$name" "$rc" "$viol" "$kind" "$TIER" >> seeded_results.jsonl <<'PY'
import json,sys
print(json.dumps({'seeded':sys.argv[1],'rc':int(sys.argv[2]),'violation':sys.argv[3],'kind':sys.argv[4],'tier':sys.argv[5]}))
PY
  git -C /repo worktree remove --force "$WT"
done
# leave Generated/ pointing at /repo again
./check --setup > /dev/null 2>&1
