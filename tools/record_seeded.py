#!/usr/bin/env python3
"""usage: tools/record_seeded.py <results.jsonl> ...   — writes detected_by into seeded/<name>/meta.json from sweep results
(the last result for a change wins)."""
import json, sys, os
V = os.path.dirname(os.path.dirname(os.path.abspath(__file__)))
res = {}
for f in sys.argv[1:]:
    for l in open(f):
        try: r = json.loads(l)
        except ValueError: continue
        res[r['seeded']] = r
for name, r in sorted(res.items()):
    p = os.path.join(V, 'seeded', name, 'meta.json')
    if not os.path.exists(p): continue
    m = json.load(open(p))
    pid = name.split('-')[0]
    if r['rc'] == 0:
        m['detected_by'] = None
        m['detection'] = f"NOT detected by ./check {pid} --tier {r['tier']}"
    else:
        concrete = 'no-failing-input-found' not in r['violation']
        stream = r['kind'].split('|')[-1].strip() if r.get('kind') else ''
        m['detected_by'] = f"./check {pid} --tier {r['tier']}"
        m['detection'] = ('concrete failing input (stream ' + stream + ')') if concrete else 'bridge theorem broken, no failing input found (VIOLATION ... no-failing-input-found)'
    m['sweep'] = os.path.basename(f)
    json.dump(m, open(p, 'w'), indent=1)
    print(name, m['detection'])
