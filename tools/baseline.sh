#!/bin/bash
# Runs the repository's pinned test suite (guard OFF) and compares with /root/.vp/BASELINE.json's stable_pass list.
# usage: tools/baseline.sh [repo-dir]   -> prints "baseline: passed=N missing=M failed=K", exit 0 iff all stable tests pass
REPO=${1:-/repo}
export GOFLAGS=-mod=mod GOPROXY=off GOSUMDB=off GOTOOLCHAIN=local
OUT=$(mktemp)
(cd "$REPO" && go test -mod=mod -json -vet=off -count=1 -timeout 25m ./... > "$OUT" 2>/dev/null)
python3 - "$OUT" <<'PY'
import json,sys
base=json.load(open('/root/.vp/BASELINE.json'))['stable_pass']
res={}
for l in open(sys.argv[1]):
    try: e=json.loads(l)
    except Exception: continue
    if e.get('Test') and e.get('Action') in('pass','fail','skip'):
        res[e['Package']+'::'+e['Test']]=e['Action']
missing=[t for t in base if res.get(t)!='pass']
failed=[t for t,a in res.items() if a=='fail']
print(f"baseline: passed={sum(1 for t in base if res.get(t)=='pass')} of {len(base)} missing={len(missing)} failed={len(failed)}")
for t in missing: print("  NOT-PASSING", t, res.get(t))
sys.exit(1 if missing else 0)
PY
rc=$?
rm -f "$OUT"
exit $rc
