//go:build linux

// Command crashmage is mage's own entry point in a process that the kernel terminates at its first write to a regular
// file: the soft RLIMIT_FSIZE is 0 and SIGXFSZ is put back to SIG_DFL (the Go runtime would otherwise turn it into an
// EFBIG write error).  A deterministic "killed between os.Create of the generated main file and its first write".
// The go tool must be run through a wrapper that lifts the soft limit again (-gocmd gowrap.sh with VT_GOLIFT=1).
package main

import (
	"os"
	"syscall"
	"unsafe"

	"github.com/magefile/mage/mage"
)

// struct sigaction as the Linux kernel expects it
type ksigaction struct {
	handler  uintptr
	flags    uint64
	restorer uintptr
	mask     uint64
}

func main() {
	syscall.Setrlimit(syscall.RLIMIT_CORE, &syscall.Rlimit{Cur: 0, Max: 0})
	var lim syscall.Rlimit
	if err := syscall.Getrlimit(syscall.RLIMIT_FSIZE, &lim); err != nil {
		os.Exit(97)
	}
	lim.Cur = 0
	if err := syscall.Setrlimit(syscall.RLIMIT_FSIZE, &lim); err != nil {
		os.Exit(97)
	}
	act := ksigaction{handler: 0 /* SIG_DFL */}
	if _, _, e := syscall.RawSyscall6(syscall.SYS_RT_SIGACTION, uintptr(syscall.SIGXFSZ), uintptr(unsafe.Pointer(&act)), 0, 8, 0, 0); e != 0 {
		os.Exit(98)
	}
	os.Exit(mage.Main())
}
