package main

import (
	"go/ast"
	"go/token"
)

// Facts about mage.Invoke / listGoFiles that the invocation model's Cfg records (Invoke/Steps.lean).

func containsCall(n ast.Node, name string) bool {
	found := false
	ast.Inspect(n, func(x ast.Node) bool {
		if ce, ok := x.(*ast.CallExpr); ok && callName(ce) == name {
			found = true
		}
		return !found
	})
	return found
}

// a `defer os.RemoveAll(main)` directly or inside an if-block of the statement
func containsDeferRemove(s ast.Stmt) bool {
	found := false
	ast.Inspect(s, func(x ast.Node) bool {
		if d, ok := x.(*ast.DeferStmt); ok && callName(d.Call) == "os.RemoveAll" {
			found = true
		}
		return !found
	})
	return found
}

// invokeFacts: (deferBeforeGenerate, explicitRemove)
func invokeFacts() (deferBefore, explicitRemove, ok bool) {
	fd := findFunc("mage", "Invoke")
	if fd == nil || fd.Body == nil {
		return false, false, false
	}
	gen, comp, run, def := -1, -1, -1, -1
	removeAfterCompile := -1
	for i, s := range fd.Body.List {
		if _, isDefer := s.(*ast.DeferStmt); !isDefer && containsCall(s, "GenerateMainfile") && gen < 0 {
			gen = i
		}
		if containsCall(s, "Compile") && comp < 0 {
			comp = i
		}
		if containsDeferRemove(s) && def < 0 {
			def = i
		}
		if rs, isRet := s.(*ast.ReturnStmt); isRet && containsCall(rs, "RunCompiled") {
			run = i
		}
		if ifs, isIf := s.(*ast.IfStmt); isIf && comp >= 0 && i > comp && removeAfterCompile < 0 {
			// `if !inv.Keep { os.RemoveAll(main) } …` : a non-deferred removal in the then-branch
			for _, b := range ifs.Body.List {
				if es, isExpr := b.(*ast.ExprStmt); isExpr && callName(es.X) == "os.RemoveAll" {
					removeAfterCompile = i
				}
			}
		}
	}
	if gen < 0 || comp < 0 || run < 0 {
		return false, false, false
	}
	return def >= 0 && def < gen, removeAfterCompile > comp && removeAfterCompile < run, true
}

// listGoFiles hides the generated main file from go/build: bctx.ReadDir = func… { … fi.Name() != mainfile … }
func listSkipsMain() (bool, bool) {
	fd := findFunc("mage", "listGoFiles")
	if fd == nil || fd.Body == nil {
		return false, false
	}
	skips := false
	ast.Inspect(fd.Body, func(x ast.Node) bool {
		as, ok := x.(*ast.AssignStmt)
		if !ok || len(as.Lhs) != 1 || len(as.Rhs) != 1 {
			return true
		}
		sel, ok := as.Lhs[0].(*ast.SelectorExpr)
		if !ok || sel.Sel.Name != "ReadDir" {
			return true
		}
		fl, ok := as.Rhs[0].(*ast.FuncLit)
		if !ok {
			return true
		}
		ast.Inspect(fl.Body, func(y ast.Node) bool {
			be, ok := y.(*ast.BinaryExpr)
			if !ok || be.Op != token.NEQ {
				return true
			}
			l, r := be.X, be.Y
			isMain := func(e ast.Expr) bool { id, ok := e.(*ast.Ident); return ok && id.Name == "mainfile" }
			isName := func(e ast.Expr) bool { return len(callName(e)) > 5 && callName(e)[len(callName(e))-5:] == ".Name" }
			if (isMain(l) && isName(r)) || (isMain(r) && isName(l)) {
				skips = true
			}
			return true
		})
		return true
	})
	return skips, true
}

func emitInvokeFacts(o *out) {
	d, e, ok := invokeFacts()
	o.f("/-- Invoke registers `defer os.RemoveAll(main)` before it calls GenerateMainfile -/\ndef invoke_deferBeforeGenerate : Option Bool := %s\n", boolFact(d, ok))
	o.f("/-- Invoke removes the generated main after a successful Compile, before RunCompiled -/\ndef invoke_explicitRemove : Option Bool := %s\n", boolFact(e, ok))
	s, ok2 := listSkipsMain()
	o.f("/-- listGoFiles hides mage_output_file.go from go/build's directory listing -/\ndef listGoFiles_skipsMain : Option Bool := %s\n\n", boolFact(s, ok2))
}
