package main

// The generated-main template as a Lean term: mageMainfileTplString is parsed with text/template/parse (which applies
// the {{- -}} trimming) and every node is emitted as a constructor of MageModel.Gen.Tpl.Node.  Together with the string
// literals of parse.Function.ExecCode this regenerates the *whole* text-producing part of GenerateMainfile on every run.

import (
	"fmt"
	"go/ast"
	"go/token"
	"strconv"
	"strings"
	"text/template/parse"
)

type tplEmitter struct {
	texts []string
	err   string
}

func (e *tplEmitter) text(s string) string {
	e.texts = append(e.texts, s)
	return fmt.Sprintf("t%d", len(e.texts)-1)
}

func (e *tplEmitter) expr(n parse.Node) string {
	switch x := n.(type) {
	case *parse.DotNode:
		return ".dot"
	case *parse.FieldNode:
		s := ".dot"
		for _, id := range x.Ident {
			s = fmt.Sprintf("(.field %s %s)", s, leanStr(id))
		}
		return s
	case *parse.VariableNode:
		s := fmt.Sprintf("(.var %s)", leanStr(x.Ident[0]))
		for _, id := range x.Ident[1:] {
			s = fmt.Sprintf("(.field %s %s)", s, leanStr(id))
		}
		return s
	case *parse.StringNode:
		return fmt.Sprintf("(.lit %s)", leanStr(x.Text))
	case *parse.PipeNode:
		return e.pipe(x)
	case *parse.CommandNode:
		return e.cmd(x)
	}
	e.err = fmt.Sprintf("unsupported expression node %T (%s)", n, n)
	return ".dot"
}

func (e *tplEmitter) cmd(c *parse.CommandNode) string {
	if len(c.Args) == 0 {
		e.err = "empty command"
		return ".dot"
	}
	if id, ok := c.Args[0].(*parse.IdentifierNode); ok {
		var args []string
		for _, a := range c.Args[1:] {
			args = append(args, e.expr(a))
		}
		return fmt.Sprintf("(.call %s [%s])", leanStr(id.Ident), strings.Join(args, ", "))
	}
	if len(c.Args) != 1 {
		e.err = "command with arguments that is not a function call: " + c.String()
	}
	return e.expr(c.Args[0])
}

func (e *tplEmitter) pipe(p *parse.PipeNode) string {
	if len(p.Cmds) != 1 {
		e.err = "multi-command pipeline: " + p.String()
		return ".dot"
	}
	return e.cmd(p.Cmds[0])
}

func (e *tplEmitter) list(l *parse.ListNode) string {
	if l == nil {
		return "[]"
	}
	var items []string
	for _, n := range l.Nodes {
		items = append(items, e.node(n))
	}
	return "[" + strings.Join(items, ",\n  ") + "]"
}

func (e *tplEmitter) node(n parse.Node) string {
	switch x := n.(type) {
	case *parse.TextNode:
		return fmt.Sprintf(".text %s", e.text(string(x.Text)))
	case *parse.ActionNode:
		if len(x.Pipe.Decl) == 1 {
			return fmt.Sprintf(".assign %s %s", leanStr(x.Pipe.Decl[0].Ident[0]), e.pipe(x.Pipe))
		}
		if len(x.Pipe.Decl) > 1 {
			e.err = "multi-variable declaration outside range"
		}
		return fmt.Sprintf(".action %s", e.pipe(x.Pipe))
	case *parse.IfNode:
		return fmt.Sprintf(".ifElse %s %s %s", e.pipe(x.Pipe), e.list(x.List), e.list(x.ElseList))
	case *parse.WithNode:
		return fmt.Sprintf(".withDo %s %s %s", e.pipe(x.Pipe), e.list(x.List), e.list(x.ElseList))
	case *parse.RangeNode:
		k, v := `""`, `""`
		switch len(x.Pipe.Decl) {
		case 1:
			v = leanStr(x.Pipe.Decl[0].Ident[0])
		case 2:
			k, v = leanStr(x.Pipe.Decl[0].Ident[0]), leanStr(x.Pipe.Decl[1].Ident[0])
		}
		return fmt.Sprintf(".range %s %s %s %s %s", k, v, e.pipe(x.Pipe), e.list(x.List), e.list(x.ElseList))
	}
	e.err = fmt.Sprintf("unsupported node %T", n)
	return `.text ""`
}

// execCodeLits: the string literals of parse.Function.ExecCode in source order
func execCodeLits() ([]string, bool) {
	fd := findFunc("parse", "Function.ExecCode")
	if fd == nil || fd.Body == nil {
		return nil, false
	}
	var lits []string
	ok := true
	ast.Inspect(fd.Body, func(n ast.Node) bool {
		if bl, isLit := n.(*ast.BasicLit); isLit && bl.Kind == token.STRING {
			s, err := strconv.Unquote(bl.Value)
			if err != nil {
				ok = false
			}
			lits = append(lits, s)
		}
		return true
	})
	return lits, ok
}

func emitTemplateAst(o *out) {
	o.f("import MageModel.Gen.Tpl\n%snamespace MageModel.Generated.TemplateAst\nopen MageModel.Gen.Tpl\n\n", header)
	tpl, ok := findConst("mage", "mageMainfileTplString")
	e := &tplEmitter{}
	body := "[]"
	if ok {
		funcs := map[string]interface{}{"lower": strings.ToLower, "lowerFirst": strings.ToLower}
		trees, err := parse.Parse("main", tpl, "", "", funcs, map[string]interface{}{"printf": fmt.Sprintf, "len": 0, "and": 0, "eq": 0, "ne": 0})
		if err != nil {
			e.err = "template does not parse: " + err.Error()
		} else {
			body = e.list(trees["main"].Root)
		}
	} else {
		e.err = "template constant not found"
	}
	for i, t := range e.texts {
		o.f("def t%d : String := %s\n", i, leanStr(t))
	}
	o.f("\n/-- `some` when every node of the template is of a kind the Lean interpreter knows -/\ndef translatable : Bool := %v\n", e.err == "")
	if e.err != "" {
		o.f("-- %s\n", strings.ReplaceAll(e.err, "\n", " "))
		body = "[]"
	}
	o.f("\ndef nodes : List Node :=\n  %s\n\n", body)
	lits, lok := execCodeLits()
	o.f("/-- the string literals of parse.Function.ExecCode, in source order -/\ndef execCodeLits : List String := [")
	if lok {
		for i, l := range lits {
			if i > 0 {
				o.f(", ")
			}
			o.f("%s", leanStr(l))
		}
	}
	o.f("]\n\nend MageModel.Generated.TemplateAst\n")
}
