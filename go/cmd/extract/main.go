// Command extract reads /repo's working tree with go/ast and rewrites lean/MageModel/Generated/*.lean:
//   * Shapes.lean   — for every function the models transcribe: its body, comment-free, gofmt-normalised,
//                     local identifiers alpha-renamed, debug logging stripped ("shape");
//   * Lits.lean     — literal translations of the small pure integer functions (changeExit, …) into Lean defs;
//   * Facts.lean    — individual facts (constants, operators, tables) the theorems depend on;
//   * Template.lean — the generated-main template text and tables derived from it.
// It fails closed: a pattern that is not recognised is emitted as "?"/none, which makes the bridge theorem fail.
package main

import (
	"bytes"
	"flag"
	"fmt"
	"go/ast"
	"go/parser"
	"go/printer"
	"go/token"
	"os"
	"path/filepath"
	"regexp"
	"sort"
	"strconv"
	"strings"
)

var fset = token.NewFileSet()
var repo string

type pkg struct {
	files map[string]*ast.File
}

var pkgs = map[string]*pkg{}

func load(dir string) *pkg {
	if p, ok := pkgs[dir]; ok {
		return p
	}
	p := &pkg{files: map[string]*ast.File{}}
	ents, err := os.ReadDir(filepath.Join(repo, dir))
	if err != nil {
		panic(err)
	}
	for _, e := range ents {
		n := e.Name()
		if !strings.HasSuffix(n, ".go") || strings.HasSuffix(n, "_test.go") {
			continue
		}
		f, err := parser.ParseFile(fset, filepath.Join(repo, dir, n), nil, 0)
		if err != nil {
			fmt.Fprintln(os.Stderr, "extract: parse error (emitting ? facts):", err)
			continue
		}
		p.files[n] = f
	}
	pkgs[dir] = p
	return p
}

// findFunc finds "Name" or "Recv.Name" in package dir.
func findFunc(dir, name string) *ast.FuncDecl {
	recv := ""
	if i := strings.Index(name, "."); i >= 0 {
		recv, name = name[:i], name[i+1:]
	}
	for _, f := range load(dir).files {
		for _, d := range f.Decls {
			fd, ok := d.(*ast.FuncDecl)
			if !ok || fd.Name.Name != name {
				continue
			}
			r := ""
			if fd.Recv != nil && len(fd.Recv.List) == 1 {
				t := fd.Recv.List[0].Type
				if s, ok := t.(*ast.StarExpr); ok {
					t = s.X
				}
				if id, ok := t.(*ast.Ident); ok {
					r = id.Name
				}
			}
			if r == recv {
				return fd
			}
		}
	}
	return nil
}

func findVarValue(dir, name string) ast.Expr {
	for _, f := range load(dir).files {
		for _, d := range f.Decls {
			gd, ok := d.(*ast.GenDecl)
			if !ok {
				continue
			}
			for _, s := range gd.Specs {
				vs, ok := s.(*ast.ValueSpec)
				if !ok {
					continue
				}
				for i, n := range vs.Names {
					if n.Name == name && i < len(vs.Values) {
						return vs.Values[i]
					}
				}
			}
		}
	}
	return nil
}

func isDebugCall(s ast.Stmt) bool {
	es, ok := s.(*ast.ExprStmt)
	if !ok {
		return false
	}
	ce, ok := es.X.(*ast.CallExpr)
	if !ok {
		return false
	}
	se, ok := ce.Fun.(*ast.SelectorExpr)
	if !ok {
		return false
	}
	id, ok := se.X.(*ast.Ident)
	return ok && id.Name == "debug"
}

func stripDebug(n ast.Node) {
	ast.Inspect(n, func(x ast.Node) bool {
		if b, ok := x.(*ast.BlockStmt); ok {
			out := b.List[:0:0]
			for _, s := range b.List {
				if !isDebugCall(s) {
					out = append(out, s)
				}
			}
			b.List = out
		}
		if c, ok := x.(*ast.CaseClause); ok {
			out := c.Body[:0:0]
			for _, s := range c.Body {
				if !isDebugCall(s) {
					out = append(out, s)
				}
			}
			c.Body = out
		}
		return true
	})
}

var wsRx = regexp.MustCompile(`\s+`)

// shape of a function: printed signature+body after alpha-renaming locals and stripping debug logging.
func shape(dir, name string) string {
	fd := findFunc(dir, name)
	if fd == nil || fd.Body == nil {
		return "?"
	}
	// re-parse a private copy so renaming does not disturb other extractions
	var buf bytes.Buffer
	printer.Fprint(&buf, fset, fd)
	src := "package p\n" + buf.String()
	fs2 := token.NewFileSet()
	f, err := parser.ParseFile(fs2, "x.go", src, 0)
	if err != nil {
		return "?"
	}
	fd2 := f.Decls[0].(*ast.FuncDecl)
	stripDebug(fd2)
	names := map[*ast.Object]string{}
	skip := map[*ast.Object]bool{}
	ast.Inspect(fd2, func(x ast.Node) bool {
		id, ok := x.(*ast.Ident)
		if !ok || id.Obj == nil || id.Name == "_" {
			return true
		}
		if skip[id.Obj] {
			return true
		}
		if _, done := names[id.Obj]; !done {
			// Obj.Pos() looks the declaring identifier up by name, so decide before renaming
			if id.Obj.Kind != ast.Var || id.Obj.Pos() < fd2.Pos() || id.Obj.Pos() > fd2.End() {
				skip[id.Obj] = true
				return true
			}
			names[id.Obj] = fmt.Sprintf("v%d", len(names))
		}
		id.Name = names[id.Obj]
		return true
	})
	fd2.Doc = nil
	buf.Reset()
	printer.Fprint(&buf, fs2, fd2)
	return strings.TrimSpace(wsRx.ReplaceAllString(buf.String(), " "))
}

func leanStr(s string) string {
	var b strings.Builder
	b.WriteByte('"')
	for _, r := range s {
		switch {
		case r == '"':
			b.WriteString(`\"`)
		case r == '\\':
			b.WriteString(`\\`)
		case r == '\n':
			b.WriteString(`\n`)
		case r == '\t':
			b.WriteString(`\t`)
		case r == '\r':
			b.WriteString(`\r`)
		case r < 0x20 || r == 0x7f:
			b.WriteString(fmt.Sprintf(`\x%02x`, r))
		default:
			b.WriteRune(r)
		}
	}
	b.WriteByte('"')
	return b.String()
}

func leanName(s string) string {
	return strings.NewReplacer("/", "_", ".", "_", "-", "_").Replace(s)
}

// ---------- literal translation of pure integer if/return chains ----------

// transInt translates a func(a, b int) int whose body is a chain of `if cond { return e }` + final return,
// with conds/exprs over int params, literals, ==, !=, <, >, &&, ||. Returns Lean source or "" if unsupported.
func transIntFunc(dir, name, leanDef string) string {
	fd := findFunc(dir, name)
	if fd == nil || fd.Body == nil {
		return ""
	}
	var params []string
	for _, f := range fd.Type.Params.List {
		id, ok := f.Type.(*ast.Ident)
		if !ok || id.Name != "int" {
			return ""
		}
		for _, n := range f.Names {
			params = append(params, n.Name)
		}
	}
	if fd.Type.Results == nil || len(fd.Type.Results.List) != 1 {
		return ""
	}
	body, ok := transIntStmts(fd.Body.List)
	if !ok {
		return ""
	}
	ps := ""
	for _, p := range params {
		ps += fmt.Sprintf(" (%s : Int)", safeId(p))
	}
	return fmt.Sprintf("def %s%s : Int :=\n  %s\n", leanDef, ps, body)
}

func safeId(s string) string {
	switch s {
	case "new", "old", "end", "from", "at", "open", "in", "then", "else", "if", "do", "fun", "let", "have", "show", "by", "with", "match":
		return s + "'"
	}
	return s
}

func transIntStmts(list []ast.Stmt) (string, bool) {
	if len(list) == 0 {
		return "", false
	}
	switch s := list[0].(type) {
	case *ast.ReturnStmt:
		if len(s.Results) != 1 {
			return "", false
		}
		return transIntExpr(s.Results[0])
	case *ast.IfStmt:
		if s.Init != nil {
			return "", false
		}
		c, ok := transBoolExpr(s.Cond)
		if !ok {
			return "", false
		}
		th, ok := transIntStmts(s.Body.List)
		if !ok {
			return "", false
		}
		var rest []ast.Stmt
		if s.Else != nil {
			switch e := s.Else.(type) {
			case *ast.BlockStmt:
				rest = e.List
			case *ast.IfStmt:
				rest = []ast.Stmt{e}
			}
			if len(list) > 1 {
				return "", false
			}
		} else {
			rest = list[1:]
		}
		el, ok := transIntStmts(rest)
		if !ok {
			return "", false
		}
		return fmt.Sprintf("if %s then %s else\n  %s", c, th, el), true
	}
	return "", false
}

func transIntExpr(e ast.Expr) (string, bool) {
	switch x := e.(type) {
	case *ast.Ident:
		return safeId(x.Name), true
	case *ast.BasicLit:
		if x.Kind == token.INT {
			return x.Value, true
		}
	case *ast.ParenExpr:
		s, ok := transIntExpr(x.X)
		return "(" + s + ")", ok
	case *ast.BinaryExpr:
		a, ok1 := transIntExpr(x.X)
		b, ok2 := transIntExpr(x.Y)
		if ok1 && ok2 && (x.Op == token.ADD || x.Op == token.SUB || x.Op == token.MUL) {
			return fmt.Sprintf("(%s %s %s)", a, x.Op, b), true
		}
	}
	return "", false
}

func transBoolExpr(e ast.Expr) (string, bool) {
	switch x := e.(type) {
	case *ast.ParenExpr:
		s, ok := transBoolExpr(x.X)
		return "(" + s + ")", ok
	case *ast.BinaryExpr:
		switch x.Op {
		case token.LAND, token.LOR:
			a, ok1 := transBoolExpr(x.X)
			b, ok2 := transBoolExpr(x.Y)
			op := "∧"
			if x.Op == token.LOR {
				op = "∨"
			}
			return fmt.Sprintf("(%s %s %s)", a, op, b), ok1 && ok2
		case token.EQL, token.NEQ, token.LSS, token.GTR, token.LEQ, token.GEQ:
			a, ok1 := transIntExpr(x.X)
			b, ok2 := transIntExpr(x.Y)
			op := map[token.Token]string{token.EQL: "=", token.NEQ: "≠", token.LSS: "<", token.GTR: ">", token.LEQ: "≤", token.GEQ: "≥"}[x.Op]
			return fmt.Sprintf("(%s %s %s)", a, op, b), ok1 && ok2
		}
	case *ast.UnaryExpr:
		if x.Op == token.NOT {
			s, ok := transBoolExpr(x.X)
			return "¬" + s, ok
		}
	}
	return "", false
}

// ---------- output ----------

type out struct {
	b strings.Builder
}

func (o *out) f(format string, a ...interface{}) { fmt.Fprintf(&o.b, format, a...) }

func writeIfChanged(path, content string) {
	old, err := os.ReadFile(path)
	if err == nil && string(old) == content {
		return
	}
	if err := os.WriteFile(path, []byte(content), 0o644); err != nil {
		panic(err)
	}
}

const header = "-- GENERATED by go/cmd/extract from /repo's working tree. DO NOT EDIT: rewritten on every check.\n"

// functions whose shapes are exported: package dir -> names
var shapeFuncs = map[string][]string{
	"mg":       {"onceMap.LoadOrStore", "SerialDeps", "SerialCtxDeps", "CtxDeps", "runDeps", "checkFns", "Deps", "changeExit", "funcName", "displayName", "onceFun.run", "F", "fn.Name", "fn.ID", "fn.Run", "checkF", "ExitStatus", "Fatal", "Fatalf", "fatalErr.ExitStatus", "fatalErr.Error", "Verbose", "Debug", "GoCmd", "HashFast", "IgnoreDefault", "CacheDir"},
	"sh":       {"RunCmd", "OutCmd", "Run", "RunV", "RunWith", "RunWithV", "Output", "OutputWith", "Exec", "run", "CmdRan", "ExitStatus"},
	"target":   {"Path", "Glob", "Dir", "DirNewer", "GlobNewer", "PathNewer", "OldestModTime", "NewestModTime"},
	"internal": {"RunDebug", "OutputDebug", "OutputDebugDir", "SplitEnv", "joinEnv", "EnvWithCurrentGOOS", "EnvWithGOOS"},
	"parse": {"Function.ID", "Function.TargetName", "Function.ExecCode", "PrimaryPackage", "checkDupes", "Package", "getNamedImports", "getImport", "getImportFrom", "setFuncs", "setNamespaces", "setImports", "getImportPath", "getImportPathFromCommentGroup", "isNamespace", "checkDupeTargets", "sanitizeSynopsis", "setDefault", "lit2string", "setAliases", "getFunction", "getPackage", "hasContextParam", "hasVoidReturn", "hasErrorReturn", "funcType", "toOneLine",
		"Functions.Less", "Imports.Less"},
	"mage": {"lowerFirstWord", "Invocation.UsesMagefiles", "ParseAndRun", "Parse", "Invoke", "listGoFiles", "Magefiles", "Compile", "GenerateMainfile", "ExeName", "hashFile", "generateInit", "RunCompiled", "filter", "removeContents", "Main"},
}

func main() {
	flag.StringVar(&repo, "repo", "/repo", "repository root")
	outDir := flag.String("out", "", "output directory (lean/MageModel/Generated)")
	printShapes := flag.Bool("print", false, "print shapes as Lean expectation source to stdout")
	flag.Parse()
	if *outDir == "" && !*printShapes {
		fmt.Fprintln(os.Stderr, "need -out")
		os.Exit(2)
	}

	// Shapes
	var sh out
	sh.f("%snamespace MageModel.Generated.Shapes\n\n", header)
	dirs := []string{}
	for d := range shapeFuncs {
		dirs = append(dirs, d)
	}
	sort.Strings(dirs)
	var exp out
	for _, d := range dirs {
		for _, n := range shapeFuncs[d] {
			s := shape(d, n)
			sh.f("def %s_%s : String := %s\n\n", d, leanName(n), leanStr(s))
			exp.f("def %s_%s : String := %s\n\n", d, leanName(n), leanStr(s))
		}
	}
	sh.f("end MageModel.Generated.Shapes\n")
	if *printShapes {
		fmt.Print(exp.b.String())
		tpl, _ := findConst("mage", "mageMainfileTplString")
		fmt.Printf("def tplString : String := %s\n\n", leanStr(tpl))
		return
	}
	os.MkdirAll(*outDir, 0o755)
	writeIfChanged(filepath.Join(*outDir, "Shapes.lean"), sh.b.String())

	// Literal translations
	var lt out
	lt.f("%snamespace MageModel.Generated.Lits\n\n", header)
	if s := transIntFunc("mg", "changeExit", "changeExit"); s != "" {
		lt.f("/-- literal translation of mg/deps.go:changeExit -/\n%s\n", s)
	} else {
		lt.f("-- changeExit: shape not translatable\ndef changeExit (old' : Int) (new' : Int) : Int := -1\n\n")
	}
	lt.f("end MageModel.Generated.Lits\n")
	writeIfChanged(filepath.Join(*outDir, "Lits.lean"), lt.b.String())

	// Facts
	var fa out
	fa.f("%snamespace MageModel.Generated.Facts\n\n", header)
	emitFacts(&fa)
	fa.f("end MageModel.Generated.Facts\n")
	writeIfChanged(filepath.Join(*outDir, "Facts.lean"), fa.b.String())

	// Template
	var tp out
	tp.f("%snamespace MageModel.Generated.Template\n\n", header)
	emitTemplate(&tp)
	tp.f("end MageModel.Generated.Template\n")
	writeIfChanged(filepath.Join(*outDir, "Template.lean"), tp.b.String())

	// Template AST (translator: template text -> Lean term)
	var ta out
	emitTemplateAst(&ta)
	writeIfChanged(filepath.Join(*outDir, "TemplateAst.lean"), ta.b.String())
}

// stringLit returns the value of a Go string literal / concatenation of literals, or ok=false.
func stringLit(e ast.Expr) (string, bool) {
	switch x := e.(type) {
	case *ast.BasicLit:
		if x.Kind == token.STRING {
			s, err := strconv.Unquote(x.Value)
			return s, err == nil
		}
	case *ast.BinaryExpr:
		if x.Op == token.ADD {
			a, ok1 := stringLit(x.X)
			b, ok2 := stringLit(x.Y)
			return a + b, ok1 && ok2
		}
	case *ast.ParenExpr:
		return stringLit(x.X)
	}
	return "", false
}

func findConst(dir, name string) (string, bool) {
	e := findVarValue(dir, name)
	if e == nil {
		return "", false
	}
	return stringLit(e)
}
