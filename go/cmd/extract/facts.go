package main

import (
	"go/ast"
	"go/token"
	"regexp"
	"sort"
	"strings"
)

func optInt(v string, ok bool) string {
	if !ok {
		return "none"
	}
	return "some (" + v + ")"
}

// the integer N in `len(comments.List) == N` inside getImportPathFromCommentGroup
func commentGroupLenConst() (string, bool) {
	fd := findFunc("parse", "getImportPathFromCommentGroup")
	if fd == nil {
		return "", false
	}
	res, found := "", false
	ast.Inspect(fd, func(n ast.Node) bool {
		be, ok := n.(*ast.BinaryExpr)
		if !ok || be.Op != token.EQL {
			return true
		}
		ce, ok := be.X.(*ast.CallExpr)
		if !ok {
			return true
		}
		if id, ok := ce.Fun.(*ast.Ident); !ok || id.Name != "len" || len(ce.Args) != 1 {
			return true
		}
		if se, ok := ce.Args[0].(*ast.SelectorExpr); !ok || se.Sel.Name != "List" {
			return true
		}
		if lit, ok := be.Y.(*ast.BasicLit); ok && lit.Kind == token.INT {
			if found {
				res = "" // ambiguous
			} else {
				res, found = lit.Value, true
			}
		}
		return true
	})
	return res, found && res != ""
}

func mapLitPairs(dir, name string) ([][2]string, bool) {
	e := findVarValue(dir, name)
	cl, ok := e.(*ast.CompositeLit)
	if !ok {
		return nil, false
	}
	var out [][2]string
	for _, el := range cl.Elts {
		kv, ok := el.(*ast.KeyValueExpr)
		if !ok {
			return nil, false
		}
		k, ok1 := exprText(kv.Key)
		v, ok2 := exprText(kv.Value)
		if !ok1 || !ok2 {
			return nil, false
		}
		out = append(out, [2]string{k, v})
	}
	sort.Slice(out, func(i, j int) bool { return out[i][0] < out[j][0] })
	return out, true
}

func exprText(e ast.Expr) (string, bool) {
	if s, ok := stringLit(e); ok {
		return s, true
	}
	if id, ok := e.(*ast.Ident); ok {
		return id.Name, true
	}
	return "", false
}

func emitFacts(o *out) {
	v, ok := commentGroupLenConst()
	o.f("/-- N in `len(comments.List) == N` of parse.getImportPathFromCommentGroup -/\ndef commentGroupLenConst : Option Int := %s\n\n", optInt(v, ok))
	for _, c := range [][2]string{{"parse", "importTag"}, {"mage", "magicRebuildKey"}, {"mage", "mainfile"}, {"mage", "initFile"}, {"mage", "MagefilesDirName"}} {
		s, ok := findConst(c[0], c[1])
		if !ok {
			s = "?"
		}
		o.f("def %s_%s : String := %s\n\n", c[0], c[1], leanStr(s))
	}
	for _, m := range [][2]string{{"parse", "argTypes"}, {"mg", "argTypes"}} {
		ps, ok := mapLitPairs(m[0], m[1])
		o.f("def %s_%s : List (String × String) := [", m[0], m[1])
		if !ok {
			o.f("(\"?\", \"?\")")
		}
		for i, p := range ps {
			if i > 0 {
				o.f(", ")
			}
			o.f("(%s, %s)", leanStr(p[0]), leanStr(p[1]))
		}
		o.f("]\n\n")
	}
	emitShFacts(o)
}

var impRx = regexp.MustCompile(`(?m)^\t(?:(\w+) )?"([^"{]+)"$`)
var exitRx = regexp.MustCompile(`\b(_?os)\.Exit\(([^)]*)\)`)

func emitTemplate(o *out) {
	tpl, ok := findConst("mage", "mageMainfileTplString")
	if !ok {
		tpl = "?"
	}
	o.f("/-- mage/template.go:mageMainfileTplString -/\ndef tplString : String := %s\n\n", leanStr(tpl))
	// import block
	i := strings.Index(tpl, "import (")
	j := -1
	if i >= 0 {
		j = strings.Index(tpl[i:], "\n)")
	}
	o.f("/-- (alias, path) of the fixed imports of the generated main; alias \"\" = imported under its own name -/\ndef imports : List (String × String) := [")
	if i >= 0 && j >= 0 {
		ms := impRx.FindAllStringSubmatch(tpl[i:i+j], -1)
		for k, m := range ms {
			if k > 0 {
				o.f(", ")
			}
			o.f("(%s, %s)", leanStr(m[1]), leanStr(m[2]))
		}
	} else {
		o.f("(\"?\", \"?\")")
	}
	o.f("]\n\n")
	o.f("/-- arguments of every os.Exit call in the template text, in order -/\ndef exitArgs : List String := [")
	for k, m := range exitRx.FindAllStringSubmatch(tpl, -1) {
		if k > 0 {
			o.f(", ")
		}
		o.f("%s", leanStr(m[2]))
	}
	o.f("]\n\n")
	hdr := tpl
	if k := strings.Index(tpl, "package main"); k >= 0 {
		hdr = tpl[:k]
	}
	o.f("/-- everything before `package main` (the build-constraint header) -/\ndef header : String := %s\n\n", leanStr(hdr))
}

// ---- sh facts (C16) ----

func isAppendCall(e ast.Expr) *ast.CallExpr {
	ce, ok := e.(*ast.CallExpr)
	if !ok {
		return nil
	}
	if id, ok := ce.Fun.(*ast.Ident); ok && id.Name == "append" && len(ce.Args) >= 1 {
		return ce
	}
	return nil
}

// closure copies the captured slice before appending: append(append(<fresh>, args...), args2...)
func closureCopies(fn string) string {
	fd := findFunc("sh", fn)
	if fd == nil {
		return "none"
	}
	params := map[string]bool{}
	for _, f := range fd.Type.Params.List {
		for _, n := range f.Names {
			params[n.Name] = true
		}
	}
	found, ok := false, true
	ast.Inspect(fd, func(n ast.Node) bool {
		ce := isAppendCall2(n)
		if ce == nil {
			return true
		}
		// any append whose first operand is a captured parameter writes into the caller's array
		if id, isId := ce.Args[0].(*ast.Ident); isId && params[id.Name] {
			ok = false
		}
		if inner := isAppendCall(ce.Args[0]); inner != nil {
			switch x := inner.Args[0].(type) {
			case *ast.CallExpr, *ast.CompositeLit:
				_ = x
				found = true
			}
		}
		return true
	})
	if found && ok {
		return "some true"
	}
	return "some false"
}

func isAppendCall2(n ast.Node) *ast.CallExpr {
	e, ok := n.(ast.Expr)
	if !ok {
		return nil
	}
	return isAppendCall(e)
}

// no statement of fn assigns through an index expression on one of its parameters named in names
func noIndexedWrite(fn string, names ...string) string {
	fd := findFunc("sh", fn)
	if fd == nil {
		return "none"
	}
	want := map[string]bool{}
	for _, n := range names {
		want[n] = true
	}
	// resolve by object: the parameter objects
	objs := map[*ast.Object]bool{}
	for _, f := range fd.Type.Params.List {
		for _, n := range f.Names {
			if want[n.Name] && n.Obj != nil {
				objs[n.Obj] = true
			}
		}
	}
	if len(objs) != len(names) {
		return "none"
	}
	clean := true
	ast.Inspect(fd, func(n ast.Node) bool {
		as, ok := n.(*ast.AssignStmt)
		if !ok {
			return true
		}
		for _, l := range as.Lhs {
			if ix, ok := l.(*ast.IndexExpr); ok {
				if id, ok := ix.X.(*ast.Ident); ok && objs[id.Obj] {
					clean = false
				}
			}
		}
		return true
	})
	if clean {
		return "some true"
	}
	return "some false"
}

func emitShFacts(o *out) {
	o.f("/-- RunCmd / OutCmd copy the captured slice before appending the call's arguments -/\n")
	o.f("def sh_RunCmd_copies : Option Bool := %s\n", closureCopies("RunCmd"))
	o.f("def sh_OutCmd_copies : Option Bool := %s\n\n", closureCopies("OutCmd"))
	o.f("/-- Exec / run never assign through args[...] or env[...] -/\n")
	o.f("def sh_Exec_noWrite : Option Bool := %s\n", noIndexedWrite("Exec", "args", "env"))
	o.f("def sh_run_noWrite : Option Bool := %s\n\n", noIndexedWrite("run", "args", "env"))
}
