package main

import (
	"go/ast"
	"go/token"
	"regexp"
	"sort"
	"strings"
)

func optInt(v string, ok bool) string {
	if !ok {
		return "none"
	}
	return "some (" + v + ")"
}

// the integer N in `len(comments.List) == N` inside getImportPathFromCommentGroup
func commentGroupLenConst() (string, bool) {
	fd := findFunc("parse", "getImportPathFromCommentGroup")
	if fd == nil {
		return "", false
	}
	res, found := "", false
	ast.Inspect(fd, func(n ast.Node) bool {
		be, ok := n.(*ast.BinaryExpr)
		if !ok || be.Op != token.EQL {
			return true
		}
		ce, ok := be.X.(*ast.CallExpr)
		if !ok {
			return true
		}
		if id, ok := ce.Fun.(*ast.Ident); !ok || id.Name != "len" || len(ce.Args) != 1 {
			return true
		}
		if se, ok := ce.Args[0].(*ast.SelectorExpr); !ok || se.Sel.Name != "List" {
			return true
		}
		if lit, ok := be.Y.(*ast.BasicLit); ok && lit.Kind == token.INT {
			if found {
				res = "" // ambiguous
			} else {
				res, found = lit.Value, true
			}
		}
		return true
	})
	return res, found && res != ""
}

func mapLitPairs(dir, name string) ([][2]string, bool) {
	e := findVarValue(dir, name)
	cl, ok := e.(*ast.CompositeLit)
	if !ok {
		return nil, false
	}
	var out [][2]string
	for _, el := range cl.Elts {
		kv, ok := el.(*ast.KeyValueExpr)
		if !ok {
			return nil, false
		}
		k, ok1 := exprText(kv.Key)
		v, ok2 := exprText(kv.Value)
		if !ok1 || !ok2 {
			return nil, false
		}
		out = append(out, [2]string{k, v})
	}
	sort.Slice(out, func(i, j int) bool { return out[i][0] < out[j][0] })
	return out, true
}

func exprText(e ast.Expr) (string, bool) {
	if s, ok := stringLit(e); ok {
		return s, true
	}
	if id, ok := e.(*ast.Ident); ok {
		return id.Name, true
	}
	return "", false
}

func emitFacts(o *out) {
	v, ok := commentGroupLenConst()
	o.f("/-- N in `len(comments.List) == N` of parse.getImportPathFromCommentGroup -/\ndef commentGroupLenConst : Option Int := %s\n\n", optInt(v, ok))
	for _, c := range [][2]string{{"parse", "importTag"}, {"mage", "magicRebuildKey"}, {"mage", "mainfile"}, {"mage", "initFile"}, {"mage", "MagefilesDirName"}} {
		s, ok := findConst(c[0], c[1])
		if !ok {
			s = "?"
		}
		o.f("def %s_%s : String := %s\n\n", c[0], c[1], leanStr(s))
	}
	for _, m := range [][2]string{{"parse", "argTypes"}, {"mg", "argTypes"}} {
		ps, ok := mapLitPairs(m[0], m[1])
		o.f("def %s_%s : List (String × String) := [", m[0], m[1])
		if !ok {
			o.f("(\"?\", \"?\")")
		}
		for i, p := range ps {
			if i > 0 {
				o.f(", ")
			}
			o.f("(%s, %s)", leanStr(p[0]), leanStr(p[1]))
		}
		o.f("]\n\n")
	}
	emitShFacts(o)
	emitDepsFacts(o)
	emitInvokeFacts(o)
}

var impRx = regexp.MustCompile(`(?m)^\t(?:(\w+) )?"([^"{]+)"$`)
var exitRx = regexp.MustCompile(`\b(_?os)\.Exit\(([^)]*)\)`)

func emitTemplate(o *out) {
	tpl, ok := findConst("mage", "mageMainfileTplString")
	if !ok {
		tpl = "?"
	}
	o.f("/-- mage/template.go:mageMainfileTplString -/\ndef tplString : String := %s\n\n", leanStr(tpl))
	// import block
	i := strings.Index(tpl, "import (")
	j := -1
	if i >= 0 {
		j = strings.Index(tpl[i:], "\n)")
	}
	o.f("/-- (alias, path) of the fixed imports of the generated main; alias \"\" = imported under its own name -/\ndef imports : List (String × String) := [")
	if i >= 0 && j >= 0 {
		ms := impRx.FindAllStringSubmatch(tpl[i:i+j], -1)
		for k, m := range ms {
			if k > 0 {
				o.f(", ")
			}
			o.f("(%s, %s)", leanStr(m[1]), leanStr(m[2]))
		}
	} else {
		o.f("(\"?\", \"?\")")
	}
	o.f("]\n\n")
	o.f("/-- arguments of every os.Exit call in the template text, in order -/\ndef exitArgs : List String := [")
	for k, m := range exitRx.FindAllStringSubmatch(tpl, -1) {
		if k > 0 {
			o.f(", ")
		}
		o.f("%s", leanStr(m[2]))
	}
	o.f("]\n\n")
	hdr := tpl
	if k := strings.Index(tpl, "package main"); k >= 0 {
		hdr = tpl[:k]
	}
	o.f("/-- everything before `package main` (the build-constraint header) -/\ndef header : String := %s\n\n", leanStr(hdr))
}

// ---- sh facts (C16) ----

func isAppendCall(e ast.Expr) *ast.CallExpr {
	ce, ok := e.(*ast.CallExpr)
	if !ok {
		return nil
	}
	if id, ok := ce.Fun.(*ast.Ident); ok && id.Name == "append" && len(ce.Args) >= 1 {
		return ce
	}
	return nil
}

// closure copies the captured slice before appending: append(append(<fresh>, args...), args2...)
func closureCopies(fn string) string {
	fd := findFunc("sh", fn)
	if fd == nil {
		return "none"
	}
	params := map[string]bool{}
	for _, f := range fd.Type.Params.List {
		for _, n := range f.Names {
			params[n.Name] = true
		}
	}
	found, ok := false, true
	ast.Inspect(fd, func(n ast.Node) bool {
		ce := isAppendCall2(n)
		if ce == nil {
			return true
		}
		// any append whose first operand is a captured parameter writes into the caller's array
		if id, isId := ce.Args[0].(*ast.Ident); isId && params[id.Name] {
			ok = false
		}
		if inner := isAppendCall(ce.Args[0]); inner != nil {
			switch x := inner.Args[0].(type) {
			case *ast.CallExpr, *ast.CompositeLit:
				_ = x
				found = true
			}
		}
		return true
	})
	if found && ok {
		return "some true"
	}
	return "some false"
}

func isAppendCall2(n ast.Node) *ast.CallExpr {
	e, ok := n.(ast.Expr)
	if !ok {
		return nil
	}
	return isAppendCall(e)
}

// no statement of fn assigns through an index expression on one of its parameters named in names
func noIndexedWrite(fn string, names ...string) string {
	fd := findFunc("sh", fn)
	if fd == nil {
		return "none"
	}
	want := map[string]bool{}
	for _, n := range names {
		want[n] = true
	}
	// resolve by object: the parameter objects
	objs := map[*ast.Object]bool{}
	for _, f := range fd.Type.Params.List {
		for _, n := range f.Names {
			if want[n.Name] && n.Obj != nil {
				objs[n.Obj] = true
			}
		}
	}
	if len(objs) != len(names) {
		return "none"
	}
	clean := true
	ast.Inspect(fd, func(n ast.Node) bool {
		as, ok := n.(*ast.AssignStmt)
		if !ok {
			return true
		}
		for _, l := range as.Lhs {
			if ix, ok := l.(*ast.IndexExpr); ok {
				if id, ok := ix.X.(*ast.Ident); ok && objs[id.Obj] {
					clean = false
				}
			}
		}
		return true
	})
	if clean {
		return "some true"
	}
	return "some false"
}

func emitShFacts(o *out) {
	o.f("/-- RunCmd / OutCmd copy the captured slice before appending the call's arguments -/\n")
	o.f("def sh_RunCmd_copies : Option Bool := %s\n", closureCopies("RunCmd"))
	o.f("def sh_OutCmd_copies : Option Bool := %s\n\n", closureCopies("OutCmd"))
	o.f("/-- Exec / run never assign through args[...] or env[...] -/\n")
	o.f("def sh_Exec_noWrite : Option Bool := %s\n", noIndexedWrite("Exec", "args", "env"))
	o.f("def sh_run_noWrite : Option Bool := %s\n\n", noIndexedWrite("run", "args", "env"))
}

// ---- mg/deps.go facts (C01 C02 C03 C13) ----

func callName(e ast.Expr) string {
	ce, ok := e.(*ast.CallExpr)
	if !ok {
		return ""
	}
	switch f := ce.Fun.(type) {
	case *ast.Ident:
		return f.Name
	case *ast.SelectorExpr:
		s := f.Sel.Name
		x := f.X
		for {
			switch xx := x.(type) {
			case *ast.Ident:
				return xx.Name + "." + s
			case *ast.SelectorExpr:
				s = xx.Sel.Name + "." + s
				x = xx.X
				continue
			}
			return "?." + s
		}
	}
	return ""
}

func boolFact(b, ok bool) string {
	if !ok {
		return "none"
	}
	if b {
		return "some true"
	}
	return "some false"
}

// onceFun.run: fn.Run is called only inside the closure given to o.once.Do, and that closure stores the failure of a
// panicking body (a deferred recover assigning o.err)
func factStorePanic() (bool, bool) {
	fd := findFunc("mg", "onceFun.run")
	if fd == nil {
		return false, false
	}
	var doLit *ast.FuncLit
	ast.Inspect(fd, func(n ast.Node) bool {
		if ce, ok := n.(*ast.CallExpr); ok && callName(ce) == "o.once.Do" && len(ce.Args) == 1 {
			if fl, ok := ce.Args[0].(*ast.FuncLit); ok {
				doLit = fl
			}
		}
		return true
	})
	if doLit == nil {
		return false, false
	}
	// every o.fn.Run call lies inside doLit
	okRun, hasRun := true, false
	ast.Inspect(fd, func(n ast.Node) bool {
		if ce, ok := n.(*ast.CallExpr); ok && callName(ce) == "o.fn.Run" {
			hasRun = true
			if ce.Pos() < doLit.Pos() || ce.End() > doLit.End() {
				okRun = false
			}
		}
		return true
	})
	if !hasRun || !okRun {
		return false, false
	}
	stores := false
	for _, st := range doLit.Body.List {
		ds, ok := st.(*ast.DeferStmt)
		if !ok {
			continue
		}
		fl, ok := ds.Call.Fun.(*ast.FuncLit)
		if !ok {
			continue
		}
		hasRecover, assigns := false, 0
		ast.Inspect(fl, func(n ast.Node) bool {
			if ce, ok := n.(*ast.CallExpr); ok && callName(ce) == "recover" {
				hasRecover = true
			}
			if as, ok := n.(*ast.AssignStmt); ok {
				for _, l := range as.Lhs {
					if se, ok := l.(*ast.SelectorExpr); ok && se.Sel.Name == "err" {
						if id, ok := se.X.(*ast.Ident); ok && id.Name == "o" {
							assigns++
						}
					}
				}
			}
			return true
		})
		if hasRecover && assigns >= 2 {
			stores = true
		}
	}
	// and the function returns o.err
	retOK := false
	if n := len(fd.Body.List); n > 0 {
		if rs, ok := fd.Body.List[n-1].(*ast.ReturnStmt); ok && len(rs.Results) == 1 {
			if se, ok := rs.Results[0].(*ast.SelectorExpr); ok && se.Sel.Name == "err" {
				retOK = true
			}
		}
	}
	return stores, retOK
}

// LoadOrStore holds o.mu for its whole body; the map is touched nowhere else; run uses sync.Once
func factAtomicOnce() (bool, bool) {
	fd := findFunc("mg", "onceMap.LoadOrStore")
	if fd == nil || len(fd.Body.List) < 2 {
		return false, false
	}
	first2 := map[string]bool{}
	for _, st := range fd.Body.List[:2] {
		switch s := st.(type) {
		case *ast.DeferStmt:
			first2["defer "+callName(s.Call)] = true
		case *ast.ExprStmt:
			first2[callName(s.X)] = true
		}
	}
	locked := first2["defer o.mu.Unlock"] && first2["o.mu.Lock"]
	// no other function indexes a field named m of an onceMap
	elsewhere := false
	for _, f := range load("mg").files {
		for _, d := range f.Decls {
			fn, ok := d.(*ast.FuncDecl)
			if !ok || fn == fd || fn.Body == nil {
				continue
			}
			ast.Inspect(fn, func(n ast.Node) bool {
				if ix, ok := n.(*ast.IndexExpr); ok {
					if se, ok := ix.X.(*ast.SelectorExpr); ok && se.Sel.Name == "m" {
						elsewhere = true
					}
				}
				return true
			})
		}
	}
	// key is built from f.Name() and f.ID()
	keyOK := false
	ast.Inspect(fd, func(n ast.Node) bool {
		if cl, ok := n.(*ast.CompositeLit); ok {
			if id, ok := cl.Type.(*ast.Ident); ok && id.Name == "onceKey" && len(cl.Elts) == 2 {
				names := map[string]string{}
				for _, e := range cl.Elts {
					if kv, ok := e.(*ast.KeyValueExpr); ok {
						if k, ok := kv.Key.(*ast.Ident); ok {
							names[k.Name] = callName(kv.Value)
						}
					}
				}
				keyOK = names["Name"] == "f.Name" && names["ID"] == "f.ID"
			}
		}
		return true
	})
	return locked && !elsewhere && keyOK, true
}

// runDeps: wg.Add before each go, wg.Done deferred in the goroutine, and every panic (outside goroutines) after wg.Wait()
func factWaitAll() (bool, bool) {
	fd := findFunc("mg", "runDeps")
	if fd == nil {
		return false, false
	}
	waitPos := token.NoPos
	for _, st := range fd.Body.List {
		if es, ok := st.(*ast.ExprStmt); ok && callName(es.X) == "wg.Wait" {
			waitPos = es.Pos()
		}
	}
	if waitPos == token.NoPos {
		return false, true
	}
	ok := true
	var lits []*ast.FuncLit
	ast.Inspect(fd, func(n ast.Node) bool {
		if fl, isLit := n.(*ast.FuncLit); isLit {
			lits = append(lits, fl)
		}
		return true
	})
	inLit := func(p token.Pos) bool {
		for _, l := range lits {
			if p >= l.Pos() && p <= l.End() {
				return true
			}
		}
		return false
	}
	ast.Inspect(fd, func(n ast.Node) bool {
		switch x := n.(type) {
		case *ast.CallExpr:
			if callName(x) == "panic" && !inLit(x.Pos()) && x.Pos() < waitPos {
				ok = false
			}
		case *ast.ReturnStmt:
			if !inLit(x.Pos()) && x.Pos() < waitPos {
				ok = false
			}
		}
		return true
	})
	// the goroutine: first statement is a defer whose closure ends with wg.Done()
	goOK := false
	ast.Inspect(fd, func(n ast.Node) bool {
		gs, isGo := n.(*ast.GoStmt)
		if !isGo {
			return true
		}
		fl, isLit := gs.Call.Fun.(*ast.FuncLit)
		if !isLit || len(fl.Body.List) == 0 {
			return true
		}
		if ds, isDefer := fl.Body.List[0].(*ast.DeferStmt); isDefer {
			if dl, isLit := ds.Call.Fun.(*ast.FuncLit); isLit && len(dl.Body.List) > 0 {
				if es, isExpr := dl.Body.List[len(dl.Body.List)-1].(*ast.ExprStmt); isExpr && callName(es.X) == "wg.Done" {
					goOK = true
				}
			}
		}
		return true
	})
	return ok && goOK, true
}

// SerialDeps / SerialCtxDeps: a loop whose body is exactly runDeps(ctx, funcs[i:i+1])
func factSerial(fn string) (bool, bool) {
	fd := findFunc("mg", fn)
	if fd == nil {
		return false, false
	}
	good := false
	ast.Inspect(fd, func(n ast.Node) bool {
		var body *ast.BlockStmt
		var idx string
		switch l := n.(type) {
		case *ast.RangeStmt:
			body = l.Body
			if id, ok := l.Key.(*ast.Ident); ok {
				idx = id.Name
			}
		default:
			return true
		}
		if body == nil || len(body.List) != 1 || idx == "" {
			return true
		}
		es, ok := body.List[0].(*ast.ExprStmt)
		if !ok || callName(es.X) != "runDeps" {
			return true
		}
		ce := es.X.(*ast.CallExpr)
		if len(ce.Args) != 2 {
			return true
		}
		se, ok := ce.Args[1].(*ast.SliceExpr)
		if !ok || se.Slice3 {
			return true
		}
		lo, ok1 := se.Low.(*ast.Ident)
		hi, ok2 := se.High.(*ast.BinaryExpr)
		if ok1 && ok2 && lo.Name == idx && hi.Op == token.ADD {
			if x, ok := hi.X.(*ast.Ident); ok && x.Name == idx {
				if y, ok := hi.Y.(*ast.BasicLit); ok && y.Value == "1" {
					good = true
				}
			}
		}
		return true
	})
	return good, true
}

func emitDepsFacts(o *out) {
	a, ok := factStorePanic()
	o.f("/-- onceFun.run stores the failure of a panicking body and returns o.err -/\ndef deps_storePanic : Option Bool := %s\n", boolFact(a && ok, true))
	b, ok2 := factAtomicOnce()
	o.f("/-- LoadOrStore runs under o.mu, keyed by (f.Name(), f.ID()); the map is touched nowhere else -/\ndef deps_atomicOnce : Option Bool := %s\n", boolFact(b, ok2))
	w, ok3 := factWaitAll()
	o.f("/-- runDeps: no panic/return before wg.Wait(); every goroutine defers wg.Done() last -/\ndef deps_waitAll : Option Bool := %s\n", boolFact(w, ok3))
	s1, ok4 := factSerial("SerialDeps")
	s2, ok5 := factSerial("SerialCtxDeps")
	o.f("/-- the serial forms loop over runDeps(ctx, funcs[i:i+1]) -/\ndef deps_serialOneByOne : Option Bool := %s\n\n", boolFact(s1 && s2, ok4 && ok5))
}
