// Command shchild is the helper child process of the sh streams (C15, C16).
// Instructions come from the JSON file named by $SHCHILD_SPEC (inherited environment):
//   {"code":int,"out":hex,"err":hex,"probe":[keys],"report":path,"echo":bool}
// It writes a report {"argv":[hex…],"env":{k:hex|null},"stdin":hex-sha1} to "report" (if set), the payloads
// to stdout/stderr (or, with echo, its arguments separated by 0x1f to stdout) and exits with "code".
package main

import (
	"crypto/sha1"
	"encoding/hex"
	"encoding/json"
	"io"
	"os"
	"strconv"
	"strings"
)

type spec struct {
	Code   int      `json:"code"`
	Out    string   `json:"out"`
	Err    string   `json:"err"`
	Probe  []string `json:"probe"`
	Report string   `json:"report"`
	Echo   bool     `json:"echo"`
}

func main() {
	var s spec
	if p := os.Getenv("SHCHILD_SPEC"); p != "" {
		b, err := os.ReadFile(p)
		if err == nil {
			json.Unmarshal(b, &s)
		}
	}
	if s.Report != "" {
		rep := map[string]interface{}{}
		var argv []string
		for _, a := range os.Args {
			argv = append(argv, hex.EncodeToString([]byte(a)))
		}
		rep["argv"] = argv
		env := map[string]interface{}{}
		for _, k := range s.Probe {
			if v, ok := os.LookupEnv(k); ok {
				env[k] = hex.EncodeToString([]byte(v))
			} else {
				env[k] = nil
			}
		}
		rep["env"] = env
		h := sha1.New()
		io.Copy(h, os.Stdin)
		rep["stdin"] = hex.EncodeToString(h.Sum(nil))
		b, _ := json.Marshal(rep)
		os.WriteFile(s.Report, b, 0o644)
	}
	if s.Echo {
		os.Stdout.WriteString(strconv.Itoa(len(os.Args)-1) + "\x1e" + strings.Join(os.Args[1:], "\x1f"))
	} else {
		if b, err := hex.DecodeString(s.Out); err == nil {
			os.Stdout.Write(b)
		}
	}
	if b, err := hex.DecodeString(s.Err); err == nil {
		os.Stderr.Write(b)
	}
	os.Exit(s.Code)
}
