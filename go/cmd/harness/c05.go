package main

// C05 — exit status through the whole chain target -> generated main -> mage front end.
// One fixed project whose target `Fail(kind, a, b)` selects the failure kind at run time; compiled once, then run on
// generated command lines three ways (mage default mode, mage with MAGEFILE_HASHFAST reusing the cached binary, the
// -compile'd binary), plus malformed command lines for both flag sets and projects that cannot be built.

import (
	"bytes"
	"os/exec"
	"fmt"
	"os"
	"path/filepath"
	"sort"
	"strings"

	"verif/internal/rng"
)

func init() { streams["c05"] = c05 }

const c05Magefile = `//go:build mage

// Probe magefile of the C05 stream.
package main

import (
	"context"
	"errors"
	"fmt"
	"os"

	"github.com/magefile/mage/mg"
	"github.com/magefile/mage/sh"
)

// Ok succeeds.
func Ok() { fmt.Println("CALL ok") }

func Leaf(code, tag int) error {
	if code == 0 {
		return nil
	}
	return mg.Fatal(code, "requested failure (leaf)")
}

func Mid(a, b, tag int) { mg.Deps(mg.F(Leaf, a, tag*10+1), mg.F(Leaf, b, tag*10+2)) }

func PlainErr(tag int) error { return errors.New("requested failure (plain)") }

// failures without any text
func QuietLeaf(code, tag int) error {
	if code == 0 {
		return nil
	}
	return mg.Fatal(code)
}

func QuietMid(a, b, tag int) { mg.Deps(mg.F(QuietLeaf, a, tag*10+1), mg.F(QuietLeaf, b, tag*10+2)) }

func QuietErr(tag int) error { return errors.New("") }

func QuietPanicker(tag int) { panic("") }

// a writer that cannot take the command's output: the command runs and exits 0, collecting its output fails
type fullWriter struct{}

func (fullWriter) Write(p []byte) (int, error) { return 0, errors.New("no space left") }

func Panicker(tag int) { panic("requested failure (panic value)") }

// dependencies of every supported signature whose failure carries the code (unexported: not targets); each is used by
// exactly one kind, so the once-only rule never hides a later request
var sigCode int

func sigErr() error                            { return mg.Fatal(sigCode, "requested failure (func() error)") }
func sigCtxErr(ctx context.Context) error      { return mg.Fatal(sigCode, "requested failure (func(ctx) error)") }
func sigCtxErrC(ctx context.Context) error     { return mg.Fatal(sigCode, "requested failure (func(ctx) error via CtxDeps)") }
func sigCtxErrS(ctx context.Context) error     { return mg.Fatal(sigCode, "requested failure (func(ctx) error via SerialDeps)") }
func sigCtxErrF(ctx context.Context) error     { return mg.Fatal(sigCode, "requested failure (mg.F(func(ctx) error))") }
func sigCtxPlain(ctx context.Context) error    { return errors.New("requested failure (func(ctx) error, plain)") }
func sigCtxArg(ctx context.Context, code int) error { return mg.Fatal(code, "requested failure (func(ctx, int) error)") }
func sigCtxPanic(ctx context.Context)          { panic(mg.Fatal(sigCode, "requested failure (func(ctx) panics)")) }
func sigPlainPanic()                           { panic(mg.Fatal(sigCode, "requested failure (func() panics)")) }

var counter int

// Fail ends in the way its arguments say.
func Fail(kind string, a, b int) error {
	fmt.Printf("CALL fail %s %d %d\n", kind, a, b)
	counter++
	tag := counter * 100
	switch kind {
	case "ok":
		return nil
	case "err":
		return errors.New("requested failure")
	case "fatal":
		return mg.Fatal(a, "requested failure")
	case "fatalf":
		return mg.Fatalf(a, "requested %s", "failure")
	case "sh":
		return sh.Run("sh", "-c", fmt.Sprintf("exit %d", a))
	case "panicerr":
		panic(errors.New("requested failure"))
	case "panicfatal":
		panic(mg.Fatal(a, "requested failure"))
	case "panicval":
		panic("requested failure")
	case "exit":
		os.Exit(a)
	case "deps":
		mg.Deps(mg.F(Leaf, a, tag+1), mg.F(Leaf, b, tag+2))
	case "deep":
		mg.Deps(mg.F(Mid, a, b, tag))
	case "serial":
		mg.SerialDeps(mg.F(Leaf, a, tag+1), mg.F(Leaf, b, tag+2))
	case "errdep":
		mg.Deps(mg.F(PlainErr, tag))
	case "panicdep":
		mg.Deps(mg.F(Panicker, tag))
	case "shwriter":
		_, err := sh.Exec(nil, fullWriter{}, nil, "echo", "hello")
		return err
	case "sigplain":
		sigCode = a
		mg.Deps(sigErr)
	case "sigctx":
		sigCode = a
		mg.Deps(sigCtxErr)
	case "sigctxc":
		sigCode = a
		mg.CtxDeps(context.Background(), sigCtxErrC)
	case "sigser":
		sigCode = a
		mg.SerialDeps(sigCtxErrS)
	case "sigf":
		sigCode = a
		mg.Deps(mg.F(sigCtxErrF))
	case "sigctxplain":
		mg.SerialCtxDeps(context.Background(), sigCtxPlain)
	case "sigctxarg":
		mg.Deps(mg.F(sigCtxArg, a))
	case "sigctxpanic":
		sigCode = a
		mg.Deps(sigCtxPanic)
	case "sigplainpanic":
		sigCode = a
		mg.Deps(sigPlainPanic)
	case "qfatal":
		return mg.Fatal(a)
	case "qerr":
		return errors.New("")
	case "qdeps":
		mg.Deps(mg.F(QuietLeaf, a, tag+1), mg.F(QuietLeaf, b, tag+2))
	case "qdeep":
		mg.Deps(mg.F(QuietMid, a, b, tag))
	case "qserial":
		mg.SerialDeps(mg.F(QuietLeaf, a, tag+1), mg.F(QuietLeaf, b, tag+2))
	case "qerrdep":
		mg.Deps(mg.F(QuietErr, tag))
	case "qpanicdep":
		mg.Deps(mg.F(QuietPanicker, tag))
	}
	return nil
}
`

var c05Funcs = []J{
	{"name": "Fail", "args": []string{"string", "int", "int"}, "err": true},
	{"name": "Leaf", "args": []string{"int", "int"}, "err": true},
	{"name": "Mid", "args": []string{"int", "int", "int"}, "err": false},
	{"name": "Ok", "args": []string{}, "err": false},
	{"name": "Panicker", "args": []string{"int"}, "err": false},
	{"name": "PlainErr", "args": []string{"int"}, "err": true},
	{"name": "QuietErr", "args": []string{"int"}, "err": true},
	{"name": "QuietLeaf", "args": []string{"int", "int"}, "err": true},
	{"name": "QuietMid", "args": []string{"int", "int", "int"}, "err": false},
	{"name": "QuietPanicker", "args": []string{"int"}, "err": false},
}

func writeFiles(dir string, files map[string]string) {
	for rel, content := range files {
		full := filepath.Join(dir, rel)
		os.MkdirAll(filepath.Dir(full), 0o755)
		if err := os.WriteFile(full, []byte(content), 0o644); err != nil {
			panic(err)
		}
	}
}

func goMod(module string) string {
	return fmt.Sprintf("module %s\n\ngo 1.21\n\nrequire github.com/magefile/mage v0.0.0\n\nreplace github.com/magefile/mage => %s\n", module, os.Getenv("VERIF_REPO"))
}

// mageEnvPairs returns the MAGEFILE_* bindings of env as [[k,v],...] in order (what the model is told about the environment).
func mageEnvPairs(env []string) [][]string {
	out := [][]string{}
	for _, e := range env {
		if strings.HasPrefix(e, "MAGEFILE_") || strings.HasPrefix(e, "HOME=") {
			kv := strings.SplitN(e, "=", 2)
			out = append(out, []string{kv[0], kv[1]})
		}
	}
	return out
}

func howClass(r runRes) string {
	switch {
	case strings.Contains(r.stdout, "Targets:"):
		return "listed"
	case strings.Contains(r.stdout, "[options] [target]"):
		return "usage"
	case strings.Contains(r.stdout, "Usage:\n\n\t"):
		return "helpShown"
	}
	return "other"
}

// errLine is the first "Error: …" line of a process's stderr ("" when there is none)
func errLine(stderr string) string {
	for _, l := range strings.Split(stderr, "\n") {
		if strings.HasPrefix(l, "Error: ") {
			return l
		}
	}
	return ""
}

func c05Calls(out string) [][]string {
	calls := [][]string{}
	for _, l := range strings.Split(out, "\n") {
		if !strings.HasPrefix(l, "CALL ") {
			continue
		}
		f := strings.Fields(l[5:])
		if len(f) == 0 {
			continue
		}
		switch f[0] {
		case "ok":
			calls = append(calls, []string{"<current>.Ok"})
		case "fail":
			calls = append(calls, append([]string{"<current>.Fail"}, f[1:]...))
		}
	}
	return calls
}

var c05Kinds = []string{"ok", "ok", "err", "fatal", "fatal", "fatalf", "sh", "panicerr", "panicfatal", "panicval", "exit", "deps", "deps", "deep", "deep", "serial", "errdep", "panicdep",
	"qfatal", "qerr", "qdeps", "qdeep", "qserial", "qerrdep", "qpanicdep", "shwriter",
	"sigplain", "sigctx", "sigctxc", "sigser", "sigf", "sigctxplain", "sigctxarg", "sigctxpanic", "sigplainpanic"}

func c05Code(r *rng.R) int {
	switch r.Intn(6) {
	case 0:
		return []int{1, 2, 127, 128, 254, 255}[r.Intn(6)]
	}
	return 1 + r.Intn(255)
}

func c05Target(r *rng.R, forceKind string) []string {
	if forceKind == "" && r.Chance(1, 4) {
		return []string{caseVariant(r, "ok")}
	}
	k := forceKind
	if k == "" {
		k = c05Kinds[r.Intn(len(c05Kinds))]
	}
	a, b := c05Code(r), c05Code(r)
	switch k {
	case "deps", "deep", "serial", "qdeps", "qdeep", "qserial":
		switch r.Intn(4) {
		case 0:
			b = a // equal codes
		case 1:
			b = 0 // only one fails
		case 2:
			a = 0
		}
	}
	return []string{caseVariant(r, "fail"), k, fmt.Sprint(a), fmt.Sprint(b)}
}

func c05(c *Ctx) {
	r := c.R
	mageBin := filepath.Join(os.Getenv("VERIF_BIN"), "mage")
	home := filepath.Join(c.Tmp, "home")
	os.MkdirAll(home, 0o755)
	dir := filepath.Join(c.Tmp, "c05proj")
	writeFiles(dir, map[string]string{"go.mod": goMod("c05proj"), "magefile.go": c05Magefile})
	env := baseEnv(home)
	static := filepath.Join(c.Tmp, "c05static.bin")
	cr := runCmd(dir, env, mageBin, "-compile", static)
	if cr.status != 0 {
		c.Emit(J{"op": "mage.front", "funcs": c05Funcs, "env": mageEnvPairs(env), "argv": []string{"-compile", "x"}, "conv": J{}},
			J{"status": cr.status, "how": "other", "calls": [][]string{}, "stderr": cr.stderr}, "compile-failed")
		return
	}
	// warm the hash-mode cache
	runCmd(dir, append(append([]string{}, env...), "MAGEFILE_HASHFAST=1"), mageBin, "ok")

	emit := func(way string, extraEnv []string, argv []string, tags ...string) {
		runEnv := append(append([]string{}, env...), extraEnv...)
		var rr runRes
		op := "mage.front"
		cached := false
		switch way {
		case "mage":
			rr = runCmd(dir, runEnv, mageBin, argv...)
		case "hashfast":
			runEnv = append(runEnv, "MAGEFILE_HASHFAST=1")
			cached = true
			rr = runCmd(dir, runEnv, mageBin, argv...)
		default:
			op = "mage.child"
			rr = runCmd(dir, runEnv, static, argv...)
		}
		errClass := "no"
		if strings.TrimSpace(rr.stderr) != "" {
			errClass = "yes"
		}
		in := J{"op": op, "funcs": c05Funcs, "env": mageEnvPairs(runEnv), "argv": argv, "conv": convRecord(argv), "cached": cached, "want": "c05"}
		impl := J{"status": rr.status, "how": howClass(rr), "calls": c05Calls(rr.stdout), "stderr": errClass, "errLine": errLine(rr.stderr)}
		c.Emit(in, impl, append([]string{"way=" + way, fmt.Sprintf("status=%d", rr.status)}, tags...)...)
	}
	ways := []string{"mage", "hashfast", "static", "static"}

	// (0) a listing that cannot be written (stdout is a full device): not a successful listing — status 1, message on stderr
	if full, err := os.OpenFile("/dev/full", os.O_WRONLY, 0); err == nil {
		for _, way := range []string{"mage", "static"} {
			for _, argv := range [][]string{{"-l"}, {}} {
				runEnv := append([]string{}, env...)
				if len(argv) == 0 {
					runEnv = append(runEnv, "MAGEFILE_IGNOREDEFAULT=1")
				}
				bin, op := mageBin, "mage.front"
				if way == "static" {
					bin, op = static, "mage.child"
				}
				cmd := exec.Command(bin, argv...)
				cmd.Dir, cmd.Env, cmd.Stdout = dir, runEnv, full
				var eb bytes.Buffer
				cmd.Stderr = &eb
				st := 0
				if err := cmd.Run(); err != nil {
					st = -1
					if ee, ok := err.(*exec.ExitError); ok {
						st = ee.ExitCode()
					}
				}
				errClass := "no"
				if strings.TrimSpace(eb.String()) != "" {
					errClass = "yes"
				}
				in := J{"op": op, "funcs": c05Funcs, "env": mageEnvPairs(runEnv), "argv": argv, "conv": convRecord(argv), "cached": false, "want": "c05", "stdoutFull": true}
				c.Emit(in, J{"status": st, "how": "listed", "calls": [][]string{}, "stderr": errClass, "errLine": "<any>"}, "class=list-stdout-full", "way="+way)
			}
		}
		full.Close()
	}

	// (1) every failure kind x codes, at every position of 1..3-target lines
	for i := 0; i < c.N; i++ {
		way := ways[r.Intn(len(ways))]
		nt := 1 + r.Intn(3)
		failAt := r.Intn(nt + 1) // nt = nobody fails
		if i < len(c05Kinds)-2 && failAt == nt {
			failAt = r.Intn(nt) // the first round goes through every failure kind once
		}
		var argv []string
		kind := ""
		for k := 0; k < nt; k++ {
			if k == failAt {
				t := c05Target(r, c05Kinds[2+i%(len(c05Kinds)-2)])
				kind = t[1]
				argv = append(argv, t...)
			} else if r.Chance(1, 3) {
				argv = append(argv, caseVariant(r, "fail"), "ok", "0", "0")
			} else {
				argv = append(argv, caseVariant(r, "ok"))
			}
		}
		var extra []string
		if r.Chance(1, 5) {
			extra = append(extra, "MAGEFILE_VERBOSE=1")
		}
		emit(way, extra, argv, "class=targets", "kind="+kind, fmt.Sprintf("pos=%d/%d", failAt, nt))
	}
	// (2) all codes 1..255 through mg.Fatal and sh (thorough: every code, every way; quick: a stride)
	stride := 16
	if c.Tier == "thorough" {
		stride = 1
	}
	for code := 1 + r.Intn(stride); code <= 255; code += stride {
		for _, k := range []string{"fatal", "sh", "deps"} {
			emit(ways[r.Intn(len(ways))], nil, []string{"fail", k, fmt.Sprint(code), fmt.Sprint(code)}, "class=allcodes", "kind="+k)
		}
	}
	// (3) malformed command lines
	childBad := [][]string{{"-x"}, {"-nosuch", "ok"}, {"-t", "zz", "ok"}, {"-t"}, {"-v=maybe", "ok"}, {"---v"}, {"-=v"}, {"--", "-l"}, {"-"}, {"nosuch"}, {"ok", "nosuch", "ok"},
		{"fail"}, {"fail", "fatal"}, {"fail", "fatal", "7"}, {"fail", "fatal", "x", "0"}, {"fail", "fatal", "7", "1.5"}, {"ok", "fail", "err", "0x10", "0"},
		{"-h", "nosuch"}, {"-h", "ok"}, {"-h", "FAIL"}, {"-h"}, {"-l"}, {"-l", "nosuch"}, {"-help"}, {"--help"}, {"-v", "-l"}, {"-l=false", "ok"}, {"-h=false", "ok"}, {}, {"-v=false", "fail", "fatal", "9", "0"},
		{"-t", "1h", "fail", "panicval", "1", "1"}, {"--v", "ok"}, {"-v", "--", "ok"}, {"ok", "-v"}, {"ok", "--"}}
	frontBad := [][]string{{"-init", "-h", "x"}, {"-clean", "x"}, {"-goos", "linux", "ok"}, {"-goarch", "arm", "ok"}, {"-compile"}, {"-h", "ok", "fail"}, {"-version", "x"},
		{"-d"}, {"-w"}, {"-keep=perhaps"}, {"-f=2", "ok"}, {"-debug=x"}, {"-gocmd"}, {"-ldflags"}, {"-version"}, {"-clean", "-version"}, {"-f", "ok"}, {"-f", "fail", "fatal", "33", "0"}}
	for _, a := range childBad {
		for _, way := range []string{"static", "mage", "hashfast"} {
			if way != "static" && !c.R.Chance(1, 2) && c.Tier != "thorough" {
				continue
			}
			emit(way, nil, a, "class=malformed")
		}
	}
	for _, a := range frontBad {
		emit("mage", nil, a, "class=malformed-front")
	}
	// MAGEFILE_* variables instead of flags, through the compiled binary and through mage
	for _, e := range [][]string{{"MAGEFILE_LIST=1"}, {"MAGEFILE_HELP=1"}, {"MAGEFILE_LIST=maybe"}, {"MAGEFILE_HELP=true"}, {"MAGEFILE_VERBOSE=x"}, {"MAGEFILE_IGNOREDEFAULT=1"}, {"MAGEFILE_TIMEOUT=zz"}} {
		emit("static", e, []string{"ok"}, "class=envflags")
		emit("static", e, []string{}, "class=envflags")
		emit("mage", e, []string{"fail", "fatal", "5", "0"}, "class=envflags")
	}

	// (4) projects that cannot be built / found: status 1 and a message on stderr
	broken := []struct {
		name, fault string
		files       map[string]string
	}{
		{"nofiles", "noFiles", map[string]string{"go.mod": goMod("p"), "plain.go": "package main\n\nfunc main() {}\n"}},
		{"empty", "noFiles", map[string]string{"go.mod": goMod("p")}},
		{"syntax", "parse", map[string]string{"go.mod": goMod("p"), "magefile.go": "//go:build mage\n\npackage main\n\nfunc Build( {\n"}},
		{"collision", "parse", map[string]string{"go.mod": goMod("p"), "magefile.go": "//go:build mage\n\npackage main\n\nfunc Build() {}\nfunc BUILD() {}\n"}},
		{"typeerror", "compile", map[string]string{"go.mod": goMod("p"), "magefile.go": "//go:build mage\n\npackage main\n\nfunc Build() { var x int = \"s\"; _ = x }\n"}},
		{"unusedimport", "compile", map[string]string{"go.mod": goMod("p"), "magefile.go": "//go:build mage\n\npackage main\n\nimport \"os\"\n\nfunc Build() {}\n"}},
		{"badimport", "parse", map[string]string{"go.mod": goMod("p"), "magefile.go": "//go:build mage\n\npackage main\n\nimport (\n\t// mage:import\n\t_ \"p/nosuchpkg\"\n)\n\nfunc Build() {}\n"}},
	}
	names := []string{}
	for _, b := range broken {
		names = append(names, b.name)
	}
	sort.Strings(names)
	for _, b := range broken {
		d := filepath.Join(c.Tmp, "c05-"+b.name)
		writeFiles(d, b.files)
		for _, argv := range [][]string{{"build"}, {"-l"}, {}} {
			for _, hf := range []bool{false, true} {
				runEnv := append([]string{}, env...)
				if hf {
					runEnv = append(runEnv, "MAGEFILE_HASHFAST=1")
				}
				rr := runCmd(d, runEnv, mageBin, argv...)
				errClass := "no"
				if strings.TrimSpace(rr.stderr) != "" {
					errClass = "yes"
				}
				in := J{"op": "mage.front", "funcs": []J{{"name": "Build", "args": []string{}}}, "env": mageEnvPairs(runEnv), "argv": argv, "conv": J{}, "fault": b.fault, "want": "c05"}
				c.Emit(in, J{"status": rr.status, "how": howClass(rr), "calls": [][]string{}, "stderr": errClass, "errLine": errLine(rr.stderr)}, "class=unbuildable", "fault="+b.fault, "proj="+b.name)
			}
		}
		os.RemoveAll(d)
	}
	// (5) a compile failure must surface even when an earlier successful build left a binary at the output path:
	// the magefile imports a plain package; after a good run that package gets a type error (the magefile hash, hence the
	// cache name, is unchanged)
	{
		d := filepath.Join(c.Tmp, "c05-stale")
		good := "package lib\n\nfunc Hello() string { return \"hello\" }\n"
		bad := "package lib\n\nfunc Hello() string { return 7 }\n"
		writeFiles(d, map[string]string{"go.mod": goMod("stale"), "lib/lib.go": good,
			"magefile.go": "//go:build mage\n\npackage main\n\nimport (\n\t\"fmt\"\n\t\"stale/lib\"\n)\n\nfunc Build() { fmt.Println(\"CALL ok\", lib.Hello()) }\n"})
		out := filepath.Join(c.Tmp, "c05-stale.bin")
		funcs := []J{{"name": "Build", "args": []string{}}}
		step := func(fault string, extraEnv []string, argv ...string) {
			runEnv := append(append([]string{}, env...), extraEnv...)
			rr := runCmd(d, runEnv, mageBin, argv...)
			errClass := "no"
			if strings.TrimSpace(rr.stderr) != "" {
				errClass = "yes"
			}
			calls := [][]string{}
			if strings.Contains(rr.stdout, "CALL ok") {
				calls = append(calls, []string{"<current>.Build"})
			}
			in := J{"op": "mage.front", "funcs": funcs, "env": mageEnvPairs(runEnv), "argv": argv, "conv": J{}, "fault": fault, "want": "c05"}
			c.Emit(in, J{"status": rr.status, "how": howClass(rr), "calls": calls, "stderr": errClass, "errLine": errLine(rr.stderr)}, "class=stale-binary", "fault="+fault)
		}
		step("none", nil, "build")
		step("none", []string{"MAGEFILE_HASHFAST=1"}, "build")
		step("none", nil, "-compile", out)
		os.WriteFile(filepath.Join(d, "lib/lib.go"), []byte(bad), 0o644)
		step("compile", nil, "build")
		step("compile", []string{"MAGEFILE_HASHFAST=1"}, "-f", "build")
		step("compile", nil, "-compile", out)
		step("compile", []string{"MAGEFILE_HASHFAST=1"}, "-compile", out)
		os.RemoveAll(d)
		os.Remove(out)
	}
	os.RemoveAll(dir)
}
