package main

// Stream "conv": words for strconv.Atoi, strconv.ParseBool and time.ParseDuration — the three standard-library
// conversions the generated main applies to command-line words and to -t / MAGEFILE_TIMEOUT — against
// lean/MageModel/Gen/Strconv.lean.  The generator is grammar-directed (mostly valid words) with a malformed share and
// boundary values around 2^63, long fractions (the float64 path of ParseDuration) and every unit.

import (
	"fmt"
	"go/ast"
	"strconv"
	"strings"
	"time"

	"verif/internal/rng"
)

func init() { streams["conv"] = convStream }

func digits(r *rng.R, n int) string {
	b := make([]byte, n)
	for i := range b {
		b[i] = byte('0' + r.Intn(10))
	}
	return string(b)
}

var boundaryInts = []string{"9223372036854775807", "9223372036854775808", "9223372036854775809", "9223372036854775806",
	"18446744073709551615", "18446744073709551616", "922337203685477580", "922337203685477581", "0", "00", "000000000000000000001",
	"999999999999999999", "1000000000000000000", "99999999999999999999"}

func genInt(r *rng.R) string {
	s := ""
	switch r.Intn(6) {
	case 0:
		s = "-"
	case 1:
		s = "+"
	}
	switch r.Intn(8) {
	case 0:
		s += r.Pick(boundaryInts)
	case 1:
		s += digits(r, 17+r.Intn(5))
	case 2: // malformed
		s += r.Pick([]string{"", "1_000", "0x10", "1e3", " 1", "1 ", "١٢", "1.0", "--1", "+-1", "-", "+", "١", "12a", "０"})
	default:
		s += digits(r, 1+r.Intn(12))
	}
	return s
}

var units = []string{"ns", "us", "µs", "μs", "ms", "s", "m", "h"}
var badUnits = []string{"", "d", "S", "sec", "min", "hs", "n", "u", "µ", "Ms", "H", " s", "s ", "ns.", "e", "_s"}

func genDurGroup(r *rng.R) string {
	s := ""
	switch r.Intn(10) {
	case 0: // no integer part
	case 1:
		s = r.Pick(boundaryInts)
	case 2:
		s = digits(r, 10+r.Intn(10))
	default:
		s = digits(r, 1+r.Intn(5))
	}
	switch r.Intn(6) {
	case 0:
		s += "."
	case 1:
		s += "." + digits(r, 15+r.Intn(12)) // long fractions: freeze of x/scale, float64 rounding
	case 2, 3:
		s += "." + digits(r, 1+r.Intn(9))
	}
	if r.Chance(1, 12) {
		s += r.Pick(badUnits)
	} else {
		s += r.Pick(units)
	}
	return s
}

func genDur(r *rng.R) string {
	s := ""
	switch r.Intn(8) {
	case 0:
		s = "-"
	case 1:
		s = "+"
	}
	if r.Chance(1, 15) {
		return s + r.Pick([]string{"0", "", "00", "0.0", ".", ".s", "1", "1.5", "s", "-0", "+0", "0s", "0.s", ".0s", "1h-1m", "1h 1m", "1h+1m"})
	}
	if r.Chance(1, 10) { // near the int64 range
		return s + r.Pick([]string{"9223372036854775807ns", "9223372036854775808ns", "9223372036854775809ns", "2562047h47m16.854775807s",
			"2562047h47m16.854775808s", "2562047h47m16.854775809s", "2562047.788015215h", "2562047.788015216h", "2562048h", "153722867m", "153722868m",
			"9223372036.854775807s", "9223372036.854775808s", "9223372036854.775807ms", "9223372036854775.807us", "9223372036854775.808µs",
			"9223372036854775807.9ns", "9223372036854775808.0ns", "0.9223372036854775807h", "0.9223372036854775808h", "0.92233720368547758079h"})
	}
	n := 1 + r.Intn(3)
	for i := 0; i < n; i++ {
		s += genDurGroup(r)
	}
	return s
}

func genBool(r *rng.R) string {
	base := r.Pick([]string{"1", "0", "t", "f", "T", "F", "true", "false", "TRUE", "FALSE", "True", "False", "tRUE", "yes", "no", "on", "", "01", " true", "true ", "tru", "truee", "2", "-1", "TrUe", "fALSE", "Ｔ"})
	return base
}

func convStream(c *Ctx) {
	r := c.R
	emit := func(w string, kind string) {
		rec := convRecord([]string{w})[w].(J)
		impl := J{"atoi": nil, "bool": rec["bool"], "dur": nil}
		if v, ok := rec["atoi"].(int); ok {
			impl["atoi"] = strconv.Itoa(v)
		}
		if v, ok := rec["dur"].(int64); ok {
			impl["dur"] = strconv.FormatInt(v, 10)
		}
		tags := []string{"conv", kind}
		for _, k := range []string{"atoi", "bool", "dur"} {
			if impl[k] != nil {
				tags = append(tags, k+"=ok")
			}
		}
		if strings.Contains(w, ".") && impl["dur"] != nil {
			tags = append(tags, "dur-fraction")
		}
		c.Emit(J{"op": "conv.word", "w": w}, impl, tags...)
	}
	// fixed corpus first
	for _, w := range append(append([]string{}, boundaryInts...), "1h2m3.5s", "1.5h", ".5s", "1.s", "0.1234567890123456789h", "0.3333333333333333333h",
		"0.100000000000000000000h", "0.830103483285477580700h", "1µs", "1μs", "1us", "-1.5h", "+3ms", "3", "0", "-0", "") {
		emit(w, "corpus")
	}
	for i := 0; i < c.N; i++ {
		switch r.Intn(5) {
		case 0:
			emit(genInt(r), "int")
		case 1:
			emit(genBool(r), "bool")
		default:
			emit(genDur(r), "dur")
		}
	}
	// strings.Fields(strings.ToLower(comment[2:])) — what the mage:import tag recognition sees of a comment — against
	// Parse/Fields.lean (unicode.IsSpace, Fields, lower-casing over ASCII and Latin-1)
	blanks := []string{" ", "  ", "\t", "\u00a0", "\u0085", "\u2003", "\u3000", "\v", "\f", "\r", " \t "}
	wordsF := []string{"mage:import", "Mage:Import", "MAGE:IMPORT", "mage:imports", "mage", "import", "tl", "OPS", "X1", "Über", "ÉCLAIR", "a.b", "//", "*/", "mage:import,x", "é", "ß", "µ"}
	for i := 0; i < c.N/6+20; i++ {
		cm := []string{"//", "/*"}[r.Intn(2)]
		if r.Chance(1, 2) {
			cm += blanks[r.Intn(len(blanks))]
		}
		for k := 0; k < r.Intn(4); k++ {
			cm += wordsF[r.Intn(len(wordsF))]
			if r.Chance(5, 6) {
				cm += blanks[r.Intn(len(blanks))]
			}
		}
		fl := strings.Fields(strings.ToLower(cm[2:]))
		if fl == nil {
			fl = []string{}
		}
		c.Emit(J{"op": "conv.fields", "c": cm}, J{"fields": fl}, "fields", fmt.Sprintf("nf=%d", len(fl)))
	}
	// (*ast.CommentGroup).Text against Parse/DocText.lean: groups of raw comments of both styles, directives, blank and
	// blank-ended lines, tabs, CR, non-ASCII
	lineP := []string{"", " ", "Build does x.", " Build does x.  ", "  indented", "\ttabbed\t", "go:generate stringer", "go:build mage", "nolint:x", "line 12", "export Foo", "extern bar",
		"a:b", "A:b", "a:B", "a: b", ":x", "x:", "ünï:c", "a1:2 rest", "Deprecated: old.", " trailing\r", "é — dash", "   ", "\t", "TODO(x): y", "http://example.com"}
	for i := 0; i < c.N/6+20; i++ {
		var raw []string
		var list []*ast.Comment
		for k := 0; k < r.Intn(6); k++ {
			var t string
			if r.Chance(1, 6) {
				t = "/*" + lineP[r.Intn(len(lineP))]
				for m := 0; m < r.Intn(3); m++ {
					t += "\n" + lineP[r.Intn(len(lineP))]
				}
				t += "*/"
			} else {
				t = "//" + lineP[r.Intn(len(lineP))]
			}
			raw = append(raw, t)
			list = append(list, &ast.Comment{Text: t})
		}
		if raw == nil {
			raw = []string{}
		}
		c.Emit(J{"op": "conv.doctext", "comments": raw}, J{"text": (&ast.CommentGroup{List: list}).Text()}, "doctext", fmt.Sprintf("n=%d", len(raw)))
	}
	// time.Duration.String against Strconv.durString, and the round trip mage relies on (-t d travels as MAGEFILE_TIMEOUT=d.String())
	emitDur := func(d int64, kind string) {
		s := time.Duration(d).String()
		impl := J{"s": s, "back": nil}
		if v, err := time.ParseDuration(s); err == nil {
			impl["back"] = strconv.FormatInt(int64(v), 10)
		}
		c.Emit(J{"op": "conv.durfmt", "d": strconv.FormatInt(d, 10)}, impl, "durfmt", kind)
	}
	for _, d := range []int64{0, 1, 999, 1000, 1001, 999999, 1000000, 1000001, 999999999, 1000000000, 1000000001, 59999999999, 60000000000, 3599999999999, 3600000000000,
		3600000000001, 90061001001001, 9223372036854775807, -9223372036854775808, -1, -1500000000, 1500000000, 100, 1100, 1010000, 1000100000} {
		emitDur(d, "corpus")
	}
	for i := 0; i < c.N/4; i++ {
		var d int64
		switch r.Intn(5) {
		case 0:
			d = int64(r.U64())
		case 1:
			d = int64(r.U64() % 1000000000)
		case 2:
			d = int64(r.U64()%100000) * []int64{1, 1000, 1000000, 1000000000, 60000000000, 3600000000000}[r.Intn(6)]
		case 3:
			d = int64(r.U64() % 4000000000000000)
		default:
			d = int64(r.U64()%86400) * 1000000000
		}
		if r.Chance(1, 8) {
			d = -d
		}
		emitDur(d, "random")
	}
	if c.Tier == "thorough" {
		// small scope exhaustively: every word of length <= 4 over an alphabet of the syntax characters
		alpha := []string{"-", "+", "0", "1", "9", ".", "s", "m", "h", "n", "µ", "t", "_"}
		var rec func(prefix string, depth int)
		rec = func(prefix string, depth int) {
			emit(prefix, "exhaustive")
			if depth == 4 {
				return
			}
			for _, a := range alpha {
				rec(prefix+a, depth+1)
			}
		}
		rec("", 0)
	}
}
