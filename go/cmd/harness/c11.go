package main

// C11 — flags, environment, working directory and standard streams reach the targets unchanged.
// A probe target reports what it sees (accessors, context deadline, cwd, full environment, stdin digest) and a payload
// target writes known byte patterns to stdout and stderr; both are run through `mage` with generated flag /
// MAGEFILE_* / -d / -w combinations and through the -compile'd binary, and compared with the Lean model of the
// front end + generated main.

import (
	"bytes"
	"crypto/sha256"
	"encoding/hex"
	"encoding/json"
	"fmt"
	"os"
	"os/exec"
	"path/filepath"
	"runtime"
	"strings"
	"time"

	"verif/internal/rng"
)

func init() { streams["c11"] = c11 }

const c11Magefile = `//go:build mage

package main

import (
	"context"
	"crypto/sha256"
	"encoding/hex"
	"encoding/json"
	"fmt"
	"io"
	"os"
	"time"

	"github.com/magefile/mage/mg"
	"github.com/magefile/mage/sh"

	// mage:import
	_ "MODULE/tools"
)

var Default = Probe

// Probe reports what a target sees.
func Probe(ctx context.Context) error {
	cwd, _ := os.Getwd()
	in, _ := io.ReadAll(os.Stdin)
	sum := sha256.Sum256(in)
	rem := int64(0)
	if dl, ok := ctx.Deadline(); ok {
		rem = int64(time.Until(dl))
	}
	b, _ := json.Marshal(map[string]interface{}{"cwd": cwd, "env": os.Environ(), "verbose": mg.Verbose(), "debug": mg.Debug(),
		"gocmd": mg.GoCmd(), "plat": platName(), "remaining": rem, "stdin": hex.EncodeToString(sum[:]), "stdinLen": len(in)})
	fmt.Println("PROBE " + string(b))
	// the effect of -v on the sh helpers: a command's stdout is shown in verbose mode only
	sh.Run("echo", "SHMARK")
	return nil
}

func pattern(n int, salt byte) []byte {
	b := make([]byte, n)
	for i := range b {
		b[i] = byte(i*7+i/251) ^ salt
	}
	return b
}

// Payload writes n pattern bytes to stdout and m to stderr, interleaved in chunks.
func Payload(n int, m int) {
	o, e := pattern(n, 0x00), pattern(m, 0xa5)
	for len(o) > 0 || len(e) > 0 {
		k := 4096
		if len(o) > 0 {
			if k > len(o) {
				k = len(o)
			}
			os.Stdout.Write(o[:k])
			o = o[k:]
		}
		k = 1000
		if len(e) > 0 {
			if k > len(e) {
				k = len(e)
			}
			os.Stderr.Write(e[:k])
			e = e[k:]
		}
	}
}
`

func pattern(n int, salt byte) []byte {
	b := make([]byte, n)
	for i := range b {
		b[i] = byte(i*7+i/251) ^ salt
	}
	return b
}

var c11Funcs = []J{
	{"name": "Payload", "args": []string{"int", "int"}},
	{"name": "Probe", "args": []string{}, "err": true, "ctx": true},
}

type runResIO struct {
	stdout, stderr []byte
	status         int
}

func runCmdIO(dir string, env []string, stdin []byte, name string, args ...string) runResIO {
	cmd := exec.Command(name, args...)
	cmd.Dir = dir
	cmd.Env = env
	cmd.Stdin = bytes.NewReader(stdin)
	var o, e bytes.Buffer
	cmd.Stdout, cmd.Stderr = &o, &e
	done := make(chan error, 1)
	if err := cmd.Start(); err != nil {
		return runResIO{nil, []byte(err.Error()), -1}
	}
	go func() { done <- cmd.Wait() }()
	select {
	case err := <-done:
		st := 0
		if err != nil {
			if ee, ok := err.(*exec.ExitError); ok {
				st = ee.ExitCode()
			} else {
				st = -1
			}
		}
		return runResIO{o.Bytes(), e.Bytes(), st}
	case <-time.After(180 * time.Second):
		cmd.Process.Kill()
		return runResIO{o.Bytes(), append(e.Bytes(), []byte("\nTIMEOUT")...), -2}
	}
}

// warnLine: the first line is the generated main's "<date> <time> warning: environment variable MAGEFILE_… is not a valid …"
func warnLine(b []byte) bool {
	j := bytes.IndexByte(b, '\n')
	if j < 0 || j > 300 {
		return false
	}
	return bytes.Contains(b[:j], []byte("warning: environment variable MAGEFILE_"))
}

var c11Durations = []string{"1h", "90m", "2h", "3h30m"}

func envPairs(env []string, keep func(k string) bool) [][]string {
	out := [][]string{}
	for _, e := range env {
		kv := strings.SplitN(e, "=", 2)
		if keep(kv[0]) {
			out = append(out, []string{kv[0], kv[1]})
		}
	}
	return out
}

func c11(c *Ctx) {
	r := c.R
	mageBin := filepath.Join(os.Getenv("VERIF_BIN"), "mage")
	home := filepath.Join(c.Tmp, "home")
	os.MkdirAll(home, 0o755)
	root := filepath.Join(c.Tmp, "c11root")
	proj := filepath.Join(root, "proj")
	proj2 := filepath.Join(root, "proj2")
	work := filepath.Join(root, "work", "deep")
	os.MkdirAll(work, 0o755)
	// platName() is defined once per platform, in files selected by their _GOOS suffix: listing or compiling the
	// magefiles for a GOOS found in the caller's environment picks the wrong one (or none)
	platFile := func(goos string, tag bool) string {
		h := ""
		if tag {
			h = "//go:build mage\n\n"
		}
		return h + "package main\n\nfunc platName() string { return \"" + goos + "\" }\n"
	}
	others := []string{"plan9", "windows", "darwin", "linux"}
	// an imported package whose targets live in platform-specific files: which of them exist is decided by `go list`,
	// which must be asked for the host platform whatever GOOS/GOARCH the caller exports
	toolFile := func(goos string) string {
		return "package tools\n\n// Tool" + strings.Title(goos) + " exists on " + goos + " only.\nfunc Tool" + strings.Title(goos) + "() {}\n"
	}
	pf := map[string]string{"go.mod": goMod("c11proj"), "magefile.go": strings.Replace(c11Magefile, "MODULE", "c11proj", 1), "plat_" + runtime.GOOS + ".go": platFile(runtime.GOOS, true),
		"tools/doc.go": "// Package tools is mage:import'ed.\npackage tools\n", "tools/tool_" + runtime.GOOS + ".go": toolFile(runtime.GOOS)}
	pf2 := map[string]string{"go.mod": goMod("c11proj2"), "magefiles/magefile.go": strings.Replace(strings.Replace(c11Magefile, "//go:build mage\n\n", "", 1), "MODULE", "c11proj2", 1),
		"magefiles/plat_" + runtime.GOOS + ".go": platFile(runtime.GOOS, false), "tools/doc.go": "// Package tools is mage:import'ed.\npackage tools\n", "tools/tool_" + runtime.GOOS + ".go": toolFile(runtime.GOOS)}
	for _, o := range others {
		if o != runtime.GOOS {
			pf["plat_"+o+".go"] = platFile(o, true)
			pf2["magefiles/plat_"+o+".go"] = platFile(o, false)
			pf["tools/tool_"+o+".go"] = toolFile(o)
			pf2["tools/tool_"+o+".go"] = toolFile(o)
		}
	}
	writeFiles(proj, pf)
	writeFiles(proj2, pf2)
	proj3 := filepath.Join(root, "proj3")
	pf3 := map[string]string{"go.mod": goMod("c11proj3"), "magefiles/magefile.go": strings.Replace(c11Magefile, "MODULE", "c11proj3", 1),
		"magefiles/plat_" + runtime.GOOS + ".go": platFile(runtime.GOOS, true), "tools/doc.go": "// Package tools is mage:import'ed.\npackage tools\n", "tools/tool_" + runtime.GOOS + ".go": toolFile(runtime.GOOS)}
	writeFiles(proj3, pf3)
	// a second go command (for -gocmd / MAGEFILE_GOCMD)
	goWrap := filepath.Join(root, "mygo")
	os.WriteFile(goWrap, []byte("#!/bin/sh\nexec go \"$@\"\n"), 0o755)
	env := baseEnv(home)
	static := filepath.Join(root, "static.bin")
	if cr := runCmd(proj, env, mageBin, "-compile", static); cr.status != 0 {
		c.Emit(J{"op": "mage.probe", "way": "compile", "funcs": c11Funcs, "env": [][]string{}, "argv": []string{}, "cwd": root, "conv": J{}}, J{"how": "compile-failed", "stderr": cr.stderr}, "compile-failed")
		return
	}
	durfmt := J{}
	for _, d := range c11Durations {
		v, _ := time.ParseDuration(d)
		durfmt[fmt.Sprint(int64(v))] = v.String()
	}
	extraPool := []string{"VT_A=b=c d", "VT_EMPTY=", "VT_SP= leading and trailing ", "GOOS=plan9", "GOARCH=arm", "VT_UTF=ünï=ç", "VT_Q=\"quoted\" $HOME `x`", "GOFLAGS=-mod=mod", "VT_EQ==="}
	boolVals := []string{"1", "0", "true", "false", "T", "x", ""}

	for i := 0; i < c.N; i++ {
		way := []string{"mage", "mage", "static"}[r.Intn(3)]
		// the first case is fixed: the caller's environment names another go command and the flag names the default one
		// explicitly (`-gocmd go`): the flag wins, also when it spells the default
		explicitDefaultGo := i == 0
		if explicitDefaultGo {
			way = "mage"
		}
		var argv []string
		runEnv := append([]string{}, env...)
		tags := []string{"way=" + way}
		// environment equivalents
		if r.Chance(1, 3) {
			runEnv = append(runEnv, "MAGEFILE_VERBOSE="+boolVals[r.Intn(len(boolVals))])
			tags = append(tags, "env:verbose")
		}
		if r.Chance(1, 3) {
			runEnv = append(runEnv, "MAGEFILE_DEBUG="+boolVals[r.Intn(len(boolVals))])
			tags = append(tags, "env:debug")
		}
		if r.Chance(1, 4) {
			runEnv = append(runEnv, "MAGEFILE_TIMEOUT="+append(c11Durations, "bogus", "")[r.Intn(len(c11Durations)+2)])
			tags = append(tags, "env:timeout")
		}
		if r.Chance(1, 5) || explicitDefaultGo {
			runEnv = append(runEnv, "MAGEFILE_GOCMD="+goWrap)
			tags = append(tags, "env:gocmd")
		}
		nextra := r.Intn(4)
		for _, pi := range r.Perm(len(extraPool))[:nextra] {
			e := extraPool[pi]
			if strings.HasPrefix(e, "GOFLAGS=") {
				continue
			}
			runEnv = append(runEnv, e)
		}
		// flags
		switch r.Intn(5) {
		case 0:
			argv = append(argv, "-v")
		case 1:
			argv = append(argv, "-v=false")
		case 2:
			argv = append(argv, "-v=true")
		}
		explicitNonPositive := false
		if r.Chance(1, 3) {
			d := c11Durations[r.Intn(len(c11Durations))]
			if r.Chance(1, 8) {
				d = []string{"0", "0s", "-1h"}[r.Intn(3)]
				if way == "static" && d == "-1h" {
					d = "0" // an already expired deadline makes the compiled binary fail or not by the scheduler's choice: C12's business
				}
				explicitNonPositive = true
			}
			argv = append(argv, "-t", d)
		}
		cwd := proj
		layout := "plain"
		if way == "mage" {
			switch r.Intn(4) {
			case 0:
				argv = append(argv, "-debug")
			case 1:
				argv = append(argv, "-debug=false")
			}
			if r.Chance(1, 6) || explicitDefaultGo {
				g := goWrap
				if explicitDefaultGo || r.Chance(1, 3) {
					g = "go"
					tags = append(tags, "flag:gocmd=go")
				}
				argv = append(argv, "-gocmd", g)
			}
			// directories
			p := proj
			dsel := r.Intn(5)
			if r.Chance(1, 3) {
				p = proj2
				layout = "magefilesdir"
			} else if r.Chance(1, 5) || i == 1 {
				// -d names a directory that is itself called "magefiles" (an ordinary directory of tagged files): the
				// targets run there, not in its parent
				p = filepath.Join(proj3, "magefiles")
				layout = "d-is-magefiles"
				dsel = 1 + r.Intn(3)
			}
			switch dsel {
			case 0: // started inside
				cwd = p
			case 1: // relative -d from root
				cwd = root
				relp, _ := filepath.Rel(root, p)
				argv = append(argv, "-d", relp)
				layout += "+d-rel"
			case 2:
				cwd = work
				argv = append(argv, "-d", p)
				layout += "+d-abs"
			case 3:
				cwd = root
				relp, _ := filepath.Rel(root, p)
				argv = append(argv, "-d", "./work/../"+relp+"/")
				layout += "+d-unclean"
			case 4:
				cwd = p
			}
			switch r.Intn(5) {
			case 0:
				argv = append(argv, "-w", work)
				layout += "+w-abs"
			case 1:
				rel, _ := filepath.Rel(cwd, work)
				argv = append(argv, "-w", rel)
				layout += "+w-rel"
			case 2:
				argv = append(argv, "-w", ".")
				layout += "+w-dot"
			}
		} else {
			cwd = []string{proj, root, work}[r.Intn(3)]
		}
		tags = append(tags, "layout="+layout)
		payload := r.Chance(1, 4)
		var stdin []byte
		var n, m int
		if payload {
			sizes := []int{0, 1, 4095, 4096, 70000}
			if c.Tier == "thorough" {
				sizes = append(sizes, 4<<20)
			}
			n, m = sizes[r.Intn(len(sizes))], sizes[r.Intn(len(sizes))]
			argv = append(argv, "payload", fmt.Sprint(n), fmt.Sprint(m))
			tags = append(tags, "target=payload")
		} else {
			sz := []int{0, 1, 100, 65537}[r.Intn(4)]
			stdin = pattern(sz, byte(i))
			if r.Chance(1, 4) {
				tags = append(tags, "target=default") // no target word: the default target (Probe) runs
			} else {
				argv = append(argv, caseVariant(r, "probe"))
				tags = append(tags, "target=probe")
			}
		}
		if argv == nil {
			argv = []string{}
		}
		var rr runResIO
		if way == "mage" {
			rr = runCmdIO(cwd, runEnv, stdin, mageBin, argv...)
		} else {
			rr = runCmdIO(cwd, runEnv, stdin, static, argv...)
		}
		if explicitNonPositive {
			tags = append(tags, "C11:explicit-false-or-zero-flag-vs-env")
		}
		in := J{"op": "mage.probe", "way": way, "funcs": c11Funcs, "default": "Probe", "host": runtime.GOOS, "argv": argv, "cwd": cwd, "conv": convRecord(argv), "durfmt": durfmt,
			"env": envPairs(runEnv, func(k string) bool { return strings.HasPrefix(k, "MAGEFILE_") || k == "HOME" })}
		// MAGEFILE_TIMEOUT values need a conversion record too
		conv := in["conv"].(J)
		for _, d := range c11Durations {
			v, _ := time.ParseDuration(d)
			for k, rec := range convRecord([]string{v.String()}) {
				conv[k] = rec
			}
		}
		for _, e := range runEnv {
			if strings.HasPrefix(e, "MAGEFILE_TIMEOUT=") {
				for k, v := range convRecord([]string{strings.TrimPrefix(e, "MAGEFILE_TIMEOUT=")}) {
					conv[k] = v
				}
			}
		}
		impl := J{"how": "other", "status": rr.status}
		if payload {
			so, se := "same", "same"
			if !bytes.Equal(rr.stdout, pattern(n, 0)) {
				so = fmt.Sprintf("different (%d bytes, want %d)", len(rr.stdout), n)
			}
			want := pattern(m, 0xa5)
			// verbose runs log the target name before it starts
			// (and the generated main warns about MAGEFILE_* values it cannot parse)
			got := rr.stderr
			for {
				if bytes.HasPrefix(got, []byte("Running target: Payload\n")) || warnLine(got) {
					if j := bytes.IndexByte(got, '\n'); j >= 0 {
						got = got[j+1:]
						continue
					}
				}
				break
			}
			if !bytes.Equal(got, want) {
				// with -debug / MAGEFILE_DEBUG the front end writes its own DEBUG lines to the same stream before the
				// target starts: the payload must then be the tail of the stream (after the verbose line)
				dbg := bytes.Contains(rr.stderr, []byte("DEBUG: "))
				if !(dbg && bytes.HasSuffix(rr.stderr, want) && way == "mage") {
					se = fmt.Sprintf("different (%d bytes, want %d)", len(rr.stderr), m)
				}
			}
			impl["stdout"], impl["stderr"] = so, se
			in["project"] = "payload"
		} else {
			var p struct {
				Plat      string
				Cwd       string
				Env       []string
				Verbose   bool
				Debug     bool
				Gocmd     string
				Remaining int64
				Stdin     string
				StdinLen  int
			}
			found := false
			for _, l := range strings.Split(string(rr.stdout), "\n") {
				if strings.HasPrefix(l, "PROBE ") {
					if json.Unmarshal([]byte(l[6:]), &p) == nil {
						found = true
					}
				}
			}
			if !found {
				impl["how"] = "no-probe: " + strings.TrimSpace(string(rr.stderr))
			} else {
				impl["verbose"], impl["debug"], impl["gocmd"], impl["cwd"], impl["plat"] = p.Verbose, p.Debug, p.Gocmd, p.Cwd, p.Plat
				impl["shShown"] = strings.Contains(string(rr.stdout), "SHMARK\n")
				// deadline: nearest candidate duration (the probe runs within seconds of the start)
				to := int64(0)
				if p.Remaining != 0 {
					to = p.Remaining
					for _, d := range c11Durations {
						v, _ := time.ParseDuration(d)
						if diff := int64(v) - p.Remaining; diff >= 0 && diff < int64(2*time.Minute) {
							to = int64(v)
						}
					}
					if p.Remaining < 0 {
						to = -1 // already expired
					}
				}
				impl["timeout"] = fmt.Sprint(to)
				sum := sha256.Sum256(stdin)
				if p.Stdin == hex.EncodeToString(sum[:]) && p.StdinLen == len(stdin) {
					impl["stdin"] = "same"
				} else {
					impl["stdin"] = fmt.Sprintf("different (%d bytes, sent %d)", p.StdinLen, len(stdin))
				}
				// environment: every caller binding that is not one of the six variables mage sets arrives unchanged, and
				// nothing else appears
				childEnv := map[string]string{}
				for _, e := range p.Env {
					kv := strings.SplitN(e, "=", 2)
					childEnv[kv[0]] = kv[1]
				}
				set := map[string]bool{"MAGEFILE_VERBOSE": true, "MAGEFILE_LIST": true, "MAGEFILE_HELP": true, "MAGEFILE_DEBUG": true, "MAGEFILE_GOCMD": true, "MAGEFILE_TIMEOUT": true}
				diff := []string{}
				callerEnv := map[string]string{}
				for _, e := range runEnv {
					kv := strings.SplitN(e, "=", 2)
					callerEnv[kv[0]] = kv[1] // last binding wins, as in os/exec
				}
				for k, v := range callerEnv {
					if set[k] {
						continue
					}
					if cv, ok := childEnv[k]; !ok || cv != v {
						diff = append(diff, k)
					}
				}
				for k := range childEnv {
					if _, ok := callerEnv[k]; !ok && !set[k] && k != "PWD" {
						diff = append(diff, "+"+k)
					}
				}
				if len(diff) == 0 {
					impl["env"] = "same"
				} else {
					impl["env"] = "different: " + strings.Join(diff, ",")
				}
			}
		}
		c.Emit(in, impl, tags...)
	}
	// pairs: the same flags and environment through `mage` and through the compiled binary must have the same effect
	type eff struct {
		How     string
		Verbose bool
		Timeout string
		Status  int
	}
	observe := func(rr runResIO) eff {
		e := eff{How: howClass(runRes{string(rr.stdout), string(rr.stderr), rr.status}), Status: rr.status}
		for _, l := range strings.Split(string(rr.stdout), "\n") {
			if strings.HasPrefix(l, "PROBE ") {
				var p struct {
					Verbose   bool
					Remaining int64
				}
				if json.Unmarshal([]byte(l[6:]), &p) == nil {
					e.How = "probe"
					e.Verbose = p.Verbose
					e.Timeout = "none"
					if p.Remaining < 0 {
						e.Timeout = "expired"
					} else if p.Remaining > 0 {
						e.Timeout = fmt.Sprint((p.Remaining + int64(2*time.Minute)) / int64(30*time.Minute))
					}
				}
			}
		}
		return e
	}
	npairs := c.N / 3
	for i := 0; i < npairs; i++ {
		var flags []string
		runEnv := append([]string{}, env...)
		known := false
		envSet := map[string]string{}
		for _, k := range []string{"MAGEFILE_VERBOSE", "MAGEFILE_LIST", "MAGEFILE_HELP", "MAGEFILE_TIMEOUT"} {
			if r.Chance(1, 4) {
				v := boolVals[r.Intn(len(boolVals))]
				if k == "MAGEFILE_TIMEOUT" {
					v = c11Durations[r.Intn(len(c11Durations))]
				}
				envSet[k] = v
				runEnv = append(runEnv, k+"="+v)
			}
		}
		truthy := func(k string) bool { v := envSet[k]; return v == "1" || v == "true" || v == "T" }
		switch r.Intn(4) {
		case 0:
			flags = append(flags, "-v")
		case 1:
			flags = append(flags, "-v=false")
		}
		switch r.Intn(8) {
		case 0:
			flags = append(flags, "-l")
		case 1:
			flags = append(flags, "-l=false")
			known = known || truthy("MAGEFILE_LIST")
		}
		switch r.Intn(8) {
		case 0:
			flags = append(flags, "-h")
		case 1:
			flags = append(flags, "-h=false")
			known = known || truthy("MAGEFILE_HELP")
		}
		switch r.Intn(6) {
		case 0, 1:
			flags = append(flags, "-t", c11Durations[r.Intn(len(c11Durations))])
		case 2:
			flags = append(flags, "-t", []string{"0", "0s"}[r.Intn(2)])
			known = known || envSet["MAGEFILE_TIMEOUT"] != ""
		case 3:
			flags = append(flags, "-t", "-1h")
			known = true
		}
		argv := append(append([]string{}, flags...), "probe")
		a := observe(runCmdIO(proj, runEnv, nil, mageBin, argv...))
		b := observe(runCmdIO(proj, runEnv, nil, static, argv...))
		tags := []string{"class=pair"}
		if known {
			tags = append(tags, "C11:explicit-false-or-zero-flag-vs-env")
		}
		in := J{"op": "mage.pair", "argv": argv, "env": envPairs(runEnv, func(k string) bool { return strings.HasPrefix(k, "MAGEFILE_") && k != "MAGEFILE_CACHE" })}
		c.Emit(in, J{"same_effect": a == b, "mage": fmt.Sprintf("%+v", a), "compiled": fmt.Sprintf("%+v", b)}, tags...)
	}
	os.RemoveAll(root)
}

var _ = rng.New
