package main

// Front end, ring (iii): generated projects compiled by the real `mage` (built from /repo's working tree) and run on
// generated command lines three ways — through `mage`, through the cached binary (MAGEFILE_HASHFAST) and through a
// `-compile`d binary — compared with the Lean interpreter of the generated dispatcher.

import (
	"bytes"
	"unicode/utf8"
	"encoding/json"
	"fmt"
	"os"
	"os/exec"
	"path/filepath"
	"regexp"
	"sort"
	"strconv"
	"strings"
	"time"

	"verif/internal/proj"
	"verif/internal/rng"
)

func init() { streams["ferun"] = ferun }

type runRes struct {
	stdout, stderr string
	status         int
}

func runCmd(dir string, env []string, name string, args ...string) runRes {
	cmd := exec.Command(name, args...)
	cmd.Dir = dir
	cmd.Env = env
	var o, e bytes.Buffer
	cmd.Stdout, cmd.Stderr = &o, &e
	done := make(chan error, 1)
	if err := cmd.Start(); err != nil {
		return runRes{"", err.Error(), -1}
	}
	go func() { done <- cmd.Wait() }()
	select {
	case err := <-done:
		st := 0
		if err != nil {
			if ee, ok := err.(*exec.ExitError); ok {
				st = ee.ExitCode()
			} else {
				st = -1
			}
		}
		return runRes{o.String(), e.String(), st}
	case <-time.After(120 * time.Second):
		cmd.Process.Kill()
		return runRes{o.String(), e.String() + "\nTIMEOUT", -2}
	}
}

// baseEnv is a private environment for mage processes: own HOME and cache, offline Go.
func baseEnv(home string, extra ...string) []string {
	env := []string{"HOME=" + home, "PATH=" + os.Getenv("PATH"), "GOFLAGS=-mod=mod", "GOPROXY=off", "GOSUMDB=off", "GOTOOLCHAIN=local",
		"GOCACHE=" + goCacheDir(), "GOMODCACHE=" + goEnv("GOMODCACHE"), "GOPATH=" + goEnv("GOPATH"), "CGO_ENABLED=0",
		"MAGEFILE_CACHE=" + filepath.Join(home, "magecache")}
	return append(env, extra...)
}

var goEnvCache = map[string]string{}

func goEnv(k string) string {
	if v, ok := goEnvCache[k]; ok {
		return v
	}
	out, _ := exec.Command("go", "env", k).Output()
	goEnvCache[k] = strings.TrimSpace(string(out))
	return goEnvCache[k]
}
func goCacheDir() string { return goEnv("GOCACHE") }

var callRx = regexp.MustCompile(`(?m)^CALL (.*)$`)

func parseCalls(out string) [][]string {
	calls := [][]string{}
	for _, m := range callRx.FindAllStringSubmatch(out, -1) {
		rest := m[1]
		var toks []string
		for len(rest) > 0 {
			rest = strings.TrimLeft(rest, " ")
			if rest == "" {
				break
			}
			q, err := strconv.QuotedPrefix(rest)
			if err != nil {
				toks = append(toks, "<<unparsable>>"+rest)
				break
			}
			u, _ := strconv.Unquote(q)
			toks = append(toks, u)
			rest = rest[len(q):]
		}
		calls = append(calls, toks)
	}
	return calls
}

func classifyStop(r runRes) string {
	e := r.stderr
	switch {
	case strings.Contains(e, "Unknown target specified"):
		return "unknownTarget"
	case strings.Contains(e, "not enough arguments for target"):
		return "notEnoughArgs"
	case strings.Contains(e, "can't convert argument") && strings.Contains(e, "to int"):
		return "badArg:int"
	case strings.Contains(e, "can't convert argument") && strings.Contains(e, "to bool"):
		return "badArg:bool"
	case strings.Contains(e, "can't convert argument") && strings.Contains(e, "to time.Duration"):
		return "badArg:time.Duration"
	case strings.Contains(e, "requested failure"):
		return "targetFailed"
	}
	if r.status == 0 {
		return "done"
	}
	return "other:" + strings.TrimSpace(e)
}

func convRecord(words []string) J {
	out := J{}
	for _, w := range words {
		rec := J{"atoi": nil, "bool": nil, "dur": nil}
		if v, err := strconv.Atoi(w); err == nil {
			rec["atoi"] = v
		}
		if v, err := strconv.ParseBool(w); err == nil {
			rec["bool"] = v
		}
		if v, err := time.ParseDuration(w); err == nil {
			rec["dur"] = int64(v)
		}
		out[w] = rec
	}
	return out
}

type nameTarget struct {
	word  string // a spelling that should resolve
	types []string
	id    string
}

func swapCase(s string) string {
	b := []byte(s)
	for i := range b {
		if b[i] >= 'a' && b[i] <= 'z' {
			b[i] -= 32
		} else if b[i] >= 'A' && b[i] <= 'Z' {
			b[i] += 32
		}
	}
	return string(b)
}

func caseVariant(r *rng.R, s string) string {
	switch r.Intn(4) {
	case 0:
		return strings.ToLower(s)
	case 1:
		return strings.ToUpper(s)
	case 2:
		b := []byte(s)
		for i := range b {
			if r.Bool() {
				if b[i] >= 'a' && b[i] <= 'z' {
					b[i] -= 32
				} else if b[i] >= 'A' && b[i] <= 'Z' {
					b[i] += 32
				}
			}
		}
		return string(b)
	}
	return s
}

var argWords = map[string][]string{
	"string":        {"hello", "", "a b", "Build", "-l", "--", "-v", "ünï", "5", "true", "build", "x:y"},
	"int":           {"0", "7", "-3", "+4", "007", "2147483648", "x1", "0x10", "1_0", "", " 5", "1e3", "９"},
	"bool":          {"true", "false", "1", "0", "T", "F", "TRUE", "yes", "", "tRuE", "t"},
	"time.Duration": {"1s", "5m30s", "0", "1.5h", "-2ms", "1", "s", "", "1d", "100us", "1h1h"},
}

func ferun(c *Ctx) {
	r := c.R
	mageBin := filepath.Join(os.Getenv("VERIF_BIN"), "mage")
	if _, err := os.Stat(mageBin); err != nil {
		panic("mage binary not built: " + mageBin)
	}
	home := filepath.Join(c.Tmp, "home")
	os.MkdirAll(home, 0o755)
	nproj := c.N
	lines := 24
	if c.Tier == "thorough" {
		lines = 80
	}
	// a fixed project first: an alias of an *imported* function whose local namesake is a target of its own —
	// `-h` must attribute the alias to the target it runs
	{
		mod := "example.com/namesake"
		path := mod + "/imp/d0/tools"
		fn := func(doc string) proj.FuncDecl {
			return proj.FuncDecl{Name: "Build", Params: []proj.Field{}, Results: []proj.Field{}, Doc: doc}
		}
		p := &proj.Project{Module: mod, World: map[string]proj.Imported{path: {Name: "tools", Pkg: proj.Pkg{Files: []proj.File{{Name: "lib0.go",
			Imports: []proj.ImportSpec{}, Funcs: []proj.FuncDecl{fn("Build builds with the tools.")}, Types: []proj.TypeDecl{}}}}}},
			Main: proj.Pkg{Files: []proj.File{{Name: "magefile0.go", Funcs: []proj.FuncDecl{fn("Build builds locally.")}, Types: []proj.TypeDecl{},
				Imports: []proj.ImportSpec{{Path: path, Local: "", Paren: true, N: 1, Doc: []string{"// mage:import t"}}},
				HasAl:   true, Aliases: []proj.AliasEntry{{Key: "b", Ref: proj.FnRef{K: "sel", A: "tools", B: "Build"}}}}}}}
		dir := filepath.Join(c.Tmp, "namesake")
		writeProject(dir, p)
		env := baseEnv(home)
		static := filepath.Join(dir, "static.bin")
		fields := commentFields(p)
		dt, sy := docMaps(p)
		if cr := runCmd(dir, env, mageBin, "-compile", static); cr.status != 0 {
			c.Emit(J{"op": "fe.run", "project": p, "fields": fields, "words": []string{}, "conv": J{}}, J{"build": classifyMsg(strings.TrimPrefix(cr.stderr, "Error: ")), "status": cr.status}, "fixed=namesake-alias", "not-built")
		} else {
			hw := []string{"build", "t:build", "b"}
			help := [][]interface{}{}
			for _, w := range hw {
				h := runCmd(dir, env, static, "-h", w)
				help = append(help, []interface{}{h.stdout, h.status})
			}
			l := runCmd(dir, env, static, "-l")
			c.Emit(J{"op": "fe.text", "project": p, "fields": fields, "docText": dt, "syn": sy, "bin": "static.bin", "helpWords": hw, "colorEnv": [][]string{}, "wantUsage": true},
				J{"list": l.stdout, "listColor": l.stdout, "help": help, "usage": runCmd(dir, env, static, "-h").stdout}, "text", "fixed=namesake-alias")
			for _, words := range [][]string{{"b"}, {"build"}, {"T:Build", "B"}} {
				rr := runCmd(dir, env, static, words...)
				c.Emit(J{"op": "fe.run", "project": p, "fields": fields, "words": words, "conv": convRecord(words), "fail": "", "ignoreDefault": false},
					J{"calls": parseCalls(rr.stdout), "status": rr.status, "stop": classifyStop(rr), "listed": strings.Contains(rr.stdout, "Targets:")}, "fixed=namesake-alias")
			}
		}
		os.RemoveAll(dir)
	}
	for pi := 0; pi < nproj; pi++ {
		g := &proj.Gen{R: r, BadSigs: r.Chance(1, 2), Imports: true, TagShapes: r.Chance(1, 3), Platform: pi%2 == 1 || r.Chance(1, 3)}
		if c.Prop == "C07" {
			g.Collisions = true // end to end: a colliding magefile must make mage exit 1 and name the definitions
		}
		p := g.Generate(1000 + pi)
		if c.Prop == "C07" {
			injectCollision(r, p)
			lines = 6
		}
		dir := filepath.Join(c.Tmp, fmt.Sprintf("run%d", pi))
		// where mage is started from: inside the magefile directory; from a directory outside the magefile's module
		// with -d; or above a `magefiles` directory that is its own module
		layout := []string{"inside", "d-from-outside", "magefiles-own-module", "inside"}[(pi+r.Intn(2))%4]
		startCwd, dflags := dir, []string{}
		projRoot := dir
		if layout == "magefiles-own-module" {
			projRoot = filepath.Join(dir, "magefiles")
		}
		switch layout {
		case "d-from-outside":
			writeProject(dir, p)
			startCwd = filepath.Join(c.Tmp, fmt.Sprintf("elsewhere%d", pi))
			os.MkdirAll(startCwd, 0o755)
			dflags = []string{"-d", dir}
			if r.Bool() {
				dflags = []string{"-d", filepath.Join("..", filepath.Base(dir))}
			}
		case "magefiles-own-module":
			writeProject(filepath.Join(dir, "magefiles"), p)
		default:
			writeProject(dir, p)
		}
		runAny := func(exe string, env []string, args ...string) runRes {
			if exe == mageBin {
				return runCmd(startCwd, env, mageBin, append(append([]string{}, dflags...), args...)...)
			}
			return runCmd(dir, env, exe, args...)
		}
		fields := commentFields(p)
		env := baseEnv(home)
		plat := "env-platform=inherit"
		if len(p.Foreign) > 0 && r.Chance(2, 3) {
			// mage itself is started with another platform in its environment: what it builds and lists must not change
			kv := []string{"GOOS=plan9", "GOOS=windows", "GOARCH=386"}[r.Intn(3)]
			env = append(env, kv)
			plat = "env-platform=" + kv
		}
		// compile once, statically
		static := filepath.Join(dir, "static.bin")
		cr := runAny(mageBin, env, "-compile", static)
		if cr.status != 0 {
			// not buildable.  A project the go tool itself rejects (a slip of the generator, e.g. a function named like a
			// type) says nothing about mage: it is skipped, not compared
			if strings.Contains(cr.stderr, "error compiling magefiles") {
				if gv := runCmd(projRoot, env, "go", "vet", "-tags", "mage", "."); gv.status != 0 && !strings.Contains(gv.stderr, "mage_output_file.go") {
					os.RemoveAll(dir)
					continue
				}
			}
			// report (the oracle says whether the package should have been rejected)
			c.Emit(J{"op": "fe.run", "project": p, "fields": fields, "words": []string{}, "conv": J{}}, J{"build": classifyMsg(strings.TrimPrefix(cr.stderr, "Error: ")), "status": cr.status}, "not-built")
			os.RemoveAll(dir)
			continue
		}
		// names that resolve
		var names []nameTarget
		addPkg := func(pk proj.Pkg, alias, path string) {
			for _, t := range proj.Targets(pk) {
				parts := []string{}
				for _, s := range []string{alias, t.Recv, t.Name} {
					if s != "" {
						parts = append(parts, s)
					}
				}
				names = append(names, nameTarget{word: strings.Join(parts, ":"), types: t.ArgTypes})
			}
		}
		addPkg(p.Main, "", "")
		for _, f := range p.Main.Files {
			for _, a := range f.Aliases {
				names = append(names, nameTarget{word: a.Key, types: nil}) // arity unknown here: the model decides
			}
		}
		// imported: aliases are in the tags; use `-l` output to learn the names instead
		lr := runCmd(dir, env, static, "-l")
		listed := parseListing(lr.stdout)
		for _, n := range listed {
			names = append(names, nameTarget{word: strings.TrimSuffix(n, "*")})
		}
		if len(names) == 0 {
			names = append(names, nameTarget{word: "nothing"})
		}
		// the text of -l and of -h <word>, through the compiled binary and through mage (its binary name is "mage")
		{
			dt, sy := docMaps(p)
			for _, way := range []string{"static", "mage"} {
				bin, exe := "static.bin", static
				if way == "mage" {
					bin, exe = "mage", mageBin
				}
				var hw []string
				for k := 0; k < 4; k++ {
					w := caseVariant(r, names[r.Intn(len(names))].word)
					if r.Chance(1, 8) {
						w += "x"
					}
					hw = append(hw, w)
				}
				l := runAny(exe, env, "-l")
				help := [][]interface{}{}
				for _, w := range hw {
					h := runAny(exe, env, "-h", w)
					help = append(help, []interface{}{h.stdout, h.status})
				}
				// the same list with the colour variables set
				colorEnv := [][]string{}
				cenv := append([]string{}, env...)
				for _, kv := range [][]string{
					{"MAGEFILE_ENABLE_COLOR", []string{"1", "true", "TRUE", "yes", "0", ""}[r.Intn(6)]},
					{"MAGEFILE_TARGET_COLOR", []string{"Red", "brightBLUE", "cyan", "nocolor", "", "BrightWhite", "black"}[r.Intn(7)]},
					{"TERM", []string{"xterm", "vt100", "cygwin", "xterm-mono", "", "xterm-256color"}[r.Intn(6)]}} {
					if r.Chance(3, 4) {
						colorEnv = append(colorEnv, kv)
						cenv = append(cenv, kv[0]+"="+kv[1])
					}
				}
				lc := runAny(exe, cenv, "-l")
				impl := J{"list": l.stdout, "listColor": lc.stdout, "help": help}
				impl["usage"] = runAny(exe, env, "-h").stdout // through mage this is the front end's own usage: not compared
				if l.status != 0 {
					impl["listStatus"] = l.status
					impl["stderr"] = l.stderr
				}
				c.Emit(J{"op": "fe.text", "project": p, "fields": fields, "docText": dt, "syn": sy, "bin": bin, "helpWords": hw, "colorEnv": colorEnv, "wantUsage": way == "static"}, impl, "text", "way="+way, fmt.Sprintf("colored=%v", strings.Contains(lc.stdout, "\x1b[")))
			}
		}
		arity := map[string][]string{}
		for _, n := range names {
			if n.types != nil {
				arity[strings.ToLower(n.word)] = n.types
			}
		}
		for li := 0; li < lines; li++ {
			var words []string
			nt := 1 + r.Intn(3)
			if r.Chance(1, 10) {
				nt = 0
			}
			for k := 0; k < nt; k++ {
				n := names[r.Intn(len(names))]
				w := caseVariant(r, n.word)
				if r.Chance(1, 12) {
					w = []string{"nosuch", "buil", w + "x", ":" + w, w + ":"}[r.Intn(5)]
				}
				words = append(words, w)
				types := arity[strings.ToLower(n.word)]
				if types == nil && r.Chance(1, 2) {
					types = []string{"string"}
				}
				for ai, ty := range types {
					if r.Chance(1, 14) && ai == len(types)-1 {
						break // missing last argument
					}
					pool := argWords[ty]
					w := pool[r.Intn(len(pool))]
					if r.Chance(1, 10) {
						w = names[r.Intn(len(names))].word // an argument that looks like a target
					}
					words = append(words, w)
				}
			}
			if words == nil {
				words = []string{}
			}
			fail := ""
			ignoreDefault := r.Chance(1, 6) && len(words) == 0
			extra := []string{}
			if r.Chance(1, 6) && len(listed) > 0 {
				// make some callee fail: ids are known to the model; pick by listing position via the oracle? use env with a target id guess
				fail = pickCalleeID(r, p)
				extra = append(extra, "VT_FAIL="+fail)
			}
			if ignoreDefault {
				extra = append(extra, "MAGEFILE_IGNOREDEFAULT=1")
			}
			runEnv := append(append([]string{}, env...), extra...)
			argv := words
			if len(words) > 0 && strings.HasPrefix(words[0], "-") {
				argv = append([]string{"--"}, words...)
			}
			way := "static"
			var rr runRes
			switch r.Intn(6) {
			case 0:
				way = "mage"
				rr = runAny(mageBin, runEnv, argv...)
			case 1:
				way = "hashfast"
				rr = runAny(mageBin, append(runEnv, "MAGEFILE_HASHFAST=1"), argv...)
			default:
				rr = runCmd(dir, runEnv, static, argv...)
			}
			calls := parseCalls(rr.stdout)
			impl := J{"calls": calls, "status": rr.status, "stop": classifyStop(rr), "listed": strings.Contains(rr.stdout, "Targets:")}
			in := J{"op": "fe.run", "project": p, "fields": fields, "words": words, "conv": convRecord(words), "fail": fail, "ignoreDefault": ignoreDefault}
			c.Emit(in, impl, "way="+way, fmt.Sprintf("targets=%d", nt), "stop="+fmt.Sprint(impl["stop"]), plat, fmt.Sprintf("foreign-files=%v", len(p.Foreign) > 0), "start="+layout)
		}
		// C07: a collision that appears later, in an imported package, after mage has a binary for these (unchanged)
		// magefiles in its cache — and with a go build cache directory that does not exist yet
		if c.Prop == "C07" && len(p.World) > 0 {
			runAny(mageBin, env, "-l")
			var p2 proj.Project
			if b, err := json.Marshal(p); err == nil && json.Unmarshal(b, &p2) == nil {
				p2.Foreign = p.Foreign
				var paths []string
				for path := range p2.World {
					paths = append(paths, path)
				}
				sort.Strings(paths)
				done := false
				for _, path := range paths {
					im := p2.World[path]
					for fi := range im.Pkg.Files {
						for _, d := range im.Pkg.Files[fi].Funcs {
							if done || d.Recv != nil || d.TParams != "" || len(d.Name) < 2 {
								continue
							}
							if ok, _ := proj.ValidSig(d); !ok || !proj.ExportedName(d.Name) {
								continue
							}
							twin := d
							_, n0 := utf8.DecodeRuneInString(d.Name)
							twin.Name = d.Name[:n0] + swapCase(d.Name[n0:])
							if twin.Name == d.Name {
								continue
							}
							im.Pkg.Files[fi].Funcs = append(im.Pkg.Files[fi].Funcs, twin)
							p2.World[path] = im
							done = true
						}
					}
				}
				if done {
					writeProject(projRoot, &p2)
					env2 := append(append([]string{}, env...), "GOCACHE="+filepath.Join(c.Tmp, fmt.Sprintf("no-such-gocache-%d", pi)))
					rr := runAny(mageBin, env2, "-l")
					// (the twin collides only if its package is really imported: the model decides, as for any package)
					impl := J{"build": classifyMsg(strings.TrimPrefix(rr.stderr, "Error: ")), "status": rr.status}
					if rr.status == 0 {
						impl = J{"accepted": true}
					}
					dt, sy := docMaps(&p2)
					c.Emit(J{"op": "fe.accepts", "project": &p2, "fields": commentFields(&p2), "docText": dt, "syn": sy}, impl, "late-collision", "start="+layout, fmt.Sprintf("rejected=%v", rr.status != 0))
				}
			}
		}
		os.RemoveAll(dir)
	}
}

func classifyBuild(stderr string) string {
	switch {
	case strings.Contains(stderr, "Build targets must be case insensitive"):
		return "caseConflict"
	case strings.Contains(stderr, "target has multiple definitions"):
		return "multipleDefs"
	case strings.Contains(stderr, "duplicates existing target"):
		return "aliasDup"
	}
	return "other: " + strings.TrimSpace(stderr)
}

var listLineRx = regexp.MustCompile(`(?m)^  (\S+)`)

func parseListing(out string) []string {
	i := strings.Index(out, "Targets:")
	if i < 0 {
		return nil
	}
	var names []string
	for _, m := range listLineRx.FindAllStringSubmatch(out[i:], -1) {
		names = append(names, m[1])
	}
	sort.Strings(names)
	return names
}

func pickCalleeID(r *rng.R, p *proj.Project) string {
	var ids []string
	add := func(pk proj.Pkg, path string) {
		for _, t := range proj.Targets(pk) {
			if !t.IsErr {
				continue
			}
			pp := "<current>"
			if path != "" {
				pp = path
			}
			rc := ""
			if t.Recv != "" {
				rc = t.Recv + "."
			}
			ids = append(ids, pp+"."+rc+t.Name)
		}
	}
	add(p.Main, "")
	for path, imp := range p.World {
		add(imp.Pkg, path)
	}
	sort.Strings(ids)
	if len(ids) == 0 {
		return "none"
	}
	return ids[r.Intn(len(ids))]
}
