package main

// C08 — mage always runs code built from the current magefile contents.
// (a) in-process mage.ExeName on generated file sets (permutations, renames, duplicates, single-byte edits, sizes up
//     to 1 MiB) compared for equality of the actual file name with the Lean SHA-1 model;
// (b) real histories of edit / add / remove / rename / revert / clean / run operations on a project whose target
//     prints a token taken from its own source, in both cache modes and with -f, with absolute and relative cache
//     directories and four directory layouts: printed token, rebuild-or-reuse (from -debug) and the location of the
//     executable against the model replaying the same history.

import (
	"encoding/hex"
	"fmt"
	"os"
	"os/exec"
	"path/filepath"
	"regexp"
	"sort"
	"strings"

	"github.com/magefile/mage/mage"

	"verif/internal/rng"
)

func init() { streams["c08"] = c08 }

func goVersionString() string {
	out, _ := exec.Command("go", "version").Output()
	return strings.TrimSpace(string(out))
}

func randBytes(r *rng.R, n int) []byte {
	b := make([]byte, n)
	for i := range b {
		b[i] = byte(r.U64())
	}
	return b
}

var exeLineRx = regexp.MustCompile(`output exe is\s+(\S+)`)

func c08(c *Ctx) {
	r := c.R
	ver := goVersionString()
	// ---------- (a) names ----------
	sizes := []int{0, 1, 2, 55, 56, 63, 64, 65, 119, 120, 1000, 4096, 65536}
	if c.Tier == "thorough" {
		sizes = append(sizes, 1<<20)
	}
	for i := 0; i < c.N; i++ {
		dir := filepath.Join(c.Tmp, fmt.Sprintf("c08n%d", i))
		os.MkdirAll(dir, 0o755)
		nf := 1 + r.Intn(5)
		var contents [][]byte
		for k := 0; k < nf; k++ {
			var b []byte
			switch {
			case k > 0 && r.Chance(1, 5):
				b = append([]byte{}, contents[r.Intn(k)]...) // duplicate contents under another name
			case k > 0 && r.Chance(1, 4):
				b = append([]byte{}, contents[r.Intn(k)]...) // single-byte edit of an earlier file
				if len(b) > 0 {
					b[r.Intn(len(b))] ^= byte(1 << uint(r.Intn(8)))
				} else {
					b = []byte{0}
				}
			default:
				b = randBytes(r, sizes[r.Intn(len(sizes))])
			}
			contents = append(contents, b)
		}
		variants := 1 + r.Intn(3)
		for v := 0; v < variants; v++ {
			// the same contents under fresh names and in a fresh order
			perm := r.Perm(nf)
			var paths []string
			var hexes []string
			for _, pi := range perm {
				p := filepath.Join(dir, fmt.Sprintf("f%d_%d_%d.go", v, pi, r.Intn(1000)))
				os.WriteFile(p, contents[pi], 0o644)
				paths = append(paths, p)
				hexes = append(hexes, hex.EncodeToString(contents[pi]))
			}
			cacheDir := []string{"/some/cache", "rel/cache", ".", "/a//b/../c/", ""}[r.Intn(5)]
			got, err := mage.ExeName("go", cacheDir, paths)
			impl := J{}
			if err != nil {
				impl["error"] = err.Error()
			} else {
				impl["path"] = got
			}
			c.Emit(J{"op": "c08.name", "files": hexes, "ver": ver, "cacheDir": cacheDir}, impl, fmt.Sprintf("files=%d", nf), fmt.Sprintf("variant=%d", v))
		}
		os.RemoveAll(dir)
	}

	// ---------- (b) histories ----------
	mageBin := filepath.Join(os.Getenv("VERIF_BIN"), "mage")
	if _, err := os.Stat(mageBin); err != nil {
		return
	}
	nh := c.N / 12
	if nh < 2 {
		nh = 2
	}
	magefile := func(token string, extra bool) string {
		s := "//go:build mage\n\npackage main\n\nimport \"fmt\"\n\nfunc Token() { fmt.Println(\"TOKEN " + token + "\") }\n"
		if extra {
			s += "\nfunc Extra() {}\n"
		}
		return s
	}
	for h := 0; h < nh; h++ {
		root := filepath.Join(c.Tmp, fmt.Sprintf("c08h%d", h))
		home := filepath.Join(root, "home")
		os.MkdirAll(home, 0o755)
		layout := []string{"plain", "d", "w", "magefilesdir"}[r.Intn(4)]
		proj := filepath.Join(root, "proj")
		mfDir := proj
		if layout == "magefilesdir" {
			mfDir = filepath.Join(proj, "magefiles")
		}
		work := filepath.Join(root, "work")
		os.MkdirAll(mfDir, 0o755)
		os.MkdirAll(work, 0o755)
		os.WriteFile(filepath.Join(proj, "go.mod"), []byte(goMod("c08h")), 0o644)
		relCache := r.Chance(1, 2)
		cacheDir := filepath.Join(root, "abscache")
		if relCache {
			cacheDir = "relcache"
		}
		startCwd := proj
		var dirFlags []string
		switch layout {
		case "d":
			startCwd = root
			dirFlags = []string{"-d", "proj"}
		case "w":
			dirFlags = []string{"-w", work}
		}
		env := baseEnv(home)
		for i, e := range env {
			if strings.HasPrefix(e, "MAGEFILE_CACHE=") {
				env[i] = "MAGEFILE_CACHE=" + cacheDir
			}
		}
		tokens := []string{"alpha", "beta", "gamma"}
		tok := tokens[0]
		files := map[string]string{"magefile.go": magefile(tok, false)}
		tagless := func(s string) string {
			if layout == "magefilesdir" {
				return strings.Replace(s, "//go:build mage\n\n", "", 1)
			}
			return s
		}
		sync := func() {
			ents, _ := os.ReadDir(mfDir)
			for _, e := range ents {
				if strings.HasSuffix(e.Name(), ".go") {
					os.Remove(filepath.Join(mfDir, e.Name()))
				}
			}
			for n, s := range files {
				os.WriteFile(filepath.Join(mfDir, n), []byte(tagless(s)), 0o644)
			}
		}
		contentsHex := func() []string {
			var out []string
			for _, s := range files {
				out = append(out, hex.EncodeToString([]byte(tagless(s))))
			}
			sort.Strings(out)
			return out
		}
		sync()
		ops := []J{{"k": "edit", "files": contentsHex()}}
		nops := 5 + r.Intn(6)
		for o := 0; o < nops; o++ {
			switch k := r.Intn(10); {
			case k < 2: // edit: a new token or a revert to an earlier one
				tok = tokens[r.Intn(len(tokens))]
				for n := range files {
					if strings.Contains(files[n], "func Token") {
						files[n] = magefile(tok, strings.Contains(files[n], "func Extra"))
					}
				}
				sync()
				ops = append(ops, J{"k": "edit", "files": contentsHex()})
			case k == 2: // add or remove a second file
				if _, ok := files["second.go"]; ok {
					delete(files, "second.go")
				} else {
					files["second.go"] = "//go:build mage\n\npackage main\n\nfunc Second() {}\n"
				}
				sync()
				ops = append(ops, J{"k": "edit", "files": contentsHex()})
			case k == 3: // rename the magefile (contents unchanged: same cache name)
				for _, cand := range []string{"magefile.go", "build.go", "zz_targets.go"} {
					if _, ok := files[cand]; !ok {
						for n, s := range files {
							if strings.Contains(s, "func Token") {
								delete(files, n)
								files[cand] = s
								break
							}
						}
						break
					}
				}
				sync()
				ops = append(ops, J{"k": "edit", "files": contentsHex()})
			case k == 4:
				rr := runCmd(startCwd, env, mageBin, "-clean")
				_ = rr
				ops = append(ops, J{"k": "clean"})
			default:
				hashfast := r.Chance(1, 2)
				force := r.Chance(1, 5)
				runEnv := append([]string{}, env...)
				if hashfast {
					runEnv = append(runEnv, "MAGEFILE_HASHFAST=1")
				}
				argv := append([]string{"-debug"}, dirFlags...)
				if force {
					argv = append(argv, "-f")
				}
				argv = append(argv, "token")
				rr := runCmd(startCwd, runEnv, mageBin, argv...)
				ops = append(ops, J{"k": "run", "force": force, "hashfast": hashfast})
				exe := ""
				if m := exeLineRx.FindStringSubmatch(rr.stderr); m != nil {
					exe = m[1]
				}
				impl := J{"status": rr.status, "current": strings.Contains(rr.stdout, "TOKEN "+tok+"\n"), "built": strings.Contains(rr.stderr, "compiling to"), "exe": exe}
				if rr.status != 0 {
					impl["stderr"] = rr.stderr
				}
				in := J{"op": "c08.hist", "ops": append([]J{}, ops...), "ver": ver, "startCwd": startCwd, "cacheDir": cacheDir}
				mode := "default"
				if hashfast {
					mode = "hashfast"
				}
				c.Emit(in, impl, "ring=history", "layout="+layout, fmt.Sprintf("relcache=%v", relCache), "mode="+mode, fmt.Sprintf("force=%v", force), fmt.Sprintf("built=%v", impl["built"]))
			}
		}
		os.RemoveAll(root)
	}
}
