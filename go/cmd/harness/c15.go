package main

// C15: the seven sh functions against a helper child (cmd/shchild) that reports what it received.

import (
	"bytes"
	"crypto/sha1"
	"encoding/hex"
	"encoding/json"
	"fmt"
	"io"
	"log"
	"os"
	"path/filepath"
	"sort"

	"github.com/magefile/mage/mg"
	"github.com/magefile/mage/sh"
)

func init() { streams["c15"] = c15 }

var vtKeys = []string{"VT_A", "VT_B", "VT_C", "VT_EMPTY", "VT_UNSET", "1", "VT_CMD"}

func hx(s string) string { return hex.EncodeToString([]byte(s)) }

// swapStd redirects os.Stdout/os.Stderr/os.Stdin (the package variables sh reads at call time) to files.
type stdSwap struct {
	oOut, oErr, oIn *os.File
	fOut, fErr, fIn *os.File
}

func swapStd(tmp string, stdin []byte) *stdSwap {
	s := &stdSwap{oOut: os.Stdout, oErr: os.Stderr, oIn: os.Stdin}
	s.fOut, _ = os.Create(filepath.Join(tmp, "stdout"))
	s.fErr, _ = os.Create(filepath.Join(tmp, "stderr"))
	os.WriteFile(filepath.Join(tmp, "stdin"), stdin, 0o644)
	s.fIn, _ = os.Open(filepath.Join(tmp, "stdin"))
	os.Stdout, os.Stderr, os.Stdin = s.fOut, s.fErr, s.fIn
	return s
}

func (s *stdSwap) restore() (out, err []byte) {
	os.Stdout, os.Stderr, os.Stdin = s.oOut, s.oErr, s.oIn
	s.fOut.Close()
	s.fErr.Close()
	s.fIn.Close()
	out, _ = os.ReadFile(s.fOut.Name())
	err, _ = os.ReadFile(s.fErr.Name())
	return
}

func c15(c *Ctx) {
	r := c.R
	log.SetOutput(io.Discard)
	child := filepath.Join(os.Getenv("VERIF_BIN"), "shchild")
	if _, err := os.Stat(child); err != nil {
		panic("shchild not built: " + child)
	}
	tmp := filepath.Join(c.Tmp, "c15")
	os.MkdirAll(tmp, 0o755)
	noexec := filepath.Join(tmp, "noexec")
	os.WriteFile(noexec, []byte("#!/bin/sh\n"), 0o644)
	adir := filepath.Join(tmp, "adir")
	os.Mkdir(adir, 0o755)
	specPath := filepath.Join(tmp, "spec.json")
	repPath := filepath.Join(tmp, "report.json")
	os.Setenv("SHCHILD_SPEC", specPath)
	values := []string{"va", "v b", "", "x=y", "$VT_B", "${VT_A}", "é✓", "p$", "a\tb"}
	fns := []string{"Run", "RunV", "RunWith", "RunWithV", "Output", "OutputWith", "Exec"}
	payloads := []string{"", "\n", "\n\n", "abc", "abc\n", "abc\n\n", "a\nb\n", "\x00\xff\xfe\n", "line1\nline2", " \n", "\r\n", "\n\nx"}
	argAtoms := []string{"$VT_A", "${VT_A}", "$VT_B", "${VT_B}", "$VT_C", "$VT_EMPTY", "$VT_UNSET", "${VT_UNSET}", "$", "$$", "${}", "${", "$1", "${1}", "$*",
		"plain", "pre$VT_A", "${VT_A}post", "$VT_A$VT_B", "a b", "", "é$VT_A✓", "$VT_Ax", "${VT_A}x", "$-", "$?x", "${VT_A", "x}y", "$VT_A}", "${ VT_A}", "$é"}
	n := c.N
	codeSweep := 0
	for cse := 0; cse < n; cse++ {
		fn := fns[r.Intn(len(fns))]
		verbose := r.Bool()
		// inherited environment
		inherited := map[string]string{}
		for _, k := range vtKeys {
			os.Unsetenv(k)
		}
		for _, k := range []string{"VT_A", "VT_B", "VT_C"} {
			if r.Chance(4, 5) {
				inherited[k] = values[r.Intn(len(values))]
			}
		}
		if r.Chance(1, 2) {
			inherited["VT_EMPTY"] = ""
		}
		if r.Chance(1, 6) {
			inherited["1"] = "one"
		}
		inherited["VT_CMD"] = child
		for k, v := range inherited {
			os.Setenv(k, v)
		}
		if verbose {
			os.Setenv("MAGEFILE_VERBOSE", "1")
		} else {
			os.Setenv("MAGEFILE_VERBOSE", "0")
		}
		// env map
		var envMap map[string]string
		usesMap := fn == "RunWith" || fn == "RunWithV" || fn == "OutputWith" || fn == "Exec"
		if usesMap && r.Chance(5, 6) {
			envMap = map[string]string{}
			for _, k := range []string{"VT_A", "VT_B", "VT_C", "VT_EMPTY", "VT_UNSET", "1"} {
				if r.Chance(2, 5) {
					envMap[k] = values[r.Intn(len(values))]
				}
			}
		}
		// command
		cmdKind := "ok"
		cmd := child
		switch r.Intn(12) {
		case 0:
			cmdKind, cmd = "missing", filepath.Join(tmp, "no-such-binary")
		case 1:
			cmdKind, cmd = "noexec", noexec
		case 2:
			cmdKind, cmd = "dir", adir
		case 3, 4:
			if _, shadow := envMap["VT_CMD"]; !shadow {
				cmd = "$VT_CMD"
			}
		case 5:
			cmd = "${VT_CMD}"
		}
		nargs := r.Intn(4)
		args := []string{}
		for i := 0; i < nargs; i++ {
			args = append(args, argAtoms[r.Intn(len(argAtoms))])
		}
		code := 0
		switch r.Intn(4) {
		case 0:
			code = 0
		case 1:
			code = codeSweep % 256
			codeSweep++
		default:
			code = []int{1, 2, 3, 94, 126, 127, 128, 255, 254, 100}[r.Intn(10)]
		}
		pout := payloads[r.Intn(len(payloads))]
		perr := payloads[r.Intn(len(payloads))]
		stdin := []byte(payloads[r.Intn(len(payloads))] + fmt.Sprint(cse))
		sp := map[string]interface{}{"code": code, "out": hx(pout), "err": hx(perr), "probe": vtKeys, "report": repPath}
		b, _ := json.Marshal(sp)
		os.WriteFile(specPath, b, 0o644)
		os.Remove(repPath)

		argsCopy := append([]string{}, args...)
		sw := swapStd(tmp, stdin)
		var err error
		var out string
		var ran bool
		var given bytes.Buffer
		switch fn {
		case "Run":
			err = sh.Run(cmd, args...)
		case "RunV":
			err = sh.RunV(cmd, args...)
		case "RunWith":
			err = sh.RunWith(envMap, cmd, args...)
		case "RunWithV":
			err = sh.RunWithV(envMap, cmd, args...)
		case "Output":
			out, err = sh.Output(cmd, args...)
		case "OutputWith":
			out, err = sh.OutputWith(envMap, cmd, args...)
		case "Exec":
			ran, err = sh.Exec(envMap, &given, os.Stderr, cmd, args...)
		}
		shownOut, shownErr := sw.restore()
		impl := J{"errNil": err == nil, "mgStatus": mg.ExitStatus(err), "shStatus": sh.ExitStatus(err),
			"stdout": hx(string(shownOut)), "stderr": hx(string(shownErr))}
		if fn == "Exec" {
			impl["ran"] = ran
			impl["given"] = hx(given.String())
		}
		if fn == "Output" || fn == "OutputWith" {
			impl["out"] = hx(out)
		}
		if rb, e := os.ReadFile(repPath); e == nil {
			var rep map[string]interface{}
			json.Unmarshal(rb, &rep)
			impl["childArgv"] = rep["argv"]
			impl["childEnv"] = rep["env"]
			h := sha1.Sum(stdin)
			impl["stdinOK"] = rep["stdin"] == hex.EncodeToString(h[:])
		} else {
			impl["childArgv"] = nil
		}
		same := len(argsCopy) == len(args)
		for i := range args {
			if i < len(argsCopy) && args[i] != argsCopy[i] {
				same = false
			}
		}
		impl["callerArgsUnchanged"] = same
		// oracle input
		var inh [][2]string
		for k, v := range inherited {
			inh = append(inh, [2]string{k, v})
		}
		sort.Slice(inh, func(i, j int) bool { return inh[i][0] < inh[j][0] })
		var em interface{}
		if envMap != nil {
			var l [][2]string
			for k, v := range envMap {
				l = append(l, [2]string{k, v})
			}
			sort.Slice(l, func(i, j int) bool { return l[i][0] < l[j][0] })
			if l == nil {
				l = [][2]string{}
			}
			em = l
		}
		in := J{"op": "c15.call", "fn": fn, "verbose": verbose, "inherited": inh, "envMap": em, "cmd": cmd, "cmdKind": cmdKind,
			"args": argsCopy, "code": code, "pout": hx(pout), "perr": hx(perr), "probe": vtKeys}
		tags := []string{"fn=" + fn, "cmd=" + cmdKind}
		if code == 0 {
			tags = append(tags, "code=0")
		} else {
			tags = append(tags, "code!=0")
		}
		if envMap != nil {
			tags = append(tags, "envmap")
		}
		c.Emit(in, impl, tags...)
	}
	_ = io.Discard
}
