package main

// Front end, ring (i)+(ii): generated projects on disk -> real parse.PrimaryPackage (in-process; `go list` for the
// mage:import'ed packages) -> canonical PkgInfo dump, compared with the Lean model `Parse.primary`; and repeated
// mage.GenerateMainfile on the same project (every `range` over a map is re-randomised by the Go runtime) whose bytes must
// be identical (C18).

import (
	"unicode/utf8"
	"crypto/sha1"
	"encoding/hex"
	"bytes"
	"fmt"
	"go/ast"
	"go/doc"
	"io"
	"log"
	"os"
	"path/filepath"
	"regexp"
	"sort"
	"strings"

	"github.com/magefile/mage/mage"
	"github.com/magefile/mage/parse"
	"verif/internal/proj"
)

func init() { streams["feparse"] = feparse }

func writeProject(dir string, p *proj.Project) []string {
	var mainFiles []string
	for rel, content := range p.Files(os.Getenv("VERIF_REPO")) {
		full := filepath.Join(dir, rel)
		os.MkdirAll(filepath.Dir(full), 0o755)
		if err := os.WriteFile(full, []byte(content), 0o644); err != nil {
			panic(err)
		}
	}
	for _, f := range p.Main.Files {
		mainFiles = append(mainFiles, f.Name)
	}
	sort.Strings(mainFiles)
	return mainFiles
}

func commentFields(p *proj.Project) map[string][]string {
	out := map[string][]string{}
	add := func(ls []string) {
		for _, l := range ls {
			if len(l) >= 2 {
				f := strings.Fields(strings.ToLower(l[2:]))
				if f == nil {
					f = []string{}
				}
				out[l] = f
			}
		}
	}
	for _, f := range p.Main.Files {
		for _, sp := range f.Imports {
			add(sp.Doc)
			add(sp.Trailing)
			add(sp.DeclDoc)
		}
	}
	return out
}

func fnDump(f *parse.Function) J {
	args := [][]string{}
	for _, a := range f.Args {
		args = append(args, []string{a.Name, a.Type})
	}
	return J{"t": f.TargetName(), "id": f.ID(), "pkg": f.Package, "err": f.IsError, "ctx": f.IsContext, "args": args, "syn": f.Synopsis, "comment": f.Comment}
}

// docMaps records the two standard-library functions under the doc strings of a project: ast.CommentGroup.Text of the
// comment as RenderFile writes it ("// " before every line) and go/doc.Synopsis of that text.
func docMaps(p *proj.Project) (J, J) {
	text, syn := J{}, J{}
	add := func(d string) {
		if d == "" {
			return
		}
		cg := &ast.CommentGroup{}
		for _, l := range strings.Split(d, "\n") {
			cg.List = append(cg.List, &ast.Comment{Text: "// " + l})
		}
		t := cg.Text()
		text[d] = t
		syn[t] = doc.Synopsis(t)
	}
	pk := func(k proj.Pkg) {
		for _, f := range k.Files {
			add(f.PkgDoc)
			for _, d := range f.Funcs {
				add(d.Doc)
			}
		}
	}
	pk(p.Main)
	for _, im := range p.World {
		pk(im.Pkg)
	}
	return text, syn
}

// fnFull is everything the generated-main template can see of a function.
func fnFull(f *parse.Function) J {
	args := [][]string{}
	for _, a := range f.Args {
		args = append(args, []string{a.Name, a.Type})
	}
	return J{"name": f.Name, "recv": f.Receiver, "pkgAlias": f.PkgAlias, "package": f.Package, "importPath": f.ImportPath, "err": f.IsError,
		"ctx": f.IsContext, "synopsis": f.Synopsis, "comment": f.Comment, "args": args}
}

// infoFull: the PkgInfo as GenerateMainfile receives it (after the two sorts of Invoke)
func infoFull(info *parse.PkgInfo) J {
	funcs := []J{}
	for _, f := range info.Funcs {
		funcs = append(funcs, fnFull(f))
	}
	imps := []J{}
	for _, im := range info.Imports {
		l := []J{}
		for _, f := range im.Info.Funcs {
			l = append(l, fnFull(f))
		}
		imps = append(imps, J{"u": im.UniqueName, "path": im.Path, "name": im.Name, "alias": im.Alias, "funcs": l})
	}
	var dflt interface{}
	if info.DefaultFunc != nil {
		dflt = fnFull(info.DefaultFunc)
	}
	al := []J{}
	for k, f := range info.Aliases {
		al = append(al, J{"key": k, "fn": fnFull(f)})
	}
	sort.Slice(al, func(i, j int) bool { return al[i]["key"].(string) < al[j]["key"].(string) })
	return J{"funcs": funcs, "imports": imps, "default": dflt, "aliases": al, "description": info.Description}
}

var multiDefRx = regexp.MustCompile(`target has multiple definitions`)

var (
	multiDefLineRx = regexp.MustCompile(`(?m)"([^"]*)" target has multiple definitions: (.*)$`)
	aliasDupRx     = regexp.MustCompile(`alias "([^"]*)" duplicates existing target\(s\): (.*)`)
	caseLineRx     = regexp.MustCompile(`(?m)^  (\S.*)$`)
)

// classifyMsg: the class of a collision report and the definitions it names, in a canonical order
func classifyMsg(msg string) J {
	sortedJoin := func(s string) string {
		parts := strings.Split(strings.TrimSpace(s), ", ")
		sort.Strings(parts)
		return strings.Join(parts, ", ")
	}
	switch {
	case strings.Contains(msg, "Build targets must be case insensitive"):
		named := []string{}
		i := strings.Index(msg, "targets conflict:")
		for _, m := range caseLineRx.FindAllStringSubmatch(msg[i:], -1) {
			named = append(named, sortedJoin(m[1]))
		}
		sort.Strings(named)
		return J{"error": "caseConflict", "named": named}
	case multiDefRx.MatchString(msg):
		named := []string{}
		for _, m := range multiDefLineRx.FindAllStringSubmatch(msg, -1) {
			named = append(named, m[1]+": "+sortedJoin(m[2]))
		}
		sort.Strings(named)
		return J{"error": "multipleDefs", "named": named}
	case strings.Contains(msg, "duplicates existing target"):
		named := []string{}
		if m := aliasDupRx.FindStringSubmatch(msg); m != nil {
			named = append(named, m[1]+": "+sortedJoin(m[2]))
		}
		return J{"error": "aliasDup", "named": named}
	}
	return J{"error": "other: " + strings.TrimSpace(msg)}
}

func classifyParseErr(err error) J { return classifyMsg(err.Error()) }

func infoDump(info *parse.PkgInfo) J {
	sort.Sort(info.Funcs)
	sort.Sort(info.Imports)
	funcs := []J{}
	for _, f := range info.Funcs {
		funcs = append(funcs, fnDump(f))
	}
	imps := []J{}
	for _, im := range info.Imports {
		fs := im.Info.Funcs // not sorted by Invoke: the parser's order is part of what is compared
		l := []J{}
		for _, f := range fs {
			l = append(l, fnDump(f))
		}
		imps = append(imps, J{"u": im.UniqueName, "path": im.Path, "name": im.Name, "alias": im.Alias, "funcs": l})
	}
	var dflt interface{}
	if info.DefaultFunc != nil {
		dflt = info.DefaultFunc.TargetName()
	}
	al := [][]string{}
	var keys []string
	for k := range info.Aliases {
		keys = append(keys, k)
	}
	sort.Strings(keys)
	for _, k := range keys {
		al = append(al, []string{k, info.Aliases[k].TargetName()})
	}
	return J{"funcs": funcs, "imports": imps, "default": dflt, "aliases": al, "description": info.Description}
}

var listKeyRx = regexp.MustCompile(`(?m)^\t\t\t"([^"]+)": `)

func feparse(c *Ctx) {
	r := c.R
	log.SetOutput(io.Discard)
	for cse := 0; cse < c.N; cse++ {
		g := &proj.Gen{R: r, BadSigs: true, Imports: true, TagShapes: true, Collisions: c.Prop == "C07" || r.Chance(1, 5), Platform: r.Chance(1, 3), EscapedAliases: r.Chance(1, 3)}
		if c.Prop == "C18" {
			g.BadSigs = false
		}
		p := g.Generate(cse)
		if g.Collisions {
			injectCollision(r, p)
		}
		dir := filepath.Join(c.Tmp, fmt.Sprintf("fe%d", cse))
		files := writeProject(dir, p)
		info, err := parse.PrimaryPackage("go", dir, files)
		var impl J
		tags := []string{fmt.Sprintf("files=%d", len(files)), fmt.Sprintf("imports=%d", len(p.World))}
		if err != nil {
			impl = classifyParseErr(err)
			tags = append(tags, "rejected:"+fmt.Sprint(impl["error"])[:5])
		} else {
			impl = infoDump(info)
			// ring (ii): generate the main file several times; bytes must be identical, and the `-l` map keys are the listing
			main := filepath.Join(dir, "mage_output_file.go")
			var first []byte
			same := true
			reps := 6
			if c.Prop == "C18" {
				reps = 25
			}
			for k := 0; k < reps; k++ {
				// the file list in another order each time (a different directory enumeration): nothing may depend on it
				shuffled := append([]string{}, files...)
				for a := len(shuffled) - 1; a > 0; a-- {
					b := r.Intn(a + 1)
					shuffled[a], shuffled[b] = shuffled[b], shuffled[a]
				}
				inf, e2 := parse.PrimaryPackage("go", dir, shuffled)
				if e2 != nil {
					same = false
					break
				}
				sort.Sort(inf.Funcs)
				sort.Sort(inf.Imports)
				if e3 := mage.GenerateMainfile("mage", main, inf); e3 != nil {
					same = false
					break
				}
				b, _ := os.ReadFile(main)
				if first == nil {
					first = b
				} else if !bytes.Equal(first, b) {
					same = false
				}
			}
			os.Remove(main)
			// ring (ii'): the bytes themselves against the Lean interpreter of the (regenerated) template
			if first != nil {
				if inf, e2 := parse.PrimaryPackage("go", dir, files); e2 == nil {
					sort.Sort(inf.Funcs)
					sort.Sort(inf.Imports)
					bin := []string{"mage", "static.bin", "my tool"}[r.Intn(3)]
					if e3 := mage.GenerateMainfile(bin, main, inf); e3 == nil {
						b, _ := os.ReadFile(main)
						sum := sha1.Sum(b)
						c.Emit(J{"op": "fe.emit", "binary": bin, "info": infoFull(inf)}, J{"sha1": hex.EncodeToString(sum[:]), "len": len(b)}, "emit", fmt.Sprintf("imports=%d", len(inf.Imports)))
						// … and the whole way in the model: declarations -> PkgInfo -> bytes
						dt2, sy2 := docMaps(p)
						c.Emit(J{"op": "fe.gen", "binary": bin, "project": p, "fields": commentFields(p), "docText": dt2, "syn": sy2}, J{"sha1": hex.EncodeToString(sum[:]), "len": len(b)}, "gen")
					}
					os.Remove(main)
				}
			}
			impl["deterministic"] = same
			var keys []string
			if i := bytes.Index(first, []byte("targets := map[string]string{")); i >= 0 {
				j := bytes.Index(first[i:], []byte("\n\t\t}\n"))
				if j > 0 {
					for _, m := range listKeyRx.FindAllSubmatch(first[i:i+j], -1) {
						keys = append(keys, string(m[1]))
					}
				}
			}
			sort.Strings(keys)
			if keys == nil {
				keys = []string{}
			}
			impl["listing"] = keys
			tags = append(tags, "accepted")
			if len(info.Imports) > 0 {
				tags = append(tags, "has-imports")
			}
		}
		dt, sy := docMaps(p)
		in := J{"op": "fe.info", "project": p, "fields": commentFields(p), "docText": dt, "syn": sy}
		c.Emit(in, impl, tags...)
		os.RemoveAll(dir)
	}
}

// injectCollision adds one of the seven collision kinds of C07 (or a near miss) to the project.
func injectCollision(r interface{ Intn(int) int }, p *proj.Project) {
	var tg []proj.TargetRef
	for _, t := range proj.Targets(p.Main) {
		if !t.Ptr {
			tg = append(tg, t)
		}
	}
	if len(tg) == 0 {
		return
	}
	t := tg[r.Intn(len(tg))]
	f := &p.Main.Files[r.Intn(len(p.Main.Files))]
	flip := func(s string) string { // case variant that is still exported
		if len(s) < 2 {
			return s + "X"
		}
		b := []byte(s)
		for i := 1; i < len(b); i++ {
			if b[i] >= 'a' && b[i] <= 'z' {
				b[i] -= 32
				return string(b)
			}
			if b[i] >= 'A' && b[i] <= 'Z' {
				b[i] += 32
				return string(b)
			}
		}
		return s + "X"
	}
	// a second declaration of exactly the same function is not valid Go (go/doc silently keeps one of them): never generate it
	declared := func(name, recv string) bool {
		for _, fl := range p.Main.Files {
			if recv == "" {
				// a package-level function may not share its name with a type either
				for _, td := range fl.Types {
					if td.Name == name {
						return true
					}
				}
			}
			for _, d := range fl.Funcs {
				rc := ""
				if d.Recv != nil {
					rc = d.Recv.Base
				}
				if d.Name == name && rc == recv {
					return true
				}
			}
		}
		return false
	}
	ref := proj.FnRef{K: "ident", A: t.Name}
	if t.Recv != "" {
		ref = proj.FnRef{K: "sel", A: t.Recv, B: t.Name}
	}
	lowerTarget := strings.ToLower(t.Name)
	if t.Recv != "" {
		lowerTarget = strings.ToLower(t.Recv) + ":" + lowerTarget
	}
	switch r.Intn(7) {
	case 0: // two functions differing in case
		var rc *proj.Recv
		if t.Recv != "" {
			rc = &proj.Recv{Base: t.Recv}
		}
		if !declared(flip(t.Name), t.Recv) {
			f.Funcs = append(f.Funcs, proj.FuncDecl{Name: flip(t.Name), Recv: rc, Params: []proj.Field{}, Results: []proj.Field{}})
		}
	case 1: // alias vs target (any case)
		other := tg[r.Intn(len(tg))]
		oref := proj.FnRef{K: "ident", A: other.Name}
		if other.Recv != "" {
			oref = proj.FnRef{K: "sel", A: other.Recv, B: other.Name}
		}
		key := lowerTarget
		if r.Intn(2) == 0 {
			_, n0 := utf8.DecodeRuneInString(key)
			key = strings.ToUpper(key[:n0]) + key[n0:]
		}
		addAlias(p, key, oref)
	case 2: // alias vs alias differing in case
		addAlias(p, "zz", ref)
		addAlias(p, "ZZ", ref)
	case 3: // alias vs imported target
		for path, imp := range p.World {
			it := proj.Targets(imp.Pkg)
			if len(it) == 0 {
				continue
			}
			_ = path
			x := it[0]
			name := strings.ToLower(x.Name)
			if x.Recv != "" {
				name = strings.ToLower(x.Recv) + ":" + name
			}
			// the alias under which the package is imported stands in the tag comment of its import spec: an Aliases key
			// spelled `importalias:target` collides with the imported target itself; a bare name hits root imports
			impAlias := ""
			for _, fl := range p.Main.Files {
				for _, sp := range fl.Imports {
					if sp.Path != path {
						continue
					}
					for _, grp := range [][]string{sp.Doc, sp.Trailing, sp.DeclDoc} {
						for _, ln := range grp {
							fs := strings.Fields(strings.ToLower(strings.TrimLeft(ln, "/* ")))
							if len(fs) == 2 && fs[0] == "mage:import" {
								impAlias = fs[1]
							}
						}
					}
				}
			}
			if impAlias != "" && r.Intn(3) > 0 {
				name = impAlias + ":" + name
			}
			addAlias(p, name, ref)
			break
		}
	case 4: // near miss: alias that differs from every target
		addAlias(p, "nosuchtarget", ref)
	case 5: // function vs namespace method spelled alike is NOT a collision (ns:name vs name): near miss
		if !declared("Zed"+t.Name, "") {
			f.Funcs = append(f.Funcs, proj.FuncDecl{Name: "Zed" + t.Name, Params: []proj.Field{}, Results: []proj.Field{}})
		}
	default: // local target equal to a root-imported target name
		for _, imp := range p.World {
			it := proj.Targets(imp.Pkg)
			if len(it) == 0 || it[0].Recv != "" {
				continue
			}
			if !declared(it[0].Name, "") {
				f.Funcs = append(f.Funcs, proj.FuncDecl{Name: it[0].Name, Params: []proj.Field{}, Results: []proj.Field{}})
			}
			break
		}
	}
}

func addAlias(p *proj.Project, key string, ref proj.FnRef) {
	for i := range p.Main.Files {
		if p.Main.Files[i].HasAl {
			for _, a := range p.Main.Files[i].Aliases {
				if a.Key == key {
					return
				}
			}
			p.Main.Files[i].Aliases = append(p.Main.Files[i].Aliases, proj.AliasEntry{Key: key, Ref: ref})
			return
		}
	}
	f := &p.Main.Files[len(p.Main.Files)-1]
	f.HasAl = true
	f.Aliases = []proj.AliasEntry{{Key: key, Ref: ref}}
}
