package main

// C20 — concurrent mage invocations.  A parallel launcher starts K real `mage` processes at (nearly) the same time
// over generated directory sets sharing one cache directory (distinct or identical contents, both cache modes, -f,
// warm or cold cache); each process's output and exit status is compared with what it produces alone (the model's
// answer, by theorem `isolated`).  Same-directory interference (known finding) is replayed deterministically with a
// go wrapper that stalls the first process's `go build` until the second has finished.

import (
	"fmt"
	"os"
	"os/exec"
	"path/filepath"
	"strings"
	"sync"
	"time"
)

func init() { streams["c20"] = c20 }

func c20Magefile(token string, status int) string {
	body := "fmt.Println(\"TOKEN " + token + "\")"
	if status != 0 {
		body += fmt.Sprintf("; return mg.Fatal(%d, \"requested\")", status)
	} else {
		body += "; return nil"
	}
	return "//go:build mage\n\npackage main\n\nimport (\n\t\"fmt\"\n\n\t\"github.com/magefile/mage/mg\"\n)\n\nvar _ = mg.Verbose\n\nfunc Token() error { " + body + " }\n"
}

// a second magefile with the same bytes in every directory (a shared helper file copied into each project): the cache
// entry must still be told apart by the file that differs
const c20Shared = "//go:build mage\n\npackage main\n\nfunc sharedHelper() int { return 1 }\n"

func c20(c *Ctx) {
	r := c.R
	mageBin := filepath.Join(os.Getenv("VERIF_BIN"), "mage")
	root := filepath.Join(c.Tmp, "c20")
	home := filepath.Join(root, "home")
	os.MkdirAll(home, 0o755)
	goWrap := filepath.Join(root, "gowrap.sh")
	os.WriteFile(goWrap, []byte(goWrapScript), 0o755)
	tokens := []string{"alpha", "beta", "gamma", "delta"}
	statusOf := map[string]int{"alpha": 0, "beta": 0, "gamma": 7, "delta": 0}
	for round := 0; round < c.N; round++ {
		k := []int{2, 2, 3, 4, 8}[r.Intn(5)]
		if c.Tier == "thorough" && r.Chance(1, 6) {
			k = 16
		}
		base := filepath.Join(root, fmt.Sprintf("r%d", round))
		cacheDir := filepath.Join(base, "cache")
		env := baseEnv(home)
		for i, e := range env {
			if strings.HasPrefix(e, "MAGEFILE_CACHE=") {
				env[i] = "MAGEFILE_CACHE=" + cacheDir
			}
		}
		identical := r.Chance(1, 3)
		type proc struct {
			dir      string
			token    string
			hashfast bool
			force    bool
			out      runRes
		}
		procs := make([]*proc, k)
		for i := range procs {
			tok := tokens[r.Intn(len(tokens))]
			if identical {
				tok = tokens[round%len(tokens)]
			}
			d := filepath.Join(base, fmt.Sprintf("d%d", i))
			writeFiles(d, map[string]string{"go.mod": goMod("c20p"), "magefile.go": c20Magefile(tok, statusOf[tok]), "zz_shared.go": c20Shared})
			procs[i] = &proc{dir: d, token: tok, hashfast: r.Chance(1, 2), force: r.Chance(1, 8)}
		}
		// warm the cache for some contents
		cached := []string{}
		if r.Chance(1, 3) {
			p := procs[r.Intn(k)]
			runCmd(p.dir, append(append([]string{}, env...), "MAGEFILE_HASHFAST=1"), mageBin, "token")
			cached = append(cached, p.token)
		}
		var wg sync.WaitGroup
		start := make(chan struct{})
		for _, p := range procs {
			wg.Add(1)
			delay := time.Duration(r.Intn(4)) * 80 * time.Millisecond
			go func(p *proc, delay time.Duration) {
				defer wg.Done()
				<-start
				time.Sleep(delay)
				e := append([]string{}, env...)
				if p.hashfast {
					e = append(e, "MAGEFILE_HASHFAST=1")
				}
				argv := []string{}
				if p.force {
					argv = append(argv, "-f")
				}
				p.out = runCmd(p.dir, e, mageBin, append(argv, "token")...)
				// the go tool's own build cache is shared by these processes too; its (rare) lost-entry race — the linker
				// is handed the placeholder name of a cached main package — is not mage's doing: that process is run again
				for retry := 0; retry < 2 && strings.Contains(p.out.stderr, "DO NOT USE - main build pseudo-cache built"); retry++ {
					p.out = runCmd(p.dir, e, mageBin, append(argv, "token")...)
				}
			}(p, delay)
		}
		close(start)
		wg.Wait()
		var pj []J
		var results []J
		leftovers := 0
		for i, p := range procs {
			pj = append(pj, J{"dir": i, "src": p.token, "hashfast": p.hashfast, "force": p.force, "target": statusOf[p.token]})
			ran := "-"
			for _, t := range tokens {
				if strings.Contains(p.out.stdout, "TOKEN "+t+"\n") {
					ran = t
				}
			}
			res := J{"status": p.out.status, "ran": ran}
			if p.out.status != statusOf[p.token] {
				res["stderr"] = strings.TrimSpace(p.out.stderr)
			}
			results = append(results, res)
			if _, err := os.Stat(filepath.Join(p.dir, "mage_output_file.go")); err == nil {
				leftovers++
			}
		}
		tags := []string{fmt.Sprintf("k=%d", k), fmt.Sprintf("identical=%v", identical), fmt.Sprintf("warm=%v", len(cached) > 0)}
		if leftovers > 0 {
			results = append(results, J{"leftover-main-files": leftovers})
		}
		c.Emit(J{"op": "c20.par", "procs": pj, "cached": cached, "seed": round + 1}, J{"results": results}, tags...)
		os.RemoveAll(base)
	}

	// different directories, one cache directory, controlled overlap: P1 is held just before or just after its `go build`;
	// P2 then either runs to completion or is itself held before its `go build` while P1 finishes; then P2 is released.
	// Every window between "cache looked up", "binary written" and "binary executed" of one process is thereby overlapped
	// with the start-up, the compile and the run of another one.
	nsched := 2 + c.N/4
	for i := 0; i < nsched; i++ {
		base := filepath.Join(root, fmt.Sprintf("sched%d", i))
		cacheDir := filepath.Join(base, "cache")
		env := baseEnv(home)
		for k, e := range env {
			if strings.HasPrefix(e, "MAGEFILE_CACHE=") {
				env[k] = "MAGEFILE_CACHE=" + cacheDir
			}
		}
		identical := i%2 == 0 || r.Chance(1, 2)
		tokA := tokens[r.Intn(len(tokens))]
		tokB := tokA
		if !identical {
			for tokB == tokA {
				tokB = tokens[r.Intn(len(tokens))]
			}
		}
		dA, dB := filepath.Join(base, "dA"), filepath.Join(base, "dB")
		writeFiles(dA, map[string]string{"go.mod": goMod("c20p"), "magefile.go": c20Magefile(tokA, statusOf[tokA]), "zz_shared.go": c20Shared})
		writeFiles(dB, map[string]string{"go.mod": goMod("c20p"), "magefile.go": c20Magefile(tokB, statusOf[tokB]), "zz_shared.go": c20Shared})
		p1After := i%4 < 2 || r.Bool()  // held after the build (the first rounds) or before it
		p2Held := i%4 == 0 || r.Bool()   // P2 held before its build while P1 finishes
		hfA, hfB := r.Bool(), r.Bool()
		forceB := p2Held || r.Chance(1, 3) // a held P2 must reach `go build`
		warm := !p2Held && r.Chance(1, 3)
		cached := []string{}
		if warm {
			// a warm entry for B's contents only (A must compile to reach its pause point unless forced)
			runCmd(dB, append(append([]string{}, env...), "MAGEFILE_HASHFAST=1"), mageBin, "token")
			cached = append(cached, tokB)
		}
		mk := func(dir string, hf, force bool, pauseVar, mark, release string) (*exec.Cmd, *strings.Builder, *strings.Builder) {
			argv := []string{"-gocmd", goWrap}
			if force {
				argv = append(argv, "-f")
			}
			cmd := exec.Command(mageBin, append(argv, "token")...)
			cmd.Dir = dir
			cmd.Env = append([]string{}, env...)
			if hf {
				cmd.Env = append(cmd.Env, "MAGEFILE_HASHFAST=1")
			}
			if pauseVar != "" {
				cmd.Env = append(cmd.Env, pauseVar+"=build", "VT_GOMARK="+mark, "VT_GORELEASE="+release)
			}
			var o, e strings.Builder
			cmd.Stdout, cmd.Stderr = &o, &e
			return cmd, &o, &e
		}
		waitMark := func(mark string, done chan struct{}) {
			for w := 0; w < 1200; w++ {
				if _, err := os.Stat(mark); err == nil {
					return
				}
				select {
				case <-done:
					return
				default:
				}
				time.Sleep(50 * time.Millisecond)
			}
		}
		statusOfErr := func(err error) int {
			if err == nil {
				return 0
			}
			if ee, ok := err.(*exec.ExitError); ok {
				return ee.ExitCode()
			}
			return -1
		}
		m1, r1 := filepath.Join(base, "mark1"), filepath.Join(base, "release1")
		m2, r2 := filepath.Join(base, "mark2"), filepath.Join(base, "release2")
		pv := "VT_GOPAUSE"
		if p1After {
			pv = "VT_GOPAUSEAFTER"
		}
		p1, o1, e1 := mk(dA, hfA, true, pv, m1, r1)
		st1, st2 := -1, -1
		var o2, e2 *strings.Builder
		if err := p1.Start(); err == nil {
			done1 := make(chan struct{})
			var err1 error
			go func() { err1 = p1.Wait(); close(done1) }()
			waitMark(m1, done1)
			var p2 *exec.Cmd
			if p2Held {
				p2, o2, e2 = mk(dB, hfB, forceB, "VT_GOPAUSE", m2, r2)
			} else {
				p2, o2, e2 = mk(dB, hfB, forceB, "", "", "")
			}
			if err := p2.Start(); err == nil {
				done2 := make(chan struct{})
				var err2 error
				go func() { err2 = p2.Wait(); close(done2) }()
				if p2Held {
					waitMark(m2, done2)
					os.WriteFile(r1, nil, 0o644)
					<-done1
					os.WriteFile(r2, nil, 0o644)
					<-done2
				} else {
					<-done2
					os.WriteFile(r1, nil, 0o644)
					<-done1
				}
				st2 = statusOfErr(err2)
			} else {
				os.WriteFile(r1, nil, 0o644)
				<-done1
			}
			st1 = statusOfErr(err1)
		}
		ranOf := func(s string) string {
			ran := "-"
			for _, t := range tokens {
				if strings.Contains(s, "TOKEN "+t+"\n") {
					ran = t
				}
			}
			return ran
		}
		resA := J{"status": st1, "ran": ranOf(o1.String())}
		if st1 != statusOf[tokA] {
			resA["stderr"] = strings.TrimSpace(e1.String())
		}
		resB := J{"status": st2, "ran": "-"}
		if o2 != nil {
			resB["ran"] = ranOf(o2.String())
			if st2 != statusOf[tokB] {
				resB["stderr"] = strings.TrimSpace(e2.String())
			}
		}
		in := J{"op": "c20.par", "cached": cached, "seed": i + 1, "procs": []J{
			{"dir": 0, "src": tokA, "hashfast": hfA, "force": true, "target": statusOf[tokA]},
			{"dir": 1, "src": tokB, "hashfast": hfB, "force": forceB, "target": statusOf[tokB]}}}
		c.Emit(in, J{"results": []J{resA, resB}}, "class=scheduled", fmt.Sprintf("identical=%v", identical), fmt.Sprintf("p1HeldAfterBuild=%v", p1After), fmt.Sprintf("p2HeldBeforeBuild=%v", p2Held), fmt.Sprintf("warm=%v", warm))
		os.RemoveAll(base)
	}

	// same directory: P1's `go build` is held until P2 has come and gone
	for i := 0; i < 1+c.N/10; i++ {
		base := filepath.Join(root, fmt.Sprintf("same%d", i))
		d := filepath.Join(base, "proj")
		writeFiles(d, map[string]string{"go.mod": goMod("c20s"), "magefile.go": c20Magefile("alpha", 0), "zz_shared.go": c20Shared})
		env := baseEnv(home)
		for k, e := range env {
			if strings.HasPrefix(e, "MAGEFILE_CACHE=") {
				env[k] = "MAGEFILE_CACHE=" + filepath.Join(base, "cache")
			}
		}
		mark, release := filepath.Join(base, "mark"), filepath.Join(base, "release")
		p1 := exec.Command(mageBin, "-gocmd", goWrap, "token")
		p1.Dir = d
		p1.Env = append(append([]string{}, env...), "VT_GOPAUSE=build", "VT_GOMARK="+mark, "VT_GORELEASE="+release)
		var o1, e1 strings.Builder
		p1.Stdout, p1.Stderr = &o1, &e1
		st1 := -1
		var r2 runRes
		if err := p1.Start(); err == nil {
			for w := 0; w < 600; w++ {
				if _, err := os.Stat(mark); err == nil {
					break
				}
				time.Sleep(50 * time.Millisecond)
			}
			r2 = runCmd(d, env, mageBin, "token")
			os.WriteFile(release, nil, 0o644)
			err := p1.Wait()
			st1 = 0
			if ee, ok := err.(*exec.ExitError); ok {
				st1 = ee.ExitCode()
			}
		}
		ranOf := func(s string) string {
			if strings.Contains(s, "TOKEN alpha\n") {
				return "alpha"
			}
			return "-"
		}
		in := J{"op": "c20.par", "sameDir": true, "cached": []string{}, "procs": []J{{"dir": 0, "src": "alpha", "hashfast": false, "force": false, "target": 0}, {"dir": 0, "src": "alpha", "hashfast": false, "force": false, "target": 0}}}
		c.Emit(in, J{"results": []J{{"status": st1, "ran": ranOf(o1.String())}, {"status": r2.status, "ran": ranOf(r2.stdout)}}}, "class=same-directory", "C20:same-directory")
		os.RemoveAll(base)
	}
	os.RemoveAll(root)
}
