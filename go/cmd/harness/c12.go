package main

// C12 — -t bounds the run and cancels the context.  Probe targets sleep a given time, honour or ignore their context,
// and report what they saw; runs cover both sides of the deadline (with margins), one to three targets per line,
// zero, one or two SIGINTs to the process group, through the compiled binary and through `mage`.  Compared with the
// Lean runTarget model are *classes* (status, how main ended, how many targets started, who saw a cancellation) and
// the exit time within a margin — never raw durations.  A case that disagrees is re-run twice in isolation; only a
// disagreement that repeats every time is reported.

import (
	"bytes"
	"fmt"
	"os"
	"os/exec"
	"path/filepath"
	"regexp"
	"strconv"
	"strings"
	"syscall"
	"time"

	"verif/internal/rng"
)

func init() { streams["c12"] = c12 }

const c12Magefile = `//go:build mage

package main

import (
	"context"
	"fmt"
	"os"
	"time"

	"github.com/magefile/mage/mg"
	"github.com/magefile/mage/sh"
)

var n int

// ShSleep blocks in an external command for ms milliseconds and ignores its context.
func ShSleep(ctx context.Context, ms int) error {
	i := n
	n++
	fmt.Printf("START %d %d\n", i, time.Now().UnixNano())
	os.Stdout.Sync()
	err := sh.Run("sleep", fmt.Sprintf("%d.%03d", ms/1000, ms%1000))
	if ctx.Err() != nil {
		fmt.Printf("END %d sawcancel\n", i)
	} else {
		fmt.Printf("END %d clean\n", i)
	}
	return err
}

// Sleep runs for ms milliseconds; with honour it returns as soon as its context is cancelled.
func Sleep(ctx context.Context, ms int, honour bool, fail int) error {
	i := n
	n++
	fmt.Printf("START %d %d\n", i, time.Now().UnixNano())
	os.Stdout.Sync()
	timer := time.After(time.Duration(ms) * time.Millisecond)
	if honour {
		select {
		case <-ctx.Done():
			fmt.Printf("END %d cancelled\n", i)
			return ctx.Err()
		case <-timer:
		}
	} else {
		<-timer
	}
	if ctx.Err() != nil {
		fmt.Printf("END %d sawcancel\n", i)
	} else {
		fmt.Printf("END %d clean\n", i)
	}
	if fail != 0 {
		return mg.Fatal(fail, "requested failure")
	}
	return nil
}

func report(name string, ctx context.Context) {
	_, has := ctx.Deadline()
	fmt.Printf("DEP %s deadline=%v\n", name, has)
}

func DepA(ctx context.Context) { report("A", ctx) }
func DepB(ctx context.Context) { report("B", ctx) }
func DepC(ctx context.Context) { report("C", ctx) }

// Tree reaches A through CtxDeps, B through Deps, and C through both (Deps first).
func Tree(ctx context.Context) {
	mg.CtxDeps(ctx, DepA)
	mg.Deps(DepB)
	mg.Deps(DepC)
	mg.CtxDeps(ctx, DepC)
}

// Watch reports whether its context was cancelled within ms milliseconds.
func Watch(ctx context.Context, ms int) {
	select {
	case <-ctx.Done():
		fmt.Println("WATCH cancelled")
	case <-time.After(time.Duration(ms) * time.Millisecond):
		fmt.Println("WATCH live")
	}
}

// FailSoon fails after ms milliseconds.
func FailSoon(ctx context.Context, ms int) error {
	time.Sleep(time.Duration(ms) * time.Millisecond)
	return mg.Fatal(3, "sibling failed")
}

// Siblings names a watcher and a failing dependency in one CtxDeps call.
func Siblings(ctx context.Context) { mg.CtxDeps(ctx, mg.F(Watch, 1200), mg.F(FailSoon, 200)) }

// SiblingsPlain does the same through Deps.
func SiblingsPlain() { mg.Deps(mg.F(Watch, 1201), mg.F(FailSoon, 201)) }

// Tree2 reaches C through CtxDeps only.
func Tree2(ctx context.Context) {
	mg.SerialCtxDeps(ctx, DepC, DepA)
	mg.SerialDeps(DepB)
}
`

type c12Target struct {
	dur     int
	honours bool
	status  int
	sh      bool // blocks in an external command (sh.Run "sleep") instead of sleeping in-process
}

type c12Case struct {
	d          int // timeout in ms, 0 = none
	targets    []c12Target
	sig1, sig2 int // ms after the first START, 0 = none
	way        string
}

var startRx = regexp.MustCompile(`(?m)^START (\d+) (\d+)$`)
var endRx = regexp.MustCompile(`(?m)^END (\d+) (cancelled|sawcancel|clean)$`)

func (k c12Case) run(mageBin, static, dir string, env []string) J {
	var argv []string
	if k.d != 0 {
		argv = append(argv, "-t", fmt.Sprintf("%dms", k.d))
	}
	for _, t := range k.targets {
		if t.sh {
			argv = append(argv, "shsleep", strconv.Itoa(t.dur))
			continue
		}
		argv = append(argv, "sleep", strconv.Itoa(t.dur), strconv.FormatBool(t.honours), strconv.Itoa(t.status))
	}
	bin := static
	runEnv := env
	if k.way == "mage" {
		bin = mageBin
		runEnv = append(append([]string{}, env...), "MAGEFILE_HASHFAST=1")
	}
	cmd := exec.Command(bin, argv...)
	cmd.Dir = dir
	cmd.Env = runEnv
	cmd.SysProcAttr = &syscall.SysProcAttr{Setpgid: true}
	// real files, not pipes: a process that outlives mage (an external command started by a target) must not keep the
	// harness waiting, and mage itself must get *os.File descriptors as from a terminal
	fo, _ := os.CreateTemp("", "c12out")
	fe, _ := os.CreateTemp("", "c12err")
	defer os.Remove(fo.Name())
	defer os.Remove(fe.Name())
	defer fo.Close()
	defer fe.Close()
	so, se := fileBuf{fo.Name()}, fileBuf{fe.Name()}
	cmd.Stdout, cmd.Stderr = fo, fe
	if err := cmd.Start(); err != nil {
		return J{"status": -1, "ending": "not started: " + err.Error()}
	}
	defer syscall.Kill(-cmd.Process.Pid, syscall.SIGKILL) // whatever is left of the process group
	done := make(chan error, 1)
	go func() { done <- cmd.Wait() }()
	// wait for the first START line: that is t0
	var t0 int64
	deadline := time.Now().Add(60 * time.Second)
	for t0 == 0 && time.Now().Before(deadline) {
		if m := startRx.FindStringSubmatch(so.String()); m != nil {
			t0, _ = strconv.ParseInt(m[2], 10, 64)
			break
		}
		select {
		case err := <-done:
			done <- err
			deadline = time.Now()
		case <-time.After(2 * time.Millisecond):
		}
	}
	sendAt := func(ms int) {
		if ms == 0 || t0 == 0 {
			return
		}
		at := time.Unix(0, t0).Add(time.Duration(ms) * time.Millisecond)
		time.Sleep(time.Until(at))
		syscall.Kill(-cmd.Process.Pid, syscall.SIGINT)
	}
	go func() { sendAt(k.sig1); sendAt(k.sig2) }()
	var err error
	select {
	case err = <-done:
	case <-time.After(40 * time.Second):
		syscall.Kill(-cmd.Process.Pid, syscall.SIGKILL)
		err = <-done
	}
	end := time.Now().UnixNano()
	st := 0
	if ee, ok := err.(*exec.ExitError); ok {
		st = ee.ExitCode()
	} else if err != nil {
		st = -1
	}
	out, errOut := so.String(), se.String()
	ending := "finished"
	switch {
	case strings.Contains(errOut, "context deadline exceeded"):
		ending = "deadline"
	case strings.Contains(errOut, "cleanup timeout exceeded"):
		ending = "cleanupTimeout"
	case strings.Contains(errOut, "exit forced"):
		ending = "forced"
	case strings.Contains(errOut, "context canceled"):
		ending = "cancelled"
	case strings.Contains(errOut, "requested failure"):
		ending = "targetFailed"
	case st != 0:
		ending = "other: " + strings.TrimSpace(errOut)
	}
	saw := []int{}
	for _, m := range endRx.FindAllStringSubmatch(out, -1) {
		if m[2] != "clean" {
			i, _ := strconv.Atoi(m[1])
			saw = append(saw, i)
		}
	}
	elapsed := 0
	if t0 != 0 {
		elapsed = int((end - t0) / 1e6)
	}
	return J{"status": st, "ending": ending, "started": len(startRx.FindAllString(out, -1)), "sawCancelRaw": saw, "elapsed": elapsed}
}

// fileBuf reads what has been written to a file so far.
type fileBuf struct{ path string }

func (f fileBuf) String() string {
	b, _ := os.ReadFile(f.path)
	return string(b)
}

type lockedBuf struct {
	mu chan struct{}
	b  bytes.Buffer
}

func (l *lockedBuf) lock() {
	if l.mu == nil {
		l.mu = make(chan struct{}, 1)
	}
	l.mu <- struct{}{}
}
func (l *lockedBuf) Write(p []byte) (int, error) {
	l.lock()
	defer func() { <-l.mu }()
	return l.b.Write(p)
}
func (l *lockedBuf) String() string {
	l.lock()
	defer func() { <-l.mu }()
	return l.b.String()
}

func c12Gen(r *rng.R, tier string) c12Case {
	d := []int{500, 800}[r.Intn(2)]
	short, long := d*3/10, d*3
	k := c12Case{way: "static"}
	if r.Chance(1, 4) {
		k.way = "mage"
	}
	hon := func() bool { return r.Bool() }
	switch r.Intn(11) {
	case 10: // SIGINT while a *later* target runs: the subscription made for the first target still holds
		k.targets = []c12Target{{short, hon(), 0, false}, {long, true, 0, false}, {short, true, 0, false}}
		k.sig1 = short + d*8/10
		if r.Bool() { // … an ignoring one, ended by a second SIGINT
			k.targets[1].honours = false
			k.sig2 = k.sig1 + 400
		}
	case 9: // the deadline strikes while the target is blocked in an external command that outlives it
		k.d = d
		k.targets = []c12Target{{dur: long, sh: true}}
		if r.Bool() {
			k.way = "mage"
		}
	case 0: // one target, finishes before the deadline
		k.d = d
		k.targets = []c12Target{{short, hon(), 0, false}}
	case 1: // one target, deadline while it runs
		k.d = d
		k.targets = []c12Target{{long, hon(), 0, false}}
	case 2: // shared deadline: each alone is shorter than d, together they are not
		k.d = d
		k.targets = []c12Target{{d * 7 / 10, hon(), 0, false}, {d * 7 / 10, hon(), 0, false}, {short, hon(), 0, false}}
	case 3: // several targets, all before the deadline
		k.d = d
		k.targets = []c12Target{{short / 2, hon(), 0, false}, {short / 2, hon(), 0, false}, {short / 2, hon(), 0, false}}
	case 4: // no timeout, no signal: a long target completes untouched
		k.targets = []c12Target{{long / 2, hon(), 0, false}, {short, hon(), 0, false}}
	case 5: // one SIGINT, honouring target
		if r.Bool() {
			k.d = long * 2
		}
		k.targets = []c12Target{{long, true, 0, false}, {short, true, 0, false}}
		k.sig1 = short
	case 6: // two SIGINTs, ignoring target
		k.targets = []c12Target{{long * 2, false, 0, false}}
		k.sig1 = short
		k.sig2 = short + 400
	case 7: // one SIGINT, ignoring target that ends within the grace period: its own result counts, the next target still runs
		k.targets = []c12Target{{d, false, 0, false}, {short, false, 0, false}}
		k.sig1 = short
	case 8: // a failing target before the deadline; or (thorough) the five-second grace period
		if tier == "thorough" && r.Chance(1, 2) {
			k.targets = []c12Target{{7000, false, 0, false}}
			k.sig1 = 300
			if r.Bool() {
				// a late SIGINT: the grace period counts from the signal, so the target (4 s to go) still ends in time
				k.sig1 = 3000
			}
		} else {
			k.d = d
			k.targets = []c12Target{{short, hon(), 0, false}, {short, hon(), 9, false}, {short, hon(), 0, false}}
		}
	}
	return k
}

func c12(c *Ctx) {
	r := c.R
	mageBin := filepath.Join(os.Getenv("VERIF_BIN"), "mage")
	root := filepath.Join(c.Tmp, "c12")
	home := filepath.Join(root, "home")
	os.MkdirAll(home, 0o755)
	dir := filepath.Join(root, "proj")
	writeFiles(dir, map[string]string{"go.mod": goMod("c12proj"), "magefile.go": c12Magefile})
	env := baseEnv(home)
	static := filepath.Join(root, "static.bin")
	if cr := runCmd(dir, env, mageBin, "-compile", static); cr.status != 0 {
		c.Emit(J{"op": "c12.run", "d": 0, "targets": []J{}}, J{"status": cr.status, "ending": "compile failed: " + cr.stderr}, "compile-failed")
		return
	}
	runCmd(dir, append(append([]string{}, env...), "MAGEFILE_HASHFAST=1"), mageBin, "sleep", "1", "true", "0") // warm the cache
	const margin = 700                                                                                             // ms a process may exit late under load
	// two fixed scenarios lead every run: the deadline strikes while the target is blocked in an external command that
	// outlives it — through the compiled binary and through the mage front end (whose own exit must not wait for it)
	fixed := []c12Case{
		{d: 600, targets: []c12Target{{dur: 2500, sh: true}}, way: "mage"},
		{d: 600, targets: []c12Target{{dur: 2500, sh: true}}, way: "static"},
		// SIGINT during the second target: cancellation, not sudden death (the first target's end must not drop the handler)
		{targets: []c12Target{{dur: 300, honours: true}, {dur: 2400, honours: true}, {dur: 200, honours: true}}, sig1: 900, way: "static"},
		// the deadline is shared: each target alone is shorter than d, together they are not (drawn at random this shape is
		// absent from one quick run in eight)
		{d: 800, targets: []c12Target{{dur: 560, honours: true}, {dur: 560, honours: true}, {dur: 240, honours: true}}, way: "static"},
	}
	for i := 0; i < c.N+len(fixed); i++ {
		var k c12Case
		if i < len(fixed) {
			k = fixed[i]
		} else {
			k = c12Gen(r, c.Tier)
		}
		var tj []J
		for _, t := range k.targets {
			tj = append(tj, J{"dur": t.dur, "honours": t.honours, "status": t.status})
		}
		in := J{"op": "c12.run", "d": k.d, "targets": tj, "way": k.way}
		for _, t := range k.targets {
			if t.sh {
				in["external"] = true
			}
		}
		if k.sig1 != 0 {
			in["sig1"] = k.sig1
		}
		if k.sig2 != 0 {
			in["sig2"] = k.sig2
		}
		// the model's exit time, to judge the timing class here (the oracle is not available to the harness): recomputed
		// by the check from the model's "exit"; here we only report elapsed and let `timing` be decided against bounds
		// carried in the input
		var impl J
		for attempt := 0; attempt < 3; attempt++ {
			impl = k.run(mageBin, static, dir, env)
			impl["attempt"] = attempt
			if c12Plausible(k, impl, margin) {
				break
			}
			time.Sleep(300 * time.Millisecond)
		}
		c.Emit(in, c12Canon(k, impl, margin), "way="+k.way, fmt.Sprintf("d=%d", k.d), fmt.Sprintf("targets=%d", len(k.targets)), fmt.Sprintf("sigs=%d", b2i(k.sig1 != 0)+b2i(k.sig2 != 0)), "ending="+fmt.Sprint(impl["ending"]))
	}
	// a failing sibling is no source of cancellation
	for _, way := range []string{"static", "mage"} {
		for _, style := range []string{"ctx", "plain"} {
			target := "siblings"
			if style == "plain" {
				target = "siblingsplain"
			}
			var rr runRes
			if way == "mage" {
				rr = runCmd(dir, append(append([]string{}, env...), "MAGEFILE_HASHFAST=1"), mageBin, target)
			} else {
				rr = runCmd(dir, env, static, target)
			}
			watch := "missing"
			switch {
			case strings.Contains(rr.stdout, "WATCH cancelled"):
				watch = "cancelled"
			case strings.Contains(rr.stdout, "WATCH live"):
				watch = "live"
			}
			c.Emit(J{"op": "c12.sibling", "style": style}, J{"watch": watch, "status": rr.status}, "class=sibling", "way="+way, "style="+style)
		}
	}
	// contexts of dependencies
	for _, to := range []bool{true, false} {
		for _, way := range []string{"static", "mage"} {
			for _, tree := range []string{"tree", "tree2"} {
				argv := []string{}
				if to {
					argv = append(argv, "-t", "1h")
				}
				argv = append(argv, tree)
				var rr runRes
				if way == "mage" {
					rr = runCmd(dir, append(append([]string{}, env...), "MAGEFILE_HASHFAST=1"), mageBin, argv...)
				} else {
					rr = runCmd(dir, env, static, argv...)
				}
				get := func(n string) interface{} {
					switch {
					case strings.Contains(rr.stdout, "DEP "+n+" deadline=true"):
						return true
					case strings.Contains(rr.stdout, "DEP "+n+" deadline=false"):
						return false
					}
					return "missing"
				}
				tags := []string{"class=deps", "way=" + way, "tree=" + tree}
				if tree == "tree" && to {
					tags = append(tags, "C12:ctx-dep-won-by-plain-deps")
				}
				c.Emit(J{"op": "c12.deps", "timeout": to, "tree": tree}, J{"A": get("A"), "B": get("B"), "C": get("C")}, tags...)
			}
		}
	}
	os.RemoveAll(root)
}

func b2i(b bool) int {
	if b {
		return 1
	}
	return 0
}

// expected exit time (ms after the first START) as the Lean model computes it; duplicated here only to decide whether a
// run deserves a retry and to turn the elapsed time into a class — the comparison of record is the oracle's.
func c12Expected(k c12Case) (exit int, ok bool) {
	s := 0
	for _, t := range k.targets {
		nat := s + t.dur
		dl := -1
		if k.d != 0 {
			dl = k.d
		}
		sig := -1
		if k.sig1 != 0 && k.sig1 > s {
			sig = k.sig1
		}
		if dl >= 0 && dl < nat && (sig < 0 || dl < sig) {
			return dl, true
		}
		if sig >= 0 && sig < nat && (dl < 0 || sig <= dl) {
			if t.honours {
				return sig, true
			}
			limit := sig + 5000
			if k.sig2 != 0 && k.sig2 > sig && k.sig2 < nat && k.sig2 < limit {
				return k.sig2, true
			}
			if limit < nat {
				return limit, true
			}
			if t.status != 0 {
				return nat, true
			}
			// it ended within the grace period: the next target finds the context cancelled and main exits at once
			return nat, true
		}
		if t.status != 0 {
			return nat, true
		}
		s = nat
	}
	return s, true
}

func c12Plausible(k c12Case, impl J, margin int) bool {
	exp, _ := c12Expected(k)
	el, _ := impl["elapsed"].(int)
	return el >= exp-30 && el <= exp+margin
}

func c12Canon(k c12Case, impl J, margin int) J {
	exp, _ := c12Expected(k)
	el, _ := impl["elapsed"].(int)
	timing := "ok"
	if el < exp-30 {
		timing = fmt.Sprintf("early: %d ms, expected %d", el, exp)
	} else if el > exp+margin {
		timing = fmt.Sprintf("late: %d ms, expected %d (+%d)", el, exp, margin)
	}
	out := J{"status": impl["status"], "ending": impl["ending"], "started": impl["started"], "timing": timing, "exit": exp}
	saw := []int{}
	if raw, ok := impl["sawCancelRaw"].([]int); ok {
		saw = raw
	}
	out["sawCancel"] = saw
	return out
}
