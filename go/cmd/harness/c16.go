package main

// C16: histories of calls to one sh.RunCmd / sh.OutCmd closure (environment changes in between, spare capacity in the
// captured slice, with and without extra arguments), direct calls with the caller's slice, env maps, and concurrent calls.
// The child echoes its argv, so every call reports what it was really run with.

import (
	"encoding/json"
	"fmt"
	"io"
	"log"
	"os"
	"path/filepath"
	"sort"
	"strings"
	"sync"

	"github.com/magefile/mage/sh"
)

func init() { streams["c16"] = c16 }

func splitEcho(s string) []string {
	i := strings.Index(s, "\x1e")
	if i < 0 {
		return []string{"<<unparsable echo>>", s}
	}
	if s[:i] == "0" {
		return []string{}
	}
	return strings.Split(s[i+1:], "\x1f")
}

func c16(c *Ctx) {
	r := c.R
	log.SetOutput(io.Discard)
	if dn, err := os.Open(os.DevNull); err == nil {
		os.Stdin = dn // the child hashes its stdin when it writes a report
	}
	child := filepath.Join(os.Getenv("VERIF_BIN"), "shchild")
	tmp := filepath.Join(c.Tmp, "c16")
	os.MkdirAll(tmp, 0o755)
	specPath := filepath.Join(tmp, "spec.json")
	os.Setenv("SHCHILD_SPEC", specPath)
	b, _ := json.Marshal(map[string]interface{}{"code": 0, "echo": true})
	os.WriteFile(specPath, b, 0o644)
	os.Setenv("MAGEFILE_VERBOSE", "0")
	atoms := []string{"$VT_A", "${VT_B}", "lit", "x$VT_A", "$VT_A$VT_B", "a b", "$VT_UNSET", "$$", "z"}
	vals := []string{"one", "two", "", "t h r e e", "$VT_B", "é"}
	// a second copy of the child program: the command word of a closure may be "$VT_CMDW", pointing at one or the other
	child2 := filepath.Join(tmp, "shchild-two")
	if cb, err := os.ReadFile(child); err == nil {
		os.WriteFile(child2, cb, 0o755)
	}
	os.Setenv("VT_CMDW", child)
	envNow := func() [][2]string {
		var l [][2]string
		for _, k := range []string{"VT_A", "VT_B", "VT_CMDW"} {
			if v, ok := os.LookupEnv(k); ok {
				l = append(l, [2]string{k, v})
			}
		}
		if l == nil {
			l = [][2]string{}
		}
		return l
	}
	randEnv := func() {
		for _, k := range []string{"VT_A", "VT_B"} {
			if r.Chance(1, 6) {
				os.Unsetenv(k)
			} else {
				os.Setenv(k, vals[r.Intn(len(vals))])
			}
		}
	}
	os.Unsetenv("VT_UNSET")
	mk := func(n, spare int) []string {
		s := make([]string, n, n+spare)
		for i := range s {
			s[i] = atoms[r.Intn(len(atoms))]
		}
		// fill spare slots with sentinels so that writes into them are visible
		full := s[:cap(s)]
		for i := n; i < len(full); i++ {
			full[i] = "<spare>"
		}
		return s
	}
	snapshot := func(s []string) []string { return append([]string{}, s[:cap(s)]...) }
	same := func(a, b []string) bool {
		if len(a) != len(b) {
			return false
		}
		for i := range a {
			if a[i] != b[i] {
				return false
			}
		}
		return true
	}
	for cse := 0; cse < c.N; cse++ {
		kind := r.Intn(10)
		switch {
		case kind < 6: // sequential history on one closure
			useOut := r.Bool()
			baked := mk(r.Intn(4), []int{0, 0, 1, 2, 5}[r.Intn(5)])
			bakedSnap := snapshot(baked)
			cmdWord := child
			viaVar := !useOut && r.Chance(1, 2) // the program itself named through a variable that changes between calls
			if viaVar {
				cmdWord = "$VT_CMDW"
			}
			run := sh.RunCmd(cmdWord, baked...)
			outc := sh.OutCmd(cmdWord, baked...)
			ncalls := 1 + r.Intn(6)
			var calls []J
			var got []interface{}
			var commands []string
			var shownL []bool
			unchanged := true
			for k := 0; k < ncalls; k++ {
				if k == 0 || r.Chance(2, 3) {
					randEnv()
				}
				if viaVar {
					os.Setenv("VT_CMDW", []string{child, child2}[r.Intn(2)])
				}
				extra := mk(r.Intn(4), r.Intn(3))
				if r.Chance(1, 3) {
					extra = extra[:0]
				}
				extraSnap := snapshot(extra)
				// the verbosity of the moment of the call decides whether the command's stdout is shown (like sh.Run), not
				// the verbosity of the moment the closure was made
				verboseNow := !useOut && r.Chance(1, 3)
				calls = append(calls, J{"extra": append([]string{}, extra...), "env": envNow(), "verbose": verboseNow})
				if useOut {
					o, err := outc(extra...)
					if err != nil {
						got = append(got, "ERR "+err.Error())
					} else {
						got = append(got, splitEcho(o))
					}
				} else {
					// RunCmd: stdout is discarded; observe through a report file instead
					rep := filepath.Join(tmp, "rep.json")
					os.Remove(rep)
					b, _ := json.Marshal(map[string]interface{}{"code": 0, "echo": true, "report": rep})
					os.WriteFile(specPath, b, 0o644)
					if verboseNow {
						os.Setenv("MAGEFILE_VERBOSE", "1")
					}
					sw := swapStd(tmp, nil)
					err := run(extra...)
					shownOut, _ := sw.restore()
					os.Setenv("MAGEFILE_VERBOSE", "0")
					shownL = append(shownL, len(shownOut) > 0)
					b2, _ := json.Marshal(map[string]interface{}{"code": 0, "echo": true})
					os.WriteFile(specPath, b2, 0o644)
					if err != nil {
						got = append(got, "ERR "+err.Error())
					} else {
						var repj struct{ Argv []string }
						rb, _ := os.ReadFile(rep)
						json.Unmarshal(rb, &repj)
						if viaVar && len(repj.Argv) > 0 {
							commands = append(commands, string(mustUnhex(repj.Argv[0])))
						}
						var av []string
						for _, h := range repj.Argv[1:] {
							av = append(av, string(mustUnhex(h)))
						}
						if av == nil {
							av = []string{}
						}
						got = append(got, av)
					}
				}
				if !same(snapshot(extra), extraSnap) {
					unchanged = false
				}
			}
			if !same(snapshot(baked), bakedSnap) {
				unchanged = false
			}
			tag := "seq-run"
			if useOut {
				tag = "seq-out"
			}
			sp := "cap=len"
			if cap(baked) > len(baked) {
				sp = "spare"
			}
			os.Setenv("VT_CMDW", child)
			in := J{"op": "c16.history", "baked": append([]string{}, baked...), "spare": cap(baked) - len(baked), "calls": calls, "run": !useOut}
			impl := J{"argvs": got, "callerUnchanged": unchanged}
			if !useOut {
				if shownL == nil {
					shownL = []bool{}
				}
				impl["shown"] = shownL
			}
			if viaVar {
				in["cmdWord"] = cmdWord
				impl["commands"] = commands
				tag += "-cmdvar"
			}
			c.Emit(in, impl, tag, sp)
		case kind < 8: // direct calls with the caller's slice and env map
			randEnv()
			xs := mk(1+r.Intn(3), r.Intn(2))
			if r.Chance(1, 3) {
				// nothing to expand at all (a fast path must not hand the caller's own array to anything that writes)
				for i := range xs {
					xs[i] = []string{"lit", "a b", "z", "-o", "build"}[r.Intn(5)]
				}
			}
			// verbose mode makes the helpers log the command line; it must not change what they do to their inputs
			verbose := r.Bool()
			if verbose {
				os.Setenv("MAGEFILE_VERBOSE", "1")
			}
			snap := snapshot(xs)
			var env map[string]string
			var envSnap map[string]string
			fn := []string{"Output", "OutputWith", "Run", "RunWith", "RunV", "Exec"}[r.Intn(6)]
			if fn == "OutputWith" || fn == "RunWith" || fn == "Exec" {
				env = map[string]string{}
				envSnap = map[string]string{}
				for _, k := range []string{"VT_A", "VT_B", "VT_Q"} {
					if r.Bool() {
						env[k] = vals[r.Intn(len(vals))]
						envSnap[k] = env[k]
					}
				}
			}
			var o string
			var err error
			sw := swapStd(tmp, nil)
			switch fn {
			case "Output":
				o, err = sh.Output(child, xs...)
			case "OutputWith":
				o, err = sh.OutputWith(env, child, xs...)
			case "Run":
				err = sh.Run(child, xs...)
			case "RunWith":
				err = sh.RunWith(env, child, xs...)
			case "RunV":
				err = sh.RunV(child, xs...)
			case "Exec":
				var sb strings.Builder
				_, err = sh.Exec(env, &sb, os.Stderr, child, xs...)
				o = sb.String()
			}
			shown, _ := sw.restore()
			os.Setenv("MAGEFILE_VERBOSE", "0")
			if fn == "RunV" {
				o = string(shown)
			}
			unchanged := same(snapshot(xs), snap) && len(env) == len(envSnap)
			for k, v := range envSnap {
				if env[k] != v {
					unchanged = false
				}
			}
			var em [][2]string
			for k, v := range envSnap {
				em = append(em, [2]string{k, v})
			}
			sort.Slice(em, func(i, j int) bool { return em[i][0] < em[j][0] })
			if em == nil {
				em = [][2]string{}
			}
			impl := J{"callerUnchanged": unchanged, "errNil": err == nil}
			if fn != "Run" && fn != "RunWith" {
				impl["argv"] = splitEcho(o)
			}
			c.Emit(J{"op": "c16.direct", "fn": fn, "xs": append([]string{}, snap[:len(xs)]...), "env": envNow(), "envMap": em}, impl, "direct", "fn="+fn, fmt.Sprintf("verbose=%v", verbose))
		default: // concurrent calls of one OutCmd closure (spare capacity), fixed environment
			randEnv()
			baked := mk(1+r.Intn(2), 1+r.Intn(3))
			bakedSnap := snapshot(baked)
			outc := sh.OutCmd(child, baked...)
			g := 4 + r.Intn(5)
			results := make([]interface{}, g)
			var calls []J
			extras := make([][]string, g)
			for i := 0; i < g; i++ {
				extras[i] = []string{"g" + string(rune('a'+i)), atoms[r.Intn(len(atoms))]}
				calls = append(calls, J{"extra": append([]string{}, extras[i]...), "env": envNow()})
			}
			var wg sync.WaitGroup
			start := make(chan struct{})
			for i := 0; i < g; i++ {
				wg.Add(1)
				go func(i int) {
					defer wg.Done()
					<-start
					for rep := 0; rep < 3; rep++ {
						o, err := outc(extras[i]...)
						if err != nil {
							results[i] = "ERR " + err.Error()
							return
						}
						if rep == 0 || !same(splitEcho(o), results[i].([]string)) {
							if rep > 0 {
								results[i] = append(results[i].([]string), "<<differs on repeat>>")
								return
							}
							results[i] = splitEcho(o)
						}
					}
				}(i)
			}
			close(start)
			wg.Wait()
			c.Emit(J{"op": "c16.concurrent", "baked": append([]string{}, baked...), "spare": cap(baked) - len(baked), "calls": calls},
				J{"argvs": results, "callerUnchanged": same(snapshot(baked), bakedSnap)}, "concurrent")
		}
	}
}

func mustUnhex(h string) []byte {
	out := make([]byte, len(h)/2)
	for i := 0; i+1 < len(h); i += 2 {
		var b byte
		for _, ch := range []byte{h[i], h[i+1]} {
			b <<= 4
			switch {
			case ch >= '0' && ch <= '9':
				b |= ch - '0'
			case ch >= 'a' && ch <= 'f':
				b |= ch - 'a' + 10
			}
		}
		out[i/2] = b
	}
	return out
}
