package main

// C09 — mage leaves the magefile directory as it found it.
// Real `mage` runs under injected faults (a go wrapper failing one subcommand; RLIMIT_FSIZE for the write of the
// generated file; strace-injected utimensat failure; projects that do not parse/compile; failing, panicking and unknown
// targets; SIGKILL while `go build` runs), with leftovers of the generated file in every state, with and without -keep,
// in both cache modes.  Around every run the directory is snapshotted.  Plus -init on directories with existing files
// and -clean on generated cache trees.

import (
	"crypto/sha256"
	"encoding/hex"
	"fmt"
	"os"
	"os/exec"
	"path/filepath"
	"sort"
	"strings"
	"syscall"
	"time"
)

func init() { streams["c09"] = c09 }

const c09Magefile = `//go:build mage

package main

import (
	"errors"
	"fmt"

	// mage:import
	_ "c09proj/tools"
)

func Ok() { fmt.Println("CALL ok") }

func Fail() error { return errors.New("requested failure") }

func Boom() { panic("requested panic") }
`

const c09Tools = `package tools

// Tool is an imported target.
func Tool() {}
`

const goWrapScript = `#!/bin/sh
# fails (VT_GOFAIL=<subcommand>) or stalls before (VT_GOPAUSE=<subcommand>) or after (VT_GOPAUSEAFTER=<subcommand>) one go subcommand
# (marker file VT_GOMARK, until VT_GORELEASE exists)
if [ -n "$VT_GOLIFT" ]; then ulimit -f unlimited 2>/dev/null; fi
if [ -n "$VT_GOFAIL" ] && [ "$1" = "$VT_GOFAIL" ]; then echo "injected failure of go $1" >&2; exit 1; fi
if [ -n "$VT_GOPAUSE" ] && [ "$1" = "$VT_GOPAUSE" ]; then
  : > "$VT_GOMARK"
  if [ -n "$VT_GORELEASE" ]; then n=0; while [ ! -e "$VT_GORELEASE" ] && [ $n -lt 600 ]; do sleep 0.1; n=$((n+1)); done; else sleep 60; fi
fi
if [ -n "$VT_GOPAUSEAFTER" ] && [ "$1" = "$VT_GOPAUSEAFTER" ]; then
  go "$@"; rc=$?
  : > "$VT_GOMARK"
  n=0; while [ ! -e "$VT_GORELEASE" ] && [ $n -lt 600 ]; do sleep 0.1; n=$((n+1)); done
  exit $rc
fi
exec go "$@"
`

// snapshot of a directory tree: relative path -> sha256 (or "dir"), without the generated main file
func snapshot(dir string) map[string]string {
	out := map[string]string{}
	filepath.Walk(dir, func(p string, fi os.FileInfo, err error) error {
		if err != nil {
			return nil
		}
		rel, _ := filepath.Rel(dir, p)
		if rel == "." || rel == "mage_output_file.go" || rel == "magefiles/mage_output_file.go" {
			return nil
		}
		if fi.IsDir() {
			out[rel] = "dir"
			return nil
		}
		b, _ := os.ReadFile(p)
		s := sha256.Sum256(b)
		out[rel] = hex.EncodeToString(s[:]) + fmt.Sprintf(":%o", fi.Mode().Perm())
		return nil
	})
	return out
}

func diffSnap(a, b map[string]string) string {
	var d []string
	for k, v := range a {
		if w, ok := b[k]; !ok {
			d = append(d, "-"+k)
		} else if w != v {
			d = append(d, "~"+k)
		}
	}
	for k := range b {
		if _, ok := a[k]; !ok {
			d = append(d, "+"+k)
		}
	}
	sort.Strings(d)
	if len(d) == 0 {
		return "unchanged"
	}
	return strings.Join(d, ",")
}

func fileExists(p string) bool { _, err := os.Stat(p); return err == nil }

const ignoreLine = "//go:build ignore\n"

func classifyMain(dir string, fullSize int64) string {
	b, err := os.ReadFile(filepath.Join(dir, "mage_output_file.go"))
	if err != nil {
		return "absent"
	}
	switch {
	case !strings.HasPrefix(string(b), ignoreLine):
		return "headless"
	case int64(len(b)) == fullSize:
		return "full"
	}
	return "truncated"
}

func c09(c *Ctx) {
	r := c.R
	mageBin := filepath.Join(os.Getenv("VERIF_BIN"), "mage")
	root := filepath.Join(c.Tmp, "c09")
	home := filepath.Join(root, "home")
	os.MkdirAll(home, 0o755)
	goWrap := filepath.Join(root, "gowrap.sh")
	os.WriteFile(goWrap, []byte(goWrapScript), 0o755)
	proj := filepath.Join(root, "proj")
	writeFiles(proj, map[string]string{"go.mod": goMod("c09proj"), "magefile.go": c09Magefile, "tools/tools.go": c09Tools,
		"README.md": "# readme\n", "data.bin": string(randBytes(r, 3000)), "sub/nested.txt": "nested\n", "helper.go": "package main\n\nvar helper = 1\n",
		"zz_test.go": "//go:build mage\n\npackage main\n"})
	os.Chmod(filepath.Join(proj, "data.bin"), 0o600)
	// the same project in the magefiles-directory layout: the generated file then lives in <proj>/magefiles
	flat := proj
	projMf := filepath.Join(root, "projmf")
	writeFiles(projMf, map[string]string{"go.mod": goMod("c09proj"), "magefiles/magefile.go": strings.Replace(c09Magefile, "//go:build mage\n\n", "", 1), "tools/tools.go": c09Tools,
		"README.md": "# readme\n", "sub/nested.txt": "nested\n", "magefiles/notes.txt": "notes\n"})
	env := baseEnv(home)
	// reference generated file
	runCmd(proj, env, mageBin, "-keep", "ok")
	ref, err := os.ReadFile(filepath.Join(proj, "mage_output_file.go"))
	if err != nil || len(ref) < 1000 {
		c.Emit(J{"op": "c09.run", "fault": "none", "keep": true, "force": false, "hashfast": false, "cached": false, "leftover": "absent", "target": 0},
			J{"status": -1, "main": "reference run with -keep left no main file", "others": "?", "ran": false}, "setup-failed")
		return
	}
	fullSize := int64(len(ref))
	os.Remove(filepath.Join(proj, "mage_output_file.go"))

	type fault struct{ name, model string }
	faults := []fault{{"none", "none"}, {"none", "none"}, {"none", "none"}, {"go:version", "exeName"}, {"go:env", "goEnv"}, {"go:list", "parse"}, {"go:build", "compile"},
		{"rlimit-write", "gen:write"}, {"strace-chtimes", "gen:chtimes"}, {"strace-create", "gen:create"}, {"proj:syntax", "parse"}, {"proj:collision", "parse"}, {"proj:typeerror", "compile"}, {"proj:nofiles", "noFiles"}}
	targets := []struct {
		word   string
		status int
	}{{"ok", 0}, {"ok", 0}, {"fail", 1}, {"boom", 1}, {"nosuch", 2}, {"tool", 0}}
	// prefix lengths of a real generated file; beyond its size: the whole file followed by garbage (a leftover of a
	// longer, different generation); -2: garbage without the constraint line, longer than the file
	leftovers := []int{-1, -1, -1, 0, 1, 5, 17, 18, 19, 40, 300, int(fullSize) - 1, int(fullSize), int(fullSize) + 700, -2}
	haveStrace := exec.Command("strace", "-V").Run() == nil

	cacheN := 0
	for i := 0; i < c.N; i++ {
		f := faults[r.Intn(len(faults))]
		proj, genDir, mfRel := flat, flat, "magefile.go"
		if r.Chance(1, 4) && !strings.HasPrefix(f.name, "proj:nofiles") {
			proj, genDir, mfRel = projMf, filepath.Join(projMf, "magefiles"), "magefiles/magefile.go"
		}
		if strings.HasPrefix(f.name, "strace-") && !haveStrace {
			f = faults[0]
		}
		tg := targets[r.Intn(len(targets))]
		keep := r.Chance(1, 5)
		hashfast := r.Chance(1, 2)
		force := r.Chance(1, 6)
		cached := hashfast && r.Chance(1, 2)
		lo := leftovers[r.Intn(len(leftovers))]
		// a project fault replaces the magefile for this case
		orig := c09Magefile
		if proj == projMf {
			orig = strings.Replace(c09Magefile, "//go:build mage\n\n", "", 1)
		}
		switch f.name {
		case "proj:syntax":
			os.WriteFile(filepath.Join(proj, mfRel), []byte(strings.Replace(orig, "func Ok() {", "func Ok( {", 1)), 0o644)
		case "proj:collision":
			os.WriteFile(filepath.Join(proj, mfRel), []byte(orig+"\nfunc OK() {}\n"), 0o644)
		case "proj:typeerror":
			os.WriteFile(filepath.Join(proj, mfRel), []byte(strings.Replace(orig, "fmt.Println(\"CALL ok\")", "var x int = \"s\"; fmt.Println(x)", 1)), 0o644)
		case "proj:nofiles":
			os.Rename(filepath.Join(proj, mfRel), filepath.Join(proj, mfRel+".off"))
		}
		cacheN++
		cacheDir := filepath.Join(root, fmt.Sprintf("cache%d", cacheN))
		runEnv := append([]string{}, env...)
		for k, e := range runEnv {
			if strings.HasPrefix(e, "MAGEFILE_CACHE=") {
				runEnv[k] = "MAGEFILE_CACHE=" + cacheDir
			}
		}
		if hashfast {
			runEnv = append(runEnv, "MAGEFILE_HASHFAST=1")
		}
		if cached {
			// an executable for the current sources is already in the cache (project faults included: then nothing gets cached)
			runCmd(proj, runEnv, mageBin, "ok")
			if _, err := os.Stat(cacheDir); err != nil {
				cached = false
			} else if ents, _ := os.ReadDir(cacheDir); len(ents) == 0 {
				cached = false
			}
		}
		leftover := "absent"
		if lo >= 0 || lo == -2 {
			var content []byte
			switch {
			case lo == -2:
				content = []byte(strings.Repeat("garbage )( not go\n", int(fullSize)/10))
			case lo > int(fullSize):
				content = append(append([]byte{}, ref...), []byte(strings.Repeat("\nfunc leftoverGarbage() { this does not parse\n", (lo-int(fullSize))/40))...)
			default:
				content = ref[:lo]
			}
			os.WriteFile(filepath.Join(genDir, "mage_output_file.go"), content, 0o644)
			leftover = classifyMain(genDir, fullSize)
		}
		before := snapshot(proj)
		argv := []string{}
		if keep {
			argv = append(argv, "-keep")
		}
		if force {
			argv = append(argv, "-f")
		}
		var rr runRes
		switch {
		case strings.HasPrefix(f.name, "go:"):
			argv = append(argv, "-gocmd", goWrap, tg.word)
			rr = runCmd(proj, append(runEnv, "VT_GOFAIL="+strings.TrimPrefix(f.name, "go:")), mageBin, argv...)
		case f.name == "rlimit-write":
			argv = append(argv, tg.word)
			// the first file mage writes is the generated main: with a 2 KiB file-size limit its write fails midway
			rr = runCmd(proj, runEnv, "sh", append([]string{"-c", "trap '' XFSZ; ulimit -f 4; exec \"$0\" \"$@\"", mageBin}, argv...)...)
		case f.name == "strace-chtimes":
			argv = append(argv, tg.word)
			// only system calls naming the generated file are intercepted: os.Chtimes in GenerateMainfile
			rr = runCmd(proj, runEnv, "strace", append([]string{"-f", "-o", "/dev/null", "-P", filepath.Join(genDir, "mage_output_file.go"), "-P", "mage_output_file.go", "-P", "magefiles/mage_output_file.go", "-e", "trace=utimensat", "-e", "inject=utimensat:error=EPERM", mageBin}, argv...)...)
		case f.name == "strace-create":
			argv = append(argv, tg.word)
			// os.Create of the generated file fails (the only openat with O_CREAT on that path is mage's)
			rr = runCmd(proj, runEnv, "strace", append([]string{"-f", "-o", "/dev/null", "-P", filepath.Join(genDir, "mage_output_file.go"), "-P", "mage_output_file.go", "-P", "magefiles/mage_output_file.go", "-e", "trace=openat", "-e", "inject=openat:error=EACCES", mageBin}, argv...)...)
		default:
			argv = append(argv, tg.word)
			rr = runCmd(proj, runEnv, mageBin, argv...)
		}
		after := snapshot(proj)
		impl := J{"status": rr.status, "main": classifyMain(genDir, fullSize), "others": diffSnap(before, after), "ran": strings.Contains(rr.stdout, "CALL ok")}
		// "ran" is only observable for the ok target; for the others compare status only
		in := J{"op": "c09.run", "fault": f.model, "keep": keep, "force": force, "hashfast": hashfast, "cached": cached, "leftover": leftover, "target": tg.status, "word": tg.word}
		if tg.word != "ok" {
			impl["ran"] = "<n/a>"
			in["noran"] = true
		}
		layout := "flat"
		if proj == projMf {
			layout = "magefilesdir"
		}
		c.Emit(in, impl, "layout="+layout, "fault="+f.name, "leftover="+leftover, fmt.Sprintf("keep=%v", keep), fmt.Sprintf("hashfast=%v cached=%v force=%v", hashfast, cached, force), "target="+tg.word)
		// restore
		os.Remove(filepath.Join(genDir, "mage_output_file.go"))
		if f.name == "proj:nofiles" {
			os.Rename(filepath.Join(proj, mfRel+".off"), filepath.Join(proj, mfRel))
		} else if strings.HasPrefix(f.name, "proj:") {
			os.WriteFile(filepath.Join(proj, mfRel), []byte(orig), 0o644)
		}
		os.RemoveAll(cacheDir)
	}

	// crash point: SIGKILL while `go build` runs (the generated file is complete and still there), then a normal run
	nk := 1 + c.N/40
	for i := 0; i < nk; i++ {
		cacheDir := filepath.Join(root, fmt.Sprintf("kcache%d", i))
		runEnv := append([]string{}, env...)
		for k, e := range runEnv {
			if strings.HasPrefix(e, "MAGEFILE_CACHE=") {
				runEnv[k] = "MAGEFILE_CACHE=" + cacheDir
			}
		}
		mark := filepath.Join(root, fmt.Sprintf("mark%d", i))
		pause := []string{"build", "list", "env"}[i%3]
		cmd := exec.Command(mageBin, "-gocmd", goWrap, "ok")
		cmd.Dir = proj
		cmd.Env = append(append([]string{}, runEnv...), "VT_GOPAUSE="+pause, "VT_GOMARK="+mark)
		cmd.SysProcAttr = &syscall.SysProcAttr{Setpgid: true}
		if err := cmd.Start(); err == nil {
			for w := 0; w < 600; w++ {
				if _, err := os.Stat(mark); err == nil {
					break
				}
				time.Sleep(50 * time.Millisecond)
			}
			syscall.Kill(-cmd.Process.Pid, syscall.SIGKILL)
			cmd.Wait()
		}
		leftover := classifyMain(proj, fullSize)
		before := snapshot(proj)
		rr := runCmd(proj, runEnv, mageBin, "ok")
		after := snapshot(proj)
		in := J{"op": "c09.run", "fault": "none", "keep": false, "force": false, "hashfast": false, "cached": false, "leftover": leftover, "target": 0, "word": "ok"}
		c.Emit(in, J{"status": rr.status, "main": classifyMain(proj, fullSize), "others": diffSnap(before, after), "ran": strings.Contains(rr.stdout, "CALL ok")}, "class=killed-at-"+pause, "leftover="+leftover)
		os.Remove(filepath.Join(proj, "mage_output_file.go"))
		os.Remove(mark)
		os.RemoveAll(cacheDir)
	}

	// crash point: the process dies at the first byte it writes to the generated file (created, still empty); then a
	// normal run in the same directory
	if crash := filepath.Join(os.Getenv("VERIF_BIN"), "crashmage"); fileExists(crash) {
		for i := 0; i < 1+c.N/40; i++ {
			d := filepath.Join(root, fmt.Sprintf("crash%d", i))
			gen := d
			files := map[string]string{"go.mod": goMod("c09crash"), "magefile.go": "//go:build mage\n\npackage main\n\nimport \"fmt\"\n\nfunc Ok() { fmt.Println(\"CALL ok\") }\n", "keep.txt": "keep\n"}
			if i%2 == 1 {
				gen = filepath.Join(d, "magefiles")
				files = map[string]string{"go.mod": goMod("c09crash"), "magefiles/magefile.go": "package main\n\nimport \"fmt\"\n\nfunc Ok() { fmt.Println(\"CALL ok\") }\n", "keep.txt": "keep\n"}
			}
			writeFiles(d, files)
			cacheDir := filepath.Join(root, fmt.Sprintf("ccache%d", i))
			runEnv := append([]string{}, env...)
			for k, e := range runEnv {
				if strings.HasPrefix(e, "MAGEFILE_CACHE=") {
					runEnv[k] = "MAGEFILE_CACHE=" + cacheDir
				}
			}
			before := snapshot(d)
			cr := runCmd(d, append(append([]string{}, runEnv...), "VT_GOLIFT=1"), crash, "-gocmd", goWrap, "ok")
			leftover := classifyMain(gen, fullSize)
			rr := runCmd(d, runEnv, mageBin, "ok")
			after := snapshot(d)
			in := J{"op": "c09.run", "fault": "none", "keep": false, "force": false, "hashfast": false, "cached": false, "leftover": leftover, "target": 0, "word": "ok"}
			impl := J{"status": rr.status, "main": classifyMain(gen, fullSize), "others": diffSnap(before, after), "ran": strings.Contains(rr.stdout, "CALL ok")}
			if rr.status != 0 {
				impl["stderr"] = strings.TrimSpace(rr.stderr)
			}
			c.Emit(in, impl, "class=killed-at-first-write", "leftover="+leftover, fmt.Sprintf("crash-status=%d", cr.status))
			os.RemoveAll(d)
			os.RemoveAll(cacheDir)
		}
	}

	// -init
	for i := 0; i < 2+c.N/20; i++ {
		d := filepath.Join(root, fmt.Sprintf("init%d", i))
		pool := []string{"magefile.go", "main.go", "README.md", "Magefile.go", "magefile.go.bak", "mage_output_file.go"}
		var names []string
		fm := map[string]string{}
		for _, n := range pool {
			if r.Chance(1, 2) {
				names = append(names, n)
				fm[n] = "old:" + n
			}
		}
		os.MkdirAll(d, 0o755)
		// the magefile may exist as a symbolic link whose target does not: it exists, so -init creates nothing — neither
		// here nor where the link points
		dangling := ""
		if i == 0 || r.Chance(1, 4) {
			if fm["magefile.go"] == "" {
				names = append([]string{"magefile.go"}, names...)
			}
			delete(fm, "magefile.go")
			dangling = filepath.Join(root, fmt.Sprintf("init%d-outside.go", i))
		}
		writeFiles(d, fm)
		if dangling != "" {
			os.Symlink(dangling, filepath.Join(d, "magefile.go"))
		}
		rr := runCmd(d, env, mageBin, "-init")
		var changed []string
		for _, n := range names {
			if dangling != "" && n == "magefile.go" {
				tgt, lerr := os.Readlink(filepath.Join(d, n))
				_, serr := os.Lstat(dangling)
				if lerr != nil || tgt != dangling || serr == nil {
					changed = append(changed, n)
				}
				os.Remove(dangling)
				continue
			}
			b, err := os.ReadFile(filepath.Join(d, n))
			if err != nil || string(b) != "old:"+n {
				changed = append(changed, n)
			}
		}
		if changed == nil {
			changed = []string{}
		}
		ents, _ := os.ReadDir(d)
		if names == nil {
			names = []string{}
		}
		c.Emit(J{"op": "c09.init", "files": names}, J{"status": rr.status, "changed": changed, "created": len(ents) > len(names)}, "class=init", fmt.Sprintf("exists=%v", fm["magefile.go"] != "" || dangling != ""), fmt.Sprintf("dangling=%v", dangling != ""))
		os.RemoveAll(d)
	}

	// -clean
	for i := 0; i < 2+c.N/20; i++ {
		base := filepath.Join(root, fmt.Sprintf("clean%d", i))
		cd := filepath.Join(base, "the", "cache")
		os.MkdirAll(cd, 0o755)
		outside := filepath.Join(base, "outside.txt")
		os.WriteFile(outside, []byte("outside"), 0o644)
		os.MkdirAll(filepath.Join(base, "outdir"), 0o755)
		os.WriteFile(filepath.Join(base, "outdir", "deep.txt"), []byte("deep"), 0o644)
		var entries []J
		n := 1 + r.Intn(6)
		for k := 0; k < n; k++ {
			name := fmt.Sprintf("e%02d", k)
			switch r.Intn(5) {
			case 0, 1:
				os.WriteFile(filepath.Join(cd, name), randBytes(r, 10), 0o755)
				entries = append(entries, J{"name": name, "dir": false})
			case 2:
				os.MkdirAll(filepath.Join(cd, name, "inner"), 0o755)
				os.WriteFile(filepath.Join(cd, name, "precious.txt"), []byte("precious"), 0o644)
				os.WriteFile(filepath.Join(cd, name, "inner", "deeper.txt"), []byte("deeper"), 0o644)
				entries = append(entries, J{"name": name, "dir": true})
			case 3:
				os.Symlink(outside, filepath.Join(cd, name))
				entries = append(entries, J{"name": name, "dir": false})
			case 4:
				os.Symlink(filepath.Join(base, "outdir"), filepath.Join(cd, name))
				entries = append(entries, J{"name": name, "dir": false})
			}
		}
		spelling := []string{cd, cd + "/", filepath.Join(base, "the") + "//cache", filepath.Join(base, "the", ".", "cache", "sub", ".."), "./the/cache", "the/cache/"}[r.Intn(6)]
		linked := i%3 == 1 || r.Chance(1, 4)
		if linked {
			// the cache directory is reached through a symbolic link (a dotfile-managed ~/.magefile): its entries are
			// cleaned, the link itself stays
			os.Symlink(cd, filepath.Join(base, "cachelink"))
			spelling = []string{filepath.Join(base, "cachelink"), "cachelink", "./cachelink/"}[r.Intn(3)]
		}
		before := snapshot(base)
		runEnv := append([]string{}, env...)
		for k, e := range runEnv {
			if strings.HasPrefix(e, "MAGEFILE_CACHE=") {
				runEnv[k] = "MAGEFILE_CACHE=" + spelling
			}
		}
		if strings.HasSuffix(spelling, "sub/..") {
			os.MkdirAll(filepath.Join(cd, "sub"), 0o755)
			entries = append(entries, J{"name": "sub", "dir": true})
			before = snapshot(base)
		}
		rr := runCmd(base, runEnv, mageBin, "-clean")
		after := snapshot(base)
		left := []string{}
		ents, _ := os.ReadDir(cd)
		for _, e := range ents {
			left = append(left, e.Name())
		}
		// everything that is not a direct entry of the cache directory must be unchanged
		below := []string{}
		rel, _ := filepath.Rel(base, cd)
		for _, d := range strings.Split(diffSnap(before, after), ",") {
			if d == "unchanged" || d == "" {
				continue
			}
			p := d[1:]
			if filepath.Dir(p) == rel {
				continue // a direct entry: judged through "left"
			}
			below = append(below, d)
		}
		bs := "unchanged"
		if len(below) > 0 {
			bs = strings.Join(below, ",")
		}
		sort.Slice(entries, func(a, b int) bool { return entries[a]["name"].(string) < entries[b]["name"].(string) })
		c.Emit(J{"op": "c09.clean", "entries": entries}, J{"left": left, "ok": rr.status == 0, "below": bs}, "class=clean", fmt.Sprintf("entries=%d", len(entries)), fmt.Sprintf("through-symlink=%v", linked))
		os.RemoveAll(base)
	}
	os.RemoveAll(root)
}
