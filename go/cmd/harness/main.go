// Command harness drives the real magefile/mage code (module replaced by /repo's working tree) with generated
// inputs and writes one JSON line per case: {"id":n,"in":{...},"impl":{...},"tags":[...]}.
// "in" is what the Lean oracle is given, "impl" is what the implementation was observed to do, in the same
// canonical shape the oracle prints.  All randomness derives from -seed.
package main

import (
	"bufio"
	"encoding/json"
	"flag"
	"fmt"
	"os"
	"sort"

	"verif/internal/rng"
)

type J = map[string]interface{}

type Ctx struct {
	R      *rng.R
	N      int
	Tier   string
	W      *bufio.Writer
	count  int
	Tmp    string
	Corpus string
	Prop   string // property the check is deciding (streams shared by several properties may specialise)
}

func (c *Ctx) Emit(in J, impl J, tags ...string) {
	c.count++
	line := J{"id": c.count, "in": in, "impl": impl, "tags": tags}
	b, err := json.Marshal(line)
	if err != nil {
		panic(err)
	}
	c.W.Write(b)
	c.W.WriteByte('\n')
	c.W.Flush()
}

var streams = map[string]func(*Ctx){}

func main() {
	if len(os.Args) < 2 {
		var names []string
		for k := range streams {
			names = append(names, k)
		}
		sort.Strings(names)
		fmt.Fprintln(os.Stderr, "usage: harness <stream> [flags]; streams:", names)
		os.Exit(2)
	}
	name := os.Args[1]
	fs := flag.NewFlagSet(name, flag.ExitOnError)
	n := fs.Int("n", 100, "number of generated cases")
	seed := fs.Uint64("seed", 1, "seed")
	out := fs.String("out", "", "output file (default stdout)")
	tier := fs.String("tier", "quick", "quick|thorough")
	tmp := fs.String("tmp", "", "scratch directory (must exist)")
	corpus := fs.String("corpus", "", "corpus directory")
	prop := fs.String("prop", "", "property id")
	fs.Parse(os.Args[2:])
	f, ok := streams[name]
	if !ok {
		fmt.Fprintln(os.Stderr, "unknown stream", name)
		os.Exit(2)
	}
	w := os.Stdout
	if *out != "" {
		var err error
		w, err = os.Create(*out)
		if err != nil {
			panic(err)
		}
		defer w.Close()
	}
	if *tmp == "" {
		d, err := os.MkdirTemp("", "verif-h-")
		if err != nil {
			panic(err)
		}
		defer os.RemoveAll(d)
		*tmp = d
	}
	c := &Ctx{R: rng.New(*seed), N: *n, Tier: *tier, W: bufio.NewWriter(w), Tmp: *tmp, Corpus: *corpus, Prop: *prop}
	f(c)
	c.W.Flush()
}
