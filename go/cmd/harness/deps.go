package main

// Deps family (C01 C02 C03 C13): random acyclic dependency programs run through the real mg.Deps / CtxDeps /
// SerialDeps / SerialCtxDeps with *gated* bodies: every body blocks on harness-owned gates at entry, before each of
// its own Deps calls and before finishing; a controller releases one waiting gate at a time in a generated order,
// after the process has settled, so "a dependency held in flight while other requesters arrive", "sibling fails
// while others run", "late requester" are forced.  The recorded event trace is judged by the Lean monitors; the
// schedule-independent outcomes are compared with the model run under a fair schedule.

import (
	"context"
	"errors"
	"fmt"
	"os"
	"sort"
	"strings"
	"sync"
	"syscall"
	"time"

	"github.com/magefile/mage/mg"
	"verif/internal/rng"
)

func init() { streams["deps"] = depsStream }

type dCall struct {
	Serial bool
	Ctx    bool
	Keys   []int
}
type dOut struct {
	Kind string
	Code int
	Msg  string
}
type dBody struct {
	Calls []dCall
	Out   dOut
	Sig   int // 0: func(int) error, 1: func(ctx,int) error, 2: func(int)
}

type depsCase struct {
	mu      sync.Mutex
	trace   []J
	bodies  map[string]*dBody // "k3" / "r0"
	base    int
	waiting map[string]chan struct{}
	arrived int64
	gateSeq int
	hold    bool
}

var curDeps *depsCase

func (d *depsCase) log(e J) {
	d.mu.Lock()
	d.trace = append(d.trace, e)
	d.arrived++
	d.mu.Unlock()
}

// gate blocks until the controller releases it.
func (d *depsCase) gate(name string) {
	if !d.hold {
		return
	}
	ch := make(chan struct{})
	d.mu.Lock()
	d.gateSeq++
	id := fmt.Sprintf("%s#%d", name, d.gateSeq)
	d.waiting[id] = ch
	d.arrived++
	d.mu.Unlock()
	<-ch
}

func resJ(v interface{}) interface{} {
	if v == nil {
		return nil
	}
	if err, ok := v.(error); ok {
		return []interface{}{mg.ExitStatus(err), err.Error()}
	}
	return []interface{}{1, fmt.Sprint(v)}
}

// runBody executes the calls of an owner and ends with its outcome. It returns (error, panicValue).
func (d *depsCase) runBody(owner string, ctx context.Context) (ret error) {
	b := d.bodies[owner]
	isKey := owner[0] == 'k'
	var k int
	if isKey {
		fmt.Sscanf(owner[1:], "%d", &k)
		d.log(J{"e": "start", "k": k})
	}
	d.gate(owner + ":entry")
	for i, c := range b.Calls {
		fns := make([]interface{}, len(c.Keys))
		for j, key := range c.Keys {
			fns[j] = d.fn(key)
		}
		d.gate(fmt.Sprintf("%s:call%d", owner, i))
		d.log(J{"e": "enter", "o": owner, "i": i})
		var pv interface{}
		func() {
			defer func() { pv = recover() }()
			switch {
			case c.Serial && c.Ctx:
				mg.SerialCtxDeps(ctx, fns...)
			case c.Serial:
				mg.SerialDeps(fns...)
			case c.Ctx:
				mg.CtxDeps(ctx, fns...)
			default:
				mg.Deps(fns...)
			}
		}()
		if pv != nil {
			code := 1
			if err, ok := pv.(error); ok {
				code = mg.ExitStatus(err)
			}
			d.log(J{"e": "pan", "o": owner, "i": i, "code": code, "msgs": strings.Split(fmt.Sprint(pv), "\n")})
			if isKey {
				d.log(J{"e": "stop", "k": k, "res": resJ(pv)})
			}
			panic(pv) // a body does not recover: the failure of its Deps call is its own failure
		}
		d.log(J{"e": "ret", "o": owner, "i": i})
	}
	d.gate(owner + ":exit")
	switch b.Out.Kind {
	case "ok":
		if isKey {
			d.log(J{"e": "stop", "k": k, "res": nil})
		}
		return nil
	case "err":
		var err error
		if b.Out.Code == -1 && b.Out.Msg == context.Canceled.Error() {
			err = context.Canceled // the very value a cancelled context reports: still an ordinary failure of the dependency
		} else if b.Out.Code == -1 && b.Out.Msg == context.DeadlineExceeded.Error() {
			err = context.DeadlineExceeded // an error whose dynamic value is the zero value of a struct type: non-nil all the same
		} else if b.Out.Code == -1 && b.Out.Msg == "" {
			err = zeroErr(0) // the zero value of a named integer type with an Error method (empty message)
		} else if b.Out.Code == -1 {
			err = errors.New(b.Out.Msg)
		} else {
			err = mg.Fatal(b.Out.Code, b.Out.Msg)
		}
		if isKey {
			d.log(J{"e": "stop", "k": k, "res": resJ(err)})
		}
		return err
	case "panicErr":
		var err error
		if b.Out.Code == -1 {
			err = errors.New(b.Out.Msg)
		} else {
			err = mg.Fatal(b.Out.Code, b.Out.Msg)
		}
		if isKey {
			d.log(J{"e": "stop", "k": k, "res": resJ(err)})
		}
		panic(err)
	default: // panicVal
		if isKey {
			d.log(J{"e": "stop", "k": k, "res": resJ(b.Out.Msg)})
		}
		panic(b.Out.Msg)
	}
}

// zeroErr is an error type whose zero value is a perfectly good (non-nil) error.
type zeroErr int

func (zeroErr) Error() string { return "" }

// The three real dependency functions; identity is (function, id), the id encodes case and key.
func depNode(id int) error { return curDeps.runBody(fmt.Sprintf("k%d", id-curDeps.base), context.Background()) }
func depNodeCtx(ctx context.Context, id int) error {
	return curDeps.runBody(fmt.Sprintf("k%d", id-curDeps.base), ctx)
}
func depNodeVoid(id int) { curDeps.runBody(fmt.Sprintf("k%d", id-curDeps.base), context.Background()) }

func (d *depsCase) fn(key int) mg.Fn {
	switch d.bodies[fmt.Sprintf("k%d", key)].Sig {
	case 1:
		return mg.F(depNodeCtx, d.base+key)
	case 2:
		return mg.F(depNodeVoid, d.base+key)
	}
	return mg.F(depNode, d.base+key)
}

func genDepsProgram(r *rng.R, nkeys, nroots int, fatalZero bool) map[string]*dBody {
	bodies := map[string]*dBody{}
	msgs := []string{"boom", "bad thing", "x failed", "oops", "E42"}
	genCalls := func(minKey int, maxCalls int) []dCall {
		var calls []dCall
		if minKey >= nkeys {
			return calls
		}
		n := r.Intn(maxCalls + 1)
		for i := 0; i < n; i++ {
			c := dCall{Serial: r.Chance(2, 5), Ctx: r.Bool()}
			m := r.Intn(5)
			if r.Chance(1, 12) {
				m = 0
			}
			for j := 0; j < m; j++ {
				c.Keys = append(c.Keys, minKey+r.Intn(nkeys-minKey))
			}
			if c.Keys == nil {
				c.Keys = []int{}
			}
			calls = append(calls, c)
		}
		return calls
	}
	for k := 0; k < nkeys; k++ {
		b := &dBody{Calls: genCalls(k+1, 2), Sig: r.Intn(3)}
		switch r.Intn(10) {
		case 0, 1:
			code := []int{-1, 1, 2, 3, 5, 7, 7, 99}[r.Intn(8)]
			if fatalZero && r.Chance(1, 12) {
				code = 0 // mg.Fatal(0, …): known finding D2
			}
			b.Out = dOut{Kind: "err", Code: code, Msg: fmt.Sprintf("%s %d", msgs[r.Intn(len(msgs))], k)}
		case 2:
			code := []int{-1, 2, 5, 7}[r.Intn(4)]
			b.Out = dOut{Kind: "panicErr", Code: code, Msg: fmt.Sprintf("panic %s %d", msgs[r.Intn(len(msgs))], k)}
		case 3:
			b.Out = dOut{Kind: "panicVal", Msg: fmt.Sprintf("value %d", k)}
		default:
			b.Out = dOut{Kind: "ok"}
		}
		if b.Out.Kind != "ok" && r.Chance(1, 6) {
			b.Out.Msg = "" // a failure without text: mg.Fatal(code), errors.New(""), panic("")
		}
		if b.Out.Kind == "err" && r.Chance(1, 4) {
			b.Out.Code, b.Out.Msg = -1, context.Canceled.Error() // fails with context.Canceled itself (some roots run with cancelled contexts)
		} else if b.Out.Kind == "err" && r.Chance(1, 4) {
			b.Out.Code, b.Out.Msg = -1, context.DeadlineExceeded.Error() // a zero-valued struct as error value
		}
		if b.Sig == 2 && b.Out.Kind == "err" {
			b.Out.Kind = "panicErr" // a func(int) cannot return an error
		}
		if b.Calls == nil {
			b.Calls = []dCall{}
		}
		bodies[fmt.Sprintf("k%d", k)] = b
	}
	for rr := 0; rr < nroots; rr++ {
		b := &dBody{Calls: genCalls(0, 2), Out: dOut{Kind: "ok"}}
		if len(b.Calls) == 0 {
			b.Calls = []dCall{{Serial: r.Bool(), Keys: []int{r.Intn(nkeys)}}}
		}
		bodies[fmt.Sprintf("r%d", rr)] = b
	}
	return bodies
}

// captureFd2 redirects the process' fd 2 (mg's logger writes there) into a file for the duration of the stream.
func captureFd2(path string) (restore func(), read func() string) {
	f, err := os.Create(path)
	if err != nil {
		panic(err)
	}
	saved, err := syscall.Dup(2)
	if err != nil {
		panic(err)
	}
	syscall.Dup2(int(f.Fd()), 2)
	var off int64
	return func() { syscall.Dup2(saved, 2); syscall.Close(saved); f.Close() }, func() string {
			b, _ := os.ReadFile(path)
			s := string(b[off:])
			off = int64(len(b))
			return s
		}
}

func depsStream(c *Ctx) {
	r := c.R
	os.Setenv("MAGEFILE_VERBOSE", "1")
	restore, readErr := captureFd2(c.Tmp + "/deps-stderr.txt")
	defer restore()
	settle := 1500 * time.Microsecond
	for cse := 0; cse < c.N; cse++ {
		nkeys := 1 + r.Intn(8)
		nroots := 1 + r.Intn(3)
		d := &depsCase{bodies: genDepsProgram(r, nkeys, nroots, c.Prop == "C03"), base: (cse+1)*4096 + int(c.R.U64()%7)*1000000,
			waiting: map[string]chan struct{}{}, hold: !r.Chance(1, 6)}
		curDeps = d
		rr := r.Fork()
		done := make(chan string, nroots)
		// the contexts handed to CtxDeps/SerialCtxDeps by the roots: none of the properties lets a cancelled context change
		// what the Deps family waits for or reports, so some roots run with a context that is already cancelled, or that is
		// cancelled while their dependencies are held in flight
		cancelMode := r.Intn(4) // 0,1: background; 2: cancelled before the start; 3: cancelled a moment after
		for ri := 0; ri < nroots; ri++ {
			owner := fmt.Sprintf("r%d", ri)
			ctx := context.Background()
			if cancelMode >= 2 && ri%2 == 0 {
				cctx, cancel := context.WithCancel(ctx)
				ctx = cctx
				if cancelMode == 2 {
					cancel()
				} else {
					go func() { time.Sleep(3 * time.Millisecond); cancel() }()
				}
			}
			go func() {
				defer func() {
					recover()
					done <- owner
				}()
				d.runBody(owner, ctx)
			}()
		}
		finished := 0
		stuck := false
		lastArr := int64(-1)
		idleSince := time.Now()
		idleIters := 0
		for finished < nroots {
			select {
			case <-done:
				finished++
				continue
			default:
			}
			time.Sleep(settle)
			d.mu.Lock()
			arr := d.arrived
			var ids []string
			for id := range d.waiting {
				ids = append(ids, id)
			}
			d.mu.Unlock()
			if arr != lastArr {
				lastArr = arr
				idleSince = time.Now()
				idleIters = 0
				continue // still moving: let it settle
			}
			idleIters++
			if len(ids) == 0 {
				// nobody waits at a gate and nothing moves: a deadlock in the implementation — but only if this controller
				// itself got enough turns meanwhile (on a starved machine the bodies are as slow as we are)
				if time.Since(idleSince) > 5*time.Second && idleIters >= 1500 {
					stuck = true
					break
				}
				continue
			}
			sort.Strings(ids)
			id := ids[rr.Intn(len(ids))]
			d.mu.Lock()
			ch := d.waiting[id]
			delete(d.waiting, id)
			d.arrived++
			d.mu.Unlock()
			close(ch)
		}
		if stuck {
			// release everything so that goroutines can drain; report
			d.mu.Lock()
			for id, ch := range d.waiting {
				close(ch)
				delete(d.waiting, id)
			}
			d.hold = false
			d.mu.Unlock()
		}
		time.Sleep(settle)
		verbose := strings.Count(readErr(), "Running dependency: ")
		// oracle input
		var bodies []J
		var owners []string
		for o := range d.bodies {
			owners = append(owners, o)
		}
		sort.Strings(owners)
		for _, o := range owners {
			b := d.bodies[o]
			calls := []J{}
			for _, cl := range b.Calls {
				calls = append(calls, J{"serial": cl.Serial, "keys": cl.Keys})
			}
			code := b.Out.Code
			if code == -1 {
				code = 1 // a plain error is worth status 1
			}
			bodies = append(bodies, J{"owner": o, "calls": calls, "out": J{"kind": b.Out.Kind, "code": code, "msg": b.Out.Msg}})
		}
		roots := []int{}
		for ri := 0; ri < nroots; ri++ {
			roots = append(roots, ri)
		}
		d.mu.Lock()
		trace := append([]J{}, d.trace...)
		d.mu.Unlock()
		// implementation outcomes in the oracle's canonical form
		var executed []int
		callsOut := map[string]J{}
		for _, e := range trace {
			switch e["e"] {
			case "start":
				executed = append(executed, e["k"].(int))
			case "ret":
				key := fmt.Sprintf("%s/%d", e["o"], e["i"])
				callsOut[key] = J{"c": key, "end": "ret"}
			case "pan":
				key := fmt.Sprintf("%s/%d", e["o"], e["i"])
				ms := append([]string{}, e["msgs"].([]string)...)
				sort.Strings(ms)
				callsOut[key] = J{"c": key, "end": "pan", "code": e["code"], "msgs": ms}
			}
		}
		sort.Ints(executed)
		if executed == nil {
			executed = []int{}
		}
		var ckeys []string
		for k := range callsOut {
			ckeys = append(ckeys, k)
		}
		sort.Strings(ckeys)
		callsList := []J{}
		for _, k := range ckeys {
			callsList = append(callsList, callsOut[k])
		}
		impl := J{"traceOK": "ok", "modelSelfOK": "ok", "executed": executed, "calls": callsList, "verbose": verbose}
		if stuck {
			impl["traceOK"] = "implementation did not finish (deadlock?)"
		}
		tags := []string{fmt.Sprintf("keys=%d", nkeys), fmt.Sprintf("roots=%d", nroots)}
		if d.hold {
			tags = append(tags, "gated")
		} else {
			tags = append(tags, "free-running")
		}
		anyFail, anySerial := false, false
		for _, b := range d.bodies {
			if b.Out.Kind != "ok" {
				anyFail = true
			}
			for _, cl := range b.Calls {
				if cl.Serial {
					anySerial = true
				}
			}
		}
		if anyFail {
			tags = append(tags, "has-failure")
		}
		for _, b := range d.bodies {
			if b.Out.Kind != "ok" && b.Out.Kind != "panicVal" && b.Out.Code == 0 {
				tags = append(tags, "C03:fatal-code-0")
				break
			}
		}
		if anySerial {
			tags = append(tags, "has-serial")
		}
		if len(trace) <= 3 {
			tags = append(tags, "trivial")
		}
		c.Emit(J{"op": "deps.case", "roots": roots, "bodies": bodies, "trace": trace}, impl, tags...)
	}
}
