package main

// C14: mg.F against generated signatures (reflect.FuncOf + reflect.MakeFunc) and argument lists; and the identity of
// mg.F values (same function and equal arguments <=> one dependency), observed through Name()/ID() and through the
// number of executions under mg.Deps.

import (
	"context"
	"errors"
	"fmt"
	"reflect"
	"regexp"
	"strconv"
	"strings"
	"sync/atomic"
	"time"
	"unicode/utf8"

	"github.com/magefile/mage/mg"
)

func init() {
	streams["c14"] = c14
	streams["ident"] = identStream
}

type MyInt int
type MyStr string
type Dur2 time.Duration
type BuildNS mg.Namespace

// look-alikes of context.Context: they implement it (a context.Context value is even assignable from them) without being it
type wrapCtx struct{ context.Context }
type wideCtx interface {
	context.Context
	Extra()
}

type tyDesc struct {
	name string // model name
	t    reflect.Type
	val  func(i int) interface{}
}

var errT = reflect.TypeOf((*error)(nil)).Elem()
var ctxT = reflect.TypeOf((*context.Context)(nil)).Elem()

var tyPool = []tyDesc{
	{"int", reflect.TypeOf(0), func(i int) interface{} { return i }},
	{"str", reflect.TypeOf(""), func(i int) interface{} { return fmt.Sprint("s", i) }},
	{"bool", reflect.TypeOf(true), func(i int) interface{} { return i%2 == 0 }},
	{"dur", reflect.TypeOf(time.Second), func(i int) interface{} { return time.Duration(i) * time.Millisecond }},
	{"ctx", ctxT, func(i int) interface{} { return context.Background() }},
	{"err", errT, func(i int) interface{} { return errors.New("e") }},
	{"ns", reflect.TypeOf(struct{}{}), func(i int) interface{} { return struct{}{} }},
	{"ns", reflect.TypeOf(mg.Namespace{}), func(i int) interface{} { return mg.Namespace{} }},
	{"ns", reflect.TypeOf(BuildNS{}), func(i int) interface{} { return BuildNS{} }},
	{"other1", reflect.TypeOf(MyInt(0)), func(i int) interface{} { return MyInt(i) }},
	{"other2", reflect.TypeOf(int64(0)), func(i int) interface{} { return int64(i) }},
	{"other3", reflect.TypeOf(MyStr("")), func(i int) interface{} { return MyStr("m") }},
	{"other4", reflect.TypeOf(1.5), func(i int) interface{} { return 1.5 }},
	{"other5", reflect.TypeOf((*interface{})(nil)).Elem(), func(i int) interface{} { return "iface" }},
	{"other6", reflect.TypeOf(Dur2(0)), func(i int) interface{} { return Dur2(i) }},
	{"other7", reflect.TypeOf(time.Time{}), func(i int) interface{} { return time.Time{} }},
	{"slice:str", reflect.TypeOf([]string{}), func(i int) interface{} { return []string{"x"} }},
	{"other8", reflect.TypeOf(wrapCtx{}), func(i int) interface{} { return wrapCtx{context.Background()} }},
	{"other9", reflect.TypeOf(&wrapCtx{}), func(i int) interface{} { return &wrapCtx{context.Background()} }},
	{"other10", reflect.TypeOf((*wideCtx)(nil)).Elem(), func(i int) interface{} { return nil }},
}

func tyByModel(name string) *tyDesc {
	for i := range tyPool {
		if tyPool[i].name == name {
			return &tyPool[i]
		}
	}
	return nil
}

var argIdxRx = regexp.MustCompile(`argument (\d+)`)

func classifyFErr(msg string) J {
	idx := func() int {
		if m := argIdxRx.FindStringSubmatch(msg); m != nil {
			n, _ := strconv.Atoi(m[1])
			return n
		}
		return -1
	}
	switch {
	case strings.HasPrefix(msg, "non-function passed to mg.F"):
		return J{"ok": false, "err": "notFunc"}
	case strings.Contains(msg, "too many return values"):
		return J{"ok": false, "err": "tooManyReturns"}
	case strings.Contains(msg, "return value is not an error"):
		return J{"ok": false, "err": "badReturn"}
	case strings.Contains(msg, "too many arguments"):
		return J{"ok": false, "err": "tooManyArgs"}
	case strings.Contains(msg, "too few arguments"):
		return J{"ok": false, "err": "tooFewArgs"}
	case strings.Contains(msg, "wrong number of arguments"):
		return J{"ok": false, "err": "wrongNumber"}
	case strings.Contains(msg, "is not a supported argument type"):
		return J{"ok": false, "err": "unsupported", "i": idx()}
	case strings.Contains(msg, "expected to be"):
		return J{"ok": false, "err": "mismatch", "i": idx()}
	}
	return J{"ok": false, "err": "other:" + msg}
}

func c14(c *Ctx) {
	r := c.R
	commonIns := []int{0, 1, 2, 3, 0, 1, 2, 3, 4, 6, 7, 8, 9, 10, 11, 12, 13, 14, 15, 16}
	for cse := 0; cse < c.N; cse++ {
		if r.Chance(1, 40) { // not a function at all
			var tgt interface{}
			switch r.Intn(4) {
			case 0:
				tgt = nil
			case 1:
				tgt = 5
			case 2:
				tgt = "str"
			default:
				tgt = struct{}{}
			}
			var impl J
			func() {
				defer func() {
					if v := recover(); v != nil {
						impl = classifyFErr(fmt.Sprint(v))
					}
				}()
				mg.F(tgt)
				impl = J{"ok": true}
			}()
			c.Emit(J{"op": "c14.checkF", "notFunc": true, "ins": []string{}, "variadic": false, "outs": []string{}, "args": []interface{}{}}, impl, "notFunc")
			continue
		}
		// signature
		var ins []tyDesc
		if r.Chance(2, 3) && r.Chance(1, 2) {
			ins = append(ins, tyPool[6+r.Intn(3)]) // receiver
		}
		if r.Chance(1, 2) {
			if r.Chance(1, 6) {
				ins = append(ins, tyPool[17+r.Intn(3)]) // something that merely implements context.Context, where the context goes
			} else {
				ins = append(ins, tyPool[4]) // context
			}
		}
		n := r.Intn(4)
		for i := 0; i < n; i++ {
			ins = append(ins, tyPool[commonIns[r.Intn(len(commonIns))]])
		}
		if r.Chance(1, 8) { // shuffle: context/receiver in odd places
			p := r.Perm(len(ins))
			s2 := make([]tyDesc, len(ins))
			for i, j := range p {
				s2[i] = ins[j]
			}
			ins = s2
		}
		variadic := r.Chance(1, 3)
		var elem tyDesc
		if variadic {
			elem = tyPool[commonIns[r.Intn(len(commonIns))]]
			if elem.name == "slice:str" {
				elem = tyPool[1]
			}
		}
		var outs []tyDesc
		switch r.Intn(8) {
		case 0, 1, 2:
		case 3, 4, 5:
			outs = []tyDesc{tyPool[5]}
		case 6:
			outs = []tyDesc{tyPool[0]}
		default:
			outs = []tyDesc{tyPool[5], tyPool[5]}
		}
		var inT, outT []reflect.Type
		var inNames, outNames []string
		for _, d := range ins {
			inT = append(inT, d.t)
			inNames = append(inNames, d.name)
		}
		if variadic {
			inT = append(inT, reflect.SliceOf(elem.t))
			inNames = append(inNames, "slice:"+elem.name)
		}
		for _, d := range outs {
			outT = append(outT, d.t)
			outNames = append(outNames, d.name)
		}
		if inNames == nil {
			inNames = []string{}
		}
		if outNames == nil {
			outNames = []string{}
		}
		ft := reflect.FuncOf(inT, outT, variadic)
		var received []reflect.Value
		retErr := errors.New("the error of this run")
		wantErr := r.Bool()
		fv := reflect.MakeFunc(ft, func(args []reflect.Value) []reflect.Value {
			received = args
			var res []reflect.Value
			for _, o := range outT {
				if o == errT && wantErr {
					res = append(res, reflect.ValueOf(&retErr).Elem())
				} else {
					res = append(res, reflect.Zero(o))
				}
			}
			return res
		})
		// arguments: start from the right list (model's view: after optional receiver and context), then mutate
		rest := ins
		if len(rest) > 0 && rest[0].name == "ns" {
			rest = rest[1:]
		}
		if len(rest) > 0 && rest[0].name == "ctx" {
			rest = rest[1:]
		}
		var args []interface{}
		var argNames []interface{}
		for i, d := range rest {
			args = append(args, d.val(i+cse))
			argNames = append(argNames, d.name)
		}
		if variadic {
			for i := 0; i < r.Intn(4); i++ {
				args = append(args, elem.val(i))
				argNames = append(argNames, elem.name)
			}
		}
		mut := r.Intn(10)
		switch {
		case mut == 0 && len(args) > 0: // drop one
			k := r.Intn(len(args))
			args = append(args[:k:k], args[k+1:]...)
			argNames = append(argNames[:k:k], argNames[k+1:]...)
		case mut == 1: // surplus
			d := tyPool[r.Intn(4)]
			args = append(args, d.val(7))
			argNames = append(argNames, d.name)
		case mut == 2 && len(args) > 0: // wrong type (look-alike) at a position
			k := r.Intn(len(args))
			d := tyPool[commonIns[r.Intn(len(commonIns))]]
			args[k] = d.val(3)
			argNames[k] = d.name
		case mut == 3 && len(args) > 0: // untyped nil
			k := r.Intn(len(args))
			args[k] = nil
			argNames[k] = nil
		case mut == 4: // context passed explicitly
			args = append([]interface{}{context.Background()}, args...)
			argNames = append([]interface{}{"other:ctxvalue"}, argNames...)
		}
		// what mg.F sees of an argument is its dynamic type: a value taken from the interface{}-typed pool entry is a string
		for i, a := range args {
			if a == nil {
				argNames[i] = nil
				continue
			}
			if _, isCtx := a.(context.Context); isCtx {
				continue
			}
			for _, d := range tyPool {
				if d.t == reflect.TypeOf(a) {
					argNames[i] = d.name
					break
				}
			}
		}
		if argNames == nil {
			argNames = []interface{}{}
		}
		var impl J
		var fn mg.Fn
		func() {
			defer func() {
				if v := recover(); v != nil {
					impl = classifyFErr(fmt.Sprint(v))
				}
			}()
			fn = mg.F(fv.Interface(), args...)
			impl = J{"ok": true}
		}()
		tag := "rejected"
		if impl["ok"] == true {
			tag = "accepted"
			// run it: arguments received, context and receiver, error returned
			ctx := context.WithValue(context.Background(), "k", cse)
			var runErr error
			callOK := true
			func() {
				defer func() {
					if v := recover(); v != nil {
						callOK = false
					}
				}()
				runErr = fn.Run(ctx)
			}()
			if callOK {
				// expected vector
				var want []interface{}
				full := ins
				if len(full) > 0 && full[0].name == "ns" {
					want = append(want, "<ns>")
					full = full[1:]
				}
				if len(full) > 0 && full[0].name == "ctx" {
					want = append(want, ctx)
				}
				want = append(want, args...)
				var got []interface{}
				nfixed := len(inT)
				if variadic {
					nfixed--
				}
				for i, v := range received {
					if variadic && i == nfixed {
						for j := 0; j < v.Len(); j++ {
							got = append(got, v.Index(j).Interface())
						}
						continue
					}
					if i < len(ins) && ins[i].name == "ns" && i == 0 {
						got = append(got, "<ns>")
						continue
					}
					got = append(got, v.Interface())
				}
				if len(got) != len(want) {
					callOK = false
				} else {
					for i := range got {
						if !reflect.DeepEqual(got[i], want[i]) {
							callOK = false
						}
					}
				}
				// result unchanged
				hasErrOut := len(outT) == 1 && outT[0] == errT
				if hasErrOut && wantErr && runErr != retErr {
					callOK = false
				}
				if (!hasErrOut || !wantErr) && runErr != nil {
					callOK = false
				}
			}
			impl["callOK"] = callOK
		}
		if variadic {
			tag += "-variadic"
		}
		c.Emit(J{"op": "c14.checkF", "notFunc": false, "ins": inNames, "variadic": variadic, "outs": outNames, "args": argNames}, impl, tag, fmt.Sprint("err=", impl["err"]))
	}
}

// ---------- identity ----------

var identCount int64

func idF1(a int)                          { atomic.AddInt64(&identCount, 1) }
func idF2(a int)                          { atomic.AddInt64(&identCount, 1) }
func idFS(a int, s string)                { atomic.AddInt64(&identCount, 1) }
func idFSS(a int, s, t string)            { atomic.AddInt64(&identCount, 1) }
func idFV(a int, s ...string)             { atomic.AddInt64(&identCount, 1) }
func idFB(a int, b bool, d time.Duration) { atomic.AddInt64(&identCount, 1) }
func idFI(a int, b int)                   { atomic.AddInt64(&identCount, 1) }
func idFD(a int, d time.Duration)         { atomic.AddInt64(&identCount, 1) }

// case twins of the above: different functions whose names differ in letter case only
func IdF1(a int)           { atomic.AddInt64(&identCount, 1) }
func IDF1(a int)           { atomic.AddInt64(&identCount, 1) }
func idfs(a int, s string) { atomic.AddInt64(&identCount, 1) }

type IdNS mg.Namespace

func (IdNS) m1(a int) { atomic.AddInt64(&identCount, 1) }

func (IdNS) M1(a int)           { atomic.AddInt64(&identCount, 1) }
func (IdNS) M2(a int)           { atomic.AddInt64(&identCount, 1) }
func (IdNS) MS(a int, s string) { atomic.AddInt64(&identCount, 1) }

type identFn struct {
	name string
	fn   interface{}
	kind string // parameter shape after the leading int
}

var identFns = []identFn{
	{"idF1", idF1, ""}, {"idF2", idF2, ""}, {"idFS", idFS, "s"}, {"idFSS", idFSS, "ss"}, {"idFV", idFV, "v"},
	{"idFB", idFB, "bd"}, {"idFI", idFI, "i"}, {"idFD", idFD, "d"},
	{"IdNS.M1", IdNS.M1, ""}, {"IdNS.M2", IdNS.M2, ""}, {"IdNS.MS", IdNS.MS, "s"},
	{"IdF1", IdF1, ""}, {"IDF1", IDF1, ""}, {"idfs", idfs, "s"}, {"IdNS.m1", IdNS.m1, ""},
}

// names equal up to letter case (indices into identFns)
var identCaseTwins = [][2]int{{0, 11}, {0, 12}, {11, 12}, {2, 13}, {8, 14}}

// the same methods named as method values (known finding D28: a different runtime symbol, "…-fm")
var identMethodValues = []identFn{{"IdNS.M1", IdNS{}.M1, ""}, {"IdNS.MS", IdNS{}.MS, "s"}}

var identStrs = []string{"", "a", "b", "a b", `a","b`, `c`, `b","c`, `"`, `\`, `\"`, "<", "é", " ", "a\nb", "null", "1", "true", "[", "]", ",", " ", "x y", "x", "y", `p","q`, "p", "q"}

func identStream(c *Ctx) {
	r := c.R
	base := int(r.U64()%1000) * 100000
	mkArgs := func(kind string, uniq int) ([]interface{}, []interface{}) {
		args := []interface{}{uniq}
		desc := []interface{}{J{"t": "int", "v": fmt.Sprint(uniq)}}
		addS := func() {
			s := identStrs[r.Intn(len(identStrs))]
			args = append(args, s)
			desc = append(desc, J{"t": "str", "v": hx(s)})
		}
		switch kind {
		case "s":
			addS()
		case "ss":
			addS()
			addS()
		case "v":
			for i := 0; i < r.Intn(4); i++ {
				addS()
			}
		case "bd":
			b := r.Bool()
			d := time.Duration(r.Intn(3))
			args = append(args, b, d)
			desc = append(desc, J{"t": "bool", "v": fmt.Sprint(b)}, J{"t": "dur", "v": fmt.Sprint(int64(d))})
		case "i":
			v := r.Intn(3) - 1
			args = append(args, v)
			desc = append(desc, J{"t": "int", "v": fmt.Sprint(v)})
		case "d":
			d := time.Duration(r.Intn(3) - 1)
			args = append(args, d)
			desc = append(desc, J{"t": "dur", "v": fmt.Sprint(int64(d))})
		}
		return args, desc
	}
	strs := identStrs
	if c.Prop == "C14" {
		strs = append(append([]string{}, identStrs...), "\xff", "\xfe", "a\xffb", "a\xfeb") // known finding D14b
	}
	identStrs = strs
	for cse := 0; cse < c.N; cse++ {
		uniq := base + cse
		a := identFns[r.Intn(len(identFns))]
		b := a
		if r.Chance(1, 3) {
			b = identFns[r.Intn(len(identFns))]
		}
		if r.Chance(1, 8) {
			tw := identCaseTwins[r.Intn(len(identCaseTwins))]
			a, b = identFns[tw[0]], identFns[tw[1]]
		}
		mv := false
		if c.Prop == "C01" && r.Chance(1, 15) {
			b = identMethodValues[r.Intn(len(identMethodValues))]
			a = identFns[8]
			if b.kind == "s" {
				a = identFns[10]
			}
			mv = true
		}
		argsA, descA := mkArgs(a.kind, uniq)
		var argsB, descB []interface{}
		if b.name == a.name && r.Chance(1, 2) {
			argsB, descB = append([]interface{}{}, argsA...), descA // equal argument values
		} else {
			argsB, descB = mkArgs(b.kind, uniq)
		}
		if !mv && r.Chance(1, 6) {
			// deliberate near-collisions: different argument lists whose naive renderings coincide
			type pr struct {
				f    identFn
				x, y []string
			}
			prs := []pr{
				{identFns[3], []string{`a","b`, "c"}, []string{"a", `b","c`}},
				{identFns[4], []string{"x y"}, []string{"x", "y"}},
				{identFns[4], []string{}, []string{""}},
				{identFns[4], []string{`p","q`}, []string{"p", "q"}},
				{identFns[3], []string{"a b", "c"}, []string{"a", "b c"}},
				{identFns[2], []string{"1"}, []string{"1 "}},
				{identFns[4], []string{"a", ""}, []string{"a"}},
				{identFns[3], []string{`\`, `"`}, []string{`\"`, ``}},
				{identFns[3], []string{"a,b", "c"}, []string{"a", "b,c"}},
				{identFns[4], []string{"a,b"}, []string{"a", "b"}},
				{identFns[4], []string{","}, []string{"", ""}},
				{identFns[3], []string{"a] [b", "c"}, []string{"a", "b] [c"}},
			}
			if c.Prop == "C14" {
				prs = append(prs, pr{identFns[2], []string{"\xff"}, []string{"\xfe"}}, pr{identFns[4], []string{"a\xffb", "z"}, []string{"a\xfeb", "z"}})
			}
			p := prs[r.Intn(len(prs))]
			a, b = p.f, p.f
			mk := func(ss []string) ([]interface{}, []interface{}) {
				args := []interface{}{uniq}
				desc := []interface{}{J{"t": "int", "v": fmt.Sprint(uniq)}}
				for _, s := range ss {
					args = append(args, s)
					desc = append(desc, J{"t": "str", "v": hx(s)})
				}
				return args, desc
			}
			argsA, descA = mk(p.x)
			argsB, descB = mk(p.y)
		}
		fa := mg.F(a.fn, argsA...)
		fb := mg.F(b.fn, argsB...)
		before := atomic.LoadInt64(&identCount)
		mg.Deps(fa, fb)
		ran := atomic.LoadInt64(&identCount) - before
		sameKey := fa.Name() == fb.Name() && fa.ID() == fb.ID()
		impl := J{"same": ran == 1, "keySame": sameKey, "idA": fa.ID(), "idB": fb.ID()}
		tags := []string{"ident"}
		if a.name == b.name {
			tags = append(tags, "same-fn")
		} else {
			tags = append(tags, "diff-fn")
		}
		if mv {
			tags = append(tags, "C01:method-value-vs-method-expression")
		}
		for _, l := range [][]interface{}{argsA, argsB} {
			for _, v := range l {
				if s, ok := v.(string); ok && !utf8.ValidString(s) {
					tags = append(tags, "C14:invalid-utf8-arg")
				}
			}
		}
		c.Emit(J{"op": "c14.identity", "fnA": a.name, "argsA": descA, "fnB": b.name, "argsB": descB}, impl, tags...)
	}
}
