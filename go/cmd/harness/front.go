package main

// In-process correspondence of the small transcribed pieces under the process-level models:
//   flags.parse  Go's flag package on random flag tables and argument vectors   vs Gen/Flags.lean
//   front.parse  the real mage.Parse on random front-end command lines and MAGEFILE_* environments   vs Invoke/Front.lean
//   paths.ops    path/filepath Clean / Join / IsAbs / Abs-from-a-directory   vs Invoke/Paths.lean
// Thousands of cases per second; used by C05, C08 and C11.

import (
	"bytes"
	"flag"
	"fmt"
	"os"
	"path/filepath"
	"strings"
	"time"

	"github.com/magefile/mage/mage"

	"verif/internal/rng"
)

func init() { streams["front"] = frontStream }

var flagAtoms = []string{"-", "--", "---", "-=", "--=", "-x", "--x", "-x=", "-x=1", "x", "", " ", "-é", "é", "=", "-h", "-help", "--help", "-h=true", "-h=0"}
var boolWords = []string{"true", "false", "1", "0", "t", "f", "T", "F", "TRUE", "FALSE", "True", "False", "yes", "no", "", "tRuE", " true", "2"}
var durWords = []string{"1s", "5m30s", "0", "1.5h", "-2ms", "1", "s", "", "1d", "100us", "1h1h", "+3s", ".5s", "1e3s"}

func genArgv(r *rng.R, names []string, kinds map[string]string) []string {
	var argv []string
	n := r.Intn(6)
	for i := 0; i < n; i++ {
		switch r.Intn(10) {
		case 0:
			argv = append(argv, flagAtoms[r.Intn(len(flagAtoms))])
		case 1:
			argv = append(argv, []string{"build", "ok", "x:y", "-l", "a b"}[r.Intn(5)])
		default:
			name := names[r.Intn(len(names))]
			if r.Chance(1, 10) {
				name = name + "x"
			}
			dash := "-"
			if r.Chance(1, 4) {
				dash = "--"
			}
			var val string
			switch kinds[name] {
			case "bool":
				val = boolWords[r.Intn(len(boolWords))]
			case "dur":
				val = durWords[r.Intn(len(durWords))]
			default:
				val = []string{"v", "", "-v", "a=b", "--", "dir/sub", "é"}[r.Intn(7)]
			}
			switch r.Intn(3) {
			case 0:
				argv = append(argv, dash+name)
			case 1:
				argv = append(argv, dash+name+"="+val)
			case 2:
				argv = append(argv, dash+name, val)
			}
		}
	}
	if argv == nil {
		argv = []string{}
	}
	return argv
}

// conversion records for every word and for every value written as -name=value
func convAll(argv []string) J {
	words := append([]string{}, argv...)
	for _, a := range argv {
		if i := strings.Index(a, "="); i >= 0 {
			words = append(words, a[i+1:])
		}
	}
	return convRecord(words)
}

func errClass(err error) string {
	if err == flag.ErrHelp {
		return "help"
	}
	s := err.Error()
	switch {
	case strings.HasPrefix(s, "bad flag syntax"):
		return "badSyntax"
	case strings.HasPrefix(s, "flag provided but not defined"):
		return "notDefined"
	case strings.HasPrefix(s, "invalid boolean value"):
		return "badBool"
	case strings.HasPrefix(s, "flag needs an argument"):
		return "needsArg"
	case strings.HasPrefix(s, "invalid value"):
		return "badValue"
	}
	return "other: " + s
}

func frontStream(c *Ctx) {
	r := c.R
	// ---- flags.parse
	pool := []string{"v", "l", "h", "t", "d", "debug", "f", "keep", "w", "gocmd", "compile", "x1", "help"}
	for i := 0; i < c.N; i++ {
		var specs []J
		kinds := map[string]string{}
		var names []string
		fs := flag.FlagSet{}
		fs.SetOutput(&bytes.Buffer{})
		fs.Usage = func() {}
		bools, durs, strs := map[string]*bool{}, map[string]*time.Duration{}, map[string]*string{}
		for _, pi := range r.Perm(len(pool))[:2+r.Intn(5)] {
			n := pool[pi]
			k := []string{"bool", "dur", "str"}[r.Intn(3)]
			kinds[n] = k
			names = append(names, n)
			specs = append(specs, J{"name": n, "kind": k})
			switch k {
			case "bool":
				bools[n] = fs.Bool(n, false, "")
			case "dur":
				durs[n] = fs.Duration(n, 0, "")
			default:
				strs[n] = fs.String(n, "", "")
			}
		}
		argv := genArgv(r, names, kinds)
		err := fs.Parse(argv)
		impl := J{}
		if err != nil {
			impl["error"] = errClass(err)
			impl["msg"] = err.Error()
		} else {
			set := [][]string{}
			seen := map[string]bool{}
			fs.Visit(func(f *flag.Flag) { seen[f.Name] = true })
			for _, sp := range specs {
				n := sp["name"].(string)
				if !seen[n] {
					continue
				}
				switch kinds[n] {
				case "bool":
					set = append(set, []string{n, fmt.Sprintf("b:%v", *bools[n])})
				case "dur":
					set = append(set, []string{n, fmt.Sprintf("d:%d", int64(*durs[n]))})
				default:
					set = append(set, []string{n, "s:" + *strs[n]})
				}
			}
			rest := fs.Args()
			if rest == nil {
				rest = []string{}
			}
			impl["set"], impl["rest"] = set, rest
		}
		tag := "ok"
		if err != nil {
			tag = "err=" + fmt.Sprint(impl["error"])
		}
		c.Emit(J{"op": "flags.parse", "specs": specs, "argv": argv, "conv": convAll(argv)}, impl, "flags", tag)
	}
	// ---- flags.parse, small scope exhaustively (thorough tier): every argument vector of length <= 3 over an alphabet of
	// spellings, against the flag table of the generated main
	if c.Tier == "thorough" {
		alpha := []string{"-v", "-v=false", "-v=x", "--v", "-t", "-t=1s", "-t=", "5s", "x", "--", "-", "-h", "-l", "--l=1", "-zz", "=", "-v="}
		specs := []J{{"name": "v", "kind": "bool"}, {"name": "l", "kind": "bool"}, {"name": "h", "kind": "bool"}, {"name": "t", "kind": "dur"}}
		var rec func(prefix []string, depth int)
		rec = func(prefix []string, depth int) {
			argv := append([]string{}, prefix...)
			fs := flag.FlagSet{}
			fs.SetOutput(&bytes.Buffer{})
			fs.Usage = func() {}
			bv, bl, bh := fs.Bool("v", false, ""), fs.Bool("l", false, ""), fs.Bool("h", false, "")
			dt := fs.Duration("t", 0, "")
			err := fs.Parse(argv)
			impl := J{}
			if err != nil {
				impl["error"] = errClass(err)
				impl["msg"] = err.Error()
			} else {
				set := [][]string{}
				seen := map[string]bool{}
				fs.Visit(func(f *flag.Flag) { seen[f.Name] = true })
				for _, n := range []string{"v", "l", "h", "t"} {
					if !seen[n] {
						continue
					}
					switch n {
					case "v":
						set = append(set, []string{n, fmt.Sprintf("b:%v", *bv)})
					case "l":
						set = append(set, []string{n, fmt.Sprintf("b:%v", *bl)})
					case "h":
						set = append(set, []string{n, fmt.Sprintf("b:%v", *bh)})
					case "t":
						set = append(set, []string{n, fmt.Sprintf("d:%d", int64(*dt))})
					}
				}
				rest := fs.Args()
				if rest == nil {
					rest = []string{}
				}
				impl["set"], impl["rest"] = set, rest
			}
			c.Emit(J{"op": "flags.parse", "specs": specs, "argv": argv, "conv": convAll(argv)}, impl, "flags-exhaustive", fmt.Sprintf("len=%d", len(argv)))
			if depth == 0 {
				return
			}
			for _, a := range alpha {
				rec(append(append([]string{}, prefix...), a), depth-1)
			}
		}
		rec([]string{}, 3)
	}
	// ---- front.parse
	frontNames := []string{"f", "debug", "v", "h", "t", "keep", "d", "w", "gocmd", "goos", "goarch", "ldflags", "l", "version", "init", "clean", "compile"}
	frontKinds := map[string]string{"f": "bool", "debug": "bool", "v": "bool", "h": "bool", "t": "dur", "keep": "bool", "d": "str", "w": "str", "gocmd": "str", "goos": "str",
		"goarch": "str", "ldflags": "str", "l": "bool", "version": "bool", "init": "bool", "clean": "bool", "compile": "str"}
	envKeys := []string{"MAGEFILE_VERBOSE", "MAGEFILE_DEBUG", "MAGEFILE_GOCMD", "MAGEFILE_CACHE", "MAGEFILE_HASHFAST", "HOME"}
	saved := map[string]*string{}
	for _, k := range envKeys {
		if v, ok := os.LookupEnv(k); ok {
			vv := v
			saved[k] = &vv
		} else {
			saved[k] = nil
		}
	}
	defer func() {
		for k, v := range saved {
			if v == nil {
				os.Unsetenv(k)
			} else {
				os.Setenv(k, *v)
			}
		}
	}()
	parseOnce := func(argv []string, env [][]string, tags ...string) {
		var so, se bytes.Buffer
		inv, cmd, err := mage.Parse(&se, &so, argv)
		impl := J{}
		switch {
		case err == flag.ErrHelp:
			impl["result"] = "usage"
		case err != nil:
			impl["result"] = "misuse"
		default:
			args := inv.Args
			if args == nil {
				args = []string{}
			}
			impl = J{"result": "ok", "cmd": cmd.String(), "debug": inv.Debug, "dir": inv.Dir, "workDir": inv.WorkDir, "force": inv.Force, "verbose": inv.Verbose,
				"list": inv.List, "help": inv.Help, "keep": inv.Keep, "timeout": fmt.Sprint(int64(inv.Timeout)), "compileOut": inv.CompileOut, "goos": inv.GOOS,
				"goarch": inv.GOARCH, "ldflags": inv.Ldflags, "args": args, "goCmd": inv.GoCmd, "cacheDir": inv.CacheDir, "hashFast": inv.HashFast}
		}
		c.Emit(J{"op": "front.parse", "argv": argv, "env": env, "conv": convAll(argv)}, impl, append([]string{"front", "result=" + fmt.Sprint(impl["result"])}, tags...)...)
	}
	// small scope exhaustively (thorough tier): every command line of length <= 2 over an alphabet of the front end's flags
	if c.Tier == "thorough" {
		for _, k := range envKeys {
			os.Unsetenv(k)
		}
		os.Setenv("HOME", "/home/u")
		alpha := []string{"-f", "-debug", "-v", "-h", "-t", "-t=1s", "5s", "-keep", "-d", "dir", "-w", "-gocmd", "go2", "-goos", "plan9", "-goarch", "-ldflags", "-l",
			"-version", "-init", "-clean", "-compile", "out", "--", "-x", "build", "-v=false", "-h=true", "-clean=false", "-l=0"}
		parseOnce([]string{}, [][]string{{"HOME", "/home/u"}}, "front-exhaustive")
		for _, a := range alpha {
			parseOnce([]string{a}, [][]string{{"HOME", "/home/u"}}, "front-exhaustive")
			for _, b := range alpha {
				parseOnce([]string{a, b}, [][]string{{"HOME", "/home/u"}}, "front-exhaustive")
			}
		}
	}
	for i := 0; i < c.N; i++ {
		env := [][]string{}
		for _, k := range envKeys {
			os.Unsetenv(k)
			if r.Chance(1, 3) {
				var v string
				switch k {
				case "MAGEFILE_GOCMD":
					v = []string{"go1.99", "", "/x/go"}[r.Intn(3)]
				case "MAGEFILE_CACHE":
					v = []string{"/c", "rel", ""}[r.Intn(3)]
				case "HOME":
					v = []string{"/home/u", ""}[r.Intn(2)]
				default:
					v = boolWords[r.Intn(len(boolWords))]
				}
				os.Setenv(k, v)
				env = append(env, []string{k, v})
			}
		}
		argv := genArgv(r, frontNames, frontKinds)
		var so, se bytes.Buffer
		inv, cmd, err := mage.Parse(&se, &so, argv)
		impl := J{}
		switch {
		case err == flag.ErrHelp:
			impl["result"] = "usage"
		case err != nil:
			// after a flag error mage.Parse goes on with what was parsed so far and may report one of its own checks instead;
			// either way it is misuse (exit 2): only the class is compared
			impl["result"] = "misuse"
		default:
			args := inv.Args
			if args == nil {
				args = []string{}
			}
			impl = J{"result": "ok", "cmd": cmd.String(), "debug": inv.Debug, "dir": inv.Dir, "workDir": inv.WorkDir, "force": inv.Force, "verbose": inv.Verbose,
				"list": inv.List, "help": inv.Help, "keep": inv.Keep, "timeout": fmt.Sprint(int64(inv.Timeout)), "compileOut": inv.CompileOut, "goos": inv.GOOS,
				"goarch": inv.GOARCH, "ldflags": inv.Ldflags, "args": args, "goCmd": inv.GoCmd, "cacheDir": inv.CacheDir, "hashFast": inv.HashFast}
		}
		c.Emit(J{"op": "front.parse", "argv": argv, "env": env, "conv": convAll(argv)}, impl, "front", "result="+fmt.Sprint(impl["result"]))
	}
	// ---- paths.ops
	comps := []string{"a", "b", "..", ".", "", "cache", "x y", "é", "..."}
	genPath := func() string {
		n := r.Intn(5)
		var parts []string
		for i := 0; i < n; i++ {
			parts = append(parts, comps[r.Intn(len(comps))])
		}
		p := strings.Join(parts, "/")
		if r.Chance(1, 3) {
			p = "/" + p
		}
		if r.Chance(1, 6) {
			p += "/"
		}
		return p
	}
	for i := 0; i < c.N; i++ {
		a, b := genPath(), "/"+strings.Trim(genPath(), "/")
		abs := filepath.Join(b, a)
		if filepath.IsAbs(a) {
			abs = filepath.Clean(a)
		}
		c.Emit(J{"op": "paths.ops", "a": a, "b": b}, J{"clean": filepath.Clean(a), "join": filepath.Join(a, b), "isAbs": filepath.IsAbs(a), "abs": abs}, "paths")
	}
}
