package main

// C17: target.Path/Glob/Dir/…Newer/Newest/Oldest against real file trees with controlled mtimes.
// The oracle is given what the *file system* reports (read back after Chtimes, collected by this file's own
// traversal, independent of filepath.Walk), never what we asked for.

import (
	"fmt"
	"math/big"
	"os"
	"path/filepath"
	"sort"
	"strings"
	"time"

	"github.com/magefile/mage/target"
)

func init() { streams["c17"] = c17 }

func ns(t time.Time) string {
	// sec*1e9+nsec as decimal string (UnixNano overflows outside 1678..2262)
	b := new(big.Int).Mul(big.NewInt(t.Unix()), big.NewInt(1000000000))
	b.Add(b, big.NewInt(int64(t.Nanosecond())))
	return b.String()
}

type node struct {
	path  string
	isDir bool
	kids  []*node
}

// own traversal: root first, children in name order
func walkTimes(p string) ([]string, bool) {
	st, err := os.Lstat(p)
	if err != nil {
		return nil, false
	}
	out := []string{ns(st.ModTime())}
	if st.IsDir() {
		ents, err := os.ReadDir(p)
		if err != nil {
			panic(err)
		}
		names := []string{}
		for _, e := range ents {
			names = append(names, e.Name())
		}
		sort.Strings(names)
		for _, n := range names {
			ts, _ := walkTimes(filepath.Join(p, n))
			out = append(out, ts...)
		}
	}
	return out, true
}

func optTree(p string) interface{} {
	ts, ok := walkTimes(p)
	if !ok {
		return nil
	}
	return ts
}

func optStat(p string) interface{} {
	st, err := os.Stat(p)
	if err != nil {
		return nil
	}
	return ns(st.ModTime())
}

func c17(c *Ctx) {
	r := c.R
	base := time.Date(2021, 3, 4, 5, 6, 7, 500, time.UTC)
	zero := ns(time.Time{})
	for cse := 0; cse < c.N; cse++ {
		root := filepath.Join(c.Tmp, fmt.Sprintf("c17_%d", cse))
		os.MkdirAll(root, 0o755)
		os.Setenv("VERIF_T", root)
		// time pool: ties and neighbours at 1ns / 1s, sometimes far future (D23 class), sometimes pre-epoch
		pool := []time.Time{base, base, base.Add(1), base.Add(-1), base.Add(time.Second), base.Add(-time.Second),
			base.Add(2), base.Add(time.Hour), base.Add(-time.Hour), base.Add(time.Duration(r.Intn(5)))}
		future := r.Chance(1, 12)
		if future {
			f := time.Date(2200, 1, 1, 0, 0, 0, 0, time.UTC)
			pool = []time.Time{f, f.Add(1), f.Add(-1), f.Add(time.Second)}
		}
		if r.Chance(1, 10) {
			pool = append(pool, time.Date(1960, 1, 1, 0, 0, 0, 7, time.UTC))
		}
		// build a tree: up to ~24 nodes, depth <= 4
		var all []*node
		var build func(dir string, depth int, budget *int) []*node
		build = func(dir string, depth int, budget *int) []*node {
			var kids []*node
			k := r.Intn(4)
			if depth == 0 {
				k = 2 + r.Intn(4)
			}
			for i := 0; i < k && *budget > 0; i++ {
				*budget--
				isDir := depth < 4 && r.Chance(2, 5)
				name := fmt.Sprintf("%c%d", "fdgx"[r.Intn(4)], i)
				if !isDir {
					name += []string{".txt", ".go", ""}[r.Intn(3)]
				}
				if len(kids) > 0 && r.Chance(1, 4) {
					// a look-alike sibling: an earlier sibling's name is a proper string prefix of this one
					name = filepath.Base(kids[r.Intn(len(kids))].path) + []string{"2", "-assets", ".tmpl", "x"}[r.Intn(4)]
					if _, err := os.Lstat(filepath.Join(dir, name)); err == nil {
						name += fmt.Sprint(i)
					}
				}
				p := filepath.Join(dir, name)
				n := &node{path: p, isDir: isDir}
				if isDir {
					os.Mkdir(p, 0o755)
					n.kids = build(p, depth+1, budget)
				} else {
					os.WriteFile(p, []byte("x"), 0o644)
				}
				kids = append(kids, n)
				all = append(all, n)
			}
			return kids
		}
		budget := 6 + r.Intn(18)
		build(root, 0, &budget)
		// set times bottom-up (children before parents): all is in creation order = parents after kids? no: sort by depth desc
		sort.SliceStable(all, func(i, j int) bool {
			return strings.Count(all[i].path, "/") > strings.Count(all[j].path, "/")
		})
		for _, n := range all {
			t := pool[r.Intn(len(pool))]
			if err := os.Chtimes(n.path, t, t); err != nil {
				panic(err)
			}
		}
		rt := pool[r.Intn(len(pool))]
		os.Chtimes(root, rt, rt)
		if len(all) == 0 {
			continue
		}
		pick := func() *node { return all[r.Intn(len(all))] }
		spell := func(p string) string { // $VAR spellings
			rel := strings.TrimPrefix(p, root)
			switch r.Intn(4) {
			case 0:
				return "$VERIF_T" + rel
			case 1:
				return "${VERIF_T}" + rel
			}
			return p
		}
		// several queries per tree
		for q := 0; q < 12; q++ {
			// destination
			var dst string
			dkind := r.Intn(6)
			switch {
			case dkind == 0:
				dst = filepath.Join(root, "nope", "missing")
			default:
				dst = pick().path
			}
			dstJ := J{"kind": "missing"}
			if st, err := os.Stat(dst); err == nil {
				if st.IsDir() {
					dstJ = J{"kind": "dir", "mt": ns(st.ModTime()), "tree": optTree(dst)}
				} else {
					dstJ = J{"kind": "file", "mt": ns(st.ModTime())}
				}
			}
			// sources
			nsrc := r.Intn(5)
			var srcs []string
			for i := 0; i < nsrc; i++ {
				if r.Chance(1, 7) {
					srcs = append(srcs, filepath.Join(root, fmt.Sprintf("missing%d", r.Intn(3))))
				} else {
					srcs = append(srcs, pick().path)
				}
			}
			if r.Chance(1, 5) && len(srcs) > 0 { // duplicates
				srcs = append(srcs, srcs[r.Intn(len(srcs))])
			}
			idxOf := func(list []string, errPath string) int {
				for i, s := range list {
					if os.ExpandEnv(s) == errPath {
						return i
					}
				}
				return -1
			}
			res := func(b bool, err error, list []string) J {
				if err == nil {
					return J{"ok": b}
				}
				if pe, ok := err.(*os.PathError); ok {
					if os.ExpandEnv(dst) == pe.Path && idxOf(list, pe.Path) < 0 {
						return J{"err": "dst"}
					}
					return J{"err": "src", "i": idxOf(list, pe.Path)}
				}
				return J{"err": "other", "msg": err.Error()}
			}
			spelled := make([]string, len(srcs))
			for i, s := range srcs {
				spelled[i] = spell(s)
			}
			sdst := spell(dst)
			fn := r.Intn(8)
			switch fn {
			case 0, 1: // Path / PathNewer
				in := []interface{}{}
				for _, s := range srcs {
					in = append(in, optStat(s))
				}
				if fn == 0 {
					b, err := target.Path(sdst, spelled...)
					c.Emit(J{"op": "c17.path", "dst": dstJ, "srcs": in}, res(b, err, spelled), "path", "dst="+dstJ["kind"].(string))
				} else if dstJ["kind"] != "missing" {
					st, _ := os.Stat(dst)
					b, err := target.PathNewer(st.ModTime(), spelled...)
					c.Emit(J{"op": "c17.pathNewer", "t": ns(st.ModTime()), "srcs": in}, res(b, err, spelled), "pathNewer")
				}
			case 2, 3: // Dir / DirNewer
				in := []interface{}{}
				for _, s := range srcs {
					in = append(in, optTree(s))
				}
				if fn == 2 {
					b, err := target.Dir(sdst, spelled...)
					c.Emit(J{"op": "c17.dir", "zero": zero, "dst": dstJ, "srcs": in}, res(b, err, spelled), "dir", "dst="+dstJ["kind"].(string))
				} else if dstJ["kind"] != "missing" {
					st, _ := os.Stat(dst)
					b, err := target.DirNewer(st.ModTime(), spelled...)
					c.Emit(J{"op": "c17.dirNewer", "t": ns(st.ModTime()), "srcs": in}, res(b, err, spelled), "dirNewer")
				}
			case 4, 5: // Glob / GlobNewer: patterns relative to directories of the tree
				var pats []string
				npat := 1 + r.Intn(3)
				for i := 0; i < npat; i++ {
					d := root
					if n := pick(); n.isDir {
						d = n.path
					}
					pat := []string{"*", "f*", "d*", "*.go", "*.txt", "?0", "[fg]*", "zz*", "*/*", "x1", "["}[r.Intn(11)]
					pats = append(pats, filepath.Join(d, pat))
				}
				in := []interface{}{}
				for _, p := range pats {
					ms, err := filepath.Glob(p)
					if err != nil {
						in = append(in, nil)
						continue
					}
					lst := []interface{}{}
					for _, m := range ms {
						lst = append(lst, optStat(m))
					}
					in = append(in, lst)
				}
				gres := func(b bool, err error) J {
					if err == nil {
						return J{"ok": b}
					}
					msg := err.Error()
					for i, p := range pats {
						if msg == "glob didn't match any files: "+p {
							return J{"err": "src", "i": i}
						}
					}
					if err == filepath.ErrBadPattern {
						for i, p := range pats {
							if _, e := filepath.Glob(p); e != nil {
								return J{"err": "src", "i": i}
							}
						}
					}
					return J{"err": "other", "msg": msg}
				}
				if fn == 4 {
					b, err := target.Glob(sdst, pats...)
					c.Emit(J{"op": "c17.glob", "dst": dstJ, "globs": in}, gres(b, err), "glob", "dst="+dstJ["kind"].(string))
				} else if dstJ["kind"] != "missing" {
					st, _ := os.Stat(dst)
					b, err := target.GlobNewer(st.ModTime(), pats...)
					c.Emit(J{"op": "c17.globNewer", "t": ns(st.ModTime()), "globs": in}, gres(b, err), "globNewer")
				}
			case 6, 7: // Newest / Oldest (no $VAR expansion in these two: plain paths)
				in := []interface{}{}
				for _, s := range srcs {
					in = append(in, optTree(s))
				}
				tres := func(t time.Time, err error) J {
					if err == nil {
						return J{"t": ns(t)}
					}
					if pe, ok := err.(*os.PathError); ok {
						return J{"err": "src", "i": idxOf(srcs, pe.Path)}
					}
					return J{"err": "other", "msg": err.Error()}
				}
				if fn == 6 {
					t, err := target.NewestModTime(srcs...)
					c.Emit(J{"op": "c17.newest", "zero": zero, "srcs": in}, tres(t, err), "newest")
				} else {
					t, err := target.OldestModTime(srcs...)
					o := tres(t, err)
					// with no entry at all the result is the sentinel now+100000h: not comparable, reported as such
					empty := true
					for _, x := range in {
						if x == nil {
							break
						}
						if len(x.([]string)) > 0 {
							empty = false
						}
					}
					if err == nil && empty {
						o = J{"sentinel": t.After(time.Now().Add(99999 * time.Hour))}
					}
					tag := "oldest"
					if future {
						tag = "oldest-future"
					}
					c.Emit(J{"op": "c17.oldest", "srcs": in}, o, tag)
				}
			}
		}
		os.RemoveAll(root)
	}
}
