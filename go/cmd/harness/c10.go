package main

// C10 — which files are magefiles.  Generated directories (arbitrary boolean build constraints in //go:build and
// legacy +build syntax, platform file-name suffixes, test/hidden/non-Go files, mixed packages) x (-goos/-goarch) x
// (GOOS/GOARCH in the caller's environment): real mage.Magefiles in-process against the Lean evaluator; plus a
// process-level ring (`mage -l` started with GOOS/GOARCH in its environment, magefiles-directory layouts).

import (
	"bytes"
	"fmt"
	"go/build"
	"os"
	"path/filepath"
	"runtime"
	"sort"
	"strings"

	"github.com/magefile/mage/mage"

	"verif/internal/rng"
)

func init() { streams["c10"] = c10 }

type bexpr struct {
	K    string // tag not and or
	T    string
	A, B *bexpr
}

func (e *bexpr) json() J {
	switch e.K {
	case "tag":
		return J{"k": "tag", "t": e.T}
	case "not":
		return J{"k": "not", "a": e.A.json()}
	}
	return J{"k": e.K, "a": e.A.json(), "b": e.B.json()}
}

func (e *bexpr) String() string {
	switch e.K {
	case "tag":
		return e.T
	case "not":
		if e.A.K == "not" {
			return "!(" + e.A.String() + ")" // "!!x" is a syntax error, "!(!x)" is not
		}
		return "!" + e.A.paren()
	case "and":
		return e.A.paren() + " && " + e.B.paren()
	}
	return e.A.paren() + " || " + e.B.paren()
}

func (e *bexpr) paren() string {
	if e.K == "tag" || e.K == "not" {
		return e.String()
	}
	return "(" + e.String() + ")"
}

var c10Tags = []string{"mage", "mage", "mage", "linux", "windows", "darwin", "amd64", "arm64", "unix", "cgo", "ignore", "foo", "go1.18", "go1.99", "gc", "android", "plan9", "386"}

func genExpr(r *rng.R, depth int) *bexpr {
	if depth == 0 || r.Chance(2, 5) {
		return &bexpr{K: "tag", T: c10Tags[r.Intn(len(c10Tags))]}
	}
	switch r.Intn(3) {
	case 0:
		return &bexpr{K: "not", A: genExpr(r, depth-1)}
	case 1:
		return &bexpr{K: "and", A: genExpr(r, depth-1), B: genExpr(r, depth-1)}
	}
	return &bexpr{K: "or", A: genExpr(r, depth-1), B: genExpr(r, depth-1)}
}

// legacy form: lines are AND-ed, space-separated options OR-ed, comma-separated terms AND-ed, "!" negates a tag
func genLegacy(r *rng.R) (*bexpr, string) {
	var text strings.Builder
	var all *bexpr
	nl := 1 + r.Intn(2)
	for i := 0; i < nl; i++ {
		var line *bexpr
		var opts []string
		for o := 0; o < 1+r.Intn(2); o++ {
			var term *bexpr
			var lits []string
			for t := 0; t < 1+r.Intn(2); t++ {
				tag := c10Tags[r.Intn(len(c10Tags))]
				var lit *bexpr = &bexpr{K: "tag", T: tag}
				s := tag
				if r.Chance(1, 3) {
					lit = &bexpr{K: "not", A: lit}
					s = "!" + tag
				}
				lits = append(lits, s)
				if term == nil {
					term = lit
				} else {
					term = &bexpr{K: "and", A: term, B: lit}
				}
			}
			opts = append(opts, strings.Join(lits, ","))
			if line == nil {
				line = term
			} else {
				line = &bexpr{K: "or", A: line, B: term}
			}
		}
		text.WriteString("// +build " + strings.Join(opts, " ") + "\n")
		if all == nil {
			all = line
		} else {
			all = &bexpr{K: "and", A: all, B: line}
		}
	}
	return all, text.String()
}

var c10Names = []string{"a.go", "b.go", "c.go", "mage_targets.go", "x_linux.go", "x_windows.go", "x_darwin_arm64.go", "x_linux_amd64.go", "y_test.go", "_skip.go", ".hidden.go",
	"notgo.txt", "z_amd64.go", "linux.go", "w_unix.go", "v_plan9_test.go", "q.y_linux.go", "t_linux_test.go", "u__linux.go", "r_arm64_linux.go", "s_windows_386.go", "k_js.go", "m.GO", "n.go.txt", "amd64.go", "p_android.go"}

type c10File struct {
	name string
	expr *bexpr
	pkg  string
	src  string
}

func genDirFiles(r *rng.R, n int, compilable bool) []c10File {
	var files []c10File
	used := map[string]bool{}
	for len(files) < n {
		name := c10Names[r.Intn(len(c10Names))]
		if used[name] {
			continue
		}
		used[name] = true
		f := c10File{name: name, pkg: "main"}
		if !compilable && r.Chance(1, 8) {
			f.pkg = []string{"other", "main_test", "lib"}[r.Intn(3)]
		}
		var hdr string
		switch r.Intn(6) {
		case 0: // no constraint
		case 1, 2, 3:
			f.expr = genExpr(r, 3)
			hdr = "//go:build " + f.expr.String() + "\n"
			if r.Chance(1, 5) { // an additional legacy line is ignored when //go:build is present
				_, l := genLegacy(r)
				hdr += l
			}
		case 4:
			f.expr, hdr = genLegacy(r)
		case 5:
			f.expr = &bexpr{K: "tag", T: "mage"}
			hdr = "//go:build mage\n"
			if r.Bool() {
				hdr += "// +build mage\n"
			}
		}
		if hdr != "" {
			hdr += "\n"
		}
		if r.Chance(1, 6) {
			hdr = "// Copyright notice.\n\n" + hdr
		}
		id := strings.NewReplacer(".", "_", "-", "_").Replace(strings.TrimSuffix(name, ".go"))
		f.src = hdr + "package " + f.pkg + "\n\nfunc T_" + strings.TrimLeft(id, "_") + "() {}\n"
		files = append(files, f)
	}
	sort.Slice(files, func(i, j int) bool { return files[i].name < files[j].name })
	return files
}

func filesJSON(fs []c10File) []J {
	out := []J{}
	for _, f := range fs {
		j := J{"name": f.name, "pkg": f.pkg}
		if f.expr != nil {
			j["expr"] = f.expr.json()
		} else {
			j["expr"] = nil
		}
		out = append(out, j)
	}
	return out
}

func c10(c *Ctx) {
	r := c.R
	host := J{"os": runtime.GOOS, "arch": runtime.GOARCH, "cgo": build.Default.CgoEnabled, "minor": len(build.Default.ReleaseTags)}
	platsOS := []string{"", "", "linux", "windows", "darwin", "android", "plan9"}
	platsArch := []string{"", "", "amd64", "arm64", "386"}
	envOS := []string{"", "plan9", "windows", "linux", "bogus"}
	envArch := []string{"", "arm", "amd64", "wasm"}
	saveOS, hadOS := os.LookupEnv("GOOS")
	saveArch, hadArch := os.LookupEnv("GOARCH")
	defer func() {
		if hadOS {
			os.Setenv("GOOS", saveOS)
		} else {
			os.Unsetenv("GOOS")
		}
		if hadArch {
			os.Setenv("GOARCH", saveArch)
		} else {
			os.Unsetenv("GOARCH")
		}
	}()
	// small scope exhaustively (thorough tier): one directory holding a file for every constraint of the family
	// {none, l, l && l', l || l'} over the literals ±mage ±host-os ±plan9 ±host-arch ±foo, under every name suffix of
	// {none, _hostos, _plan9, _hostarch, _plan9_hostarch}: 1055 files, selected for three platforms in both directory modes
	if c.Tier == "thorough" {
		os.Unsetenv("GOOS")
		os.Unsetenv("GOARCH")
		atoms := []string{"mage", runtime.GOOS, "plan9", runtime.GOARCH, "foo"}
		var lits []*bexpr
		for _, a := range atoms {
			lits = append(lits, &bexpr{K: "tag", T: a}, &bexpr{K: "not", A: &bexpr{K: "tag", T: a}})
		}
		exprs := []*bexpr{nil}
		exprs = append(exprs, lits...)
		for _, a := range lits {
			for _, b := range lits {
				exprs = append(exprs, &bexpr{K: "and", A: a, B: b}, &bexpr{K: "or", A: a, B: b})
			}
		}
		sufs := []string{"", "_" + runtime.GOOS, "_plan9", "_" + runtime.GOARCH, "_plan9_" + runtime.GOARCH}
		var files []c10File
		fm := map[string]string{}
		for ei, e := range exprs {
			for si, suf := range sufs {
				f := c10File{name: fmt.Sprintf("e%03d%s.go", ei, suf), expr: e, pkg: "main"}
				hdr := ""
				if e != nil {
					hdr = "//go:build " + e.String() + "\n\n"
				}
				f.src = hdr + fmt.Sprintf("package main\n\nfunc T_e%03d_%d() {}\n", ei, si)
				files = append(files, f)
				fm[f.name] = f.src
			}
		}
		sort.Slice(files, func(i, j int) bool { return files[i].name < files[j].name })
		dir := filepath.Join(c.Tmp, "c10all")
		writeFiles(dir, fm)
		for _, pl := range [][2]string{{"", ""}, {"plan9", ""}, {"", "386"}} {
			for _, isDir := range []bool{false, true} {
				var stderr bytes.Buffer
				got, err := mage.Magefiles(dir, pl[0], pl[1], "go", &stderr, isDir, false)
				impl := J{}
				if err != nil {
					impl["error"] = err.Error()
				} else {
					names := []string{}
					for _, g := range got {
						names = append(names, filepath.Base(g))
					}
					impl["files"] = names
				}
				in := J{"op": "c10.select", "mode": "magefiles", "files": filesJSON(files), "goos": pl[0], "goarch": pl[1], "host": host, "isMagefilesDir": isDir}
				c.Emit(in, impl, "c10-exhaustive", fmt.Sprintf("n=%d", len(files)), fmt.Sprintf("selected=%d", len(got)), "flagos="+pl[0])
			}
		}
		os.RemoveAll(dir)
	}
	for i := 0; i < c.N; i++ {
		dir := filepath.Join(c.Tmp, fmt.Sprintf("c10d%d", i))
		files := genDirFiles(r, 1+r.Intn(8), false)
		fm := map[string]string{}
		for _, f := range files {
			fm[f.name] = f.src
		}
		writeFiles(dir, fm)
		nq := 4
		for q := 0; q < nq; q++ {
			goos, goarch := platsOS[r.Intn(len(platsOS))], platsArch[r.Intn(len(platsArch))]
			eo, ea := envOS[r.Intn(len(envOS))], envArch[r.Intn(len(envArch))]
			if eo == "" {
				os.Unsetenv("GOOS")
			} else {
				os.Setenv("GOOS", eo)
			}
			if ea == "" {
				os.Unsetenv("GOARCH")
			} else {
				os.Setenv("GOARCH", ea)
			}
			isDir := r.Chance(1, 4)
			var stderr bytes.Buffer
			got, err := mage.Magefiles(dir, goos, goarch, "go", &stderr, isDir, false)
			impl := J{}
			if err != nil {
				impl["error"] = err.Error()
			} else {
				names := []string{}
				for _, g := range got {
					names = append(names, filepath.Base(g))
				}
				impl["files"] = names
			}
			in := J{"op": "c10.select", "mode": "magefiles", "files": filesJSON(files), "goos": goos, "goarch": goarch, "host": host, "isMagefilesDir": isDir}
			tags := []string{fmt.Sprintf("n=%d", len(files)), fmt.Sprintf("selected=%d", len(got)), "flagos=" + goos, "envos=" + eo}
			if isDir {
				tags = append(tags, "magefilesdir")
			}
			if len(got) == 0 && len(files) < 2 {
				tags = append(tags, "trivial")
			}
			c.Emit(in, impl, tags...)
		}
		os.RemoveAll(dir)
	}
	os.Unsetenv("GOOS")
	os.Unsetenv("GOARCH")

	// process-level ring: `mage -l` started with GOOS/GOARCH in its environment; plain and magefiles-directory layouts.
	mageBin := filepath.Join(os.Getenv("VERIF_BIN"), "mage")
	if _, err := os.Stat(mageBin); err != nil {
		return
	}
	home := filepath.Join(c.Tmp, "home")
	os.MkdirAll(home, 0o755)
	np := c.N / 10
	if np < 3 {
		np = 3
	}
	for i := 0; i < np; i++ {
		dir := filepath.Join(c.Tmp, fmt.Sprintf("c10p%d", i))
		files := genDirFiles(r, 2+r.Intn(5), true)
		fm := map[string]string{"go.mod": goMod("c10p")}
		for _, f := range files {
			fm[f.name] = f.src
		}
		var sub []c10File
		layout := "plain"
		if r.Chance(1, 2) {
			sub = genDirFiles(r, 1+r.Intn(4), true)
			for _, f := range sub {
				fm["magefiles/"+f.name] = strings.Replace(f.src, "func T_", "func S_", 1)
			}
			layout = "with-magefiles-dir"
		}
		writeFiles(dir, fm)
		env := baseEnv(home)
		eo, ea := envOS[r.Intn(len(envOS))], envArch[r.Intn(len(envArch))]
		if eo != "" {
			env = append(env, "GOOS="+eo)
		}
		if ea != "" {
			env = append(env, "GOARCH="+ea)
		}
		rr := runCmd(dir, env, mageBin, "-l")
		impl := J{}
		in := J{"op": "c10.select", "mode": "choose", "files": filesJSON(files), "goos": "", "goarch": "", "host": host, "broken": false}
		if sub != nil {
			in["sub"] = filesJSON(sub)
		} else {
			in["sub"] = nil
		}
		// which files were compiled: one target per file, T_<file> in the directory, S_<file> in the magefiles directory
		listed := parseListing(rr.stdout)
		var names []string
		uses := false
		nameOf := map[string]string{}
		for _, f := range files {
			nameOf["t_"+strings.ToLower(strings.TrimLeft(strings.NewReplacer(".", "_", "-", "_").Replace(strings.TrimSuffix(f.name, ".go")), "_"))] = f.name
		}
		for _, f := range sub {
			nameOf["s_"+strings.ToLower(strings.TrimLeft(strings.NewReplacer(".", "_", "-", "_").Replace(strings.TrimSuffix(f.name, ".go")), "_"))] = f.name
		}
		for _, l := range listed {
			l = strings.ToLower(strings.TrimSuffix(l, "*"))
			if strings.HasPrefix(l, "s_") {
				uses = true
			}
			if n, ok := nameOf[l]; ok {
				names = append(names, n)
			} else {
				names = append(names, "?"+l)
			}
		}
		sort.Strings(names)
		if names == nil {
			names = []string{}
		}
		if rr.status != 0 && strings.Contains(rr.stderr, "No .go files marked with the mage build tag") {
			impl["files"], impl["uses"] = []string{}, uses
		} else if rr.status != 0 {
			impl["error"] = strings.TrimSpace(rr.stderr)
		} else {
			impl["files"], impl["uses"] = names, uses
		}
		c.Emit(in, impl, "ring=process", "layout="+layout, "envos="+eo, fmt.Sprintf("selected=%d", len(names)))
		os.RemoveAll(dir)
	}

	// cross ring: which directory supplies the magefiles when the platform is given by -goos/-goarch (the choice between
	// a magefiles directory and tagged files beside it is made for that platform, like the selection itself); observed
	// through the "found magefiles:" line of `mage -debug -goos X -goarch Y -compile out`
	mkTagged := func(name string) c10File {
		id := strings.NewReplacer(".", "_", "-", "_").Replace(strings.TrimSuffix(name, ".go"))
		return c10File{name: name, pkg: "main", expr: &bexpr{K: "tag", T: "mage"}, src: "//go:build mage\n\npackage main\n\nfunc T_" + id + "() {}\n"}
	}
	mkPlain := func(name string) c10File {
		id := strings.NewReplacer(".", "_", "-", "_").Replace(strings.TrimSuffix(name, ".go"))
		return c10File{name: name, pkg: "main", src: "package main\n\nfunc T_" + id + "() {}\n"}
	}
	otherOS := "windows"
	if runtime.GOOS == "windows" {
		otherOS = "linux"
	}
	for i := 0; i < np+2; i++ {
		dir := filepath.Join(c.Tmp, fmt.Sprintf("c10x%d", i))
		var files, sub []c10File
		goos, goarch := platsOS[2+r.Intn(len(platsOS)-2)], platsArch[r.Intn(len(platsArch))]
		switch i {
		case 0: // the only tagged file beside the magefiles directory is for the host: for the cross target the directory is used
			files, sub = []c10File{mkTagged("build_" + runtime.GOOS + ".go"), mkPlain("lib.go")}, []c10File{mkPlain("targets.go")}
			goos, goarch = otherOS, "amd64"
		case 1: // … is for the other platform: for the cross target it is a magefile and the directory is not used
			files, sub = []c10File{mkTagged("build_" + otherOS + ".go"), mkPlain("lib.go")}, []c10File{mkPlain("targets.go")}
			goos, goarch = otherOS, "amd64"
		default:
			files = genDirFiles(r, 2+r.Intn(5), true)
			if r.Chance(2, 3) {
				sub = genDirFiles(r, 1+r.Intn(4), true)
			}
		}
		fm := map[string]string{"go.mod": goMod("c10x")}
		for _, f := range files {
			fm[f.name] = f.src
		}
		for _, f := range sub {
			fm["magefiles/"+f.name] = strings.Replace(f.src, "func T_", "func S_", 1)
		}
		writeFiles(dir, fm)
		env := baseEnv(home)
		if eo := envOS[r.Intn(len(envOS)-1)]; eo != "" {
			env = append(env, "GOOS="+eo)
		}
		argv := []string{"-debug"}
		if goos != "" {
			argv = append(argv, "-goos", goos)
		}
		if goarch != "" {
			argv = append(argv, "-goarch", goarch)
		}
		out := filepath.Join(c.Tmp, "c10x.out")
		argv = append(argv, "-compile", out)
		rr := runCmd(dir, env, mageBin, argv...)
		os.Remove(out)
		os.Remove(out + ".exe")
		in := J{"op": "c10.select", "mode": "choose", "files": filesJSON(files), "goos": goos, "goarch": goarch, "host": host, "broken": false}
		if sub != nil {
			in["sub"] = filesJSON(sub)
		} else {
			in["sub"] = nil
		}
		impl := J{}
		found := ""
		for _, l := range strings.Split(rr.stderr, "\n") {
			if k := strings.Index(l, "found magefiles: "); k >= 0 {
				found = strings.TrimSpace(l[k+len("found magefiles: "):])
				break
			}
		}
		switch {
		case found != "":
			names := []string{}
			uses := false
			for _, pth := range strings.Split(found, ", ") {
				if strings.Contains(filepath.ToSlash(pth), "magefiles/") {
					uses = true
				}
				names = append(names, filepath.Base(pth))
			}
			sort.Strings(names)
			impl["files"], impl["uses"] = names, uses
		case strings.Contains(rr.stderr, "No .go files marked with the mage build tag"):
			impl["files"], impl["uses"] = []string{}, false
		default:
			impl["error"] = strings.TrimSpace(rr.stderr)
		}
		c.Emit(in, impl, "ring=cross", "flagos="+goos, "flagarch="+goarch, fmt.Sprintf("sub=%v", sub != nil))
		os.RemoveAll(dir)
	}

	// -compile ring: the platform of the output is the flag's or the host's, never the caller's GOOS/GOARCH; judged by
	// the executable format of the produced file (ELF / PE / Mach-O and the machine field)
	ncomp := 2
	if c.Tier == "thorough" {
		ncomp = 6
	}
	cdir := filepath.Join(c.Tmp, "c10compile")
	writeFiles(cdir, map[string]string{"go.mod": goMod("c10c"), "magefile.go": "//go:build mage\n\npackage main\n\nfunc Build() {}\n"})
	pairs := [][2]string{{"", ""}, {"windows", "amd64"}, {"linux", "arm64"}, {"darwin", "arm64"}, {"linux", ""}, {"", "arm64"}, {"windows", "386"}}
	for i := 0; i < ncomp; i++ {
		pr := pairs[r.Intn(len(pairs))]
		if i == 0 {
			pr = pairs[0]
		}
		env := baseEnv(home)
		eo, ea := envOS[r.Intn(len(envOS)-1)], envArch[r.Intn(len(envArch))] // (not "bogus": go itself would refuse to run)
		if eo != "" {
			env = append(env, "GOOS="+eo)
		}
		if ea != "" {
			env = append(env, "GOARCH="+ea)
		}
		out := filepath.Join(c.Tmp, fmt.Sprintf("c10out%d.bin", i))
		argv := []string{"-compile", out}
		if pr[0] != "" {
			argv = append(argv, "-goos", pr[0])
		}
		if pr[1] != "" {
			argv = append(argv, "-goarch", pr[1])
		}
		rr := runCmd(cdir, env, mageBin, argv...)
		impl := J{}
		if rr.status != 0 {
			impl["error"] = strings.TrimSpace(rr.stderr)
		} else {
			o, a := exeFormat(out)
			impl["os"], impl["arch"] = o, a
		}
		c.Emit(J{"op": "c10.plat", "goos": pr[0], "goarch": pr[1], "host": host}, impl, "ring=compile", "flagos="+pr[0], "flagarch="+pr[1], "envos="+eo, "envarch="+ea)
		os.Remove(out)
	}
	os.RemoveAll(cdir)
}

// exeFormat classifies an executable by its magic number and machine field.
func exeFormat(path string) (string, string) {
	b, err := os.ReadFile(path)
	if err != nil || len(b) < 64 {
		return "unreadable", ""
	}
	switch {
	case bytes.HasPrefix(b, []byte("\x7fELF")):
		m := int(b[18]) | int(b[19])<<8
		arch := map[int]string{0x3e: "amd64", 0xb7: "arm64", 0x03: "386", 0x28: "arm"}[m]
		if arch == "" {
			arch = fmt.Sprintf("elf-machine-%#x", m)
		}
		return "linux", arch // ELF: linux among the platforms used here
	case bytes.HasPrefix(b, []byte("MZ")):
		pe := int(b[0x3c]) | int(b[0x3d])<<8 | int(b[0x3e])<<16 | int(b[0x3f])<<24
		if pe+6 > len(b) {
			return "windows", "?"
		}
		m := int(b[pe+4]) | int(b[pe+5])<<8
		arch := map[int]string{0x8664: "amd64", 0x14c: "386", 0xaa64: "arm64"}[m]
		return "windows", arch
	case bytes.HasPrefix(b, []byte("\xcf\xfa\xed\xfe")):
		m := int(b[4]) | int(b[5])<<8 | int(b[6])<<16 | int(b[7])<<24
		arch := map[int]string{0x01000007: "amd64", 0x0100000c: "arm64"}[m]
		return "darwin", arch
	}
	return "unknown", ""
}
