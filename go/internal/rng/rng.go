// Package rng is the single source of randomness of the harness: SplitMix64 seeded from VERIF_SEED.
package rng

type R struct{ s uint64 }

func New(seed uint64) *R { return &R{s: seed*0x9E3779B97F4A7C15 + 0x1234567} }

func (r *R) U64() uint64 {
	r.s += 0x9E3779B97F4A7C15
	z := r.s
	z = (z ^ (z >> 30)) * 0xBF58476D1CE4E5B9
	z = (z ^ (z >> 27)) * 0x94D049BB133111EB
	return z ^ (z >> 31)
}

// Intn returns a number in [0,n).
func (r *R) Intn(n int) int {
	if n <= 0 {
		return 0
	}
	return int(r.U64() % uint64(n))
}

func (r *R) Bool() bool { return r.U64()&1 == 1 }

// Chance returns true with probability num/den.
func (r *R) Chance(num, den int) bool { return r.Intn(den) < num }

func (r *R) Pick(xs []string) string { return xs[r.Intn(len(xs))] }

// Perm returns a random permutation of 0..n-1.
func (r *R) Perm(n int) []int {
	p := make([]int, n)
	for i := range p {
		p[i] = i
	}
	for i := n - 1; i > 0; i-- {
		j := r.Intn(i + 1)
		p[i], p[j] = p[j], p[i]
	}
	return p
}

// Fork derives an independent generator (for per-case replay).
func (r *R) Fork() *R { return &R{s: r.U64()} }
