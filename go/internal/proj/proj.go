// Package proj defines the abstract syntax of generated magefile projects (the same structure the Lean model
// `MageModel/Parse/Pkg.lean` consumes), renders it to Go source, and generates random projects.
package proj

import (
	"unicode"
	"unicode/utf8"
	"runtime"
	"fmt"
	"sort"
	"strings"

	"verif/internal/rng"
)

type TExpr struct {
	K string `json:"k"` // ident | sel | other
	A string `json:"a"`
	B string `json:"b,omitempty"`
}

func (t TExpr) Go() string {
	switch t.K {
	case "ident":
		return t.A
	case "sel":
		return t.A + "." + t.B
	}
	return t.A
}

type Field struct {
	Names []string `json:"names"`
	Ty    TExpr    `json:"ty"`
}

type Recv struct {
	Ptr  bool   `json:"ptr"`
	Base string `json:"base"`
}

type FuncDecl struct {
	Name    string  `json:"name"`
	Recv    *Recv   `json:"recv"`
	Params  []Field `json:"params"`
	Results []Field `json:"results"`
	Doc     string  `json:"doc"`
	TParams string  `json:"tparams"` // type parameter list of a generic function ("[T any]"), "" for an ordinary one
}

type TypeDecl struct {
	Name string `json:"name"`
	Rhs  TExpr  `json:"rhs"`
}

type FnRef struct {
	K string `json:"k"` // ident | sel | selsel | other
	A string `json:"a,omitempty"`
	B string `json:"b,omitempty"`
	C string `json:"c,omitempty"`
}

func (r FnRef) Go() string {
	switch r.K {
	case "ident":
		return r.A
	case "sel":
		return r.A + "." + r.B
	case "selsel":
		return r.A + "." + r.B + "." + r.C
	}
	return `"not a function"`
}

type ImportSpec struct {
	Path     string   `json:"path"`
	Local    string   `json:"local"` // local name in the import spec ("" = none, "_" blank)
	Doc      []string `json:"doc"`   // leading comment group lines (raw, with marker) or nil
	Trailing []string `json:"trailing"`
	DeclDoc  []string `json:"declDoc"`
	Paren    bool     `json:"paren"`
	N        int      `json:"n"` // specs in the declaration
}

type AliasEntry struct {
	Key string `json:"key"`
	Ref FnRef  `json:"ref"`
}

type File struct {
	Name    string       `json:"name"`
	Imports []ImportSpec `json:"imports"`
	Funcs   []FuncDecl   `json:"funcs"`
	Types   []TypeDecl   `json:"types"`
	Default *FnRef       `json:"default"`
	Aliases []AliasEntry `json:"aliases"` // nil = no Aliases variable
	HasAl   bool         `json:"hasAliases"`
	PkgDoc  string       `json:"pkgDoc"`
}

type Pkg struct {
	Files []File `json:"files"`
}

type Imported struct {
	Name string `json:"name"`
	Pkg  Pkg    `json:"pkg"`
}

type Project struct {
	Module string              `json:"module"`
	Main   Pkg                 `json:"main"`
	World  map[string]Imported `json:"world"` // import path -> package
	// files written to disk but not part of the model's input: they are for another platform than the host
	// (GOOS file-name suffix or //go:build line) and must never be seen by mage
	Foreign map[string]string `json:"-"`
}

// ---------- rendering ----------

// callee id as parse.Function.ID renders it
func calleeID(importPath string, d FuncDecl) string {
	p := "<current>"
	if importPath != "" {
		p = importPath
	}
	r := ""
	if d.Recv != nil {
		r = d.Recv.Base + "."
	}
	return p + "." + r + d.Name
}

func renderFunc(b *strings.Builder, importPath string, d FuncDecl) {
	if d.Doc != "" {
		for _, l := range strings.Split(d.Doc, "\n") {
			fmt.Fprintf(b, "// %s\n", l)
		}
	}
	b.WriteString("func ")
	if d.Recv != nil {
		if d.Recv.Ptr {
			fmt.Fprintf(b, "(r *%s) ", d.Recv.Base)
		} else {
			fmt.Fprintf(b, "(%s) ", d.Recv.Base)
		}
	}
	b.WriteString(d.Name + d.TParams + "(")
	var printable []string // expressions printing each flattened parameter (type-tagged), "_" when it has no usable name
	for i, f := range d.Params {
		if i > 0 {
			b.WriteString(", ")
		}
		if len(f.Names) > 0 {
			b.WriteString(strings.Join(f.Names, ", ") + " ")
		}
		b.WriteString(f.Ty.Go())
		gt := f.Ty.Go()
		if gt == "context.Context" {
			continue
		}
		if len(f.Names) == 0 {
			printable = append(printable, `"_"`)
		}
		for _, n := range f.Names {
			switch {
			case n == "_":
				printable = append(printable, `"_"`)
			case gt == "string":
				printable = append(printable, `"s:"+`+n)
			case gt == "int":
				printable = append(printable, fmt.Sprintf(`fmt.Sprintf("i:%%d", %s)`, n))
			case gt == "bool":
				printable = append(printable, fmt.Sprintf(`fmt.Sprintf("b:%%v", %s)`, n))
			case gt == "time.Duration":
				printable = append(printable, fmt.Sprintf(`fmt.Sprintf("d:%%d", int64(%s))`, n))
			default:
				printable = append(printable, `"_"`)
			}
		}
	}
	b.WriteString(")")
	if len(d.Results) > 0 {
		b.WriteString(" (")
		for i, f := range d.Results {
			if i > 0 {
				b.WriteString(", ")
			}
			if len(f.Names) > 0 {
				b.WriteString(strings.Join(f.Names, ", ") + " ")
			}
			b.WriteString(f.Ty.Go())
		}
		b.WriteString(")")
	}
	b.WriteString(" {\n")
	fmt.Fprintf(b, "\tfmt.Printf(\"CALL %%q\", %q)\n", calleeID(importPath, d))
	for _, p := range printable {
		b.WriteString("\tfmt.Printf(\" %q\", " + p + ")\n")
	}
	b.WriteString("\tfmt.Println()\n")
	// results: zero values; a single error result fails on request
	if len(d.Results) == 1 && d.Results[0].Ty.Go() == "error" && len(d.Results[0].Names) <= 1 {
		b.WriteString("\tif os.Getenv(\"VT_FAIL\") == " + fmt.Sprintf("%q", calleeID(importPath, d)) + " {\n\t\treturn mg.Fatal(7, \"requested failure\")\n\t}\n")
		b.WriteString("\treturn nil\n")
	} else if len(d.Results) > 0 {
		var zs []string
		for _, f := range d.Results {
			n := len(f.Names)
			if n == 0 {
				n = 1
			}
			for i := 0; i < n; i++ {
				switch f.Ty.Go() {
				case "error":
					zs = append(zs, "nil")
				case "int":
					zs = append(zs, "0")
				case "string":
					zs = append(zs, `""`)
				case "bool":
					zs = append(zs, "false")
				default:
					zs = append(zs, "nil")
				}
			}
		}
		b.WriteString("\treturn " + strings.Join(zs, ", ") + "\n")
	}
	b.WriteString("}\n\n")
}

func renderComments(b *strings.Builder, indent string, lines []string) {
	for _, l := range lines {
		b.WriteString(indent + l + "\n")
	}
}

// RenderFile renders one file of a package. pkgName is the Go package name; importPath "" for the magefile package.
func RenderFile(f File, pkgName, importPath string, mageTag bool) string {
	var b strings.Builder
	if mageTag {
		b.WriteString("//go:build mage\n// +build mage\n\n")
	}
	if f.PkgDoc != "" {
		for _, l := range strings.Split(f.PkgDoc, "\n") {
			b.WriteString("// " + l + "\n")
		}
	}
	b.WriteString("package " + pkgName + "\n\n")
	// fixed imports used by bodies
	b.WriteString("import (\n\t\"context\"\n\t\"fmt\"\n\t\"os\"\n\t\"time\"\n\n\t\"github.com/magefile/mage/mg\"\n)\n\n")
	// generated import declarations (mage:import candidates), grouped by declaration
	i := 0
	for i < len(f.Imports) {
		sp := f.Imports[i]
		if !sp.Paren {
			renderComments(&b, "", sp.DeclDoc)
			b.WriteString("import ")
			if sp.Local != "" {
				b.WriteString(sp.Local + " ")
			}
			fmt.Fprintf(&b, "%q", sp.Path)
			if len(sp.Trailing) > 0 {
				b.WriteString(" " + sp.Trailing[0])
			}
			b.WriteString("\n\n")
			i++
			continue
		}
		renderComments(&b, "", sp.DeclDoc)
		b.WriteString("import (\n")
		for k := 0; k < sp.N && i < len(f.Imports); k++ {
			s2 := f.Imports[i]
			renderComments(&b, "\t", s2.Doc)
			b.WriteString("\t")
			if s2.Local != "" {
				b.WriteString(s2.Local + " ")
			}
			fmt.Fprintf(&b, "%q", s2.Path)
			if len(s2.Trailing) > 0 {
				b.WriteString(" " + s2.Trailing[0])
			}
			b.WriteString("\n")
			if k+1 < sp.N {
				b.WriteString("\n") // keep comment groups of consecutive specs apart
			}
			i++
		}
		b.WriteString(")\n\n")
	}
	b.WriteString("var _ = context.Background\nvar _ = fmt.Sprint\nvar _ = os.Getenv\nvar _ time.Duration\nvar _ mg.Namespace\n\n")
	for _, t := range f.Types {
		fmt.Fprintf(&b, "type %s %s\n\n", t.Name, t.Rhs.Go())
	}
	if f.Default != nil {
		fmt.Fprintf(&b, "var Default = %s\n\n", f.Default.Go())
	}
	if f.HasAl {
		b.WriteString("var Aliases = map[string]interface{}{\n")
		for _, a := range f.Aliases {
			fmt.Fprintf(&b, "\t\"%s\": %s,\n", a.Key, a.Ref.Go()) // Key is source text (plain keys need no escaping)
		}
		b.WriteString("}\n\n")
	}
	for _, d := range f.Funcs {
		renderFunc(&b, importPath, d)
	}
	return b.String()
}

// Files returns relative path -> content for the whole project.
func (p *Project) Files(repo string) map[string]string {
	out := map[string]string{}
	out["go.mod"] = fmt.Sprintf("module %s\n\ngo 1.21\n\nrequire github.com/magefile/mage v0.0.0\n\nreplace github.com/magefile/mage => %s\n", p.Module, repo)
	for _, f := range p.Main.Files {
		out[f.Name] = RenderFile(f, "main", "", true)
	}
	for path, imp := range p.World {
		rel := strings.TrimPrefix(path, p.Module+"/")
		for _, f := range imp.Pkg.Files {
			out[rel+"/"+f.Name] = RenderFile(f, imp.Name, path, false)
		}
	}
	for rel, content := range p.Foreign {
		out[rel] = content
	}
	return out
}

// ---------- generation ----------

var tyString = TExpr{K: "ident", A: "string"}
var tyInt = TExpr{K: "ident", A: "int"}
var tyBool = TExpr{K: "ident", A: "bool"}
var tyDur = TExpr{K: "sel", A: "time", B: "Duration"}
var tyCtx = TExpr{K: "sel", A: "context", B: "Context"}
var tyErr = TExpr{K: "ident", A: "error"}
var supportedTys = []TExpr{tyString, tyInt, tyBool, tyDur}
var otherTys = []TExpr{{K: "other", A: "[]string"}, {K: "other", A: "*int"}, {K: "ident", A: "int64"}, {K: "ident", A: "float64"},
	{K: "other", A: "...string"}, {K: "other", A: "func()"}, {K: "other", A: "map[string]int"}, {K: "ident", A: "MyInt"}, {K: "other", A: "interface{}"}}

type Gen struct {
	R *rng.R
	// knobs
	BadSigs    bool // include invalid signatures and ignored declarations
	Collisions bool // inject name collisions (C07)
	Imports    bool // mage:import packages
	TagShapes  bool // vary comment groups around the tag (C19)
	Platform   bool // imported packages get host-only files (name suffix) and files for a foreign platform (C19, C11)
	// alias keys written with escape sequences.  AliasEntry.Key is the *source text* between the quotes (what
	// parse.lit2string returns and the template pastes back between quotes); only for projects that are parsed and
	// generated, not run: the model's dispatch does not interpret escapes
	EscapedAliases bool
}

var nameParts = []string{"Build", "Test", "Deploy", "Clean", "Lint", "Run", "Gen", "Docs", "Pack", "Ship", "URL", "DBSync", "HTTPGet", "A", "Ab", "ABc", "Fmt2", "X_y",
	"Über", "Éclair", "NaÏve"} // identifiers beyond ASCII (Latin-1): exported by unicode.IsUpper, lower-cased by strings.ToLower, untouched by the ASCII-only [[:upper:]]

func (g *Gen) name(used map[string]bool) string {
	for {
		n := nameParts[g.R.Intn(len(nameParts))]
		if g.R.Chance(1, 3) {
			n += nameParts[g.R.Intn(len(nameParts))]
		}
		if !used[strings.ToLower(n)] {
			used[strings.ToLower(n)] = true
			return n
		}
	}
}

func (g *Gen) params(valid bool) []Field {
	r := g.R
	var fs []Field
	pn := 0
	nm := func() string { pn++; return fmt.Sprintf("p%d", pn) }
	if r.Chance(1, 3) {
		switch r.Intn(4) {
		case 0:
			fs = append(fs, Field{Names: []string{}, Ty: tyCtx})
		case 1:
			fs = append(fs, Field{Names: []string{"_"}, Ty: tyCtx})
		default:
			fs = append(fs, Field{Names: []string{"ctx"}, Ty: tyCtx})
		}
	}
	n := r.Intn(4)
	if r.Chance(1, 2) {
		n = r.Intn(2)
	}
	// unnamed parameters must be all-or-nothing in Go
	unnamed := len(fs) == 0 && r.Chance(1, 6) || (len(fs) == 1 && len(fs[0].Names) == 0)
	if len(fs) == 1 && len(fs[0].Names) == 0 {
		unnamed = true
	} else if len(fs) == 1 {
		unnamed = false
	}
	for i := 0; i < n; i++ {
		ty := supportedTys[r.Intn(4)]
		switch {
		case unnamed:
			fs = append(fs, Field{Names: []string{}, Ty: ty})
		case r.Chance(1, 5):
			fs = append(fs, Field{Names: []string{nm(), nm()}, Ty: ty})
		case r.Chance(1, 10):
			fs = append(fs, Field{Names: []string{"_"}, Ty: ty})
		default:
			fs = append(fs, Field{Names: []string{nm()}, Ty: ty})
		}
	}
	if !valid {
		names := []string{}
		if !unnamed {
			names = []string{nm()}
		}
		switch r.Intn(4) {
		case 0: // unsupported type somewhere
			k := r.Intn(len(fs) + 1)
			bad := Field{Names: names, Ty: otherTys[r.Intn(len(otherTys))]}
			if bad.Ty.A == "...string" {
				k = len(fs)
			}
			if bad.Ty.A == "MyInt" {
				bad.Ty = TExpr{K: "ident", A: "int64"}
			}
			fs = append(fs[:k:k], append([]Field{bad}, fs[k:]...)...)
		case 1: // context not first
			fs = append(fs, Field{Names: names, Ty: tyCtx})
		case 2: // two contexts in one field
			if !unnamed {
				fs = append([]Field{{Names: []string{"c1", "c2"}, Ty: tyCtx}}, fs...)
				if len(fs) > 1 && fs[1].Ty == tyCtx {
					fs = append(fs[:1], fs[2:]...)
				}
			} else {
				fs = append(fs, Field{Names: names, Ty: TExpr{K: "ident", A: "float64"}})
			}
		default: // second context right after the first
			if len(fs) > 0 && fs[0].Ty == tyCtx && !unnamed {
				fs = append(fs[:1:1], append([]Field{{Names: []string{nm()}, Ty: tyCtx}}, fs[1:]...)...)
			} else {
				fs = append(fs, Field{Names: names, Ty: TExpr{K: "ident", A: "float64"}})
			}
		}
	}
	if fs == nil {
		fs = []Field{}
	}
	return fs
}

func (g *Gen) results(valid bool) []Field {
	r := g.R
	if valid {
		switch r.Intn(5) {
		case 0, 1:
			return []Field{}
		case 2:
			return []Field{{Names: []string{"err"}, Ty: tyErr}}
		default:
			return []Field{{Names: []string{}, Ty: tyErr}}
		}
	}
	switch r.Intn(4) {
	case 0:
		return []Field{{Names: []string{}, Ty: tyInt}}
	case 1:
		return []Field{{Names: []string{}, Ty: tyString}, {Names: []string{}, Ty: tyErr}}
	case 2:
		return []Field{{Names: []string{"a", "b"}, Ty: tyErr}}
	default:
		return []Field{{Names: []string{}, Ty: TExpr{K: "other", A: "*int"}}}
	}
}

// genPkg generates one package's files. Returns the package and the list of its (valid) target decls for reference.
func (g *Gen) genPkg(nfiles int, prefix string, used map[string]bool) Pkg {
	r := g.R
	var files []File
	for i := 0; i < nfiles; i++ {
		files = append(files, File{Name: fmt.Sprintf("%s%d.go", prefix, i), Imports: []ImportSpec{}, Funcs: []FuncDecl{}, Types: []TypeDecl{}})
	}
	pick := func() *File { return &files[r.Intn(len(files))] }
	nfuncs := 1 + r.Intn(5)
	for i := 0; i < nfuncs; i++ {
		d := FuncDecl{Name: g.name(used), Params: g.params(true), Results: g.results(true)}
		if r.Chance(1, 2) {
			d.Doc = g.doc(d.Name)
		}
		if g.BadSigs && r.Chance(1, 4) {
			if r.Bool() {
				d.Params = g.params(false)
			} else {
				d.Results = g.results(false)
			}
		}
		if g.BadSigs && r.Chance(1, 8) {
			d.Name = lowerFirstRune(d.Name) // unexported
		}
		if g.BadSigs && r.Chance(1, 10) {
			d.TParams = []string{"[T any]", "[K comparable, V any]", "[T int | string]"}[r.Intn(3)] // a generic function is no target
		}
		f := pick()
		f.Funcs = append(f.Funcs, d)
	}
	// namespaces
	nns := r.Intn(3)
	for i := 0; i < nns; i++ {
		tn := g.name(used)
		kind := r.Intn(8)
		t := TypeDecl{Name: tn, Rhs: TExpr{K: "sel", A: "mg", B: "Namespace"}}
		if g.BadSigs && kind == 0 {
			t.Rhs = TExpr{K: "other", A: "struct{}"} // not a namespace
		}
		if g.BadSigs && kind == 1 {
			t.Name = lowerFirstRune(tn) // unexported type
		}
		f := pick()
		f.Types = append(f.Types, t)
		usedM := map[string]bool{}
		for j := 0; j < 1+r.Intn(3); j++ {
			d := FuncDecl{Name: g.name(usedM), Recv: &Recv{Ptr: r.Chance(1, 4), Base: t.Name}, Params: g.params(true), Results: g.results(true)}
			if g.BadSigs && r.Chance(1, 5) {
				d.Params = g.params(false)
			}
			if g.BadSigs && r.Chance(1, 8) {
				d.Name = lowerFirstRune(d.Name)
			}
			if r.Chance(1, 3) {
				d.Doc = g.doc(d.Name)
			}
			pf := pick()
			pf.Funcs = append(pf.Funcs, d)
		}
	}
	// package comments (the description shown by -l): in any subset of the files
	for i := range files {
		if r.Chance(1, 4) {
			files[i].PkgDoc = []string{"Build tooling for the project.", "Package comment of " + files[i].Name + "\nwith a second line.",
				"  indented   words  ", "One.\n\nTwo paragraphs with \"quotes\" and 100%."}[r.Intn(4)]
		}
	}
	return Pkg{Files: files}
}

// doc makes a doc comment for a declaration: with and without the declaration's own name in front (any case), one or
// several sentences and paragraphs, text that needs quoting.
func (g *Gen) doc(name string) string {
	r := g.R
	switch r.Intn(12) {
	case 0:
		return name + " does something.\nSecond line `with` \"quotes\"."
	case 1:
		return strings.ToLower(name) + " builds things"
	case 2:
		return "Does the work without naming itself. Second sentence."
	case 3:
		return name
	case 4:
		return name + "s the thing (not the name itself)."
	case 5:
		return "First paragraph\nstill first.\n\nSecond paragraph."
	case 6:
		return strings.ToUpper(name) + "  two spaces, a\ttab and 100% of a back\\slash."
	case 7:
		return "Deprecated: use something else."
	case 8:
		return name + " handles e.g. this case. And more."
	case 9:
		return "  leading spaces and trailing  "
	case 10:
		return name + " prints naïve résumés — with a dash."
	}
	return name + " does something."
}

// Targets lists the valid targets of a package as the spec defines them (for choosing defaults/aliases/words).
type TargetRef struct {
	Recv, Name string
	Ptr        bool
	NArgs      int
	ArgTypes   []string
	IsErr      bool
}

// ValidSig reports whether a declaration has a target signature (exported for the harness).
func ValidSig(d FuncDecl) (bool, []string) { return validSig(d) }

// ExportedName reports whether an identifier is exported.
func ExportedName(s string) bool { return exportedName(s) }

func validSig(d FuncDecl) (bool, []string) {
	if d.TParams != "" {
		return false, nil // cannot be called without instantiation
	}
	ps := d.Params
	if len(ps) > 0 && ps[0].Ty == tyCtx {
		if len(ps[0].Names) > 1 {
			return false, nil
		}
		ps = ps[1:]
	}
	var tys []string
	for _, f := range ps {
		g := f.Ty.Go()
		if g != "string" && g != "int" && g != "bool" && g != "time.Duration" {
			return false, nil
		}
		n := len(f.Names)
		if n == 0 {
			n = 1
		}
		for i := 0; i < n; i++ {
			tys = append(tys, g)
		}
	}
	nres := 0
	for _, f := range d.Results {
		if len(f.Names) == 0 {
			nres++
		} else {
			nres += len(f.Names)
		}
	}
	if nres > 1 || (nres == 1 && d.Results[0].Ty.Go() != "error") {
		return false, nil
	}
	return true, tys
}

func exportedName(s string) bool {
	r, _ := utf8.DecodeRuneInString(s)
	return s != "" && unicode.IsUpper(r)
}

// lowerFirstRune makes an identifier unexported.
func lowerFirstRune(s string) string {
	r, n := utf8.DecodeRuneInString(s)
	return string(unicode.ToLower(r)) + s[n:]
}

func Targets(p Pkg) []TargetRef {
	ns := map[string]bool{}
	for _, f := range p.Files {
		for _, t := range f.Types {
			if exportedName(t.Name) && t.Rhs.K == "sel" && t.Rhs.A == "mg" && t.Rhs.B == "Namespace" {
				ns[t.Name] = true
			}
		}
	}
	var out []TargetRef
	for _, f := range p.Files {
		for _, d := range f.Funcs {
			if !exportedName(d.Name) {
				continue
			}
			if d.Recv != nil && !ns[d.Recv.Base] {
				continue
			}
			ok, tys := validSig(d)
			if !ok {
				continue
			}
			rcv := ""
			if d.Recv != nil {
				rcv = d.Recv.Base
			}
			isErr := len(d.Results) == 1
			out = append(out, TargetRef{Recv: rcv, Name: d.Name, NArgs: len(tys), ArgTypes: tys, IsErr: isErr, Ptr: d.Recv != nil && d.Recv.Ptr})
		}
	}
	sort.Slice(out, func(i, j int) bool { return out[i].Recv+":"+out[i].Name < out[j].Recv+":"+out[j].Name })
	return out
}

var commentFill = []string{"// some words", "// tooling", "//nolint", "// mage:import is below", "/* block */", "// x y z", "// Mage:Import", "// mage:importx"}

// tagComments builds a comment group of the given length whose last line carries (or not) the tag.
func (g *Gen) tagComments(n int, tag string) []string {
	var out []string
	for i := 0; i < n-1; i++ {
		out = append(out, commentFill[g.R.Intn(len(commentFill))])
	}
	out = append(out, tag)
	return out
}

func (g *Gen) tagSpelling(alias string) string {
	r := g.R
	base := []string{"// mage:import", "//mage:import", "//   mage:import", "// MAGE:IMPORT", "// Mage:Import", "//\tmage:import"}[r.Intn(6)]
	if alias != "" {
		base += []string{" ", "  ", "\t"}[r.Intn(3)] + alias
	}
	if r.Chance(1, 6) {
		base += "  "
	}
	return base
}

// Generate builds a random project.
func (g *Gen) Generate(id int) *Project {
	r := g.R
	p := &Project{Module: fmt.Sprintf("example.com/p%d", id), World: map[string]Imported{}}
	used := map[string]bool{}
	p.Main = g.genPkg(1+r.Intn(3), "magefile", used)
	// imports
	if g.Imports && r.Chance(3, 4) {
		nimp := 1 + r.Intn(3)
		pkgNames := []string{"tools", "lib", "tools", "deploy", "ci"}
		aliases := []string{"", "", "tl", "ops", "tl", "X1"}
		for i := 0; i < nimp; i++ {
			name := pkgNames[r.Intn(len(pkgNames))]
			path := fmt.Sprintf("%s/imp/d%d/%s", p.Module, i, name)
			usedI := map[string]bool{}
			if !g.Collisions {
				usedI = used // keep imported target names disjoint from local ones unless collisions are wanted
			}
			sub := &Gen{R: r, BadSigs: g.BadSigs}
			ip := sub.genPkg(1+r.Intn(2), "lib", usedI)
			if g.Platform && r.Chance(2, 3) {
				// the last file becomes host-only by its name; a sibling for another platform declares a target of its own
				// and (sometimes) the same functions again, as platform-split code does
				last := &ip.Files[len(ip.Files)-1]
				last.Name = strings.TrimSuffix(last.Name, ".go") + "_" + runtime.GOOS + ".go"
				rel := strings.TrimPrefix(path, p.Module+"/")
				body := "package " + name + "\n\nfunc ForeignOnly() {}\n"
				if r.Bool() {
					for _, fd := range last.Funcs {
						if fd.Recv == nil {
							body += "\nfunc " + fd.Name + "() {}\n"
						}
					}
				}
				if p.Foreign == nil {
					p.Foreign = map[string]string{}
				}
				if r.Bool() {
					p.Foreign[rel+"/zz_plan9.go"] = body
				} else {
					p.Foreign[rel+"/zz_other.go"] = "//go:build plan9 || windows\n\n" + body
				}
			}
			p.World[path] = Imported{Name: name, Pkg: ip}
			alias := aliases[r.Intn(len(aliases))]
			tag := g.tagSpelling(alias)
			sp := ImportSpec{Path: path, Local: "_", Paren: true, N: 1}
			glen := 1
			if g.TagShapes {
				glen = 1 + r.Intn(12)
			}
			placement := r.Intn(6)
			switch {
			case placement <= 2: // leading, grouped
				sp.Doc = g.tagComments(glen, tag)
			case placement == 3: // trailing
				sp.Trailing = []string{tag}
				if g.TagShapes && r.Bool() {
					sp.Doc = g.tagComments(1+r.Intn(3), commentFill[r.Intn(len(commentFill))])
				}
			case placement == 4: // single-line import with decl doc
				sp.Paren = false
				sp.DeclDoc = g.tagComments(glen, tag)
			default: // single-line import with trailing tag
				sp.Paren = false
				sp.Trailing = []string{tag}
			}
			if g.TagShapes && r.Chance(1, 8) { // not tagged after all: last line is not the tag
				if sp.Doc != nil {
					sp.Doc = append(sp.Doc, "// trailing words")
				}
			}
			f := &p.Main.Files[r.Intn(len(p.Main.Files))]
			f.Imports = append(f.Imports, sp)
			if g.TagShapes && r.Chance(1, 4) { // the same package mentioned in a second file
				f2 := &p.Main.Files[r.Intn(len(p.Main.Files))]
				if f2 != f {
					sp2 := sp
					which := r.Intn(3)
					if which == 0 && alias != "" {
						sp2.Doc, sp2.Trailing, sp2.DeclDoc, sp2.Paren = g.tagComments(1, g.tagSpelling(alias)), nil, nil, true
					} else if which == 1 {
						// the same path under another alias (or as a root import) in the second file
						alias2 := aliases[r.Intn(len(aliases))]
						sp2.Doc, sp2.Trailing, sp2.DeclDoc, sp2.Paren = g.tagComments(1, g.tagSpelling(alias2)), nil, nil, true
					}
					f2.Imports = append(f2.Imports, sp2)
				}
			}
		}
	}
	// default and aliases (a method expression T.M is only valid Go for value receivers)
	var tg []TargetRef
	for _, t := range Targets(p.Main) {
		if !t.Ptr {
			tg = append(tg, t)
		}
	}
	refOf := func(t TargetRef) FnRef {
		if t.Recv != "" {
			return FnRef{K: "sel", A: t.Recv, B: t.Name}
		}
		return FnRef{K: "ident", A: t.Name}
	}
	f0 := &p.Main.Files[0]
	if len(tg) > 0 && r.Chance(1, 2) {
		ref := refOf(tg[r.Intn(len(tg))])
		f0.Default = &ref
	}
	if len(tg) > 0 && r.Chance(1, 2) {
		f := &p.Main.Files[len(p.Main.Files)-1]
		f.HasAl = true
		f.Aliases = []AliasEntry{}
		usedA := map[string]bool{}
		for i := 0; i < 1+r.Intn(3); i++ {
			key := []string{"b", "t", "dd", "Go", "xx", "q1", "rel"}[r.Intn(7)]
			if g.EscapedAliases && r.Chance(1, 2) {
				key = []string{`b\\c`, `the \"big\" one`, `tab\there`, `q\x41`}[r.Intn(4)]
			}
			if usedA[key] {
				continue
			}
			usedA[key] = true
			f.Aliases = append(f.Aliases, AliasEntry{Key: key, Ref: refOf(tg[r.Intn(len(tg))])})
		}
	}
	return p
}
