module verif

go 1.21

require github.com/magefile/mage v0.0.0

replace github.com/magefile/mage => /repo
