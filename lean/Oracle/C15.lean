import Oracle.Common
import MageModel.Sh.Exec
import MageModel.Sh.Slices
open Lean MageModel.Sh
namespace Oracle.C15

def fnOf : String → R Fn
  | "Run" => pure .run | "RunV" => pure .runV | "RunWith" => pure .runWith | "RunWithV" => pure .runWithV
  | "Output" => pure .output | "OutputWith" => pure .outputWith | "Exec" => pure .exec
  | s => throw s!"bad fn {s}"

/-- trimOne on raw bytes (bytes viewed as characters 0..255; '\n' = 10) -/
def trimBytes (bs : List UInt8) : List UInt8 :=
  (trimOne (bs.map (fun b => Char.ofNat b.toNat))).map (fun c => UInt8.ofNat c.toNat)

def call (j : Json) : R Json := do
  let fn ← fnOf (← fldStr j "fn")
  let verbose ← fldBool j "verbose"
  let inherited ← pairList (← fld j "inherited")
  let envMap ← match fldOpt j "envMap" with
    | some v => pairList v
    | none => pure []
  let m := if fn.usesEnvMap then envMap else []
  let lookup := lookupExec m (getenv inherited)
  let cmd ← fldStr j "cmd"
  let args ← strList (← fld j "args")
  let code ← fldNat j "code"
  let pout ← fldStr j "pout"
  let perr ← fldStr j "perr"
  let probe ← strList (← fld j "probe")
  let raw : Raw := if (← fldStr j "cmdKind") == "ok" then .exited code else .startFailed
  let (ran, err) := exec raw
  let childRan := cmdRan raw
  let sink := stdoutSink verbose fn
  let base : List (String × Json) := [
    ("errNil", jbool err.isNone),
    ("mgStatus", Json.num (JsonNumber.fromInt (mgExitStatus err))),
    ("shStatus", Json.num (JsonNumber.fromInt (shExitStatus err))),
    ("stdout", jstr (if childRan && sink == .osStdout then pout else "")),
    ("stderr", jstr (if childRan then perr else "")),
    ("callerArgsUnchanged", jbool true)]
  let execPart : List (String × Json) :=
    if fn == .exec then [("ran", jbool ran), ("given", jstr (if childRan then pout else ""))] else []
  let outPart : List (String × Json) :=
    if sink == .buffer then
      [("out", jstr (if childRan then hexOfBytes (trimBytes (bytesOfHex pout.toList)) else ""))] else []
  let childPart : List (String × Json) :=
    if childRan then
      let env := childEnv inherited m
      [("childArgv", Json.arr ((expand lookup cmd :: args.map (expand lookup)).map (fun s => jstr (hexOfString s))).toArray),
       ("childEnv", Json.mkObj (probe.map (fun k => (k, match childGetenv env k with
          | some v => jstr (hexOfString v) | none => Json.null)))),
       ("stdinOK", jbool true)]
    else [("childArgv", Json.null)]
  pure (Json.mkObj (base ++ execPart ++ outPart ++ childPart))

def handle (op : String) (j : Json) : R Json :=
  match op with
  | "c15.call" => call j
  | _ => throw s!"unknown op {op}"

end Oracle.C15
