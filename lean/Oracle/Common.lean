import Lean.Data.Json
/-! JSON helpers for the oracle's line protocol (core/Lean only — no Mathlib — so `oracle` links). -/
open Lean
namespace Oracle

abbrev R := Except String

def fld (j : Json) (k : String) : R Json := j.getObjVal? k
def fldStr (j : Json) (k : String) : R String := do (← fld j k).getStr?
def fldBool (j : Json) (k : String) : R Bool := do (← fld j k).getBool?
def fldNat (j : Json) (k : String) : R Nat := do (← fld j k).getNat?
def fldInt (j : Json) (k : String) : R Int := do (← fld j k).getInt?
def fldArr (j : Json) (k : String) : R (List Json) := do return (← (← fld j k).getArr?).toList
def fldOpt (j : Json) (k : String) : Option Json :=
  match j.getObjVal? k with
  | .ok .null => none
  | .ok v => some v
  | .error _ => none

/-- decimal string → Int (time stamps travel as strings: they exceed 2^53) -/
def strInt (j : Json) : R Int := do
  let s ← j.getStr?
  match s.toInt? with
  | some i => pure i
  | none => throw s!"not an integer: {s}"

def fldSInt (j : Json) (k : String) : R Int := do strInt (← fld j k)

def optOf (f : Json → R α) (j : Json) : R (Option α) :=
  match j with
  | .null => pure none
  | v => some <$> f v

def listOf (f : Json → R α) (j : Json) : R (List α) := do
  let a ← j.getArr?
  a.toList.mapM f

def strList (j : Json) : R (List String) := listOf (·.getStr?) j

def jstr (s : String) : Json := Json.str s
def jint (i : Int) : Json := Json.str (toString i)   -- as decimal string, like the harness
def jnat (n : Nat) : Json := Json.num (JsonNumber.fromNat n)
def jbool (b : Bool) : Json := Json.bool b
def obj (kvs : List (String × Json)) : Json := Json.mkObj kvs

end Oracle

namespace Oracle
def hexDigit (n : Nat) : Char := if n < 10 then Char.ofNat (48 + n) else Char.ofNat (87 + n)
def hexOfBytes (bs : List UInt8) : String :=
  String.ofList (bs.flatMap (fun b => [hexDigit (b.toNat / 16), hexDigit (b.toNat % 16)]))
def hexOfString (s : String) : String := hexOfBytes s.toUTF8.toList
def unhexDigit (c : Char) : Nat :=
  if '0' ≤ c && c ≤ '9' then c.toNat - 48 else if 'a' ≤ c && c ≤ 'f' then c.toNat - 87 else 0
def bytesOfHex : List Char → List UInt8
  | a :: b :: rest => UInt8.ofNat (unhexDigit a * 16 + unhexDigit b) :: bytesOfHex rest
  | _ => []
def pairList (j : Lean.Json) : R (List (String × String)) :=
  listOf (fun p => do
    let a ← p.getArr?
    if a.size != 2 then throw "pair expected"
    pure ((← a[0]!.getStr?), (← a[1]!.getStr?))) j
end Oracle
