import Oracle.Common
import MageModel.Gen.Ctx
/-! Oracle op for C12: `c12.run` (the runTarget model over a logical clock in milliseconds) and `c12.deps`. -/
open Lean MageModel.Gen.Ctx
namespace Oracle.C12

def endingJ : Ending → String
  | .finished _ => "finished" | .targetFailed _ _ => "targetFailed" | .deadline _ => "deadline"
  | .cancelled _ => "cancelled" | .cleanupTimeout _ => "cleanupTimeout" | .forced _ => "forced"

def run (j : Json) : R Json := do
  let ts ← listOf (fun t => do
    pure ({ dur := ← fldNat t "dur", honours := ← fldBool t "honours", status := ← fldInt t "status" } : Target)) (← fld j "targets")
  let optNat (k : String) : Option Nat := (fldOpt j k).bind fun v => v.getNat?.toOption
  let e : Env := { d := ← fldNat j "d", sig1 := optNat "sig1", sig2 := optNat "sig2", grace := 5000 }
  let o := MageModel.Gen.Ctx.run e 0 ts
  -- what a target that is still running when main exits saw cannot be observed, nor whether a target whose context
  -- was already cancelled got as far as announcing its start
  let blind : Bool := match o.ending with
    | .deadline _ | .forced _ | .cleanupTimeout _ => true
    | .cancelled i => i ≥ 1 && o.sawCancel.contains (i - 1)
    | _ => false
  let gone : Bool := match o.ending with
    | .cancelled i => i ≥ 1 && o.sawCancel.contains (i - 1)
    | _ => false
  pure (obj [("status", Json.num (JsonNumber.fromInt o.ending.status)), ("ending", jstr (endingJ o.ending)),
             ("started", if gone then jstr "<any>" else jnat o.started.length),
             ("sawCancel", if blind then jstr "<any>" else Json.arr (o.sawCancel.map jnat).toArray),
             ("exit", jnat o.time), ("timing", jstr "ok")])

/-- what the property demands of dependency contexts: reached through CtxDeps ⇒ carries the deadline; plain Deps ⇒ never -/
def deps (j : Json) : R Json := do
  let timeout ← fldBool j "timeout"
  pure (obj [("A", jbool timeout), ("B", jbool false), ("C", jbool timeout)])

/-- a dependency watching its context while a sibling named in the same call fails (no -t, no signal) -/
def sibling (j : Json) : R Json := do
  let style := if (← fldStr j "style") == "ctx" then Style.ctxDeps else Style.deps
  let cancelled := depCancelled style false false true
  pure (obj [("watch", jstr (if cancelled then "cancelled" else "live")), ("status", jnat 3)])

def handle (op : String) (j : Json) : R Json :=
  match op with
  | "c12.sibling" => sibling j
  | "c12.run" => run j
  | "c12.deps" => deps j
  | _ => throw s!"unknown op {op}"
end Oracle.C12
