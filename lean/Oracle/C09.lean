import Oracle.Common
import MageModel.Invoke.Steps
import MageModel.Invoke.Dirs
/-! Oracle ops for C09: `c09.run` (one invocation with a fault and a leftover), `c09.init`, `c09.clean`. -/
open Lean MageModel.Invoke MageModel.Invoke.Dirs
namespace Oracle.C09

def mainOf : String → MainState
  | "headless" => .headless | "truncated" => .truncated | "full" => .full | _ => .absent
def mainJ : MainState → String
  | .absent => "absent" | .headless => "headless" | .truncated => "truncated" | .full => "full"

def faultsOf (s : String) : Faults :=
  match s with
  | "list" => { list := true } | "noFiles" => { noFiles := true } | "exeName" => { exeName := true }
  | "goEnv" => { goEnv := true } | "parse" => { parse := true } | "compile" => { compile := true }
  | "start" => { start := true }
  | "gen:create" => { gen := .create } | "gen:write" => { gen := .write false } | "gen:write-early" => { gen := .write true }
  | "gen:close" => { gen := .close } | "gen:chtimes" => { gen := .chtimes }
  | _ => {}

/-- {"fault":…, "keep":b, "force":b, "hashfast":b, "cached":b, "leftover":…, "target":status} -/
def run (j : Json) : R Json := do
  let F := faultsOf (← fldStr j "fault")
  let r : Run Unit := { dir := 0, src := (), keep := ← fldBool j "keep", force := ← fldBool j "force",
                        hashFast := ← fldBool j "hashfast", goCache := true }
  let cached ← fldBool j "cached"
  let w : World Unit := ⟨fun d => if d = 0 then mainOf ((fldStr j "leftover").toOption.getD "absent") else .absent,
                         fun p => if cached && p == 0 then some () else none⟩
  let target ← fldInt j "target"
  let res := invoke Cfg.fixed (fun _ => 0) (fun _ => target) r F w
  pure (obj [("status", Json.num (JsonNumber.fromInt res.status)), ("main", jstr (mainJ (res.world.main 0))),
             ("others", jstr "unchanged"),
             ("ran", if (fldBool j "noran").toOption.getD false then jstr "<n/a>" else jbool res.ran.isSome)])

def init (j : Json) : R Json := do
  let names ← strList (← fld j "files")
  let files := names.map fun n => (n, "old:" ++ n)
  let (after, st) := mageInit true files "starter"
  let changed := files.filter fun p => !after.contains p
  pure (obj [("status", Json.num (JsonNumber.fromInt st)), ("changed", Json.arr (changed.map fun p => jstr p.1).toArray),
             ("created", jbool (after.length > files.length))])

def clean (j : Json) : R Json := do
  let entries ← listOf (fun e => do pure (⟨← fldStr e "name", ← fldBool e "dir"⟩ : Entry)) (← fld j "entries")
  let (left, ok) := removeContents entries ((fldNat j "failAt").toOption.getD 1000000)
  pure (obj [("left", Json.arr (left.map fun e => jstr e.name).toArray), ("ok", jbool ok), ("below", jstr "unchanged")])

def handle (op : String) (j : Json) : R Json :=
  match op with
  | "c09.run" => run j
  | "c09.init" => init j
  | "c09.clean" => clean j
  | _ => throw s!"unknown op {op}"
end Oracle.C09
