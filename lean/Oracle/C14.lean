import Oracle.Common
import MageModel.Fn.CheckF
open Lean MageModel.Fn
namespace Oracle.C14

partial def tyOf (s : String) : R Ty :=
  match s with
  | "int" => pure .int | "str" => pure .str | "bool" => pure .bool | "dur" => pure .dur
  | "ctx" => pure .ctx | "err" => pure .err | "ns" => pure .ns
  | _ =>
    if s.startsWith "slice:" then do pure (.slice (← tyOf (s.drop 6).toString))
    else if s.startsWith "other:" then pure (.other 99)
    else if s.startsWith "other" then
      match (s.drop 5).toString.toNat? with
      | some n => pure (.other n)
      | none => throw s!"bad type {s}"
    else throw s!"bad type {s}"

def errJ : Err → Json
  | .notFunc => obj [("ok", jbool false), ("err", jstr "notFunc")]
  | .tooManyReturns => obj [("ok", jbool false), ("err", jstr "tooManyReturns")]
  | .badReturn => obj [("ok", jbool false), ("err", jstr "badReturn")]
  | .tooManyArgs => obj [("ok", jbool false), ("err", jstr "tooManyArgs")]
  | .tooFewArgs => obj [("ok", jbool false), ("err", jstr "tooFewArgs")]
  | .wrongNumber => obj [("ok", jbool false), ("err", jstr "wrongNumber")]
  | .unsupported i => obj [("ok", jbool false), ("err", jstr "unsupported"), ("i", jnat i)]
  | .mismatch i => obj [("ok", jbool false), ("err", jstr "mismatch"), ("i", jnat i)]
  | .reflectPanic => obj [("ok", jbool false), ("err", jstr "reflectPanic")]

def check (j : Json) : R Json := do
  if (← fldBool j "notFunc") then
    match checkF .notFunc [] with
    | .error e => return errJ e
    | .ok _ => return obj [("ok", jbool true)]
  let ins ← (← strList (← fld j "ins")).mapM tyOf
  let outs ← (← strList (← fld j "outs")).mapM tyOf
  let variadic ← fldBool j "variadic"
  let args ← listOf (optOf (fun v => do tyOf (← v.getStr?))) (← fld j "args")
  match checkF (.func ⟨ins, variadic, outs⟩) args with
  | .error e => pure (errJ e)
  | .ok _ => pure (obj [("ok", jbool true), ("callOK", jbool true)])   -- call_conforms / result unchanged

/-- identity: same function and equal argument values (type and value) -/
def identity (j : Json) : R Json := do
  let same := (← fldStr j "fnA") == (← fldStr j "fnB") && (← fld j "argsA").compress == (← fld j "argsB").compress
  pure (obj [("same", jbool same), ("keySame", jbool same)])

def handle (op : String) (j : Json) : R Json :=
  match op with
  | "c14.checkF" => check j
  | "c14.identity" => identity j
  | _ => throw s!"unknown op {op}"

end Oracle.C14
