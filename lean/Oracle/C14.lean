import Oracle.Common
import MageModel.Fn.CheckF
import MageModel.Fn.Json
open Lean MageModel.Fn
namespace Oracle.C14

partial def tyOf (s : String) : R Ty :=
  match s with
  | "int" => pure .int | "str" => pure .str | "bool" => pure .bool | "dur" => pure .dur
  | "ctx" => pure .ctx | "err" => pure .err | "ns" => pure .ns
  | _ =>
    if s.startsWith "slice:" then do pure (.slice (← tyOf (s.drop 6).toString))
    else if s.startsWith "other:" then pure (.other 99)
    else if s.startsWith "other" then
      match (s.drop 5).toString.toNat? with
      | some n => pure (.other n)
      | none => throw s!"bad type {s}"
    else throw s!"bad type {s}"

def errJ : Err → Json
  | .notFunc => obj [("ok", jbool false), ("err", jstr "notFunc")]
  | .tooManyReturns => obj [("ok", jbool false), ("err", jstr "tooManyReturns")]
  | .badReturn => obj [("ok", jbool false), ("err", jstr "badReturn")]
  | .tooManyArgs => obj [("ok", jbool false), ("err", jstr "tooManyArgs")]
  | .tooFewArgs => obj [("ok", jbool false), ("err", jstr "tooFewArgs")]
  | .wrongNumber => obj [("ok", jbool false), ("err", jstr "wrongNumber")]
  | .unsupported i => obj [("ok", jbool false), ("err", jstr "unsupported"), ("i", jnat i)]
  | .mismatch i => obj [("ok", jbool false), ("err", jstr "mismatch"), ("i", jnat i)]
  | .reflectPanic => obj [("ok", jbool false), ("err", jstr "reflectPanic")]

def check (j : Json) : R Json := do
  if (← fldBool j "notFunc") then
    match checkF .notFunc [] with
    | .error e => return errJ e
    | .ok _ => return obj [("ok", jbool true)]
  let ins ← (← strList (← fld j "ins")).mapM tyOf
  let outs ← (← strList (← fld j "outs")).mapM tyOf
  let variadic ← fldBool j "variadic"
  let args ← listOf (optOf (fun v => do tyOf (← v.getStr?))) (← fld j "args")
  match checkF (.func ⟨ins, variadic, outs⟩) args with
  | .error e => pure (errJ e)
  | .ok _ => pure (obj [("ok", jbool true), ("callOK", jbool true)])   -- call_conforms / result unchanged

/-- the argument list of an mg.F value as the JSON model sees it; `none` when a string is not valid UTF-8 -/
def argsOf (j : Json) : R (Option (List MageModel.Fn.Json.Arg)) := do
  let l ← j.getArr?
  let mut out : List MageModel.Fn.Json.Arg := []
  for a in l.toList do
    let v ← fldStr a "v"
    match (← fldStr a "t") with
    | "int" => out := out ++ [.int (v.toInt?.getD 0)]
    | "dur" => out := out ++ [.dur (v.toInt?.getD 0)]
    | "bool" => out := out ++ [.bool (v == "true")]
    | _ =>
      let bytes := ByteArray.mk (bytesOfHex v.toList).toArray
      match String.fromUTF8? bytes with
      | some s => out := out ++ [.str s.toList]
      | none => return none
  return some out

def idOf (j : Json) : R Json := do
  match (← argsOf j) with
  | some l => pure (jstr (String.ofList (MageModel.Fn.Json.encList l)))
  | none => pure (jstr "<any>")

/-- identity: same function and equal argument values (type and value); the ID itself is json.Marshal of the arguments -/
def identity (j : Json) : R Json := do
  let same := (← fldStr j "fnA") == (← fldStr j "fnB") && (← fld j "argsA").compress == (← fld j "argsB").compress
  pure (obj [("same", jbool same), ("keySame", jbool same), ("idA", ← idOf (← fld j "argsA")), ("idB", ← idOf (← fld j "argsB"))])

def handle (op : String) (j : Json) : R Json :=
  match op with
  | "c14.checkF" => check j
  | "c14.identity" => identity j
  | _ => throw s!"unknown op {op}"

end Oracle.C14
