import Oracle.Common
import MageModel.Parse.Fields
import MageModel.Parse.DocText
import Oracle.Conv
import MageModel.Gen.Dispatch
import MageModel.Gen.List
import MageModel.Gen.Emit
import MageModel.Invoke.Sha1
import MageModel.Generated.TemplateAst
open Lean MageModel.Parse MageModel.Gen
namespace Oracle.FE

def texpr (j : Json) : R TExpr := do
  match (← fldStr j "k") with
  | "ident" => pure (.ident (← fldStr j "a"))
  | "sel" => pure (.sel (← fldStr j "a") (← fldStr j "b"))
  | _ => pure (.other (← fldStr j "a"))

def field (j : Json) : R Field := do
  pure ⟨← strList (← fld j "names"), ← texpr (← fld j "ty")⟩

def funcDecl (j : Json) : R FuncDecl := do
  let recv ← match fldOpt j "recv" with
    | none => pure none
    | some r => do pure (some (⟨← fldBool r "ptr", ← fldStr r "base"⟩ : Recv))
  pure { name := ← fldStr j "name", recv := recv, params := ← listOf field (← fld j "params"),
         results := ← listOf field (← fld j "results"), doc := (fldStr j "doc").toOption.getD "",
         typeParams := ((fldStr j "tparams").toOption.getD "") ≠ "" }

def fnRef (j : Json) : R FnRef := do
  match (← fldStr j "k") with
  | "ident" => pure (.ident (← fldStr j "a"))
  | "sel" => pure (.sel (← fldStr j "a") (← fldStr j "b"))
  | "selsel" => pure (.selsel (← fldStr j "a") (← fldStr j "b") (← fldStr j "c"))
  | _ => pure .other

def optStrs (j : Json) (k : String) : R (Option (List String)) :=
  match fldOpt j k with
  | none => pure none
  | some v => do
    let l ← strList v
    pure (if l.isEmpty then none else some l)

def importSpec (j : Json) : R ImportSpec := do
  pure { path := ← fldStr j "path", pathIsPlainLit := true, doc := ← optStrs j "doc", trailing := ← optStrs j "trailing",
         declDoc := ← optStrs j "declDoc", parenthesised := ← fldBool j "paren", specsInDecl := ← fldNat j "n" }

def file (j : Json) : R File := do
  let dflt ← match fldOpt j "default" with
    | none => pure none
    | some d => some <$> fnRef d
  let hasAl := (fldBool j "hasAliases").toOption.getD false
  let aliases ← if hasAl then do
      let l ← listOf (fun a => do pure ((← fldStr a "key"), (← fnRef (← fld a "ref")))) ((fldOpt j "aliases").getD (Json.arr #[]))
      pure (some l)
    else pure none
  pure { name := ← fldStr j "name", imports := ← listOf importSpec (← fld j "imports"),
         funcs := ← listOf funcDecl (← fld j "funcs"),
         types := ← listOf (fun t => do pure (⟨← fldStr t "name", ← texpr (← fld t "rhs")⟩ : TypeDecl)) (← fld j "types"),
         defaultVar := dflt, aliases := aliases, pkgDoc := (fldStr j "pkgDoc").toOption.getD "" }

def pkg (j : Json) : R Pkg := do pure ⟨← listOf file (← fld j "files")⟩

structure Proj where
  main : Pkg
  world : List (String × Imported)
  fields : List (String × List String)
  docText : List (String × String) := []
  syn : List (String × String) := []

def strMap (j : Json) (k : String) : R (List (String × String)) :=
  match fldOpt j k with
  | none => pure []
  | some v => do
    let o ← v.getObj?
    o.toList.mapM fun (a, b) => do pure (a, ← b.getStr?)

def proj (j : Json) : R Proj := do
  let pj ← fld j "project"
  let w ← (← fld pj "world").getObj?
  let world ← w.toList.mapM fun (path, v) => do
    pure (path, (⟨← fldStr v "name", ← pkg (← fld v "pkg")⟩ : Imported))
  let fj ← (← fld j "fields").getObj?
  let fields ← fj.toList.mapM fun (c, v) => do pure (c, ← strList v)
  pure ⟨← pkg (← fld pj "main"), world, fields, ← strMap j "docText", ← strMap j "syn"⟩

def cfgOf (p : Proj) : MageModel.Parse.Cfg :=
  { fields := MageModel.Parse.commentFields,   -- transcribed (Parse/Fields.lean); the recorded answers are not consulted
    docText := MageModel.Parse.DocText.docTextOf,   -- transcribed ast.CommentGroup.Text over the generator's rendering of a doc string
    docSynopsis := fun t => (p.syn.lookup t).getD "" }

def fnJ (f : Function) : Json :=
  obj [("t", jstr f.targetName), ("id", jstr f.id), ("pkg", jstr f.package), ("err", jbool f.isError), ("ctx", jbool f.isContext),
       ("syn", jstr f.synopsis), ("comment", jstr f.comment),
       ("args", Json.arr (f.args.map fun a => Json.arr #[jstr a.name, jstr a.type]).toArray)]

def errJ : BuildErr → Json
  | .caseConflict groups => obj [("error", jstr "caseConflict"),
      ("named", Json.arr ((sortBy id (groups.map fun g => ", ".intercalate (sortBy id g))).map jstr).toArray)]
  | .multipleDefs all => obj [("error", jstr "multipleDefs"),
      ("named", Json.arr (all.map fun (n, ids) => jstr (n ++ ": " ++ ", ".intercalate ids)).toArray)]
  | .aliasDup a ids det => obj [("error", jstr "aliasDup"),
      ("named", if det then Json.arr #[jstr (a ++ ": " ++ ", ".intercalate (sortBy id ids))] else jstr "<any>")]
  | .importNotFound p => obj [("error", jstr s!"importNotFound {p}")]

def infoJ (i : PkgInfo) : Json :=
  obj [("funcs", Json.arr (i.funcs.map fnJ).toArray),
       ("imports", Json.arr (i.imports.map fun im => obj [("u", jstr im.uniqueName), ("path", jstr im.path), ("name", jstr im.name),
          ("alias", jstr im.alias), ("funcs", Json.arr (im.funcs.map fnJ).toArray)]).toArray),
       ("default", match i.defaultFunc with | some d => jstr d.targetName | none => Json.null),
       ("aliases", Json.arr (i.aliases.map fun (k, f) => Json.arr #[jstr k, jstr f.targetName]).toArray),
       ("listing", Json.arr ((listing i).map jstr).toArray),
       ("description", jstr i.description),
       ("deterministic", jbool true)]

def info (j : Json) : R Json := do
  let p ← proj j
  match primary (cfgOf p) (fun path => p.world.lookup path) p.main with
  | .error e => pure (errJ e)
  | .ok i => pure (infoJ i)

def argJ : ArgVal → Json
  | .str s => jstr ("s:" ++ s)
  | .int i => jstr s!"i:{i}"
  | .bool b => jstr s!"b:{b}"
  | .dur d => jstr s!"d:{d}"

def stopJ : Option Stop → Json
  | none => jstr "done"
  | some (.unknownTarget _) => jstr "unknownTarget"
  | some (.notEnoughArgs _) => jstr "notEnoughArgs"
  | some (.badArg k _) => jstr s!"badArg:{k}"
  | some (.targetFailed _) => jstr "targetFailed"

def optIntOf (j : Json) : Option Int := match j with | .null => none | v => v.getInt?.toOption
def optBoolOf (j : Json) : Option Bool := match j with | .null => none | v => v.getBool?.toOption

/-- fe.run: project + words + recorded conversions + which callee fails -/
def runOp (j : Json) : R Json := do
  let p ← proj j
  let words ← strList (← fld j "words")
  let conv : Conv := Oracle.Conv.modelConv
  let failCallee := (fldStr j "fail").toOption.getD ""
  let ignoreDefault := (fldBool j "ignoreDefault").toOption.getD false
  match primary (cfgOf p) (fun path => p.world.lookup path) p.main with
  | .error e => pure (obj [("build", errJ e), ("status", jnat 1)])
  | .ok i =>
    let (r, listed) := run i conv (fun c => if c.callee == failCallee then 7 else 0) ignoreDefault words
    let blanks : String → List Bool := fun callee =>
      match (allTargets i).find? fun f => f.id == callee with
      | some f => f.args.map fun a => a.name == "_" || a.name.startsWith "arg"
      | none => []
    pure (obj [("calls", Json.arr (r.calls.map fun c => Json.arr (jstr c.callee ::
                  (c.args.zip (blanks c.callee)).map fun (a, b) => if b then jstr "_" else argJ a).toArray).toArray),
               ("status", Json.num (JsonNumber.fromInt r.status)), ("stop", stopJ r.stop), ("listed", jbool listed)])

/-- fe.text: what `-l` and `-h <word>` print -/
def textOp (j : Json) : R Json := do
  let p ← proj j
  let bin ← fldStr j "bin"
  let words ← strList (← fld j "helpWords")
  match primary (cfgOf p) (fun path => p.world.lookup path) p.main with
  | .error e => pure (obj [("build", errJ e), ("status", jnat 1)])
  | .ok i =>
    let envL ← match fldOpt j "colorEnv" with
      | none => pure []
      | some v => listOf (fun kv => do let a ← kv.getArr?; pure ((← a[0]!.getStr?), (← a[1]!.getStr?))) v
    pure (obj [("usage", jstr (if (fldBool j "wantUsage").toOption == some true then usageText bin else "<any>")), ("list", jstr (listText i)), ("listColor", jstr (listTextEnv (fun k => envL.lookup k) i)),
               ("help", Json.arr (words.map fun w =>
                  let r := help bin i [w]
                  Json.arr #[jstr r.1, Json.num (JsonNumber.fromInt r.2)]).toArray)])

/-- fe.gen: from the declarations to the bytes of the generated main, entirely in the model
(`primary`, then the interpreter of the regenerated template) -/
def genOp (j : Json) : R Json := do
  let p ← proj j
  let bin ← fldStr j "binary"
  if !MageModel.Generated.TemplateAst.translatable then throw "the template uses a construct the interpreter does not know"
  match primary (cfgOf p) (fun path => p.world.lookup path) p.main with
  | .error e => pure (obj [("build", errJ e)])
  | .ok i =>
    let text := MageModel.Gen.Emit.emit MageModel.Generated.TemplateAst.nodes MageModel.Generated.TemplateAst.execCodeLits bin i
    let bytes := text.toUTF8
    if (fldBool j "dump").toOption == some true then return obj [("text", jstr text)]
    pure (obj [("sha1", jstr (MageModel.Invoke.Sha1.hexSum bytes)), ("len", jnat bytes.size)])

/-- fe.accepts: is the package accepted by the ambiguity checks, and if not, with which report -/
def acceptsOp (j : Json) : R Json := do
  let p ← proj j
  match primary (cfgOf p) (fun path => p.world.lookup path) p.main with
  | .error e => pure (obj [("build", errJ e), ("status", jnat 1)])
  | .ok _ => pure (obj [("accepted", jbool true)])

def handle (op : String) (j : Json) : R Json :=
  match op with
  | "fe.accepts" => acceptsOp j
  | "fe.gen" => genOp j
  | "fe.text" => textOp j
  | "fe.info" => info j
  | "fe.run" => runOp j
  | _ => throw s!"unknown op {op}"

end Oracle.FE
