import Oracle.Common
import MageModel.Sh.Exec
import MageModel.Sh.Slices
import MageModel.Props.C16
open Lean MageModel.Sh
namespace Oracle.C16

def envFn (l : List (String × String)) : String → String := fun k => (l.lookup k).getD ""

def strArr (l : List String) : Json := Json.arr (l.map jstr).toArray

/-- the heap the harness built: one array holding `baked` plus `spare` extra slots -/
def initHeap (baked : List String) (spare : Nat) : Heap × Slice :=
  Heap.alloc ⟨0, fun _ _ => ""⟩ baked spare

def history (j : Json) : R Json := do
  let baked ← strList (← fld j "baked")
  let spare ← fldNat j "spare"
  let calls ← listOf (fun c => do
      let extra ← strList (← fld c "extra")
      let env ← pairList (← fld c "env")
      pure ({ extra := extra, env := envFn env, sp1 := 0, sp2 := 1 } : MageModel.Props.C16.Call)) (← fld j "calls")
  let (h0, b) := initHeap baked spare
  -- the very function `history_spec` is about
  let r := MageModel.Props.C16.runHistory h0 b calls
  let unchanged := (List.range (baked.length + spare)).all (fun i => r.1.get 0 i == h0.get 0 i)
  -- the command word is expanded by Exec like any argument, against the environment of that call
  let cmds : List Json ← match fldOpt j "cmdWord" with
    | none => pure []
    | some w => do
      let w ← w.getStr?
      pure (calls.map fun c => jstr (expand c.env w))
  -- RunCmd histories: the command's stdout is shown exactly in the calls made in verbose mode (sh.Run at that moment)
  let verb : List (Option Bool) ← (← (← fld j "calls").getArr?).toList.mapM fun c =>
    pure ((fldBool c "verbose").toOption)
  let shown : List Json := verb.filterMap fun v => v.map jbool
  let isRun := verb.all Option.isSome && (fldOpt j "out").isNone
  pure (obj ([("argvs", Json.arr (r.2.map strArr).toArray), ("callerUnchanged", jbool unchanged)] ++
    (if isRun && (fldBool j "run").toOption == some true then [("shown", Json.arr shown.toArray)] else []) ++
    (if cmds.isEmpty then [] else [("commands", Json.arr cmds.toArray)])))

def direct (j : Json) : R Json := do
  let fn ← fldStr j "fn"
  let xs ← strList (← fld j "xs")
  let env ← pairList (← fld j "env")
  let envMap ← pairList (← fld j "envMap")
  let m := if fn == "OutputWith" || fn == "RunWith" || fn == "Exec" then envMap else []
  let lookup := lookupExec m (getenv env)
  let (h0, s) := initHeap xs 0
  let r := directCall Cfg.fixed lookup h0 s
  let unchanged := (List.range xs.length).all (fun i => r.1.get 0 i == h0.get 0 i)
  let base := [("callerUnchanged", jbool unchanged), ("errNil", jbool true)]
  if fn == "Run" || fn == "RunWith" then pure (obj base)
  else pure (obj (base ++ [("argv", strArr r.2)]))

def handle (op : String) (j : Json) : R Json :=
  match op with
  | "c16.history" => history j
  | "c16.concurrent" => history j      -- order of concurrent calls is irrelevant: each is independent (history_spec)
  | "c16.direct" => direct j
  | _ => throw s!"unknown op {op}"

end Oracle.C16
