import Oracle.Common
import MageModel.Gen.Emit
import MageModel.Invoke.Sha1
import MageModel.Generated.TemplateAst
/-! Oracle op `fe.emit`: the bytes of the generated main file, produced by interpreting the regenerated template on the
PkgInfo the real parser delivered; compared with the real file by SHA-1 and length. -/
open Lean MageModel.Parse MageModel.Gen
namespace Oracle.Emit

def fnOf (j : Json) : R Function := do
  let args ← listOf (fun a => do
      let p ← a.getArr?
      pure (⟨← p[0]!.getStr?, ← p[1]!.getStr?⟩ : Arg)) (← fld j "args")
  pure { name := ← fldStr j "name", receiver := ← fldStr j "recv", pkgAlias := ← fldStr j "pkgAlias", package := ← fldStr j "package",
         importPath := ← fldStr j "importPath", isError := ← fldBool j "err", isContext := ← fldBool j "ctx",
         synopsis := ← fldStr j "synopsis", comment := ← fldStr j "comment", args := args }

def infoOf (j : Json) : R PkgInfo := do
  let funcs ← listOf fnOf (← fld j "funcs")
  let imports ← listOf (fun i => do
      pure ({ alias := ← fldStr i "alias", name := ← fldStr i "name", uniqueName := ← fldStr i "u", path := ← fldStr i "path",
              funcs := ← listOf fnOf (← fld i "funcs") } : Import)) (← fld j "imports")
  let dflt ← match fldOpt j "default" with
    | none => pure none
    | some d => some <$> fnOf d
  let aliases ← listOf (fun a => do pure ((← fldStr a "key"), (← fnOf (← fld a "fn")))) (← fld j "aliases")
  pure { funcs := funcs, imports := imports, defaultFunc := dflt, aliases := aliases, description := ← fldStr j "description" }

def emit (j : Json) : R Json := do
  let info ← infoOf (← fld j "info")
  let bin ← fldStr j "binary"
  if !MageModel.Generated.TemplateAst.translatable then throw "the template uses a construct the interpreter does not know"
  let text := MageModel.Gen.Emit.emit MageModel.Generated.TemplateAst.nodes MageModel.Generated.TemplateAst.execCodeLits bin info
  let bytes := text.toUTF8
  if (fldBool j "dump").toOption == some true then return obj [("text", jstr text)]
  pure (obj [("sha1", jstr (MageModel.Invoke.Sha1.hexSum bytes)), ("len", jnat bytes.size)])

end Oracle.Emit
