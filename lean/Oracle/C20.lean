import Oracle.Common
import MageModel.Invoke.Multi
/-! Oracle op for C20: `c20.par` — several invocations at once; the model interleaves their steps under a schedule
derived from the input and reports each process's result (by theorem `isolated` it is the solo result whenever the
directories are distinct). For the same-directory class the *property's* expectation (the solo result) is reported. -/
open Lean MageModel.Invoke MageModel.Invoke.Multi
namespace Oracle.C20

def par (j : Json) : R Json := do
  let ps ← fldArr j "procs"
  let runs ← ps.mapM fun p => do
    pure (({ dir := ← fldNat p "dir", src := ← fldStr p "src", hashFast := ← fldBool p "hashfast", force := ← fldBool p "force" } : Run String),
          (← fldInt p "target"))
  let srcs := (runs.map (·.1.src)).eraseDups
  let name : String → Nat := fun s => srcs.idxOf s
  let targetOf : String → Int := fun s => ((runs.find? fun r => r.1.src == s).map (·.2)).getD 0
  let cached ← strList (← fld j "cached")
  let w : World String := ⟨fun _ => .absent, fun p => (cached.find? fun s => name s == p)⟩
  let sameDir := (fldBool j "sameDir").toOption.getD false
  let n := runs.length
  let seed := (fldNat j "seed").toOption.getD 1
  -- a pseudo-random fair schedule: 8 rounds of a rotating permutation
  let sched : List Nat := (List.range (8 * n)).map fun k => (k * (seed % 7 + 1) + k / n) % n
  let s0 : Sys String := ⟨fun i => { r := (runs.map (·.1)).getD i { dir := 1000 + i, src := "" } }, w⟩
  let e := if sameDir then s0 else runSched name targetOf s0 sched
  let results := (List.range n).map fun i =>
    let r := (runs.map (·.1)).getD i { dir := 0, src := "" }
    let res := if sameDir then some (osStatus (targetOf r.src), some r.src) else (e.procs i).res
    match res with
    | some (st, ran) => obj [("status", Json.num (JsonNumber.fromInt st)), ("ran", jstr (ran.getD "-"))]
    | none => obj [("status", jstr "unfinished")]
  pure (obj [("results", Json.arr results.toArray)])

def handle (op : String) (j : Json) : R Json :=
  match op with
  | "c20.par" => par j
  | _ => throw s!"unknown op {op}"
end Oracle.C20
