import Oracle.Common
import MageModel.Deps.Monitor
open Lean MageModel.Deps
namespace Oracle.Deps

def ownerOf (s : String) : R Owner :=
  match s.toList with
  | 'r' :: ds => match (String.ofList ds).toNat? with | some n => pure (.root n) | none => throw s!"bad owner {s}"
  | 'k' :: ds => match (String.ofList ds).toNat? with | some n => pure (.key n) | none => throw s!"bad owner {s}"
  | _ => throw s!"bad owner {s}"

def ownerStr : Owner → String
  | .root r => s!"r{r}"
  | .key k => s!"k{k}"

def outOf (j : Json) : R Out := do
  let kind ← fldStr j "kind"
  let code := (fldInt j "code").toOption.getD 1
  let msg := (fldStr j "msg").toOption.getD ""
  match kind with
  | "ok" => pure .ok
  | "err" => pure (.err code msg)
  | "panicErr" => pure (.panicErr code msg)
  | "panicVal" => pure (.panicVal msg)
  | k => throw s!"bad out kind {k}"

def resOf (j : Json) : R Res :=
  match j with
  | .null => pure none
  | v => do
    let a ← v.getArr?
    if a.size != 2 then throw "res pair expected"
    pure (some ((← a[0]!.getInt?), (← a[1]!.getStr?)))

def obsOfJson (j : Json) : R Obs := do
  match (← fldStr j "e") with
  | "start" => pure (.start (← fldNat j "k"))
  | "stop" => pure (.stop (← fldNat j "k") (← resOf ((fldOpt j "res").getD .null)))
  | "enter" => pure (.enter ⟨← ownerOf (← fldStr j "o"), ← fldNat j "i"⟩)
  | "ret" => pure (.ret ⟨← ownerOf (← fldStr j "o"), ← fldNat j "i"⟩)
  | "pan" => pure (.pan ⟨← ownerOf (← fldStr j "o"), ← fldNat j "i"⟩ (← fldInt j "code") (← strList (← fld j "msgs")))
  | e => throw s!"bad event {e}"

def verdictStr : Verdict → String
  | .ok => "ok"
  | .bad w => w

def callsJson (tr : List Obs) : Json :=
  let items := tr.filterMap fun e => match e with
    | .ret c => some (s!"{ownerStr c.owner}/{c.idx}", obj [("c", jstr s!"{ownerStr c.owner}/{c.idx}"), ("end", jstr "ret")])
    | .pan c code msgs => some (s!"{ownerStr c.owner}/{c.idx}",
        obj [("c", jstr s!"{ownerStr c.owner}/{c.idx}"), ("end", jstr "pan"), ("code", Json.num (JsonNumber.fromInt code)),
             ("msgs", Json.arr ((sortStrs (linesOf msgs)).map jstr).toArray)])
    | _ => none
  let sorted := items.toArray.qsort (fun a b => a.1 < b.1)
  Json.arr (sorted.map (·.2))

def executedJson (tr : List Obs) : Json :=
  let ks := tr.filterMap fun e => match e with | .start k => some k | _ => none
  Json.arr ((ks.toArray.qsort (· < ·)).map fun k => jnat k)

def case (j : Json) : R Json := do
  let roots ← listOf (·.getNat?) (← fld j "roots")
  let bodies ← listOf (fun b => do
      let o ← ownerOf (← fldStr b "owner")
      let calls ← listOf (fun c => do
          pure ({ serial := (← fldBool c "serial"), keys := (← listOf (·.getNat?) (← fld c "keys")) } : CallSpec)) (← fld b "calls")
      let out ← outOf (← fld b "out")
      pure (o, ({ calls := calls, out := out } : Body))) (← fld j "bodies")
  let p : Prog := fun o => match bodies.lookup o with
    | some b => b
    | none => ⟨[], .ok⟩
  let owners := bodies.map Prod.fst
  let trace ← listOf obsOfJson (← fld j "trace")
  -- the model under a fair schedule
  let maxElems := (bodies.map fun (_, b) => (b.calls.map fun c => c.keys.length).foldl max 0).foldl max 0
  let agents : List Agent := owners.flatMap fun o => Agent.owner o :: (List.range maxElems).map (Agent.site o)
  let totalElems := (bodies.map fun (_, b) => (b.calls.map fun c => c.keys.length + 2).sum + 2).sum
  let final := runRounds Cfg.fixed p agents (3 * totalElems + 8) (State.init roots)
  let mtrace := obsTrace final.log
  let stuck := roots.any fun r => match final.body (.root r) with | .ended _ => false | _ => true
  pure (obj [
    ("traceOK", jstr (verdictStr (checkTrace p owners trace))),
    ("modelSelfOK", jstr (if stuck then "model did not finish" else verdictStr (checkTrace p owners mtrace))),
    ("executed", executedJson mtrace),
    ("calls", callsJson mtrace),
    ("verbose", jnat (mtrace.filter (fun e => match e with | .start _ => true | _ => false)).length)])

def handle (op : String) (j : Json) : R Json :=
  match op with
  | "deps.case" => case j
  | _ => throw s!"unknown op {op}"

end Oracle.Deps
