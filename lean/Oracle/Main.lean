import Oracle.Common
import Oracle.C17
import Oracle.C14
import Oracle.C15
import Oracle.C16
import Oracle.Deps
import Oracle.FE
import Oracle.Mage
import Oracle.C10
import Oracle.C08
import Oracle.C09
import Oracle.C20
import Oracle.C12
import Oracle.Emit
import Oracle.Conv
/-!
Line-protocol driver.  stdin: one JSON object per line with a field "op" = "<component>.<operation>";
stdout: one JSON line per input: the model's answer, or {"oracle_error": "..."}.
Built as a core-only executable from the very definitions the theorems in `MageModel/Props` are about.
-/
open Lean Oracle

def dispatch (j : Json) : R Json := do
  let op ← fldStr j "op"
  if op.startsWith "c17." then C17.handle op j
  else if op.startsWith "c14." then C14.handle op j
  else if op.startsWith "c15." then C15.handle op j
  else if op.startsWith "c16." then C16.handle op j
  else if op.startsWith "deps." then Deps.handle op j
  else if op == "fe.emit" then Emit.emit j
  else if op.startsWith "fe." then FE.handle op j
  else if op == "flags.parse" then Mage.flagsParse j
  else if op == "front.parse" then Mage.frontParseOp j
  else if op == "paths.ops" then Mage.pathsOp j
  else if op.startsWith "mage." then Mage.handle op j
  else if op.startsWith "c10." then C10.handle op j
  else if op.startsWith "c08." then C08.handle op j
  else if op.startsWith "c09." then C09.handle op j
  else if op.startsWith "c20." then C20.handle op j
  else if op.startsWith "c12." then C12.handle op j
  else if op.startsWith "conv." then Conv.handle op j
  else throw s!"unknown component in op {op}"

partial def loop (h : IO.FS.Stream) (out : IO.FS.Stream) : IO Unit := do
  let line ← h.getLine
  if line.isEmpty then return ()
  let res : Json :=
    match Json.parse line with
    | .error e => obj [("oracle_error", jstr s!"parse: {e}")]
    | .ok j => match dispatch j with
      | .ok r => r
      | .error e => obj [("oracle_error", jstr e)]
  out.putStrLn res.compress
  loop h out

def main : IO Unit := do
  let out ← IO.getStdout
  loop (← IO.getStdin) out
  out.flush
