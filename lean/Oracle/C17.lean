import Oracle.Common
import MageModel.Target.Newer
open Lean MageModel.Target
namespace Oracle.C17

def srcsPath (j : Json) : R (List (Option Int)) := listOf (optOf strInt) j
def srcsTree (j : Json) : R (List (Option (List Int))) := listOf (optOf (listOf strInt)) j
def srcsGlob (j : Json) : R (List (Option (List (Option Int)))) := listOf (optOf (listOf (optOf strInt))) j

def dst (j : Json) : R Dst := do
  match (← fldStr j "kind") with
  | "missing" => pure .missing
  | "file" => pure (.file (← fldSInt j "mt"))
  | "dir" => do
      let tree ← optOf (listOf strInt) ((fldOpt j "tree").getD .null)
      pure (.dir (← fldSInt j "mt") tree)
  | k => throw s!"bad dst kind {k}"

def ansJ : Ans → Json
  | .ok b => obj [("ok", jbool b)]
  | .dstErr => obj [("err", jstr "dst")]
  | .srcErr i => obj [("err", jstr "src"), ("i", jnat i)]

def exJ : Except Nat Bool → Json
  | .ok b => obj [("ok", jbool b)]
  | .error i => obj [("err", jstr "src"), ("i", jnat i)]

def tJ : Except Nat Int → Json
  | .ok t => obj [("t", jint t)]
  | .error i => obj [("err", jstr "src"), ("i", jnat i)]

def handle (op : String) (j : Json) : R Json := do
  match op with
  | "c17.path" => pure (ansJ (path (← dst (← fld j "dst")) (← srcsPath (← fld j "srcs"))))
  | "c17.pathNewer" => pure (exJ (pathNewer (← fldSInt j "t") (← srcsPath (← fld j "srcs"))))
  | "c17.dir" => pure (ansJ (dir (← fldSInt j "zero") (← dst (← fld j "dst")) (← srcsTree (← fld j "srcs"))))
  | "c17.dirNewer" => pure (exJ (dirNewer (← fldSInt j "t") (← srcsTree (← fld j "srcs"))))
  | "c17.glob" => pure (ansJ (glob (← dst (← fld j "dst")) (← srcsGlob (← fld j "globs"))))
  | "c17.globNewer" => pure (exJ (globNewer (← fldSInt j "t") (← srcsGlob (← fld j "globs"))))
  | "c17.newest" => pure (tJ (newest (← fldSInt j "zero") (← srcsTree (← fld j "srcs"))))
  | "c17.oldest" => do
      let srcs ← srcsTree (← fld j "srcs")
      -- with no entry at all the result is the (time-dependent) sentinel: reported as a class
      if srcs.all (fun s => match s with | some ts => ts.isEmpty | none => false) then
        pure (obj [("sentinel", jbool true)])
      else
        pure (tJ (oldest true 0 srcs))  -- sentinel value irrelevant when an entry exists (oldest_is_min)
  | _ => throw s!"unknown op {op}"

end Oracle.C17
