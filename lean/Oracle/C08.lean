import Oracle.Common
import MageModel.Invoke.Cache
import MageModel.Invoke.Steps
import MageModel.Generated.Template
import MageModel.Generated.Facts
/-! Oracle ops for C08: `c08.name` (the real cache file name, SHA-1 computed by the model) and `c08.hist`
(a history of edits, cleans and runs replayed on the invocation model). -/
open Lean MageModel.Invoke
namespace Oracle.C08

def bytesOf (hex : String) : ByteArray := ByteArray.mk (bytesOfHex hex.toList).toArray

def tplBytes : ByteArray := MageModel.Generated.Template.tplString.toUTF8
def rebuildKey : String := MageModel.Generated.Facts.mage_magicRebuildKey

def nameOf (files : List ByteArray) (ver : String) : String := Cache.sha1Name tplBytes rebuildKey ver files

def name (j : Json) : R Json := do
  let files := (← strList (← fld j "files")).map bytesOf
  let ver ← fldStr j "ver"
  let cacheDir ← fldStr j "cacheDir"
  pure (obj [("path", jstr (Paths.join cacheDir (nameOf files ver)))])

/-- the identity of a set of magefile contents -/
def srcId (files : List String) : String := " ".intercalate (Cache.sortStrings files)

structure HState where
  cur : List String := []                 -- hex contents of the current magefiles
  seen : List String := []                -- source identities in order of first appearance: name = index (injective)
  world : World String := ⟨fun _ => .absent, fun _ => none⟩

def nameIdx (seen : List String) (s : String) : Nat := (seen.idxOf s)

def hist (j : Json) : R Json := do
  let ops ← fldArr j "ops"
  let ver ← fldStr j "ver"
  let startCwd ← fldStr j "startCwd"
  let cacheDir ← fldStr j "cacheDir"
  let mut st : HState := {}
  let mut last : Json := Json.null
  for o in ops do
    match (← fldStr o "k") with
    | "edit" =>
      let files ← strList (← fld o "files")
      let id := srcId files
      st := { st with cur := files, seen := if st.seen.contains id then st.seen else st.seen ++ [id] }
    | "clean" => st := { st with world := { st.world with cache := fun _ => none } }
    | "run" =>
      let id := srcId st.cur
      let seen := st.seen
      let r : Run String := { dir := 0, src := id, force := ← fldBool o "force", hashFast := ← fldBool o "hashfast", goCache := true }
      let res := invoke Cfg.fixed (nameIdx seen) (fun _ => 0) r Faults.none st.world
      st := { st with world := res.world }
      let base := nameOf (st.cur.map bytesOf) ver
      last := obj [("current", jbool (res.ran == some id)), ("built", jbool res.built),
                   ("exe", jstr (Cache.exePath startCwd cacheDir base)), ("status", Json.num (JsonNumber.fromInt res.status))]
    | k => throw s!"bad op {k}"
  pure last

def handle (op : String) (j : Json) : R Json :=
  match op with
  | "c08.name" => name j
  | "c08.hist" => hist j
  | _ => throw s!"unknown op {op}"
end Oracle.C08
