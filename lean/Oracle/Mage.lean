import Oracle.Common
import Oracle.Conv
import MageModel.Gen.Emit
import MageModel.Gen.List
import MageModel.Invoke.Mage
import MageModel.Invoke.Paths
/-! Oracle ops for the process-level properties (C05, C11, …): `mage.front` and `mage.child`. -/
open Lean MageModel.Parse MageModel.Gen MageModel.Gen.Flags MageModel.Invoke
namespace Oracle.Mage

/-- "funcs": [{"name":…, "recv":…, "args":[types], "err":bool, "ctx":bool}] -/
def infoOf (j : Json) : R PkgInfo := do
  let fs ← listOf (fun f => do
      let args ← strList (← fld f "args")
      pure ({ name := ← fldStr f "name", receiver := (fldStr f "recv").toOption.getD "",
              isError := (fldBool f "err").toOption.getD false, isContext := (fldBool f "ctx").toOption.getD false,
              args := args.mapIdx fun i t => ⟨s!"a{i}", t⟩ } : Function)) (← fld j "funcs")
  let dflt := (fldStr j "default").toOption
  pure { funcs := fs, defaultFunc := dflt.bind fun d => fs.find? fun f => f.name == d }

def optIntOf (j : Json) : Option Int := match j with | .null => none | v => v.getInt?.toOption
def optBoolOf (j : Json) : Option Bool := match j with | .null => none | v => v.getBool?.toOption

def convOf (_j : Json) : R Conv := pure Oracle.Conv.modelConv

/-- "durfmt": {"<ns>": "1m0s", …}: recorded time.Duration.String -/
def fmtOf (_j : Json) : Int → String := MageModel.Gen.Strconv.durString

/-- the probe target `Fail(kind, a, b)` of the C05 project: its outcome as a function of its arguments -/
def nz (l : List Int) : List Int := l.filter (· ≠ 0)
def failOutcome (kind : String) (a b : Int) : Outcome :=
  match kind with
  | "ok" => .ok
  | "err" => .err none
  | "fatal" => .err (some a)
  | "fatalf" => .err (some a)
  | "sh" => if a = 0 then .ok else .err (some a)
  | "panicerr" => .panicErr none
  | "panicfatal" => .panicErr (some a)
  | "panicval" => .panicVal
  | "exit" => .osExit a
  | "deps" => if nz [a, b] = [] then .ok else .depsFailed (nz [a, b])
  | "deep" => if nz [a, b] = [] then .ok else .depsFailed [(Outcome.depsFailed (nz [a, b])).status]
  | "serial" => match nz [a, b] with | [] => .ok | c :: _ => .depsFailed [c]
  | "errdep" => .depsFailed [1]
  | "panicdep" => .depsFailed [1]
  -- the same failures without any text
  | "qfatal" => .err (some a)
  | "qerr" => .err none
  | "qdeps" => if nz [a, b] = [] then .ok else .depsFailed (nz [a, b])
  | "qdeep" => if nz [a, b] = [] then .ok else .depsFailed [(Outcome.depsFailed (nz [a, b])).status]
  | "qserial" => match nz [a, b] with | [] => .ok | c :: _ => .depsFailed [c]
  | "qerrdep" => .depsFailed [1]
  | "qpanicdep" => .depsFailed [1]
  -- sh.Exec whose output writer fails although the command exits 0: a plain error, not an exit status
  | "shwriter" => .err none
  -- one failing dependency of each supported signature, through each Deps form (the code is never 0 here)
  | "sigplain" | "sigctx" | "sigctxc" | "sigser" | "sigf" | "sigctxarg" | "sigctxpanic" | "sigplainpanic" => .depsFailed [a]
  | "sigctxplain" => .depsFailed [1]
  | _ => .ok

def outcomeOf (c : Call) : Outcome :=
  if c.callee.endsWith ".Fail" then
    match c.args with
    | [.str k, .int a, .int b] => failOutcome k a b
    | _ => .ok
  else .ok

def argJ : ArgVal → Json
  | .str s => jstr s
  | .int i => jstr s!"{i}"
  | .bool b => jstr s!"{b}"
  | .dur d => jstr s!"{d}"

def howJ : How → String
  | .flagError _ => "flagError" | .usage => "usage" | .listed => "listed" | .helpShown _ => "helpShown"
  | .helpUnknown _ => "helpUnknown" | .ran => "ran"

def childJ (c : ChildOut) : List (String × Json) :=
  [("how", jstr (howJ c.how)),
   ("calls", Json.arr (c.calls.map fun cl => Json.arr (jstr cl.callee :: cl.args.map argJ).toArray).toArray),
   ("verbose", jbool c.verbose), ("timeout", jint c.timeout)]

def howClass : How → String
  | .usage => "usage" | .listed => "listed" | .helpShown _ => "helpShown"
  | .flagError _ => "usage"          -- package flag prints the usage text after its error message
  | _ => "other"

/-- what C05 compares: status, class of output, executed calls, and whether a failure message must be on stderr
("any" where the property does not say: success, or a target that called os.Exit itself) -/
def c05J (status0 : Int) (c : Option ChildOut) (direct : Bool := false) (stdoutFull : Bool := false) : Json :=
  -- a listing written to a full device: Gen/List.listingStatus
  let listedNow := match c with | some { how := .listed, .. } => true | _ => false
  let status := if stdoutFull && listedNow && status0 = 0 then MageModel.Gen.listingStatus false else status0
  let calls := match c with | some c => c.calls | none => []
  let how := match c with | some c => howClass c.how | none => "other"
  let selfExit := match calls.getLast? with
    | some cl => (match outcomeOf cl with | .osExit _ => true | _ => false)
    | none => false
  obj [("status", Json.num (JsonNumber.fromInt status)), ("how", jstr how),
       ("calls", Json.arr (calls.map fun cl => Json.arr (jstr cl.callee :: cl.args.map argJ).toArray).toArray),
       ("stderr", jstr (if status = 0 || selfExit then "<any>" else "yes")),
       -- a command line the flag package rejects: the reason is on stderr (after the D30 fix), word for word
       ("errLine", jstr (match c with
          | some { how := .flagError e, .. } => if direct then "Error: " ++ e.message MageModel.Gen.Emit.quote else "<any>"
          | _ => "<any>"))]

def envOf (j : Json) : R Env := do pairList (← fld j "env")

def faultsOf (j : Json) : Faults :=
  match (fldStr j "fault").toOption.getD "none" with
  | "list" => { list := true } | "noFiles" => { noFiles := true } | "parse" => { parse := true }
  | "compile" => { compile := true } | "start" => { start := true } | "goEnv" => { goEnv := true }
  | "exeName" => { exeName := true }
  | _ => {}

def child (j : Json) : R Json := do
  let info ← infoOf j
  let conv ← convOf j
  let E ← envOf j
  let argv ← strList (← fld j "argv")
  let c := childMain info conv outcomeOf E argv
  if (fldStr j "want").toOption == some "c05" then return c05J (osStatus c.status) (some c) true ((fldBool j "stdoutFull").toOption.getD false)
  pure (obj (("status", Json.num (JsonNumber.fromInt (osStatus c.status))) :: childJ c))

def front (j : Json) : R Json := do
  let info ← infoOf j
  let conv ← convOf j
  let E ← envOf j
  let argv ← strList (← fld j "argv")
  let cached := (fldBool j "cached").toOption.getD false
  let m := mage info conv (fmtOf j) outcomeOf E argv (faultsOf j) cached
  if (fldStr j "want").toOption == some "c05" then
    let usage : Option ChildOut := match m.parsed with
      | .usage => some { how := .usage, status := 0 }
      | .misuse (.flag _) => some { how := .usage, status := 2 }   -- package flag prints the usage text too
      | _ => m.child
    return c05J m.status usage false ((fldBool j "stdoutFull").toOption.getD false)
  let parsedJ : String := match m.parsed with
    | .usage => "usage" | .misuse _ => "misuse"
    | .ok _ .version => "version" | .ok _ .init => "init" | .ok _ .clean => "clean"
    | .ok _ .compileStatic => "compile" | .ok _ .none => "run"
  let c : List (String × Json) := match m.child with
    | some c => childJ c
    | none => [("how", jstr "none"), ("calls", Json.arr #[]), ("verbose", jbool false), ("timeout", jint 0)]
  pure (obj (("status", Json.num (JsonNumber.fromInt m.status)) :: ("parsed", jstr parsedJ) :: c))

/-- C11 probe: what the target observes (effective flags through the accessors, deadline, working directory) -/
def probe (j : Json) : R Json := do
  let info ← infoOf j
  let conv ← convOf j
  let E ← envOf j
  let argv ← strList (← fld j "argv")
  let cwd ← fldStr j "cwd"
  let way ← fldStr j "way"
  let fmt := fmtOf j
  let payload := (fldStr j "project").toOption == some "payload"
  let mk (c : ChildOut) (debug : Bool) (gocmd dir : String) : Json :=
    if payload then
      obj [("how", jstr (howClass c.how)), ("status", Json.num (JsonNumber.fromInt c.status)),
           ("stdout", jstr "same"), ("stderr", jstr "same")]
    else
      obj [("how", jstr (howClass c.how)), ("status", Json.num (JsonNumber.fromInt c.status)),
         ("verbose", jbool ((parseBool (if c.verbose then "1" else "0")).getD false)), ("debug", jbool debug),
         -- the sh helpers show a command's stdout exactly in verbose mode: they read the same effective value
         ("shShown", jbool ((parseBool (if c.verbose then "1" else "0")).getD false)),
         ("gocmd", jstr gocmd), ("timeout", jint (if c.timeout < 0 then -1 else c.timeout)), ("cwd", jstr dir),
         ("plat", jstr ((fldStr j "host").toOption.getD "")),   -- no -goos: the magefile is built for the host
         ("env", jstr "same"), ("stdin", jstr "same")]
  if way == "static" then
    let c := childMain info conv outcomeOf E argv
    pure (mk c (envFlag E "MAGEFILE_DEBUG") (envGoCmd E) (Paths.clean cwd))
  else
    match frontParse conv.parseDuration E argv with
    | .ok inv .none =>
      let inv' := { inv with goCmd := if inv.goCmd = "" then "go" else inv.goCmd }
      let CE := childEnv fmt E inv'
      let c := childMain info conv outcomeOf CE (childArgv inv')
      pure (mk c (envFlag CE "MAGEFILE_DEBUG") (envGoCmd CE) (Paths.absFrom cwd (childDir inv')))
    | _ => pure (obj [("how", jstr "not-run")])

def handle (op : String) (j : Json) : R Json :=
  match op with
  | "mage.child" => child j
  | "mage.front" => front j
  | "mage.probe" => probe j
  | "mage.pair" => pure (obj [("same_effect", jbool true), ("mage", jstr "<any>"), ("compiled", jstr "<any>")])   -- the property's demand, not a model answer
  | _ => throw s!"unknown op {op}"

end Oracle.Mage

namespace Oracle.Mage
open Lean MageModel.Parse MageModel.Gen MageModel.Gen.Flags MageModel.Invoke

def valJ : Val → Json
  | .b v => jstr s!"b:{v}" | .d v => jstr s!"d:{v}" | .s v => jstr ("s:" ++ v)

def perrJ : PErr → String
  | .badSyntax _ => "badSyntax" | .notDefined _ => "notDefined" | .help => "help" | .badBool _ _ => "badBool"
  | .needsArg _ => "needsArg" | .badValue _ _ => "badValue"

/-- `flags.parse`: Go's flag package on an arbitrary flag table -/
def flagsParse (j : Json) : R Json := do
  let specs ← listOf (fun s => do
      let k ← fldStr s "kind"
      pure (⟨← fldStr s "name", if k == "bool" then .bool else if k == "dur" then .dur else .str⟩ : Spec)) (← fld j "specs")
  let conv ← convOf j
  let argv ← strList (← fld j "argv")
  match parse specs conv.parseDuration argv [] with
  | .error e => pure (obj [("error", jstr (perrJ e)), ("msg", jstr (e.message MageModel.Gen.Emit.quote))])
  | .ok (a, rest) =>
    let finals := specs.filterMap fun sp => (lastVal a sp.name).map fun v => Json.arr #[jstr sp.name, valJ v]
    pure (obj [("set", Json.arr finals.toArray), ("rest", Json.arr (rest.map jstr).toArray)])

def cmdJ : MageModel.Invoke.Command → String
  | .none => "None" | .version => "Version" | .init => "Init" | .clean => "Clean" | .compileStatic => "CompileStatic"

/-- `front.parse`: mage.Parse -/
def frontParseOp (j : Json) : R Json := do
  let conv ← convOf j
  let E ← envOf j
  let argv ← strList (← fld j "argv")
  match frontParse conv.parseDuration E argv with
  | .usage => pure (obj [("result", jstr "usage")])
  | .misuse _ => pure (obj [("result", jstr "misuse")])
  | .ok inv cmd =>
    pure (obj [("result", jstr "ok"), ("cmd", jstr (cmdJ cmd)), ("debug", jbool inv.debug), ("dir", jstr inv.dir), ("workDir", jstr inv.workDir),
               ("force", jbool inv.force), ("verbose", jbool inv.verbose), ("list", jbool inv.list), ("help", jbool inv.help),
               ("keep", jbool inv.keep), ("timeout", jint inv.timeout), ("compileOut", jstr inv.compileOut), ("goos", jstr inv.goos),
               ("goarch", jstr inv.goarch), ("ldflags", jstr inv.ldflags), ("args", Json.arr (inv.args.map jstr).toArray),
               ("goCmd", jstr inv.goCmd), ("cacheDir", jstr inv.cacheDir), ("hashFast", jbool inv.hashFast)])

def pathsOp (j : Json) : R Json := do
  let a ← fldStr j "a"
  let b ← fldStr j "b"
  pure (obj [("clean", jstr (Paths.clean a)), ("join", jstr (Paths.join a b)), ("isAbs", jbool (Paths.isAbs a)),
             ("abs", jstr (Paths.absFrom b a))])

end Oracle.Mage
