import Oracle.Common
import MageModel.Gen.StrconvLemmas
import MageModel.Parse.Fields
import MageModel.Parse.DocText
open Lean MageModel.Gen
namespace Oracle.Conv

/-- the conversions of `Gen/Strconv.lean`: since this round the oracle answers every question that involves
`strconv.Atoi`, `strconv.ParseBool` or `time.ParseDuration` from the model's own definitions; the answers the harness
records from the real functions are no longer consulted (they stay in the input for the replay's reader) -/
def modelConv : Conv := stdConv

def optJ (f : α → Json) : Option α → Json
  | none => Json.null
  | some a => f a

def handle (op : String) (j : Json) : R Json := do
  match op with
  | "conv.word" =>
    let w ← fldStr j "w"
    pure (obj [("atoi", optJ jint (Strconv.atoi w)), ("bool", optJ jbool (Strconv.parseBool w)), ("dur", optJ jint (Strconv.parseDuration w))])
  | "conv.doctext" =>
    let cs ← strList (← fld j "comments")
    pure (obj [("text", jstr (MageModel.Parse.DocText.groupText cs))])
  | "conv.fields" =>
    let c ← fldStr j "c"
    pure (obj [("fields", Json.arr ((MageModel.Parse.commentFields c).map jstr).toArray)])
  | "conv.durfmt" =>
    let d ← fldSInt j "d"
    let s := Strconv.durString d
    -- what mage relies on: the text parses back to the same duration
    pure (obj [("s", jstr s), ("back", optJ jint (Strconv.parseDuration s))])
  | _ => throw s!"unknown op {op}"

end Oracle.Conv
