import Oracle.Common
import MageModel.Invoke.Select
import MageModel.Parse.Pkg
/-! Oracle op for C10: `c10.select` — which files of a generated directory are magefiles. -/
open Lean MageModel.Invoke.Select
namespace Oracle.C10

partial def exprOf (j : Json) : R Expr := do
  match (← fldStr j "k") with
  | "tag" => pure (.tag (← fldStr j "t"))
  | "not" => pure (.not (← exprOf (← fld j "a")))
  | "and" => pure (.and (← exprOf (← fld j "a")) (← exprOf (← fld j "b")))
  | "or" => pure (.or (← exprOf (← fld j "a")) (← exprOf (← fld j "b")))
  | k => throw s!"bad expr kind {k}"

def fileOf (j : Json) : R File := do
  let c ← match fldOpt j "expr" with
    | none => pure none
    | some e => some <$> exprOf e
  pure { name := ← fldStr j "name", constraint := c, pkg := (fldStr j "pkg").toOption.getD "main" }

def select (j : Json) : R Json := do
  let files ← listOf fileOf (← fld j "files")
  let sub ← match fldOpt j "sub" with
    | none => pure none
    | some s => some <$> listOf fileOf s
  let hj ← fld j "host"
  let host : Plat := { os := ← fldStr hj "os", arch := ← fldStr hj "arch", cgo := ← fldBool hj "cgo", releaseMinor := ← fldNat hj "minor" }
  let p := platOf host (← fldStr j "goos") (← fldStr j "goarch")
  let mode ← fldStr j "mode"
  match mode with
  | "magefiles" =>
    let isDir := (fldBool j "isMagefilesDir").toOption.getD false
    pure (obj [("files", Json.arr ((magefiles p files isDir).map jstr).toArray)])
  | _ =>
    let c := choose p ⟨files, (fldBool j "broken").toOption.getD false, sub⟩
    -- with nothing selected the listing cannot show which directory was used
    pure (obj [("uses", if c.files.isEmpty then jstr "<any>" else jbool c.usesMagefilesDir),
               ("files", Json.arr ((MageModel.Parse.sortBy id c.files).map jstr).toArray)])

/-- the platform `-compile` builds for -/
def plat (j : Json) : R Json := do
  let hj ← fld j "host"
  let host : Plat := { os := ← fldStr hj "os", arch := ← fldStr hj "arch", cgo := ← fldBool hj "cgo", releaseMinor := ← fldNat hj "minor" }
  let p := platOf host (← fldStr j "goos") (← fldStr j "goarch")
  pure (obj [("os", jstr p.os), ("arch", jstr p.arch)])

def handle (op : String) (j : Json) : R Json :=
  match op with
  | "c10.select" => select j
  | "c10.plat" => plat j
  | _ => throw s!"unknown op {op}"
end Oracle.C10
