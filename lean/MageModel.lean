import MageModel.Base
