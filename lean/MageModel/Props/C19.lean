import MageModel.Parse.Ast
import MageModel.Parse.Pkg
import MageModel.Parse.Fields
/-!
# C19 — mage:import exposes exactly the imported package's targets under its alias (tag recognition part)
All placements of the tag, all lengths of the comment group, all alias spellings.
`fields` is any function in the general theorems; since round 7 `strings.Fields(strings.ToLower(text[2:]))` is transcribed
(`Parse/Fields.lean: commentFields`) and the last section states the recognition on the comment text itself.
-/
namespace MageModel.Props.C19
open MageModel.Parse

/-- what the last line of a comment group says -/
def lastSays (tag : String) (fields : String → List String) (cs : List Comment) : Option (List String) :=
  match cs.getLast? with
  | none => none
  | some last => match fields last with
    | [] => none
    | v :: more => if v = tag then some (v :: more) else none

/-- **Whatever and however many comment lines precede the tag**: with the constant of the current source (0), a
comment group is recognised by its *last* line alone — for every group length. -/
theorem tag_any_length (tag : String) (fields : String → List String) (cs : List Comment) :
    tagOfGroup tag 0 fields (some cs) = lastSays tag fields cs := by
  unfold tagOfGroup lastSays
  cases cs with
  | nil => simp
  | cons c rest =>
    simp only [List.length_cons, Nat.add_one_ne_zero, if_false]
    cases (c :: rest).getLast? with
    | none => rfl
    | some last =>
      simp only []
      cases hf : fields last with
      | nil => rfl
      | cons v more => rfl

/-- in particular the length of the group is irrelevant: only the last line matters -/
theorem tag_prefix_irrelevant (tag : String) (fields : String → List String) (pre pre' : List Comment) (last : Comment) :
    tagOfGroup tag 0 fields (some (pre ++ [last])) = tagOfGroup tag 0 fields (some (pre' ++ [last])) := by
  rw [tag_any_length, tag_any_length]
  simp [lastSays]

theorem no_group_no_tag (tag : String) (n : Nat) (fields : String → List String) : tagOfGroup tag n fields none = none := rfl

/-- **The decision table of an import spec**: the leading group wins when its last line carries the tag, else the
trailing comment decides; a bare tag is a root import, `tag alias` a named one, anything longer is ignored. -/
theorem import_vals_spec (tag : String) (fields : String → List String) (sp : ImportSpec) :
    importVals tag 0 fields sp =
      (let doc := if sp.specsInDecl = 1 && !sp.parenthesised && sp.doc.isNone then sp.declDoc else sp.doc
       let says := fun (g : Option (List Comment)) => match g with | none => none | some cs => lastSays tag fields cs
       match says doc with | some v => some v | none => says sp.trailing) := by
  unfold importVals
  have h1 : ∀ g, tagOfGroup tag 0 fields g = (match g with | none => none | some cs => lastSays tag fields cs) := by
    intro g; cases g with
    | none => rfl
    | some cs => exact tag_any_length tag fields cs
  simp only [h1]
  rfl

theorem import_tag_table (tag : String) (fields : String → List String) (sp : ImportSpec) (hlit : sp.pathIsPlainLit = true) :
    getImportTag tag 0 fields sp = classifyVals (importVals tag 0 fields sp) := by
  simp [getImportTag, hlit]

theorem classify_table (t a b c : String) (more : List String) :
    classifyVals none = .no ∧ classifyVals (some [t]) = .root ∧ classifyVals (some [t, a]) = .named a ∧
    classifyVals (some (t :: a :: b :: more)) = .no ∧ classifyVals (some []) = .no := by
  refine ⟨rfl, rfl, rfl, rfl, rfl⟩

/-- an import without any comment contributes nothing -/
theorem untagged_nothing (tag : String) (fields : String → List String) (path : String) (paren : Bool) (n : Nat) :
    getImportTag tag 0 fields ⟨path, true, none, none, none, paren, n⟩ = .no := by
  simp [getImportTag, importVals, tagOfGroup, classifyVals]

/-! ### the pinned tree (D17): the constant was 9 -/
namespace Pinned
def fieldsStub : String → List String := fun s => if s = "// mage:import" then ["mage:import"] else ["x"]
def nine : List Comment := ["// 1", "// 2", "// 3", "// 4", "// 5", "// 6", "// 7", "// 8", "// mage:import"]
/-- a tag preceded by exactly eight other comment lines was dropped -/
theorem length_nine_dropped : tagOfGroup "mage:import" 9 fieldsStub (some nine) = none := by decide
theorem length_nine_now : tagOfGroup "mage:import" 0 fieldsStub (some nine) = some ["mage:import"] := by decide
theorem other_lengths_fine : tagOfGroup "mage:import" 9 fieldsStub (some (nine.drop 1)) = some ["mage:import"] := by decide
end Pinned

example : getImportTag "mage:import" 0 Pinned.fieldsStub
    ⟨"example.com/x", true, some ["// about", "// mage:import"], none, none, true, 3⟩ = .root := by decide

/-! ### one package, several aliases (D27) -/

private theorem foldl_named_mem (tagged : List (String × Tagged)) (acc : List (String × String)) (x : String × String) :
    x ∈ tagged.foldl namedStep acc ↔ x ∈ acc ∨ (x.1, Tagged.named x.2) ∈ tagged := by
  induction tagged generalizing acc with
  | nil => simp
  | cons pt rest ih =>
    obtain ⟨p, t⟩ := pt
    simp only [List.foldl_cons]
    rw [ih]
    cases t with
    | no => simp [namedStep]
    | root => simp [namedStep]
    | named a =>
      simp only [namedStep, List.mem_cons]
      by_cases hc : acc.contains (p, a) = true
      · simp only [hc, if_true]
        have hm : (p, a) ∈ acc := by simpa using hc
        constructor
        · rintro (h | h)
          · exact Or.inl h
          · exact Or.inr (Or.inr h)
        · rintro (h | h | h)
          · exact Or.inl h
          · left
            have : x = (p, a) := by
              cases x; simp only [Prod.mk.injEq, Tagged.named.injEq] at h; simp [h.1, h.2]
            rw [this]; exact hm
          · exact Or.inr h
      · simp only [hc]
        simp only [Bool.false_eq_true, if_false, List.mem_append, List.mem_singleton]
        constructor
        · rintro ((h | h) | h)
          · exact Or.inl h
          · right; left; cases x; cases h; rfl
          · exact Or.inr (Or.inr h)
        · rintro (h | h | h)
          · exact Or.inl (Or.inl h)
          · left; right
            cases x; simp only [Prod.mk.injEq, Tagged.named.injEq] at h; simp [h.1, h.2]
          · exact Or.inr h

/-- **Every aliased tag counts**: a (path, alias) pair is loaded exactly when some import spec is tagged
`mage:import alias` for that path — so a package tagged under two aliases contributes under both, however the tags are
spread over the files. -/
theorem named_imports_exact (tagged : List (String × Tagged)) (path alias : String) :
    (path, alias) ∈ collectNamed tagged ↔ (path, Tagged.named alias) ∈ tagged := by
  unfold collectNamed
  rw [foldl_named_mem]
  simp

example : collectNamed [("p/tools", .named "dev"), ("p/lib", .root), ("p/tools", .named "ci"), ("p/tools", .named "dev")] =
    [("p/tools", "dev"), ("p/tools", "ci")] := by decide

/-! ### On the comment text itself (`commentFields` = the transcribed `strings.Fields ∘ strings.ToLower ∘ [2:]`) -/

/-- **a bare tag**: the group's last comment, after its two-character marker and lower-cased, is blanks, `mage:import`,
blanks — whatever precedes it in the group -/
theorem bare_tag_text (pre : List Comment) (last : Comment) (ws ws' : List Char)
    (hws : ∀ c ∈ ws, goIsSpace c = true) (hws' : ∀ c ∈ ws', goIsSpace c = true)
    (hbody : (lower (String.ofList (last.toList.drop 2))).toList = ws ++ "mage:import".toList ++ ws') :
    tagOfGroup "mage:import" 0 commentFields (some (pre ++ [last])) = some ["mage:import"] := by
  have hf : commentFields last = ["mage:import"] := by
    unfold commentFields goFields
    rw [hbody, goFieldsL_one ws _ ws' hws (by decide) (by decide) hws']
    rfl
  simp [tagOfGroup, hf]

/-- **a tag with an alias**: …, `mage:import`, at least one blank, one more word, blanks: the alias is that word -/
theorem alias_tag_text (pre : List Comment) (last : Comment) (ws s : List Char) (b : Char) (al ws' : List Char)
    (hws : ∀ c ∈ ws, goIsSpace c = true) (hb : goIsSpace b = true) (hs : ∀ c ∈ s, goIsSpace c = true)
    (hal : ∀ c ∈ al, goIsSpace c = false) (hne : al ≠ []) (hws' : ∀ c ∈ ws', goIsSpace c = true)
    (hbody : (lower (String.ofList (last.toList.drop 2))).toList = ws ++ "mage:import".toList ++ b :: (s ++ al ++ ws')) :
    tagOfGroup "mage:import" 0 commentFields (some (pre ++ [last])) = some ["mage:import", String.ofList al] := by
  have hf : commentFields last = ["mage:import", String.ofList al] := by
    unfold commentFields goFields
    rw [hbody, goFieldsL_two ws _ s b al ws' hws (by decide) (by decide) hb hs hal hne hws']
    rfl
  simp [tagOfGroup, hf]

/-- letter case and the kind of blank do not matter; a longer first word is not the tag (tests of `commentFields`) -/
example : commentFields "// mage:import" = ["mage:import"] ∧ commentFields "//Mage:Import\tTL " = ["mage:import", "tl"] ∧
    commentFields "/* MAGE:IMPORT\u00a0ops */" = ["mage:import", "ops", "*/"] ∧ commentFields "// mage:imports" = ["mage:imports"] ∧
    commentFields "//" = [] ∧ commentFields "// \u3000 " = [] := by decide

example : tagOfGroup "mage:import" 0 commentFields (some ["// remark", "// more", "//   Mage:IMPORT  X1"]) = some ["mage:import", "x1"] := by
  decide

end MageModel.Props.C19
