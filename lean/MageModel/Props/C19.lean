import MageModel.Parse.Ast
/-!
# C19 — mage:import exposes exactly the imported package's targets under its alias (tag recognition part)
All placements of the tag, all lengths of the comment group, all alias spellings.
`fields` is the recorded behaviour of `strings.Fields(strings.ToLower(text[2:]))`.
-/
namespace MageModel.Props.C19
open MageModel.Parse

/-- what the last line of a comment group says -/
def lastSays (tag : String) (fields : String → List String) (cs : List Comment) : Option (List String) :=
  match cs.getLast? with
  | none => none
  | some last => match fields last with
    | [] => none
    | v :: more => if v = tag then some (v :: more) else none

/-- **Whatever and however many comment lines precede the tag**: with the constant of the current source (0), a
comment group is recognised by its *last* line alone — for every group length. -/
theorem tag_any_length (tag : String) (fields : String → List String) (cs : List Comment) :
    tagOfGroup tag 0 fields (some cs) = lastSays tag fields cs := by
  unfold tagOfGroup lastSays
  cases cs with
  | nil => simp
  | cons c rest =>
    simp only [List.length_cons, Nat.add_one_ne_zero, if_false]
    cases (c :: rest).getLast? with
    | none => rfl
    | some last =>
      simp only []
      cases hf : fields last with
      | nil => rfl
      | cons v more => rfl

/-- in particular the length of the group is irrelevant: only the last line matters -/
theorem tag_prefix_irrelevant (tag : String) (fields : String → List String) (pre pre' : List Comment) (last : Comment) :
    tagOfGroup tag 0 fields (some (pre ++ [last])) = tagOfGroup tag 0 fields (some (pre' ++ [last])) := by
  rw [tag_any_length, tag_any_length]
  simp [lastSays]

theorem no_group_no_tag (tag : String) (n : Nat) (fields : String → List String) : tagOfGroup tag n fields none = none := rfl

/-- **The decision table of an import spec**: the leading group wins when its last line carries the tag, else the
trailing comment decides; a bare tag is a root import, `tag alias` a named one, anything longer is ignored. -/
theorem import_vals_spec (tag : String) (fields : String → List String) (sp : ImportSpec) :
    importVals tag 0 fields sp =
      (let doc := if sp.specsInDecl = 1 && !sp.parenthesised && sp.doc.isNone then sp.declDoc else sp.doc
       let says := fun (g : Option (List Comment)) => match g with | none => none | some cs => lastSays tag fields cs
       match says doc with | some v => some v | none => says sp.trailing) := by
  unfold importVals
  have h1 : ∀ g, tagOfGroup tag 0 fields g = (match g with | none => none | some cs => lastSays tag fields cs) := by
    intro g; cases g with
    | none => rfl
    | some cs => exact tag_any_length tag fields cs
  simp only [h1]
  rfl

theorem import_tag_table (tag : String) (fields : String → List String) (sp : ImportSpec) (hlit : sp.pathIsPlainLit = true) :
    getImportTag tag 0 fields sp = classifyVals (importVals tag 0 fields sp) := by
  simp [getImportTag, hlit]

theorem classify_table (t a b c : String) (more : List String) :
    classifyVals none = .no ∧ classifyVals (some [t]) = .root ∧ classifyVals (some [t, a]) = .named a ∧
    classifyVals (some (t :: a :: b :: more)) = .no ∧ classifyVals (some []) = .no := by
  refine ⟨rfl, rfl, rfl, rfl, rfl⟩

/-- an import without any comment contributes nothing -/
theorem untagged_nothing (tag : String) (fields : String → List String) (path : String) (paren : Bool) (n : Nat) :
    getImportTag tag 0 fields ⟨path, true, none, none, none, paren, n⟩ = .no := by
  simp [getImportTag, importVals, tagOfGroup, classifyVals]

/-! ### the pinned tree (D17): the constant was 9 -/
namespace Pinned
def fieldsStub : String → List String := fun s => if s = "// mage:import" then ["mage:import"] else ["x"]
def nine : List Comment := ["// 1", "// 2", "// 3", "// 4", "// 5", "// 6", "// 7", "// 8", "// mage:import"]
/-- a tag preceded by exactly eight other comment lines was dropped -/
theorem length_nine_dropped : tagOfGroup "mage:import" 9 fieldsStub (some nine) = none := by decide
theorem length_nine_now : tagOfGroup "mage:import" 0 fieldsStub (some nine) = some ["mage:import"] := by decide
theorem other_lengths_fine : tagOfGroup "mage:import" 9 fieldsStub (some (nine.drop 1)) = some ["mage:import"] := by decide
end Pinned

example : getImportTag "mage:import" 0 Pinned.fieldsStub
    ⟨"example.com/x", true, some ["// about", "// mage:import"], none, none, true, 3⟩ = .root := by decide

end MageModel.Props.C19
