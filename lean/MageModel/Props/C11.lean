import MageModel.Gen.StrconvLemmas
import MageModel.Invoke.Mage
import MageModel.Invoke.Paths
import MageModel.Invoke.BuildEnv
/-!
# C11 — flags, environment and working directory reach the targets unchanged
All environments, all front-end flag values, all word lists.
-/
namespace MageModel.Props.C11
open MageModel.Parse MageModel.Gen MageModel.Gen.Flags MageModel.Invoke

/-! ## environment lists -/

theorem getenv_append (L M : Env) (k : String) :
    getenv (L ++ M) k = match M.reverse.find? (fun p => p.1 == k) with
      | some p => p.2
      | none => getenv L k := by
  simp only [getenv, List.reverse_append, List.find?_append]
  cases M.reverse.find? (fun p => p.1 == k) <;> rfl

/-- the six variables the front end sets for the child -/
def childKeys : List String :=
  ["MAGEFILE_VERBOSE", "MAGEFILE_LIST", "MAGEFILE_HELP", "MAGEFILE_DEBUG", "MAGEFILE_GOCMD", "MAGEFILE_TIMEOUT"]

theorem bindings_keys (fmtDur : Int → String) (inv : Inv) : ∀ p ∈ childBindings fmtDur inv, p.1 ∈ childKeys := by
  intro p hp
  simp only [childBindings, List.mem_append, List.mem_cons, List.not_mem_nil, or_false] at hp
  rcases hp with ((((h | h) | h) | h) | h) | h
  · subst h; simp [childKeys]
  · split at h <;> simp at h; subst h; simp [childKeys]
  · split at h <;> simp at h; subst h; simp [childKeys]
  · subst h; simp [childKeys]
  · split at h <;> simp at h; subst h; simp [childKeys]
  · split at h <;> simp at h; subst h; simp [childKeys]

/-- **The caller's environment reaches the targets unmodified apart from the MAGEFILE_* variables mage sets** —
whatever the values contain ('=', spaces, empty), including GOOS and GOARCH: the child's list is the caller's list
with bindings appended, never a split and re-join. -/
theorem env_passthrough (fmtDur : Int → String) (E : Env) (inv : Inv) (k : String) (hk : k ∉ childKeys) :
    getenv (childEnv fmtDur E inv) k = getenv E k := by
  rw [childEnv, getenv_append]
  have : (childBindings fmtDur inv).reverse.find? (fun p => p.1 == k) = none := by
    rw [List.find?_eq_none]
    intro p hp
    have hmem := bindings_keys fmtDur inv p (List.mem_reverse.mp hp)
    intro h
    have hpk : p.1 = k := by simpa using h
    rw [hpk] at hmem; exact hk hmem
  rw [this]

theorem goos_goarch_passthrough (fmtDur : Int → String) (E : Env) (inv : Inv) :
    getenv (childEnv fmtDur E inv) "GOOS" = getenv E "GOOS" ∧ getenv (childEnv fmtDur E inv) "GOARCH" = getenv E "GOARCH" :=
  ⟨env_passthrough _ _ _ _ (by decide), env_passthrough _ _ _ _ (by decide)⟩

/-! ## what the child sees of each flag -/

theorem child_verbose_var (fmtDur : Int → String) (E : Env) (inv : Inv) :
    getenv (childEnv fmtDur E inv) "MAGEFILE_VERBOSE" = formatBool inv.verbose := by
  rw [childEnv, getenv_append]
  simp only [childBindings]
  cases inv.list <;> cases inv.help <;> by_cases hg : inv.goCmd = "" <;> by_cases ht : inv.timeout > 0 <;>
    simp [hg, ht, List.find?]

theorem child_debug_var (fmtDur : Int → String) (E : Env) (inv : Inv) :
    getenv (childEnv fmtDur E inv) "MAGEFILE_DEBUG" = formatBool inv.debug := by
  rw [childEnv, getenv_append]
  simp only [childBindings]
  cases inv.list <;> cases inv.help <;> by_cases hg : inv.goCmd = "" <;> by_cases ht : inv.timeout > 0 <;>
    simp [hg, ht, List.find?]

theorem child_gocmd_var (fmtDur : Int → String) (E : Env) (inv : Inv) (hg : inv.goCmd ≠ "") :
    getenv (childEnv fmtDur E inv) "MAGEFILE_GOCMD" = inv.goCmd := by
  rw [childEnv, getenv_append]
  simp only [childBindings]
  cases inv.list <;> cases inv.help <;> by_cases ht : inv.timeout > 0 <;> simp [hg, ht, List.find?]

theorem child_list_var (fmtDur : Int → String) (E : Env) (inv : Inv) :
    getenv (childEnv fmtDur E inv) "MAGEFILE_LIST" = if inv.list then "1" else getenv E "MAGEFILE_LIST" := by
  rw [childEnv, getenv_append]
  simp only [childBindings]
  cases inv.list <;> cases inv.help <;> by_cases hg : inv.goCmd = "" <;> by_cases ht : inv.timeout > 0 <;>
    simp [hg, ht, List.find?]

theorem child_help_var (fmtDur : Int → String) (E : Env) (inv : Inv) :
    getenv (childEnv fmtDur E inv) "MAGEFILE_HELP" = if inv.help then "1" else getenv E "MAGEFILE_HELP" := by
  rw [childEnv, getenv_append]
  simp only [childBindings]
  cases inv.list <;> cases inv.help <;> by_cases hg : inv.goCmd = "" <;> by_cases ht : inv.timeout > 0 <;>
    simp [hg, ht, List.find?]

theorem child_timeout_var (fmtDur : Int → String) (E : Env) (inv : Inv) :
    getenv (childEnv fmtDur E inv) "MAGEFILE_TIMEOUT" =
      if inv.timeout > 0 then fmtDur inv.timeout else getenv E "MAGEFILE_TIMEOUT" := by
  rw [childEnv, getenv_append]
  simp only [childBindings]
  cases inv.list <;> cases inv.help <;> by_cases hg : inv.goCmd = "" <;> by_cases ht : inv.timeout > 0 <;>
    simp [hg, ht, List.find?]


/-! ## the effective values inside the compiled magefile -/

theorem parse_terminator (specs : List Spec) (pd : String → Option Int) (words : List String) (acc : Assign) :
    parse specs pd ("--" :: words) acc = .ok (acc, words) := by
  simp [parse, classify]

/-- `mg.Verbose()` inside targets: the generated main re-exports the effective flag as "1"/"0" -/
def verboseVar (v : Bool) : String := if v then "1" else "0"
theorem accessor_verbose (v : Bool) : (parseBool (verboseVar v)).getD false = v := by cases v <;> decide

/-- **-v through `mage`**: the generated main, started by the front end, runs with exactly the front end's effective
verbosity (flag, or MAGEFILE_VERBOSE when the flag is absent; `-v=false` overrides the variable) -/
theorem verbose_through_mage (info : PkgInfo) (conv : Conv) (out : Call → Outcome) (fmtDur : Int → String) (E : Env) (inv : Inv) :
    (childMain info conv out (childEnv fmtDur E inv) (childArgv inv)).verbose = inv.verbose := by
  have hv : envBool (childEnv fmtDur E inv) "MAGEFILE_VERBOSE" = inv.verbose := by
    simp [envBool, child_verbose_var, parseBool_formatBool]
  simp only [childMain, childArgv, parse_terminator, childCore]
  simp only [getBool, lastVal, List.reverse_nil, List.find?_nil, Option.map_none, hv]
  split <;> try rfl
  split <;> try rfl
  split
  · split <;> try rfl
    split <;> rfl
  · rfl

/-- **-debug through `mage`**: `mg.Debug()` inside targets reports the front end's effective value -/
theorem debug_through_mage (fmtDur : Int → String) (E : Env) (inv : Inv) :
    envFlag (childEnv fmtDur E inv) "MAGEFILE_DEBUG" = inv.debug := by
  simp [envFlag, child_debug_var, parseBool_formatBool]

/-- **-gocmd through `mage`**: `mg.GoCmd()` inside targets reports the command the front end used -/
theorem gocmd_through_mage (fmtDur : Int → String) (E : Env) (inv : Inv) (hg : inv.goCmd ≠ "") :
    envGoCmd (childEnv fmtDur E inv) = inv.goCmd := by
  simp [envGoCmd, child_gocmd_var _ _ _ hg, hg]

/-- **-t through `mage`**: a positive timeout arrives as the same duration; without `-t` the variable of the caller's
environment decides, as it does for a compiled binary -/
theorem timeout_through_mage (info : PkgInfo) (conv : Conv) (out : Call → Outcome) (fmtDur : Int → String) (E : Env) (inv : Inv)
    (hrt : ∀ d, d > 0 → conv.parseDuration (fmtDur d) = some d) (hne : ∀ d, d > 0 → fmtDur d ≠ "") :
    (childMain info conv out (childEnv fmtDur E inv) (childArgv inv)).timeout =
      if inv.timeout > 0 then inv.timeout else envDur conv.parseDuration E "MAGEFILE_TIMEOUT" := by
  have ht : envDur conv.parseDuration (childEnv fmtDur E inv) "MAGEFILE_TIMEOUT" =
      if inv.timeout > 0 then inv.timeout else envDur conv.parseDuration E "MAGEFILE_TIMEOUT" := by
    simp only [envDur, child_timeout_var]
    by_cases h : inv.timeout > 0
    · simp [h, hrt _ h, hne _ h]
    · simp [h]
  simp only [childMain, childArgv, parse_terminator, childCore]
  simp only [getDur, getBool, lastVal, List.reverse_nil, List.find?_nil, Option.map_none, ht]
  split <;> try rfl
  split <;> try rfl
  split
  · split <;> try rfl
    split <;> rfl
  · rfl

theorem timeout_through_mage_at (info : PkgInfo) (conv : Conv) (out : Call → Outcome) (fmtDur : Int → String) (E : Env) (inv : Inv)
    (hrt : inv.timeout > 0 → conv.parseDuration (fmtDur inv.timeout) = some inv.timeout)
    (hne : inv.timeout > 0 → fmtDur inv.timeout ≠ "") :
    (childMain info conv out (childEnv fmtDur E inv) (childArgv inv)).timeout =
      if inv.timeout > 0 then inv.timeout else envDur conv.parseDuration E "MAGEFILE_TIMEOUT" := by
  have ht : envDur conv.parseDuration (childEnv fmtDur E inv) "MAGEFILE_TIMEOUT" =
      if inv.timeout > 0 then inv.timeout else envDur conv.parseDuration E "MAGEFILE_TIMEOUT" := by
    simp only [envDur, child_timeout_var]
    by_cases h : inv.timeout > 0
    · simp [h, hrt h, hne h]
    · simp [h]
  simp only [childMain, childArgv, parse_terminator, childCore]
  simp only [getDur, getBool, lastVal, List.reverse_nil, List.find?_nil, Option.map_none, ht]
  split <;> try rfl
  split <;> try rfl
  split
  · split <;> try rfl
    split <;> rfl
  · rfl


/-- the same with the transcribed `Duration.String` and `ParseDuration` (`Gen/Strconv.lean`): no hypothesis about the
standard library is left for a timeout whose text provably parses back — e.g. every entry of the decided tables
(`roundTrips_seconds_table`, `roundTrips_typical`); the round trip for *all* durations stays unproved -/
theorem timeout_through_mage_std (info : PkgInfo) (out : Call → Outcome) (E : Env) (inv : Inv)
    (hrt : inv.timeout > 0 → MageModel.Gen.Strconv.roundTrips inv.timeout = true) :
    (childMain info stdConv out (childEnv MageModel.Gen.Strconv.durString E inv) (childArgv inv)).timeout =
      if inv.timeout > 0 then inv.timeout else envDur stdConv.parseDuration E "MAGEFILE_TIMEOUT" := by
  have h1 : inv.timeout > 0 →
      stdConv.parseDuration (MageModel.Gen.Strconv.durString inv.timeout) = some inv.timeout := by
    intro h; have := hrt h
    simpa [MageModel.Gen.Strconv.roundTrips, stdConv] using this
  refine timeout_through_mage_at info stdConv out _ E inv h1 ?_
  intro h he
  have := h1 h
  rw [he] at this
  have hn : MageModel.Gen.Strconv.parseDuration "" = none := by decide
  simp [stdConv, hn] at this

/-- `mage -t 90s build`: the compiled program runs under exactly 90 s -/
example (info : PkgInfo) (out : Call → Outcome) (E : Env) (inv : Inv) (h : inv.timeout = 90000000000) :
    (childMain info stdConv out (childEnv MageModel.Gen.Strconv.durString E inv) (childArgv inv)).timeout = 90000000000 := by
  rw [timeout_through_mage_std info out E inv (by rw [h]; intro _; exact MageModel.Gen.Strconv.roundTrips_typical.2.2.2.2.1)]
  simp [h]

/-! ## same effect as giving the flags to the compiled binary -/

/-- the flags of an invocation as one would type them to the compiled binary (absent when false / zero) -/
def compiledArgv (fmtDur : Int → String) (inv : Inv) : List String :=
  ["-v=" ++ formatBool inv.verbose] ++ (if inv.list then ["-l"] else []) ++ (if inv.help then ["-h"] else [])
    ++ (if inv.timeout > 0 then ["-t", fmtDur inv.timeout] else []) ++ ("--" :: inv.args)


def compiledAssign (inv : Inv) : Assign :=
  [("v", .b inv.verbose)] ++ (if inv.list then [("l", .b true)] else []) ++ (if inv.help then [("h", .b true)] else [])
    ++ (if inv.timeout > 0 then [("t", .d inv.timeout)] else [])

theorem parse_l (pd : String → Option Int) (rest : List String) (acc : Assign) :
    parse childSpecs pd ("-l" :: rest) acc = parse childSpecs pd rest (acc ++ [("l", .b true)]) := by
  have h1 : classify "-l" = .flag "l" none := by decide
  have h2 : childSpecs.find? (fun sp => sp.name == "l") = some ⟨"l", .bool⟩ := by decide
  simp only [parse, h1, h2]
theorem parse_h (pd : String → Option Int) (rest : List String) (acc : Assign) :
    parse childSpecs pd ("-h" :: rest) acc = parse childSpecs pd rest (acc ++ [("h", .b true)]) := by
  have h1 : classify "-h" = .flag "h" none := by decide
  have h2 : childSpecs.find? (fun sp => sp.name == "h") = some ⟨"h", .bool⟩ := by decide
  simp only [parse, h1, h2]
theorem parse_v (pd : String → Option Int) (b : Bool) (rest : List String) (acc : Assign) :
    parse childSpecs pd (("-v=" ++ formatBool b) :: rest) acc = parse childSpecs pd rest (acc ++ [("v", .b b)]) := by
  have h2 : childSpecs.find? (fun sp => sp.name == "v") = some ⟨"v", .bool⟩ := by decide
  cases b
  · have h1 : classify ("-v=" ++ formatBool false) = .flag "v" (some "false") := by decide
    have h3 : parseBool "false" = some false := by decide
    simp only [parse, h1, h2, h3]
  · have h1 : classify ("-v=" ++ formatBool true) = .flag "v" (some "true") := by decide
    have h3 : parseBool "true" = some true := by decide
    simp only [parse, h1, h2, h3]
theorem parse_t (pd : String → Option Int) (v : String) (d : Int) (hv : pd v = some d) (rest : List String) (acc : Assign) :
    parse childSpecs pd ("-t" :: v :: rest) acc = parse childSpecs pd rest (acc ++ [("t", .d d)]) := by
  have h1 : classify "-t" = .flag "t" none := by decide
  have h2 : childSpecs.find? (fun sp => sp.name == "t") = some ⟨"t", .dur⟩ := by decide
  simp only [parse, h1, h2, setVal, hv, Option.map_some]

theorem parse_compiledArgv (pd : String → Option Int) (fmtDur : Int → String) (inv : Inv)
    (hrt : ∀ d, d > 0 → pd (fmtDur d) = some d) :
    parse childSpecs pd (compiledArgv fmtDur inv) [] = .ok (compiledAssign inv, inv.args) := by
  simp only [compiledArgv, compiledAssign, List.singleton_append, List.cons_append, List.nil_append]
  rw [parse_v]
  have hT : ∀ (rest : List String) (acc : Assign), inv.timeout > 0 →
      parse childSpecs pd ("-t" :: fmtDur inv.timeout :: rest) acc = parse childSpecs pd rest (acc ++ [("t", .d inv.timeout)]) :=
    fun rest acc h => parse_t pd _ _ (hrt _ h) rest acc
  by_cases hl : inv.list = true <;> by_cases hh : inv.help = true <;> by_cases ht : inv.timeout > 0 <;>
    simp only [hl, hh, ht, if_true, if_false, List.nil_append, List.cons_append, List.append_nil, parse_l, parse_h,
      hT, parse_terminator, Bool.false_eq_true] <;> rfl


theorem assign_v (inv : Inv) (d : Bool) : getBool (compiledAssign inv) "v" d = inv.verbose := by
  simp only [compiledAssign, getBool, lastVal]
  cases inv.list <;> cases inv.help <;> by_cases ht : inv.timeout > 0 <;> simp [ht, List.find?]
theorem assign_l (inv : Inv) (d : Bool) : getBool (compiledAssign inv) "l" d = if inv.list then true else d := by
  simp only [compiledAssign, getBool, lastVal]
  cases inv.list <;> cases inv.help <;> by_cases ht : inv.timeout > 0 <;> simp [ht, List.find?]
theorem assign_h (inv : Inv) (d : Bool) : getBool (compiledAssign inv) "h" d = if inv.help then true else d := by
  simp only [compiledAssign, getBool, lastVal]
  cases inv.list <;> cases inv.help <;> by_cases ht : inv.timeout > 0 <;> simp [ht, List.find?]
theorem assign_t (inv : Inv) (d : Int) : getDur (compiledAssign inv) "t" d = if inv.timeout > 0 then inv.timeout else d := by
  simp only [compiledAssign, getDur, lastVal]
  cases inv.list <;> cases inv.help <;> by_cases ht : inv.timeout > 0 <;> simp [ht, List.find?]

/-- **Same effect through `mage` and through the compiled binary.**  For every package, environment, word list and
every front-end invocation: the generated main started by `mage` (flags translated to MAGEFILE_* variables, words
after `--`) does exactly what the compiled binary does when given `-v=<effective>`, `-l`, `-h`, `-t d` (d > 0)
itself in the caller's environment — same verbosity, same timeout, same listing/help decision, same targets run,
same status. -/
theorem same_effect (info : PkgInfo) (conv : Conv) (out : Call → Outcome) (fmtDur : Int → String) (E : Env) (inv : Inv)
    (hrt : ∀ d, d > 0 → conv.parseDuration (fmtDur d) = some d) (hne : ∀ d, d > 0 → fmtDur d ≠ "") :
    childMain info conv out (childEnv fmtDur E inv) (childArgv inv) = childMain info conv out E (compiledArgv fmtDur inv) := by
  have hv : envBool (childEnv fmtDur E inv) "MAGEFILE_VERBOSE" = inv.verbose := by
    simp [envBool, child_verbose_var, parseBool_formatBool]
  have hl : envBool (childEnv fmtDur E inv) "MAGEFILE_LIST" = if inv.list then true else envBool E "MAGEFILE_LIST" := by
    simp only [envBool, child_list_var]; cases inv.list <;> simp <;> decide
  have hh : envBool (childEnv fmtDur E inv) "MAGEFILE_HELP" = if inv.help then true else envBool E "MAGEFILE_HELP" := by
    simp only [envBool, child_help_var]; cases inv.help <;> simp <;> decide
  have ht : envDur conv.parseDuration (childEnv fmtDur E inv) "MAGEFILE_TIMEOUT" =
      if inv.timeout > 0 then inv.timeout else envDur conv.parseDuration E "MAGEFILE_TIMEOUT" := by
    simp only [envDur, child_timeout_var]
    by_cases h : inv.timeout > 0
    · simp [h, hrt _ h, hne _ h]
    · simp [h]
  have hi : getenv (childEnv fmtDur E inv) "MAGEFILE_IGNOREDEFAULT" = getenv E "MAGEFILE_IGNOREDEFAULT" :=
    env_passthrough _ _ _ _ (by decide)
  simp only [childMain, childArgv, parse_terminator, parse_compiledArgv _ _ _ hrt]
  have gb : ∀ n d, getBool [] n d = d := fun _ _ => rfl
  have gd : ∀ n d, getDur [] n d = d := fun _ _ => rfl
  simp only [assign_v, assign_l, assign_h, assign_t, gb, gd, hv, hl, hh, ht, hi]

/-- the residue (known finding C11:explicit-false-or-zero-flag-vs-env): an explicit `-t 0` (or a negative value)
given to `mage` is not forwarded, so MAGEFILE_TIMEOUT of the caller's environment wins, whereas the compiled binary
obeys its own `-t 0` -/
example :
    let conv : Conv := ⟨fun _ => none, fun _ => none, fun w => if w = "5s" then some 5000000000 else if w = "0" then some 0 else none⟩
    let E : Env := [("MAGEFILE_TIMEOUT", "5s")]
    (childMain { funcs := [] } conv (fun _ => .ok) (childEnv (fun _ => "") E { timeout := 0, args := ["x"] }) ["--", "x"]).timeout = 5000000000 ∧
    (childMain { funcs := [] } conv (fun _ => .ok) E ["-t", "0", "--", "x"]).timeout = 0 := by decide

/-! ## the magefile itself is built for the flag's or the host's platform -/

/-- GOOS and GOARCH of the caller's environment reach the targets (`goos_goarch_passthrough`) but never the listing
of the magefiles or their compilation: both use `EnvWithGOOS`, whose GOOS/GOARCH are the flag values or the host's,
for every caller environment and every iteration order of the Go map it is built from. -/
theorem build_env_isolated (hostOS hostArch goos goarch : String) (E L : Env)
    (hp : L.Perm (BuildEnv.goosMap hostOS hostArch goos goarch E)) :
    getenv L "GOOS" = (if goos = "" then hostOS else goos) ∧ getenv L "GOARCH" = (if goarch = "" then hostArch else goarch) :=
  BuildEnv.platform_is_flag_or_host hostOS hostArch goos goarch E L hp

/-! ## working directory -/

/-- targets run in `-w`; without it in `-d`; without both in the start directory — a magefiles directory changes
where the magefiles are read from, never where the targets run -/
theorem workdir (inv : Inv) :
    (inv.workDir ≠ "" → childDir inv = inv.workDir) ∧
    (inv.workDir = "" → inv.dir ≠ "" → childDir inv = inv.dir) ∧
    (inv.workDir = "" → inv.dir = "" → childDir inv = ".") := by
  refine ⟨?_, ?_, ?_⟩ <;> intros <;> simp_all [childDir]

/-- relative `-d`/`-w` are resolved against the directory mage was started in (the child is started from there) -/
example : Paths.absFrom "/start" (childDir { dir := "proj", workDir := "" }) = "/start/proj" := by decide
example : Paths.absFrom "/start" (childDir { dir := "proj", workDir := "../w" }) = "/w" := by decide
example : Paths.absFrom "/start" (childDir { dir := "", workDir := "" }) = "/start" := by decide

/-! ## non-vacuity -/
example : (frontParse (fun _ => none) [("MAGEFILE_VERBOSE", "1")] ["-v=false", "x"]) =
    .ok { verbose := false, args := ["x"], goCmd := "go", cacheDir := ".magefile" } .none := by decide
example : getenv (childEnv (fun _ => "1m0s") [("A", "b=c d"), ("GOOS", "plan9"), ("E", "")] { verbose := true, timeout := 60 }) "A" = "b=c d" := by decide

end MageModel.Props.C11
