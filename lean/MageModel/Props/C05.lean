import MageModel.Gen.Main
import MageModel.Invoke.Front
import MageModel.Invoke.Steps
import MageModel.Props.C04
/-!
# C05 — the process exit status reflects the outcome of the targets

Three layers, composed at the end: what a target's outcome means for the generated `main` (`Outcome.status`,
`handleError`), the generated `main` itself over every command line (`childMain`), and the front end
(`frontParse`, `invoke`) which must hand the child's status through unchanged.
Quantifiers: all `PkgInfo`s, all word lists, all environments, all outcome assignments, all fault vectors.
-/
namespace MageModel.Props.C05
open MageModel.Parse MageModel.Gen MageModel.Gen.Flags MageModel.Invoke MageModel.Deps

/-! ## 1. the status carried by a failure -/

theorem status_ok : Outcome.ok.status = 0 := rfl
theorem status_plain_error : (Outcome.err none).status = 1 := rfl
theorem status_fatal (c : Int) : (Outcome.err (some c)).status = c := rfl
theorem status_panic_error (c : Int) : (Outcome.panicErr (some c)).status = c := rfl
theorem status_panic_plain : (Outcome.panicErr none).status = 1 := rfl
theorem status_panic_value : Outcome.panicVal.status = 1 := rfl
theorem status_os_exit (c : Int) : (Outcome.osExit c).status = c := rfl

theorem foldl_changeExit_eq (codes : List Int) (e : Int) :
    codes.foldl changeExit e = foldExit e (codes.map fun c => (c, "")) := by
  simp [foldExit, List.foldl_map]

/-- failed dependencies that all carry the same status `c`: the run exits with `c` -/
theorem status_deps_common (c : Int) (codes : List Int) (hne : codes ≠ []) (h : ∀ x ∈ codes, x = c) :
    (Outcome.depsFailed codes).status = c := by
  simp only [Outcome.status]
  rw [foldl_changeExit_eq, foldExit_common c _ (by simpa using h) 0 (Or.inl rfl)]
  simp [hne]

/-- failed dependencies with two different non-zero statuses: the run exits with 1 -/
theorem status_deps_mixed (codes : List Int) (h0 : ∀ x ∈ codes, x ≠ 0) (a b : Int) (ha : a ∈ codes) (hb : b ∈ codes)
    (hab : a ≠ b) : (Outcome.depsFailed codes).status = 1 := by
  simp only [Outcome.status]
  rw [foldl_changeExit_eq]
  have := exitOf_mixed (codes.map fun c => (c, "")) (by simpa using h0)
    ⟨(a, ""), by simpa using ha, (b, ""), by simpa using hb, by simpa using hab⟩
  rw [exitOf_eq] at this; exact this

/-- the parent sees the status unchanged when it is a legal exit code -/
theorem osStatus_id (c : Int) (h1 : 0 ≤ c) (h2 : c ≤ 255) : osStatus c = c := by
  unfold osStatus; omega

/-- outside the legal range the operating system truncates: `mg.Fatal(256, …)` exits 0.  This is why the
property (and the theorems below) quantify over codes 1..255. -/
example : osStatus 256 = 0 := by decide
example : osStatus (-1) = 255 := by decide

/-- every failure carries a status in 1..255 (`ok` carries 0) -/
def ValidCodes (out : Call → Outcome) : Prop := ∀ c, out c ≠ .ok → 1 ≤ (out c).status ∧ (out c).status ≤ 255

/-! ## 2. the dispatch loop: first failure wins, nothing later runs -/

/-- an argument conversion can only fail as a bad argument -/
theorem convertArgs_error_badArg (conv : Conv) (as : List Arg) (ws : List String) (e : Stop)
    (h : convertArgs conv as ws = .error e) : ∃ k w, e = .badArg k w := by
  induction as generalizing ws with
  | nil => simp [convertArgs] at h
  | cons a as ih =>
    cases ws with
    | nil => simp [convertArgs] at h
    | cons w ws =>
      simp only [convertArgs] at h
      split at h
      · rename_i e' heq
        cases h
        split at heq
        · cases heq
        · split at heq
          · cases heq
          · cases heq; exact ⟨_, _, rfl⟩
        · split at heq
          · cases heq
          · cases heq; exact ⟨_, _, rfl⟩
        · split at heq
          · cases heq
          · cases heq; exact ⟨_, _, rfl⟩
        · cases heq
      · split at h
        · rename_i e' heq; cases h; exact ih _ heq
        · cases h

/-- shape of a run of the loop: the status is 0 exactly when the loop was not stopped; a stop is either the first
failing target (its status; every earlier call succeeded; nothing after it) or misuse (status 2, before the body of
the offending target) -/
def Shape (outcome : Call → Int) (r : Result) : Prop :=
  (r.stop = none → r.status = 0 ∧ ∀ c ∈ r.calls, outcome c = 0) ∧
  (∀ st, r.stop = some (.targetFailed st) → r.status = st ∧ st ≠ 0 ∧
      ∃ init c, r.calls = init ++ [c] ∧ outcome c = st ∧ ∀ c' ∈ init, outcome c' = 0) ∧
  (∀ s, r.stop = some s → (∀ st, s ≠ .targetFailed st) → r.status = 2 ∧ ∀ c ∈ r.calls, outcome c = 0)

theorem shape_cons (outcome : Call → Int) (r : Result) (c0 : Call) (h0 : outcome c0 = 0) (h : Shape outcome r) :
    Shape outcome ⟨c0 :: r.calls, r.status, r.stop⟩ := by
  obtain ⟨h1, h2, h3⟩ := h
  have mem : (∀ c ∈ r.calls, outcome c = 0) → ∀ c ∈ c0 :: r.calls, outcome c = 0 := by
    intro hh c hc
    rcases List.mem_cons.mp hc with e | e
    · rw [e]; exact h0
    · exact hh c e
  refine ⟨fun hs => ⟨(h1 hs).1, mem (h1 hs).2⟩, ?_, fun s hs hn => ⟨(h3 s hs hn).1, mem (h3 s hs hn).2⟩⟩
  intro st hs
  obtain ⟨a, b, init, c, e1, e2, e3⟩ := h2 st hs
  refine ⟨a, b, c0 :: init, c, by simp [e1], e2, ?_⟩
  intro c' hc'
  rcases List.mem_cons.mp hc' with e | e
  · rw [e]; exact h0
  · exact e3 c' e

theorem dispatch_shape (info : PkgInfo) (conv : Conv) (outcome : Call → Int) (fuel : Nat) (words : List String) :
    Shape outcome (dispatch info conv outcome fuel words) := by
  induction fuel generalizing words with
  | zero => simp [dispatch, Shape]
  | succ fuel ih =>
    cases words with
    | nil => simp [dispatch, Shape]
    | cons w rest =>
      simp only [dispatch]
      cases hr : resolve info w with
      | none => simp [Shape]
      | some f =>
        simp only []
        by_cases hlen : rest.length < f.args.length
        · simp [hlen, Shape]
        · simp only [hlen, if_false]
          cases hc : convertArgs conv f.args (rest.take f.args.length) with
          | error e =>
            simp only [Shape]
            refine ⟨by simp, ?_, by simp⟩
            intro st hs
            obtain ⟨k, w', hk⟩ := convertArgs_error_badArg conv _ _ e hc
            simp only [Option.some.injEq] at hs
            rw [hk] at hs; cases hs
          | ok vals =>
            simp only []
            by_cases hst : outcome ⟨f.id, vals⟩ ≠ 0
            · rw [if_pos hst]
              refine ⟨by simp, ?_, ?_⟩
              · intro st hs
                simp only [Option.some.injEq, Stop.targetFailed.injEq] at hs
                subst hs
                exact ⟨rfl, hst, [], ⟨f.id, vals⟩, rfl, rfl, by simp⟩
              · intro s hs hn
                simp only [Option.some.injEq] at hs
                exact absurd hs.symm (hn _)
            · rw [if_neg hst]
              have hst' : outcome ⟨f.id, vals⟩ = 0 := by
                by_cases h : outcome ⟨f.id, vals⟩ = 0
                · exact h
                · exact absurd h hst
              exact shape_cons outcome _ _ hst' (ih _)


theorem run_shape (info : PkgInfo) (conv : Conv) (outcome : Call → Int) (ign : Bool) (words : List String) :
    Shape outcome (Gen.run info conv outcome ign words).1 := by
  cases words with
  | cons w rest => exact dispatch_shape _ _ _ _ _
  | nil =>
    simp only [Gen.run]
    cases hd : info.defaultFunc with
    | none => simp [Shape]
    | some d =>
      simp only []
      by_cases hi : ign = true
      · simp [hi, Shape]
      · simp only [hi, Bool.false_eq_true, if_false]
        by_cases ha : d.args.isEmpty = true
        · simp only [ha, Bool.not_true, Bool.false_eq_true, if_false]
          by_cases hst : outcome ⟨d.id, []⟩ ≠ 0
          · simp only [hst, ne_eq, not_false_eq_true, if_true]
            refine ⟨by simp, ?_, ?_⟩
            · intro st hs
              simp only [Option.some.injEq, Stop.targetFailed.injEq] at hs
              subst hs
              exact ⟨rfl, hst, [], _, rfl, rfl, by simp⟩
            · intro s hs hn
              simp only [Option.some.injEq] at hs
              exact absurd hs.symm (hn _)
          · have h0 : outcome ⟨d.id, []⟩ = 0 := by
              by_cases h : outcome ⟨d.id, []⟩ = 0
              · exact h
              · exact absurd h hst
            simp [h0, Shape]
        · simp [ha, Shape]

/-- the list is only printed by a run that was not stopped and called nothing -/
theorem run_listed (info : PkgInfo) (conv : Conv) (outcome : Call → Int) (ign : Bool) (words : List String)
    (h : (Gen.run info conv outcome ign words).2 = true) : (Gen.run info conv outcome ign words).1.stop = none := by
  cases words with
  | cons w rest => simp [Gen.run] at h
  | nil =>
    simp only [Gen.run] at h ⊢
    cases hd : info.defaultFunc with
    | none => simp
    | some d =>
      rw [hd] at h
      simp only [] at h ⊢
      by_cases hi : ign = true
      · simp [hi]
      · simp only [hi, Bool.false_eq_true, if_false] at h ⊢
        split at h <;> simp at h

/-! ## 3. the generated main over every command line -/

theorem ok_iff_status_zero (out : Call → Outcome) (hv : ValidCodes out) (c : Call) : (out c).status = 0 ↔ out c = .ok := by
  constructor
  · intro h
    by_cases hc : out c = .ok
    · exact hc
    · have := (hv c hc).1; omega
  · intro h; rw [h]; rfl

/-- **Classification of every run of a compiled magefile** (all packages, environments, argument vectors, outcome
assignments with legal codes).  Exactly one of:
* status 0 — it printed usage, the list or a target's help, or every requested target ran and ended ok;
* status 2 — misuse: bad flag, help for an unknown target, unknown target, missing or unconvertible argument; every
  target executed before the offending word ended ok;
* the status carried by the first failing target; every earlier target ended ok and nothing after it ran. -/
theorem child_classification (info : PkgInfo) (conv : Conv) (out : Call → Outcome) (E : Env) (argv : List String)
    (hv : ValidCodes out) :
    let r := childMain info conv out E argv
    (r.status = 0 ∧ r.stop = none ∧ (∀ c ∈ r.calls, out c = .ok) ∧
        (r.how = .usage ∨ r.how = .listed ∨ (∃ t, r.how = .helpShown t) ∨ r.how = .ran)) ∨
    (r.status = 2 ∧ (∀ c ∈ r.calls, out c = .ok) ∧
        ((∃ e, r.how = .flagError e) ∨ (∃ w, r.how = .helpUnknown w) ∨
         (r.how = .ran ∧ ∃ s, r.stop = some s ∧ ∀ st, s ≠ .targetFailed st))) ∨
    (r.how = .ran ∧ ∃ init c, r.calls = init ++ [c] ∧ out c ≠ .ok ∧ r.status = (out c).status ∧
        r.stop = some (.targetFailed (out c).status) ∧ ∀ c' ∈ init, out c' = .ok) := by
  intro r
  show _ ∨ _ ∨ _
  simp only [r, childMain]
  cases hp : parse childSpecs conv.parseDuration argv [] with
  | error e =>
    cases e <;> simp
  | ok p =>
    obtain ⟨a, words⟩ := p
    simp only [childCore]
    split
    · simp
    · split
      · simp
      · split
        · cases words with
          | nil => simp
          | cons w ws =>
            simp only []
            cases helpLookup info w <;> simp
        · -- targets are dispatched
          generalize hign : (parseBool (getenv E "MAGEFILE_IGNOREDEFAULT")).getD false = ign
          have hsh := run_shape info conv (fun c => (out c).status) ign words
          have hl := run_listed info conv (fun c => (out c).status) ign words
          revert hsh hl
          generalize Gen.run info conv (fun c => (out c).status) ign words = rr
          obtain ⟨res, listed⟩ := rr
          intro hsh hl
          obtain ⟨h1, h2, h3⟩ := hsh
          simp only [] at hl ⊢
          cases hs : res.stop with
          | none =>
            left
            obtain ⟨a1, a2⟩ := h1 hs
            refine ⟨a1, rfl, fun c hc => (ok_iff_status_zero out hv c).mp (a2 c hc), ?_⟩
            cases listed <;> simp
          | some s =>
            have hnl : listed = false := by
              cases listed with
              | false => rfl
              | true => have := hl rfl; rw [hs] at this; cases this
            subst hnl
            by_cases hn : ∀ st, s ≠ .targetFailed st
            · right; left
              obtain ⟨a1, a2⟩ := h3 s hs hn
              refine ⟨a1, fun c hc => (ok_iff_status_zero out hv c).mp (a2 c hc), ?_⟩
              right; right
              exact ⟨by simp, s, rfl, hn⟩
            · right; right
              have : ∃ st, s = .targetFailed st := by
                by_cases h : ∃ st, s = .targetFailed st
                · exact h
                · exact absurd (fun st hst => h ⟨st, hst⟩) hn
              obtain ⟨st, hst⟩ := this
              subst hst
              obtain ⟨a1, a2, init, c, e1, e2, e3⟩ := h2 st hs
              simp only [] at a1 e1 e2 e3
              refine ⟨by simp, init, c, e1, ?_, ?_, ?_, fun c' hc' => (ok_iff_status_zero out hv c').mp (e3 c' hc')⟩
              · intro hok; rw [hok] at e2; exact a2 e2.symm
              · rw [a1]; exact e2.symm
              · rw [e2]


/-- the status of a compiled magefile is always a legal exit code, so the parent sees it unchanged -/
theorem child_status_legal (info : PkgInfo) (conv : Conv) (out : Call → Outcome) (E : Env) (argv : List String)
    (hv : ValidCodes out) : osStatus (childMain info conv out E argv).status = (childMain info conv out E argv).status := by
  apply osStatus_id
  all_goals
    rcases child_classification info conv out E argv hv with h | h | ⟨_, init, c, _, hne, hst, _⟩
    · omega
    · omega
    · have := hv c hne; omega

/-- **exit 0 if and only if nothing failed**: the run was not stopped and every executed target ended ok -/
theorem child_exit_zero_iff (info : PkgInfo) (conv : Conv) (out : Call → Outcome) (E : Env) (argv : List String)
    (hv : ValidCodes out) (r : ChildOut) (hr : r = childMain info conv out E argv) :
    osStatus r.status = 0 ↔
      (r.stop = none ∧ (∀ c ∈ r.calls, out c = .ok) ∧ (∀ e, r.how ≠ .flagError e) ∧ (∀ w, r.how ≠ .helpUnknown w)) := by
  subst hr
  rw [child_status_legal info conv out E argv hv]
  rcases child_classification info conv out E argv hv with ⟨h0, hs, hc, hh⟩ | ⟨h2, hc, hh⟩ | ⟨hr, init, c, e1, hne, hst, hstop, _⟩
  · constructor
    · intro _
      refine ⟨hs, hc, ?_, ?_⟩
      · intro e he; rcases hh with h | h | ⟨t, h⟩ | h <;> (rw [he] at h; cases h)
      · intro w he; rcases hh with h | h | ⟨t, h⟩ | h <;> (rw [he] at h; cases h)
    · intro _; exact h0
  · constructor
    · intro h; omega
    · rintro ⟨hs, _, hf, hu⟩
      exfalso
      rcases hh with ⟨e, he⟩ | ⟨w, he⟩ | ⟨_, s, hs', _⟩
      · exact hf e he
      · exact hu w he
      · rw [hs] at hs'; cases hs'
  · constructor
    · intro h; have := hv c hne; omega
    · rintro ⟨hs, _⟩; rw [hs] at hstop; cases hstop

/-! ## 4. the front end -/

/-- command-line misuse (bad flag, conflicting commands, -goos without -compile, stray words) exits 2; usage exits 0 -/
theorem front_misuse (pd : String → Option Int) (E : Env) (argv : List String) (i c : Bool) (k : Inv → Int) :
    (∀ m, frontParse pd E argv = .misuse m → parseAndRun pd E argv i c k = 2) ∧
    (frontParse pd E argv = .usage → parseAndRun pd E argv i c k = 0) := by
  constructor
  · intro m h; simp [parseAndRun, h]
  · intro h; simp [parseAndRun, h]

variable {Src : Type}

/-- **the front end returns exactly the status of the program it ran** — whether it compiled it in this invocation or
reused a cached binary (hash mode), provided nothing failed before the program started -/
theorem front_transparent (name : Src → Nat) (hinj : ∀ a b, name a = name b → a = b) (runBin : Src → Int) (r : Run Src)
    (w : World Src) (hs : CacheSound name w) (hc : r.compileOut = none) :
    (invoke Invoke.Cfg.fixed name runBin r Faults.none w).status = osStatus (runBin r.src) := by
  have hexe : exePath name r = name r.src := by simp [exePath, hc]
  have hreuse : ∀ s, w.cache (name r.src) = some s → (runCompiled runBin Faults.none w (name r.src)).status = osStatus (runBin r.src) := by
    intro s hsome
    have : s = r.src := hinj _ _ (hs _ _ hsome).symm
    simp [runCompiled, hsome, this, Faults.none]
  unfold invoke
  simp only [Faults.none, Invoke.Cfg.fixed, hc, hexe, Option.isNone_none, Bool.false_or, Bool.not_true, Bool.false_and,
    Bool.false_eq_true, if_false, Bool.and_false]
  split
  · rename_i h
    simp only [Bool.and_eq_true, Option.isSome_iff_exists] at h
    obtain ⟨⟨_, s, hsome⟩, _⟩ := h
    exact hreuse s hsome
  · simp [buildAndRun, runCompiled, Faults.none, hc, ← hexe]

/-- `-compile` that succeeds exits 0 without running anything -/
theorem compile_success (name : Src → Nat) (runBin : Src → Int) (r : Run Src) (w : World Src) (p : Nat)
    (hc : r.compileOut = some p) (hf : r.force = true) :
    (invoke Invoke.Cfg.fixed name runBin r Faults.none w).status = 0 := by
  simp [invoke, buildAndRun, Faults.none, Invoke.Cfg.fixed, hc, hf]

/-- **magefiles that cannot be found: status 1** -/
theorem listing_failure (name : Src → Nat) (runBin : Src → Int) (r : Run Src) (F : Faults) (w : World Src) :
    (F.list = true → (invoke Invoke.Cfg.fixed name runBin r F w).status = 1) ∧
    (F.list = false → F.noFiles = true → (invoke Invoke.Cfg.fixed name runBin r F w).status = 1) := by
  constructor
  · intro h; simp [invoke, h]
  · intro h1 h2; simp [invoke, Invoke.Cfg.fixed, h1, h2]

/-- **magefiles that cannot be parsed or compiled: status 1.**  In the default mode (Go build cache present) and
with `-f` every invocation rebuilds, so a parse, generate or compile failure always surfaces. -/
theorem rebuild_failure (name : Src → Nat) (runBin : Src → Int) (r : Run Src) (F : Faults) (w : World Src)
    (hre : rebuildAlways r = true ∨ r.force = true)
    (hpre : F.list = false ∧ F.noFiles = false ∧ F.exeName = false ∧ F.goEnv = false)
    (hf : F.parse = true ∨ F.gen ≠ .none ∨ F.compile = true) :
    (invoke Invoke.Cfg.fixed name runBin r F w).status = 1 := by
  obtain ⟨h1, h2, h3, h4⟩ := hpre
  have hnot : (!rebuildAlways r && (w.cache (exePath name r)).isSome && !r.force) = false := by
    rcases hre with a | a <;> simp [a]
  unfold invoke
  simp only [Invoke.Cfg.fixed, h1, h2, h3, h4, hnot, Bool.false_or, Bool.not_true, Bool.false_and, Bool.false_eq_true,
    if_false, Bool.and_false]
  by_cases hp : F.parse = true
  · simp [hp]
  · simp only [hp, if_false, buildAndRun]
    cases hg : F.gen with
    | create => rfl
    | write => rfl
    | close => rfl
    | chtimes => rfl
    | none =>
      rcases hf with h | h | h
      · exact absurd h hp
      · exact absurd hg h
      · simp [h]

/-- a binary that cannot be started: status 1 -/
theorem start_failure (runBin : Src → Int) (F : Faults) (w : World Src) (exe : Nat)
    (h : F.start = true) : (runCompiled runBin F w exe).status = 1 := by
  unfold runCompiled; split <;> simp [h]

theorem runCompiled_status_space (runBin : Src → Int) (F : Faults) (w : World Src) (exe : Nat) :
    (runCompiled runBin F w exe).status = 1 ∨ ∃ s, (runCompiled runBin F w exe).status = osStatus (runBin s) := by
  unfold runCompiled
  split
  · left; rfl
  · split
    · left; rfl
    · right; exact ⟨_, rfl⟩

/-- the whole status space of the front end: 1 (something failed before the program ran), 0 (`-compile`), or the
status of a program found at the computed name — nothing else -/
theorem invoke_status_space (name : Src → Nat) (runBin : Src → Int) (r : Run Src) (F : Faults) (w : World Src) :
    (invoke Invoke.Cfg.fixed name runBin r F w).status = 1 ∨
    (r.compileOut.isSome ∧ (invoke Invoke.Cfg.fixed name runBin r F w).status = 0) ∨
    ∃ s, (invoke Invoke.Cfg.fixed name runBin r F w).status = osStatus (runBin s) := by
  unfold invoke
  split; · left; rfl
  split; · left; rfl
  split; · left; rfl
  split; · left; rfl
  split
  · rcases runCompiled_status_space runBin F w (exePath name r) with h | ⟨s, h⟩
    · left; exact h
    · right; right; exact ⟨s, h⟩
  split; · left; rfl
  unfold buildAndRun
  split
  · left; rfl
  · left; rfl
  · left; rfl
  · left; rfl
  · split; · left; rfl
    simp only [Invoke.Cfg.fixed, if_true]
    split
    · rename_i h; right; left; exact ⟨h, rfl⟩
    · rcases runCompiled_status_space runBin F (cleanup r ((w.setMain r.dir .full).setExe (exePath name r) r.src)) (exePath name r) with h | ⟨s, h⟩
      · left; exact h
      · right; right; exact ⟨s, h⟩


/-- **End to end**: through `mage` (fresh build or cached binary) the status is the one the generated main computes
from the outcome of the targets — the classification of `child_classification` applies verbatim to `mage …`. -/
theorem mage_status_is_child_status (name : Src → Nat) (hinj : ∀ a b, name a = name b → a = b)
    (infoOf : Src → PkgInfo) (outOf : Src → Call → Outcome) (hv : ∀ s, ValidCodes (outOf s))
    (conv : Conv) (E' : Env) (argv' : List String) (r : Run Src) (w : World Src)
    (hs : CacheSound name w) (hc : r.compileOut = none) :
    (invoke Invoke.Cfg.fixed name (fun s => (childMain (infoOf s) conv (outOf s) E' argv').status) r Faults.none w).status =
      (childMain (infoOf r.src) conv (outOf r.src) E' argv').status := by
  rw [front_transparent name hinj _ r w hs hc]
  exact child_status_legal _ _ _ _ _ (hv r.src)

/-! ## non-vacuity -/
def exInfo : PkgInfo :=
  { funcs := [{ name := "Fail", isError := true, isContext := false, args := [⟨"code", "int"⟩] },
              { name := "Ok", isError := true, isContext := false, args := [] }] }
def exConv : Conv := ⟨fun w => if w = "7" then some 7 else none, fun _ => none, fun _ => none⟩
def exOut : Call → Outcome := fun c => if c.callee = "<current>.Fail" then .err (some 7) else .ok
example : ValidCodes exOut := by
  intro c h
  unfold exOut at h ⊢
  split <;> simp_all [Outcome.status]
example : (childMain exInfo exConv exOut [] ["ok", "fail", "7", "ok"]).status = 7 := by decide
example : (childMain exInfo exConv exOut [] ["ok", "fail", "7", "ok"]).calls.length = 2 := by decide
example : (childMain exInfo exConv exOut [] ["-x"]).status = 2 := by decide
example : (childMain exInfo exConv exOut [] ["ok", "nosuch"]).status = 2 := by decide
example : (childMain exInfo exConv exOut [("MAGEFILE_LIST", "1")] ["--", "ok"]).how = .listed := by decide
example : frontParse (fun _ => none) [] ["-init", "-h", "x"] = .misuse .severalCommands := by decide
/-- the command `switch` takes the first matching case only: `-clean -version` is not rejected, it prints the version -/
example : (match frontParse (fun _ => none) [] ["-clean", "-version"] with | .ok _ .version => true | _ => false) = true := by decide
example : frontParse (fun _ => none) [] ["-goos", "linux", "x"] = .misuse .goosWithoutCompile := by decide
example : frontParse (fun _ => none) [] ["-t"] = .misuse (.flag (.needsArg "t")) := by decide
example : CacheSound (fun (s : Nat) => s + 1) ⟨fun _ => .absent, fun p => if p = 4 then some 3 else none⟩ := by
  intro p s h
  simp only [] at h
  split at h
  · cases h; omega
  · cases h

end MageModel.Props.C05
