import MageModel.Parse.Pkg
import MageModel.Gen.Emit
/-!
# C18 — the generated main program is a deterministic function of the magefiles
Go randomises the iteration order of every `range` over a map.  The model has no such freedom left: wherever the
source ranges over a map (`AstPkg.Files`, `importNames`) it sorts before anything order-dependent happens.  The
theorems say that this is enough: whatever order the map iteration produced, the sorted sequence — and hence the
unique import names, and everything generated from them — is the same.
-/
namespace MageModel.Props.C18
open MageModel.Parse

/-- **Sorting removes the iteration order**: two enumerations of the same entries (any permutation) are sorted to the
same list, provided the comparison is a total pre-order that distinguishes the entries. -/
theorem sort_perm_invariant {α} (le : α → α → Bool)
    (trans : ∀ a b c, le a b → le b c → le a c) (total : ∀ a b, le a b || le b a)
    (l l' : List α) (antisymm : ∀ a b, a ∈ l → b ∈ l → le a b → le b a → a = b) (h : l.Perm l') :
    l.mergeSort le = l'.mergeSort le := by
  apply List.Perm.eq_of_pairwise (le := fun a b => le a b = true)
  · intro a b ha hb hab hba
    have ha' : a ∈ l := (List.mergeSort_perm l le).mem_iff.mp ha
    have hb' : b ∈ l := h.mem_iff.mpr ((List.mergeSort_perm l' le).mem_iff.mp hb)
    exact antisymm a b ha' hb' hab hba
  · exact List.pairwise_mergeSort trans total l
  · exact List.pairwise_mergeSort trans total l'
  · exact (List.mergeSort_perm l le).trans (h.trans (List.mergeSort_perm l' le).symm)

/-- instance for `sortBy`: entries with pairwise different keys, string order total and transitive (Go's `<` on
strings; stated as hypotheses about the keys that occur) -/
theorem sortBy_perm_invariant {α} (key : α → String) (l l' : List α)
    (trans : ∀ a b c : α, key a ≤ key b → key b ≤ key c → key a ≤ key c)
    (total : ∀ a b : α, key a ≤ key b ∨ key b ≤ key a)
    (inj : ∀ a b, a ∈ l → b ∈ l → key a ≤ key b → key b ≤ key a → a = b) (h : l.Perm l') :
    sortBy key l = sortBy key l' := by
  unfold sortBy
  apply sort_perm_invariant
  · intro a b c h1 h2; simp at h1 h2 ⊢; exact trans a b c h1 h2
  · intro a b; rcases total a b with h1 | h1 <;> simp [h1]
  · intro a b ha hb h1 h2; simp at h1 h2; exact inj a b ha hb h1 h2
  · exact h

/-- **The association between imported packages and their generated names does not vary**: the unique names are
assigned after sorting, so two map iteration orders give the same assignment. -/
theorem unique_names_order_independent (loaded loaded' : List (String × String × String × List Function))
    (key : String × String × String × List Function → String)
    (trans : ∀ a b c, key a ≤ key b → key b ≤ key c → key a ≤ key c)
    (total : ∀ a b, key a ≤ key b ∨ key b ≤ key a)
    (inj : ∀ a b, a ∈ loaded → b ∈ loaded → key a ≤ key b → key b ≤ key a → a = b) (h : loaded.Perm loaded') :
    assignUnique [] (sortBy key loaded) = assignUnique [] (sortBy key loaded') := by
  rw [sortBy_perm_invariant key loaded loaded' trans total inj h]

/-! ### the generated file itself -/

/-- **The bytes of the generated main file do not depend on the iteration order of the `Aliases` map** — for *every*
template (the theorem is parametric in the node list; the current template is the regenerated
`Generated.TemplateAst.nodes`), every set of `ExecCode` literals, every binary name and every package: two enumerations
of the same alias entries (distinct keys) produce the same text.  (`Funcs` and `Imports` are slices, sorted by
`Invoke` before generation: `unique_names_order_independent`, `sortBy_perm_invariant`.) -/
theorem emit_alias_order_irrelevant (nodes : List MageModel.Gen.Tpl.Node) (lits : List String) (bin : String) (info : PkgInfo)
    (a a' : List (String × Function)) (h : a.Perm a')
    (hkeys : ∀ x y, x ∈ a → y ∈ a → x.1 = y.1 → x = y) :
    MageModel.Gen.Emit.emit nodes lits bin { info with aliases := a } =
      MageModel.Gen.Emit.emit nodes lits bin { info with aliases := a' } := by
  unfold MageModel.Gen.Emit.emit MageModel.Gen.Emit.dataVal
  simp only []
  have hs : sortBy (·.1) a = sortBy (·.1) a' := by
    apply sortBy_perm_invariant (·.1) a a'
    · intro x y z h1 h2; exact String.le_trans h1 h2
    · intro x y; exact String.le_total _ _
    · intro x y hx hy h1 h2; exact hkeys x y hx hy (String.le_antisymm h1 h2)
    · exact h
  rw [hs]

/-- … and it is a function of the package information and the binary name alone: nothing else enters `emit` -/
theorem emit_deterministic (nodes : List MageModel.Gen.Tpl.Node) (lits : List String) (bin : String) (info info' : PkgInfo)
    (hf : info.funcs = info'.funcs) (hi : info.imports = info'.imports) (hd : info.defaultFunc = info'.defaultFunc)
    (ha : info.aliases = info'.aliases) (hdesc : info.description = info'.description) :
    MageModel.Gen.Emit.emit nodes lits bin info = MageModel.Gen.Emit.emit nodes lits bin info' := by
  unfold MageModel.Gen.Emit.emit MageModel.Gen.Emit.dataVal
  rw [hf, hi, hd, ha, hdesc]

/-! ### the pinned tree (D16): numbering in map order -/
namespace Pinned
def a : String × String × String × List Function := ("x", "tools", "example.com/a/tools", [])
def b : String × String × String × List Function := ("y", "tools", "example.com/b/tools", [])
/-- two named imports whose packages are both called `tools`: the suffix follows the iteration order -/
theorem names_swap : (assignUnique [] [a, b]).map (fun i => (i.path, i.uniqueName)) ≠
    (assignUnique [] [b, a]).map (fun i => (i.path, i.uniqueName)) := by decide
theorem first_order : (assignUnique [] [a, b]).map (fun i => (i.path, i.uniqueName)) =
    [("example.com/a/tools", "tools_mageimport"), ("example.com/b/tools", "tools_mageimport1")] := by decide
end Pinned

/-- the numbering never produces the same name twice (three packages of one name included) -/
example : (assignUnique [] [Pinned.a, Pinned.b, ("", "tools", "example.com/c/tools", [])]).map (·.uniqueName) =
    ["tools_mageimport", "tools_mageimport1", "tools_mageimport2"] := by decide
example : [Pinned.a, Pinned.b].Perm [Pinned.b, Pinned.a] := List.Perm.swap _ _ _

end MageModel.Props.C18
