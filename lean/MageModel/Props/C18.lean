import MageModel.Parse.Pkg
import MageModel.Gen.Emit
import MageModel.Gen.List
/-!
# C18 — the generated main program is a deterministic function of the magefiles
Go randomises the iteration order of every `range` over a map.  The model has no such freedom left: wherever the
source ranges over a map (`AstPkg.Files`, `importNames`) it sorts before anything order-dependent happens.  The
theorems say that this is enough: whatever order the map iteration produced, the sorted sequence — and hence the
unique import names, and everything generated from them — is the same.
-/
namespace MageModel.Props.C18
open MageModel.Parse

/-- **Sorting removes the iteration order**: two enumerations of the same entries (any permutation) are sorted to the
same list, provided the comparison is a total pre-order that distinguishes the entries. -/
theorem sort_perm_invariant {α} (le : α → α → Bool)
    (trans : ∀ a b c, le a b → le b c → le a c) (total : ∀ a b, le a b || le b a)
    (l l' : List α) (antisymm : ∀ a b, a ∈ l → b ∈ l → le a b → le b a → a = b) (h : l.Perm l') :
    l.mergeSort le = l'.mergeSort le := by
  apply List.Perm.eq_of_pairwise (le := fun a b => le a b = true)
  · intro a b ha hb hab hba
    have ha' : a ∈ l := (List.mergeSort_perm l le).mem_iff.mp ha
    have hb' : b ∈ l := h.mem_iff.mpr ((List.mergeSort_perm l' le).mem_iff.mp hb)
    exact antisymm a b ha' hb' hab hba
  · exact List.pairwise_mergeSort trans total l
  · exact List.pairwise_mergeSort trans total l'
  · exact (List.mergeSort_perm l le).trans (h.trans (List.mergeSort_perm l' le).symm)

/-- instance for `sortBy`: entries with pairwise different keys, string order total and transitive (Go's `<` on
strings; stated as hypotheses about the keys that occur) -/
theorem sortBy_perm_invariant {α} (key : α → String) (l l' : List α)
    (trans : ∀ a b c : α, key a ≤ key b → key b ≤ key c → key a ≤ key c)
    (total : ∀ a b : α, key a ≤ key b ∨ key b ≤ key a)
    (inj : ∀ a b, a ∈ l → b ∈ l → key a ≤ key b → key b ≤ key a → a = b) (h : l.Perm l') :
    sortBy key l = sortBy key l' := by
  unfold sortBy
  apply sort_perm_invariant
  · intro a b c h1 h2; simp at h1 h2 ⊢; exact trans a b c h1 h2
  · intro a b; rcases total a b with h1 | h1 <;> simp [h1]
  · intro a b ha hb h1 h2; simp at h1 h2; exact inj a b ha hb h1 h2
  · exact h

/-- **The association between imported packages and their generated names does not vary**: the unique names are
assigned after sorting, so two map iteration orders give the same assignment. -/
theorem unique_names_order_independent (loaded loaded' : List (String × String × String × List Function))
    (key : String × String × String × List Function → String)
    (trans : ∀ a b c, key a ≤ key b → key b ≤ key c → key a ≤ key c)
    (total : ∀ a b, key a ≤ key b ∨ key b ≤ key a)
    (inj : ∀ a b, a ∈ loaded → b ∈ loaded → key a ≤ key b → key b ≤ key a → a = b) (h : loaded.Perm loaded') :
    assignUnique [] (sortBy key loaded) = assignUnique [] (sortBy key loaded') := by
  rw [sortBy_perm_invariant key loaded loaded' trans total inj h]

/-! ### the generated file itself -/

/-- **The bytes of the generated main file do not depend on the iteration order of the `Aliases` map** — for *every*
template (the theorem is parametric in the node list; the current template is the regenerated
`Generated.TemplateAst.nodes`), every set of `ExecCode` literals, every binary name and every package: two enumerations
of the same alias entries (distinct keys) produce the same text.  (`Funcs` and `Imports` are slices, sorted by
`Invoke` before generation: `unique_names_order_independent`, `sortBy_perm_invariant`.) -/
theorem emit_alias_order_irrelevant (nodes : List MageModel.Gen.Tpl.Node) (lits : List String) (bin : String) (info : PkgInfo)
    (a a' : List (String × Function)) (h : a.Perm a')
    (hkeys : ∀ x y, x ∈ a → y ∈ a → x.1 = y.1 → x = y) :
    MageModel.Gen.Emit.emit nodes lits bin { info with aliases := a } =
      MageModel.Gen.Emit.emit nodes lits bin { info with aliases := a' } := by
  unfold MageModel.Gen.Emit.emit MageModel.Gen.Emit.dataVal
  simp only []
  have hs : sortBy (·.1) a = sortBy (·.1) a' := by
    apply sortBy_perm_invariant (·.1) a a'
    · intro x y z h1 h2; exact String.le_trans h1 h2
    · intro x y; exact String.le_total _ _
    · intro x y hx hy h1 h2; exact hkeys x y hx hy (String.le_antisymm h1 h2)
    · exact h
  rw [hs]

/-- … and it is a function of the package information and the binary name alone: nothing else enters `emit` -/
theorem emit_deterministic (nodes : List MageModel.Gen.Tpl.Node) (lits : List String) (bin : String) (info info' : PkgInfo)
    (hf : info.funcs = info'.funcs) (hi : info.imports = info'.imports) (hd : info.defaultFunc = info'.defaultFunc)
    (ha : info.aliases = info'.aliases) (hdesc : info.description = info'.description) :
    MageModel.Gen.Emit.emit nodes lits bin info = MageModel.Gen.Emit.emit nodes lits bin info' := by
  unfold MageModel.Gen.Emit.emit MageModel.Gen.Emit.dataVal
  rw [hf, hi, hd, ha, hdesc]

/-! ### what `-l` prints -/
open MageModel.Gen in
/-- **The target list does not depend on the order in which the targets were enumerated**: the generated `list` ranges
over a Go map (random order) and sorts the keys; two enumerations of the same targets print the same text.  The keys
are distinct for every package `checkDupes` accepts (hypothesis `hkeys`, in the weak form "equal keys, equal rows"). -/
theorem listText_order_independent (info info' : PkgInfo)
    (hd : info.defaultFunc = info'.defaultFunc) (hdesc : info.description = info'.description)
    (hp : (allTargets info).Perm (allTargets info'))
    (hkeys : ∀ f g, f ∈ allTargets info → g ∈ allTargets info → listKey info f = listKey info g → f.synopsis = g.synopsis) :
    listText info = listText info' := by
  have hk : listKey info = listKey info' := by funext f; unfold listKey; rw [hd]
  have hrows : (listRows info).Perm (listRows info') := by
    unfold listRows; rw [hk]; exact hp.map _
  have hs : sortBy (·.1) (listRows info) = sortBy (·.1) (listRows info') := by
    apply sortBy_perm_invariant (fun x : String × String => x.1) _ _
    · intro x y z h1 h2; exact String.le_trans h1 h2
    · intro x y; exact String.le_total _ _
    · intro x y hx hy h1 h2
      unfold listRows at hx hy
      obtain ⟨f, hf, rfl⟩ := List.mem_map.mp hx
      obtain ⟨g, hg, rfl⟩ := List.mem_map.mp hy
      have hkey : listKey info f = listKey info g := String.le_antisymm h1 h2
      have := hkeys f g hf hg hkey
      simp [hkey, this]
    · exact hrows
  unfold listText
  rw [hs, hd, hdesc]

open MageModel.Gen in
/-- the rows printed are the targets' rows, each exactly once (sorting permutes, nothing is dropped or invented) -/
theorem listed_rows_exact (info : PkgInfo) :
    (sortBy (·.1) (listRows info)).Perm ((allTargets info).map fun f => (listKey info f, f.synopsis)) := by
  unfold sortBy listRows
  exact List.mergeSort_perm _ _

private theorem le_foldl_max (l : List Nat) (init x : Nat) (h : x ∈ l ∨ x ≤ init) : x ≤ l.foldl max init := by
  induction l generalizing init with
  | nil => rcases h with h | h; · cases h
           · simpa using h
  | cons a l ih =>
    simp only [List.foldl_cons]
    apply ih
    rcases h with h | h
    · rcases List.mem_cons.mp h with rfl | h
      · right; exact Nat.le_max_right _ _
      · left; exact h
    · right; exact Nat.le_trans h (Nat.le_max_left _ _)

open MageModel.Gen in
/-- **The synopses are aligned**: in every line of the table the synopsis starts in the same column, four blanks after
the widest name. -/
theorem tabulate_aligned (rows : List (String × String)) (r : String × String) (h : r ∈ rows) :
    (r.1.length + 2) + ((rows.map fun r => r.1.length + 2).foldl max 0 + 4 - (r.1.length + 2)) =
      (rows.map fun r => r.1.length + 2).foldl max 0 + 4 := by
  have : r.1.length + 2 ≤ (rows.map fun r => r.1.length + 2).foldl max 0 :=
    le_foldl_max _ 0 _ (Or.inl (List.mem_map.mpr ⟨r, h, rfl⟩))
  omega

open MageModel.Gen in
/-- `-h <word>` succeeds exactly for the words that name a target (ignoring case); aliases are not looked up -/
theorem help_status (bin : String) (info : PkgInfo) (w : String) :
    (help bin info [w]).2 = 0 ↔ ∃ f ∈ allTargets info, lower f.targetName = lower w := by
  unfold help helpLookupFn
  simp only []
  split
  · next f hfind =>
    simp only [true_iff]
    exact ⟨f, List.mem_of_find?_eq_some hfind, by simpa using List.find?_some hfind⟩
  · next hfind =>
    simp only [List.find?_eq_none] at hfind
    constructor
    · intro h; simp at h
    · rintro ⟨f, hf, he⟩; have := hfind f hf; simp [he] at this

-- a test (evaluated, not kernel-checked: `String.splitOn` does not reduce by `decide`)
def listExample : PkgInfo :=
  { funcs := [({ name := "Build", isError := false, isContext := false, args := [], synopsis := "builds it" } : Function),
              ({ name := "Zap", isError := false, isContext := false, args := [] } : Function)],
    defaultFunc := some ({ name := "Build", isError := false, isContext := false, args := [] } : Function) }
#guard MageModel.Gen.listText listExample == "Targets:\n  build*    builds it\n  zap       \n\n* default target\n"

/-! ### the pinned tree (D16): numbering in map order -/
namespace Pinned
def a : String × String × String × List Function := ("x", "tools", "example.com/a/tools", [])
def b : String × String × String × List Function := ("y", "tools", "example.com/b/tools", [])
/-- two named imports whose packages are both called `tools`: the suffix follows the iteration order -/
theorem names_swap : (assignUnique [] [a, b]).map (fun i => (i.path, i.uniqueName)) ≠
    (assignUnique [] [b, a]).map (fun i => (i.path, i.uniqueName)) := by decide
theorem first_order : (assignUnique [] [a, b]).map (fun i => (i.path, i.uniqueName)) =
    [("example.com/a/tools", "tools_mageimport"), ("example.com/b/tools", "tools_mageimport1")] := by decide
end Pinned

/-- the numbering never produces the same name twice (three packages of one name included) -/
example : (assignUnique [] [Pinned.a, Pinned.b, ("", "tools", "example.com/c/tools", [])]).map (·.uniqueName) =
    ["tools_mageimport", "tools_mageimport1", "tools_mageimport2"] := by decide
example : [Pinned.a, Pinned.b].Perm [Pinned.b, Pinned.a] := List.Perm.swap _ _ _

end MageModel.Props.C18
