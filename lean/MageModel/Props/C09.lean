import MageModel.Invoke.Steps
import MageModel.Invoke.Dirs
/-!
# C09 — mage leaves the magefile directory as it found it
All fault vectors (listing, hashing, `go env`, parsing, each part of writing the main file, `go build`, starting the
binary, the target's own status), all prior states of the generated main file, both cache modes, with and without
`-keep`; `-init` on every directory; `-clean` on every cache listing with a failure at any point.
-/
namespace MageModel.Props.C09
open MageModel.Invoke MageModel.Invoke.Dirs

variable {Src : Type}

theorem runCompiled_world (runBin : Src → Int) (F : Faults) (w : World Src) (exe : Nat) :
    (runCompiled runBin F w exe).world = w := by
  unfold runCompiled; split
  · rfl
  · split <;> rfl

/-! ## 1. nothing but the generated main file is ever written in a magefile directory -/

theorem cleanup_main_other (r : Run Src) (w : World Src) (d : Nat) (h : d ≠ r.dir) : (cleanup r w).main d = w.main d := by
  unfold cleanup; split
  · rfl
  · simp [h]

theorem deferred_main_other (cfg : Cfg) (r : Run Src) (e : Bool) (w : World Src) (d : Nat) (h : d ≠ r.dir) :
    (deferred cfg r e w).main d = w.main d := by
  unfold deferred; split
  · rfl
  · exact cleanup_main_other r w d h

theorem built_main_other (cfg : Cfg) (name : Src → Nat) (r : Run Src) (w : World Src) (d : Nat) (h : d ≠ r.dir) :
    (built cfg name r w).main d = w.main d := by
  unfold built; split
  · rw [cleanup_main_other _ _ _ h]; simp [h]
  · simp [h]

/-- **Other magefile directories are never touched** (every fault vector, every configuration) -/
theorem other_dirs_untouched (cfg : Cfg) (name : Src → Nat) (runBin : Src → Int) (r : Run Src) (F : Faults) (w : World Src)
    (d : Nat) (h : d ≠ r.dir) : (invoke cfg name runBin r F w).world.main d = w.main d := by
  unfold invoke
  split; · rfl
  split; · rfl
  split; · rfl
  split; · rfl
  split; · rw [runCompiled_world]
  split; · rfl
  unfold buildAndRun
  split
  · exact deferred_main_other _ _ _ _ _ h
  · rw [deferred_main_other _ _ _ _ _ h]; simp [h]
  · rw [deferred_main_other _ _ _ _ _ h]; simp [h]
  · rw [deferred_main_other _ _ _ _ _ h]; simp [h]
  · split
    · rw [deferred_main_other _ _ _ _ _ h]; simp [h]
    · split
      · rw [deferred_main_other _ _ _ _ _ h, built_main_other _ _ _ _ _ h]
      · simp only [runCompiled_world]
        rw [deferred_main_other _ _ _ _ _ h, built_main_other _ _ _ _ _ h]

/-! ## 2. no generated file remains -/

theorem cleanup_main_self (r : Run Src) (w : World Src) (hk : r.keep = false) : (cleanup r w).main r.dir = .absent := by
  simp [cleanup, hk]

/-- **Without `-keep`, whatever happens, the main file is not there afterwards** — provided it was not there before
(if an interrupted earlier run left one, see `leftover_harmless`): success, target failure, unknown target, every
failing step of the go tool, every failing part of writing the file. -/
theorem no_litter (name : Src → Nat) (runBin : Src → Int) (r : Run Src) (F : Faults) (w : World Src)
    (hk : r.keep = false) (h0 : w.main r.dir = .absent) :
    (invoke Cfg.fixed name runBin r F w).world.main r.dir = .absent := by
  unfold invoke
  split; · exact h0
  split; · exact h0
  split; · exact h0
  split; · exact h0
  split; · rw [runCompiled_world]; exact h0
  split; · exact h0
  unfold buildAndRun
  have hd : ∀ e w', (deferred Cfg.fixed r e w').main r.dir = .absent := by
    intro e w'; simp [deferred, Cfg.fixed, cleanup_main_self r w' hk]
  split
  · exact hd _ _
  · exact hd _ _
  · exact hd _ _
  · exact hd _ _
  · split
    · exact hd _ _
    · split
      · exact hd _ _
      · exact hd _ _

/-- once generation is reached the file is removed even if one was lying there before -/
theorem no_litter_after_rebuild (name : Src → Nat) (runBin : Src → Int) (r : Run Src) (F : Faults) (w : World Src)
    (hk : r.keep = false) : (buildAndRun Cfg.fixed name runBin r F w).world.main r.dir = .absent := by
  unfold buildAndRun
  have hd : ∀ e w', (deferred Cfg.fixed r e w').main r.dir = .absent := by
    intro e w'; simp [deferred, Cfg.fixed, cleanup_main_self r w' hk]
  split
  · exact hd _ _
  · exact hd _ _
  · exact hd _ _
  · exact hd _ _
  · split
    · exact hd _ _
    · split
      · exact hd _ _
      · exact hd _ _

/-- **with `-keep` exactly the generated main file is added**: after a successful build it is there, complete -/
theorem keep_exact (name : Src → Nat) (runBin : Src → Int) (r : Run Src) (w : World Src) (hk : r.keep = true)
    (hre : rebuildAlways r = true ∨ r.force = true) :
    (invoke Cfg.fixed name runBin r Faults.none w).world.main r.dir = .full := by
  have hnot : (!rebuildAlways r && (w.cache (exePath name r)).isSome && !r.force) = false := by
    rcases hre with a | a <;> simp [a]
  unfold invoke
  simp only [Faults.none, Cfg.fixed, hnot, Bool.false_or, Bool.not_true, Bool.false_and, Bool.false_eq_true, if_false,
    Bool.and_false, buildAndRun]
  split
  · simp [deferred, cleanup, hk, built]
  · simp [deferred, cleanup, hk, built, runCompiled_world]

/-! ## 3. a leftover main file, in whatever state, does not change the result of later runs -/

theorem setMain_cache (w : World Src) (d : Nat) (m : MainState) : (w.setMain d m).cache = w.cache := rfl

theorem runCompiled_setMain (runBin : Src → Int) (F : Faults) (w : World Src) (exe d : Nat) (m : MainState) :
    (runCompiled runBin F (w.setMain d m) exe).status = (runCompiled runBin F w exe).status ∧
    (runCompiled runBin F (w.setMain d m) exe).ran = (runCompiled runBin F w exe).ran := by
  unfold runCompiled
  simp only [setMain_cache]
  split
  · exact ⟨rfl, rfl⟩
  · split <;> exact ⟨rfl, rfl⟩

theorem setMain_setMain (w : World Src) (d : Nat) (m m' : MainState) : (w.setMain d m).setMain d m' = w.setMain d m' := by
  simp only [World.setMain]
  congr 1
  funext d'
  split <;> rfl

theorem built_setMain (cfg : Cfg) (name : Src → Nat) (r : Run Src) (w : World Src) (m : MainState) :
    built cfg name r (w.setMain r.dir m) = built cfg name r w := by
  simp [built, setMain_setMain]

theorem runCompiled_setMain' (runBin : Src → Int) (F : Faults) (w : World Src) (exe d : Nat) (m : MainState) :
    (runCompiled runBin F (w.setMain d m) exe).built = (runCompiled runBin F w exe).built ∧
    (runCompiled runBin F (w.setMain d m) exe).world.cache = (runCompiled runBin F w exe).world.cache := by
  simp only [runCompiled_world, setMain_cache, and_true]
  unfold runCompiled
  simp only [setMain_cache]
  split
  · rfl
  · split <;> rfl

theorem buildAndRun_setMain (name : Src → Nat) (runBin : Src → Int) (r : Run Src) (F : Faults) (w : World Src) (m : MainState) :
    (buildAndRun Cfg.fixed name runBin r F (w.setMain r.dir m)).status = (buildAndRun Cfg.fixed name runBin r F w).status ∧
    (buildAndRun Cfg.fixed name runBin r F (w.setMain r.dir m)).ran = (buildAndRun Cfg.fixed name runBin r F w).ran ∧
    (buildAndRun Cfg.fixed name runBin r F (w.setMain r.dir m)).built = (buildAndRun Cfg.fixed name runBin r F w).built ∧
    (buildAndRun Cfg.fixed name runBin r F (w.setMain r.dir m)).world.cache = (buildAndRun Cfg.fixed name runBin r F w).world.cache := by
  unfold buildAndRun
  simp only [setMain_setMain, built_setMain]
  cases F.gen <;> simp

/-- **Leftover-independence**: the status, the program started, whether it was rebuilt, and the resulting cache are
the same whatever state an interrupted earlier run left the generated main file in. -/
theorem leftover_harmless (name : Src → Nat) (runBin : Src → Int) (r : Run Src) (F : Faults) (w : World Src) (m : MainState) :
    (invoke Cfg.fixed name runBin r F (w.setMain r.dir m)).status = (invoke Cfg.fixed name runBin r F w).status ∧
    (invoke Cfg.fixed name runBin r F (w.setMain r.dir m)).ran = (invoke Cfg.fixed name runBin r F w).ran ∧
    (invoke Cfg.fixed name runBin r F (w.setMain r.dir m)).built = (invoke Cfg.fixed name runBin r F w).built ∧
    (invoke Cfg.fixed name runBin r F (w.setMain r.dir m)).world.cache = (invoke Cfg.fixed name runBin r F w).world.cache := by
  have hcfg : Cfg.fixed.listSkipsMain = true := rfl
  unfold invoke
  simp only [hcfg, Bool.not_true, Bool.false_and, Bool.or_false, setMain_cache]
  by_cases h1 : F.list = true
  · simp [h1]
  simp only [h1, if_false]
  by_cases h2 : F.noFiles = true
  · simp [h2]
  simp only [h2, if_false]
  by_cases h3 : (r.compileOut.isNone && F.exeName) = true
  · simp [h3]
  simp only [h3, if_false]
  by_cases h4 : (!r.hashFast && F.goEnv) = true
  · simp [h4]
  simp only [h4, if_false]
  by_cases h5 : (!rebuildAlways r && (w.cache (exePath name r)).isSome && !r.force) = true
  · simp only [h5, if_true]
    exact ⟨(runCompiled_setMain runBin F w _ _ m).1, (runCompiled_setMain runBin F w _ _ m).2,
      (runCompiled_setMain' runBin F w _ _ m).1, (runCompiled_setMain' runBin F w _ _ m).2⟩
  simp only [h5, if_false]
  by_cases h6 : F.parse = true
  · simp [h6]
  simp only [h6, if_false]
  exact buildAndRun_setMain name runBin r F w m

/-! ### the defects these theorems replaced (kept as witnesses on the corresponding configurations) -/
namespace Pinned
def w0 : World Unit := ⟨fun _ => .absent, fun _ => none⟩
def r0 : Run Unit := { dir := 0, src := () }
/-- D12: with the removal registered only after GenerateMainfile, a failed write leaves a partial file behind -/
example : (invoke ⟨false, true, true⟩ (fun _ => 0) (fun _ => 0) r0 { gen := .write true } w0).world.main 0 = .headless := by decide
/-- D11: without hiding the main file from the listing, a leftover shorter than its constraint line makes every later run fail -/
example : (invoke ⟨true, true, false⟩ (fun _ => 0) (fun _ => 0) r0 Faults.none (w0.setMain 0 .headless)).status = 1 ∧
    (invoke ⟨true, true, false⟩ (fun _ => 0) (fun _ => 0) r0 Faults.none w0).status = 0 := by decide
end Pinned

/-! ## 4. `-init` only ever creates a new magefile -/

/-- no existing entry is changed or removed; the status says whether a file was created -/
theorem init_creates_only (files : List (String × String)) (tpl : String) :
    (∀ p ∈ files, p ∈ (mageInit true files tpl).1) ∧
    ((mageInit true files tpl).2 = 0 ↔ ¬ ∃ p ∈ files, p.1 = "magefile.go") ∧
    ((mageInit true files tpl).2 = 1 → (mageInit true files tpl).1 = files) := by
  unfold mageInit
  by_cases h : files.any (fun p => p.1 == "magefile.go") = true
  · simp only [h, if_true]
    refine ⟨fun p hp => hp, ?_, fun _ => trivial⟩
    simp only [List.any_eq_true] at h
    constructor
    · intro h1; cases h1
    · intro hn; exfalso; obtain ⟨p, hp, hq⟩ := h; exact hn ⟨p, hp, by simpa using hq⟩
  · simp only [h, if_false]
    refine ⟨fun p hp => by simp [hp], ?_, fun h1 => by cases h1⟩
    constructor
    · intro _ ⟨p, hp, hq⟩
      apply h
      simp only [List.any_eq_true]
      exact ⟨p, hp, by simp [hq]⟩
    · intro _; rfl

/-- the defect this replaced (D10): `os.Create` truncated an existing magefile -/
example : (mageInit false [("magefile.go", "precious")] "starter").1 = [("magefile.go", "starter")] := by decide

/-! ## 5. `-clean` removes only non-directory entries directly in the cache directory -/

theorem clean_keeps_dirs (l : List Entry) (k : Nat) : ∀ e ∈ l, e.isDir = true → e ∈ (removeContents l k).1 := by
  induction l generalizing k with
  | nil => intro e he; cases he
  | cons a rest ih =>
    intro e he hd
    simp only [removeContents]
    by_cases ha : a.isDir = true
    · simp only [ha, if_true, List.mem_cons] at he ⊢
      rcases he with rfl | he
      · exact Or.inl rfl
      · exact Or.inr (ih k e he hd)
    · simp only [ha, if_false]
      by_cases hk : k = 0
      · simp only [hk, if_true]; exact he
      · simp only [hk, if_false]
        rcases List.mem_cons.mp he with rfl | he
        · exact absurd hd ha
        · exact ih _ e he hd

/-- nothing appears; what is left is a sub-listing of what was there -/
theorem clean_sublist (l : List Entry) (k : Nat) : (removeContents l k).1.Sublist l := by
  induction l generalizing k with
  | nil => exact List.Sublist.refl _
  | cons a rest ih =>
    simp only [removeContents]
    split
    · exact (ih k).cons₂ a
    · split
      · exact List.Sublist.refl _
      · exact (ih _).cons a

/-- a successful clean leaves exactly the directories -/
theorem clean_complete (l : List Entry) (k : Nat) (h : (removeContents l k).2 = true) :
    (removeContents l k).1 = l.filter (·.isDir) := by
  induction l generalizing k with
  | nil => rfl
  | cons a rest ih =>
    simp only [removeContents] at h ⊢
    split
    · rename_i hd
      simp only [hd] at h
      simp only [List.filter_cons, hd, if_true]
      rw [ih k h]
    · rename_i hd
      split
      · rename_i hk; simp [hd, hk] at h
      · rename_i hk
        simp only [hd, hk, if_false] at h
        have hdf : a.isDir = false := by simpa using hd
        simp only [List.filter_cons, hdf]
        exact ih _ h

/-- entries below a subdirectory or outside the cache directory are not in the listing at all: the walk is not recursive -/
example : removeContents [⟨"bin1", false⟩, ⟨"sub", true⟩, ⟨"link-to-dir", false⟩, ⟨"bin2", false⟩] 9 =
    ([⟨"sub", true⟩], true) := by decide
example : removeContents [⟨"bin1", false⟩, ⟨"sub", true⟩, ⟨"bin2", false⟩] 1 = ([⟨"sub", true⟩, ⟨"bin2", false⟩], false) := by decide

/-! ## non-vacuity -/
example : (invoke Cfg.fixed (fun _ => 0) (fun _ => 3) Pinned.r0 { compile := true } Pinned.w0).world.main 0 = .absent := by decide
example : (invoke Cfg.fixed (fun _ => 0) (fun _ => 3) Pinned.r0 Faults.none Pinned.w0).status = 3 := by decide

end MageModel.Props.C09
