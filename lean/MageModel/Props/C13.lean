import MageModel.Props.C03
/-!
# C13 — SerialDeps runs dependencies one at a time in the order given
`req c j k` is the (ghost) event "the goroutine for element `j` of call `c` is created"; in the serial forms this
is the `runDeps(ctx, funcs[j:j+1])` of the loop.  Every program, every schedule.
-/
namespace MageModel.Props.C13
open MageModel.Deps

/-- **Order and no overlap**: element `j+1` of a serial call is requested only after element `j` has *stopped
successfully* — whoever ran it (this call, an earlier one, or a concurrent parallel call that had it in flight). -/
theorem serial_order (p : Prog) (roots : List Nat) (sched : List Agent)
    (later earlier : List Event) (c : CallId) (j : Nat) (k : Key) (cs : CallSpec)
    (hlog : (reach p roots sched).log = later ++ Event.req c (j+1) k :: earlier)
    (hc : (p c.owner).calls[c.idx]? = some cs) (hser : cs.serial = true) :
    ∃ kp, cs.keys[j]? = some kp ∧ Event.stop kp none ∈ earlier := by
  have hgood := (reach_inv p roots sched).2.good
  rw [hlog] at hgood
  exact (GoodLog.at hgood).1 cs hc hser j rfl

/-- **Nothing after the first failure**: if element `j` failed, element `j+1` is never requested. -/
theorem serial_stops_on_failure (p : Prog) (roots : List Nat) (sched : List Agent)
    (c : CallId) (j : Nat) (k kp : Key) (f : Int × String) (cs : CallSpec)
    (hc : (p c.owner).calls[c.idx]? = some cs) (hser : cs.serial = true) (hkp : cs.keys[j]? = some kp)
    (hfail : Event.stop kp (some f) ∈ (reach p roots sched).log) :
    Event.req c (j+1) k ∉ (reach p roots sched).log := by
  intro hreq
  obtain ⟨later, earlier, hsplit⟩ := mem_split hreq
  obtain ⟨kp', h1, h2⟩ := serial_order p roots sched later earlier c j k cs hsplit hc hser
  rw [hkp] at h1; cases h1
  have hok : Event.stop kp none ∈ (reach p roots sched).log := by
    rw [hsplit]; exact List.mem_append_right _ (List.mem_cons_of_mem _ h2)
  have := C03.outcome_unique p roots sched kp _ _ hfail hok
  cases this

/-- a serial call that returns has run its whole list; one that panics reached exactly a prefix of it -/
theorem serial_reached_prefix (p : Prog) (roots : List Nat) (sched : List Agent)
    (later earlier : List Event) (c : CallId) (reached : List Key) (code : Int) (msgs : List String) (cs : CallSpec)
    (hlog : (reach p roots sched).log = later ++ Event.pan c reached code msgs :: earlier)
    (hc : (p c.owner).calls[c.idx]? = some cs) : ∃ n, reached = cs.keys.take n :=
  (C01.pan_reached p roots sched later earlier c reached code msgs cs hlog hc).2

/-- the once-only rule still applies inside serial calls (instance of C01) -/
theorem serial_once (p : Prog) (roots : List Nat) (sched : List Agent) (k : Key) :
    starts k (reach p roots sched).log ≤ 1 := C01.at_most_once p roots sched k

/-! ### the hypothesis matters: running the whole list per iteration overlaps the members -/
namespace Mutant
def cfgAll : Cfg := { Cfg.fixed with serialOneByOne := false }
def prog : Prog := fun o => match o with
  | .root 0 => ⟨[⟨true, [1, 2]⟩], .ok⟩
  | _ => ⟨[], .ok⟩
def sched : List Agent := [.owner (.root 0), .site (.root 0) 0, .site (.root 0) 1]
/-- both members are running at the same time -/
theorem overlap : (run cfgAll prog (State.init [0]) sched).cell 1 = .running ∧
    (run cfgAll prog (State.init [0]) sched).cell 2 = .running := by decide
theorem fixed_no_overlap : (run Cfg.fixed prog (State.init [0]) (sched ++ [.owner (.root 0), .site (.root 0) 0, .site (.root 0) 1])).cell 2 = .absent := by decide
end Mutant

example : Event.req ⟨.root 0, 0⟩ 1 2 ∈ (reach Mutant.prog [0]
    [.owner (.root 0), .owner (.root 0), .site (.root 0) 0, .owner (.key 1), .site (.root 0) 0, .owner (.root 0)]).log := by decide

end MageModel.Props.C13
