import MageModel.Parse.Pkg
import MageModel.Gen.Dispatch
/-!
# C07 — ambiguous target names are rejected, never silently resolved
All packages: any functions, namespaces, imports and aliases.
-/
namespace MageModel.Props.C07
open MageModel.Parse

/-- two occurrences at different positions carry the same name -/
def Collides (l : List String) : Prop := ∃ i j : Nat, i < j ∧ j < l.length ∧ l[i]? = l[j]?

theorem contains_iff_get (l : List String) (x : String) : l.contains x = true ↔ ∃ j : Nat, j < l.length ∧ l[j]? = some x := by
  simp only [List.contains_iff_mem]
  constructor
  · intro h
    obtain ⟨j, hj, hx⟩ := List.getElem_of_mem h
    exact ⟨j, hj, by simp [hj, hx]⟩
  · rintro ⟨j, hj, hx⟩
    exact List.mem_of_getElem? hx

/-- `hasDup` decides exactly "some name occurs twice" -/
theorem hasDup_iff (l : List String) : hasDup l = true ↔ Collides l := by
  induction l with
  | nil => simp [hasDup, Collides]
  | cons x rest ih =>
    simp only [hasDup, Bool.or_eq_true, ih, contains_iff_get]
    constructor
    · rintro (⟨j, hj, hx⟩ | ⟨i, j, hij, hj, he⟩)
      · exact ⟨0, j+1, by omega, by simp; omega, by simpa using hx.symm⟩
      · exact ⟨i+1, j+1, by omega, by simp; omega, by simpa using he⟩
    · rintro ⟨i, j, hij, hj, he⟩
      cases i with
      | zero =>
        cases j with
        | zero => omega
        | succ j =>
          left
          simp at hj he
          exact ⟨j, by omega, he.symm⟩
      | succ i =>
        cases j with
        | zero => omega
        | succ j =>
          right
          simp at hj he
          exact ⟨i, j, by omega, by omega, he⟩

/-- **Inside one package**: `parse.Package` refuses exactly when two targets of the package have the same
case-insensitive name (`name`, or `namespace:name`). -/
theorem package_rejects_iff (p : Pkg) :
    (∃ e, package p = .error e) ↔ Collides ((collectFuncs p).map dupeKey) := by
  rw [← hasDup_iff]
  unfold package
  simp only []
  split
  · rename_i h; exact ⟨fun _ => h, fun _ => ⟨_, rfl⟩⟩
  · rename_i h
    constructor
    · rintro ⟨e, he⟩; cases he
    · intro h'; exact absurd h' h

/-- the runnable names of a build: every target under its command-line name, and every alias, lower-cased
(aliases in reverse order of declaration first — only the multiset matters for `Collides`) -/
def runnableNames (own : List Function) (imports : List Import) (aliases : List (String × Function)) : List String :=
  (aliases.map fun a => lower a.1).reverse ++ (own ++ imports.flatMap (·.funcs)).map fun f => lower f.targetName

theorem goAlias_spec (seen : List String) (as : List (String × Function)) :
    ((∃ e, checkDupes.goAlias seen as = .error e) ∨ hasDup seen = true) ↔
      hasDup ((as.map fun a => lower a.1).reverse ++ seen) = true := by
  induction as generalizing seen with
  | nil => simp [checkDupes.goAlias]
  | cons a rest ih =>
    obtain ⟨k, f⟩ := a
    simp only [checkDupes.goAlias, List.map_cons, List.reverse_cons, List.append_assoc, List.singleton_append]
    rw [← ih (lower k :: seen)]
    simp only [hasDup, Bool.or_eq_true]
    by_cases hc : seen.contains (lower k) = true
    · have hm : lower k ∈ seen := by simpa using hc
      simp [hc, hm]
    · have hm : ¬ lower k ∈ seen := by simpa using hc
      simp only [hc, hm, Bool.false_eq_true, if_false, false_or]

/-- **Across the whole build**: the cross-package / alias check refuses exactly when two runnable names — targets,
namespace targets, imported targets, aliases — are equal ignoring case. -/
theorem checkDupes_rejects_iff (own : List Function) (imports : List Import) (aliases : List (String × Function)) :
    (∃ e, checkDupes own imports aliases = .error e) ↔ Collides (runnableNames own imports aliases) := by
  rw [← hasDup_iff, runnableNames, ← goAlias_spec]
  unfold checkDupes
  simp only []
  cases hg : checkDupes.goAlias ((own ++ imports.flatMap (·.funcs)).map fun f => lower f.targetName) aliases with
  | error e => simp
  | ok seen =>
    simp only []
    split
    · rename_i h
      constructor
      · intro _; right; exact h
      · intro _; exact ⟨_, rfl⟩
    · rename_i h
      constructor
      · rintro ⟨e, he⟩; cases he
      · rintro (⟨e, he⟩ | h')
        · cases he
        · exact absurd h' h

/-- **No false rejection**: a build whose runnable names are pairwise different (ignoring case) passes the check. -/
theorem no_false_reject (own : List Function) (imports : List Import) (aliases : List (String × Function))
    (h : ¬ Collides (runnableNames own imports aliases)) : checkDupes own imports aliases = .ok () := by
  cases hc : checkDupes own imports aliases with
  | ok u => rfl
  | error e => exact absurd ((checkDupes_rejects_iff own imports aliases).mp ⟨e, hc⟩) h

/-! ### what acceptance buys: the generated dispatcher is unambiguous -/
section
open MageModel.Gen
theorem find?_first {α} (l : List α) (p : α → Bool) (i : Nat) (hi : i < l.length) (hp : p l[i] = true)
    (hfirst : ∀ j (hj : j < i), p (l[j]'(by omega)) = false) : l.find? p = some l[i] := by
  induction l generalizing i with
  | nil => cases hi
  | cons a rest ih =>
    cases i with
    | zero => simp at hp; simp [List.find?, hp]
    | succ i =>
      have h0 := hfirst 0 (by omega)
      simp at h0
      simp only [List.find?, h0]
      simp only [List.getElem_cons_succ] at hp ⊢
      apply ih i (by simpa using hi) hp
      intro j hj
      have := hfirst (j+1) (by omega)
      simpa using this

/-- **An accepted build dispatches unambiguously**: when the duplicate check passes, every target — own, namespaced,
imported — is reached by its own command-line name (in any letter case), not shadowed by an alias or by another
target.  (Together with `checkDupes_rejects_iff`: ambiguity is rejected, everything else runs what it names.) -/
theorem accepted_dispatch_unambiguous (info : PkgInfo) (h : checkDupes info.funcs info.imports info.aliases = .ok ())
    (i : Nat) (hi : i < (allTargets info).length) (w : String) (hw : lower w = lower ((allTargets info)[i]).targetName) :
    resolve info w = some (allTargets info)[i] := by
  have hnc : ¬ Collides (runnableNames info.funcs info.imports info.aliases) := by
    intro hc
    obtain ⟨e, he⟩ := (checkDupes_rejects_iff _ _ _).mpr hc
    rw [h] at he; cases he
  have hall : allTargets info = info.funcs ++ info.imports.flatMap (·.funcs) := rfl
  let names := (allTargets info).map fun f => lower f.targetName
  let keys := (info.aliases.map fun a => lower a.1).reverse
  have hrn : runnableNames info.funcs info.imports info.aliases = keys ++ names := by
    simp [runnableNames, keys, names, hall]
  have hni : names[i]? = some (lower ((allTargets info)[i]).targetName) := by
    simp [names, hi]
  -- (1) no alias matches
  have hal : info.aliases.find? (fun x => lower x.1 == lower w) = none := by
    rw [List.find?_eq_none]
    intro a ha hq
    have hq' : lower a.1 = lower w := by simpa using hq
    have hk : lower a.1 ∈ keys := by
      simp only [keys, List.mem_reverse, List.mem_map]
      exact ⟨a, ha, rfl⟩
    obtain ⟨p, hp, hpk⟩ := List.mem_iff_getElem.mp hk
    apply hnc
    rw [hrn]
    refine ⟨p, keys.length + i, by omega, by simp [names]; omega, ?_⟩
    rw [List.getElem?_append_left hp, List.getElem?_append_right (by omega)]
    simp only [Nat.add_sub_cancel_left, hni, List.getElem?_eq_getElem hp, hpk, hq', hw]
  unfold resolve
  rw [hal]
  simp only []
  -- (2) the first target with that lower-cased name is the i-th
  apply find?_first (allTargets info) _ i hi
  · simp [hw]
  · intro j hj
    have hjl : j < (allTargets info).length := by omega
    by_cases heq : lower ((allTargets info)[j]).targetName = lower w
    · exfalso
      apply hnc
      rw [hrn]
      refine ⟨keys.length + j, keys.length + i, by omega, by simp [names]; omega, ?_⟩
      rw [List.getElem?_append_right (by omega), List.getElem?_append_right (by omega)]
      simp only [Nat.add_sub_cancel_left, hni]
      have : names[j]? = some (lower ((allTargets info)[j]).targetName) := by simp [names, hjl]
      rw [this, heq, hw]
    · simp [heq]

end

/-! ### the pinned tree (D8): the alias check ran before the aliases were collected -/
namespace Pinned
def build : Function := { name := "Build", isError := false, isContext := false, args := [] }
def other : Function := { name := "Other", isError := false, isContext := false, args := [] }
/-- with no aliases known yet nothing is found … -/
theorem checked_too_early : checkDupes [build, other] [] [] = .ok () := by decide
/-- … although alias "build" → Other collides with target Build: the check after `setAliases` finds it -/
theorem found_now : checkDupes [build, other] [] [("build", other)] = .error (.aliasDup "build" ["<current>.Build"] true) := by decide
/-- and a mixed-case alias is found as well (the alias is lower-cased first) -/
theorem mixed_case_found : checkDupes [build, other] [] [("BUILD", other)] = .error (.aliasDup "build" ["<current>.Build"] true) := by decide
end Pinned

example : Collides ["build", "test", "build"] := ⟨0, 2, by omega, by simp, by simp⟩
example : ¬ Collides ["build", "test"] := by rw [← hasDup_iff]; decide

end MageModel.Props.C07
