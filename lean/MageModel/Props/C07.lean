import MageModel.Parse.Pkg
/-!
# C07 — ambiguous target names are rejected, never silently resolved
All packages: any functions, namespaces, imports and aliases.
-/
namespace MageModel.Props.C07
open MageModel.Parse

/-- two occurrences at different positions carry the same name -/
def Collides (l : List String) : Prop := ∃ i j : Nat, i < j ∧ j < l.length ∧ l[i]? = l[j]?

theorem contains_iff_get (l : List String) (x : String) : l.contains x = true ↔ ∃ j : Nat, j < l.length ∧ l[j]? = some x := by
  simp only [List.contains_iff_mem]
  constructor
  · intro h
    obtain ⟨j, hj, hx⟩ := List.getElem_of_mem h
    exact ⟨j, hj, by simp [hj, hx]⟩
  · rintro ⟨j, hj, hx⟩
    exact List.mem_of_getElem? hx

/-- `hasDup` decides exactly "some name occurs twice" -/
theorem hasDup_iff (l : List String) : hasDup l = true ↔ Collides l := by
  induction l with
  | nil => simp [hasDup, Collides]
  | cons x rest ih =>
    simp only [hasDup, Bool.or_eq_true, ih, contains_iff_get]
    constructor
    · rintro (⟨j, hj, hx⟩ | ⟨i, j, hij, hj, he⟩)
      · exact ⟨0, j+1, by omega, by simp; omega, by simpa using hx.symm⟩
      · exact ⟨i+1, j+1, by omega, by simp; omega, by simpa using he⟩
    · rintro ⟨i, j, hij, hj, he⟩
      cases i with
      | zero =>
        cases j with
        | zero => omega
        | succ j =>
          left
          simp at hj he
          exact ⟨j, by omega, he.symm⟩
      | succ i =>
        cases j with
        | zero => omega
        | succ j =>
          right
          simp at hj he
          exact ⟨i, j, by omega, by omega, he⟩

/-- **Inside one package**: `parse.Package` refuses exactly when two targets of the package have the same
case-insensitive name (`name`, or `namespace:name`). -/
theorem package_rejects_iff (p : Pkg) :
    (∃ e, package p = .error e) ↔ Collides ((collectFuncs p).map dupeKey) := by
  rw [← hasDup_iff]
  unfold package
  simp only []
  split
  · rename_i h; exact ⟨fun _ => h, fun _ => ⟨_, rfl⟩⟩
  · rename_i h
    constructor
    · rintro ⟨e, he⟩; cases he
    · intro h'; exact absurd h' h

/-- the runnable names of a build: every target under its command-line name, and every alias, lower-cased
(aliases in reverse order of declaration first — only the multiset matters for `Collides`) -/
def runnableNames (own : List Function) (imports : List Import) (aliases : List (String × Function)) : List String :=
  (aliases.map fun a => lower a.1).reverse ++ (own ++ imports.flatMap (·.funcs)).map fun f => lower f.targetName

theorem goAlias_spec (seen : List String) (as : List (String × Function)) :
    ((∃ e, checkDupes.goAlias seen as = .error e) ∨ hasDup seen = true) ↔
      hasDup ((as.map fun a => lower a.1).reverse ++ seen) = true := by
  induction as generalizing seen with
  | nil => simp [checkDupes.goAlias]
  | cons a rest ih =>
    obtain ⟨k, f⟩ := a
    simp only [checkDupes.goAlias, List.map_cons, List.reverse_cons, List.append_assoc, List.singleton_append]
    rw [← ih (lower k :: seen)]
    simp only [hasDup, Bool.or_eq_true]
    by_cases hc : seen.contains (lower k) = true
    · have hm : lower k ∈ seen := by simpa using hc
      simp [hc, hm]
    · have hm : ¬ lower k ∈ seen := by simpa using hc
      simp only [hc, hm, Bool.false_eq_true, if_false, false_or]

/-- **Across the whole build**: the cross-package / alias check refuses exactly when two runnable names — targets,
namespace targets, imported targets, aliases — are equal ignoring case. -/
theorem checkDupes_rejects_iff (own : List Function) (imports : List Import) (aliases : List (String × Function)) :
    (∃ e, checkDupes own imports aliases = .error e) ↔ Collides (runnableNames own imports aliases) := by
  rw [← hasDup_iff, runnableNames, ← goAlias_spec]
  unfold checkDupes
  simp only []
  cases hg : checkDupes.goAlias ((own ++ imports.flatMap (·.funcs)).map fun f => lower f.targetName) aliases with
  | error e => simp
  | ok seen =>
    simp only []
    split
    · rename_i h
      constructor
      · intro _; right; exact h
      · intro _; exact ⟨_, rfl⟩
    · rename_i h
      constructor
      · rintro ⟨e, he⟩; cases he
      · rintro (⟨e, he⟩ | h')
        · cases he
        · exact absurd h' h

/-- **No false rejection**: a build whose runnable names are pairwise different (ignoring case) passes the check. -/
theorem no_false_reject (own : List Function) (imports : List Import) (aliases : List (String × Function))
    (h : ¬ Collides (runnableNames own imports aliases)) : checkDupes own imports aliases = .ok () := by
  cases hc : checkDupes own imports aliases with
  | ok u => rfl
  | error e => exact absurd ((checkDupes_rejects_iff own imports aliases).mp ⟨e, hc⟩) h

/-! ### the pinned tree (D8): the alias check ran before the aliases were collected -/
namespace Pinned
def build : Function := { name := "Build", isError := false, isContext := false, args := [] }
def other : Function := { name := "Other", isError := false, isContext := false, args := [] }
/-- with no aliases known yet nothing is found … -/
theorem checked_too_early : checkDupes [build, other] [] [] = .ok () := by decide
/-- … although alias "build" → Other collides with target Build: the check after `setAliases` finds it -/
theorem found_now : checkDupes [build, other] [] [("build", other)] = .error (.aliasDup "build" []) := by decide
/-- and a mixed-case alias is found as well (the alias is lower-cased first) -/
theorem mixed_case_found : checkDupes [build, other] [] [("BUILD", other)] = .error (.aliasDup "build" []) := by decide
end Pinned

example : Collides ["build", "test", "build"] := ⟨0, 2, by omega, by simp, by simp⟩
example : ¬ Collides ["build", "test"] := by rw [← hasDup_iff]; decide

end MageModel.Props.C07
