import MageModel.Parse.Ast
import MageModel.Parse.Pkg
import MageModel.Gen.Dispatch
import MageModel.Gen.LowerFirst
import MageModel.Gen.List
/-!
# C06 — targets are exactly the exported functions with a valid target signature (signature part)
All ways of writing parameter and result lists: grouped names, unnamed and blank parameters, named results, any types.
-/
namespace MageModel.Props.C06
open MageModel.Parse

/-- the parameter (or result) types one by one: `a, b string` contributes two, an unnamed field one -/
def flatten (fs : List Field) : List TExpr :=
  fs.flatMap fun f => if f.names.isEmpty then [f.ty] else f.names.map fun _ => f.ty

/-- the parameters after the optional leading context -/
def afterCtx (ps : List TExpr) : List TExpr :=
  match ps with
  | t :: rest => if isContextTy t then rest else ps
  | [] => []

/-- **valid target signature**: an optional leading `context.Context`, then only `string`, `int`, `bool`,
`time.Duration`; the result is nothing or a single `error` (named or not). -/
def IsTargetSig (params results : List Field) : Prop :=
  (∀ t ∈ afterCtx (flatten params), (argTypeOf t).isSome = true) ∧
  (flatten results = [] ∨ ∃ t, flatten results = [t] ∧ t.printed = "error")

theorem flatten_cons (f : Field) (rest : List Field) :
    flatten (f :: rest) = (if f.names.isEmpty then [f.ty] else f.names.map fun _ => f.ty) ++ flatten rest := by
  simp [flatten]

theorem flatten_length (fs : List Field) : (flatten fs).length = numFields fs := by
  induction fs with
  | nil => rfl
  | cons f rest ih =>
    rw [flatten_cons, List.length_append, ih]
    simp only [numFields, List.map_cons, List.sum_cons]
    split <;> simp

theorem collectArgs_ok_iff (fs : List Field) (n : Nat) :
    (∃ args, collectArgs fs n = .ok args) ↔ ∀ t ∈ flatten fs, (argTypeOf t).isSome = true := by
  induction fs generalizing n with
  | nil => simp [collectArgs, flatten]
  | cons f rest ih =>
    rw [flatten_cons]
    simp only [collectArgs]
    cases ht : argTypeOf f.ty with
    | none =>
      simp only []
      constructor
      · rintro ⟨args, h⟩; cases h
      · intro h
        have : f.ty ∈ (if f.names.isEmpty then [f.ty] else f.names.map fun _ => f.ty) := by
          split
          · simp
          · rename_i hne
            cases hn : f.names with
            | nil => simp [hn] at hne
            | cons a b => simp
        have := h f.ty (List.mem_append_left _ this)
        rw [ht] at this; cases this
    | some typ =>
      simp only []
      have hhere : ∀ t ∈ (if f.names.isEmpty then [f.ty] else f.names.map fun _ => f.ty), (argTypeOf t).isSome = true := by
        intro t hmem
        have : t = f.ty := by
          split at hmem
          · simpa using hmem
          · simp at hmem; exact hmem.2.symm
        rw [this, ht]; rfl
      constructor
      · rintro ⟨args, h⟩
        intro t hmem
        rcases List.mem_append.mp hmem with h1 | h1
        · exact hhere t h1
        · cases hr : collectArgs rest (n + (if f.names.isEmpty = true then [({ name := s!"arg{n}", type := typ } : Arg)] else List.map (fun nm => { name := nm, type := typ }) f.names).length) with
          | error e => rw [hr] at h; cases h
          | ok more => exact (ih _).mp ⟨more, hr⟩ t h1
      · intro h
        obtain ⟨more, hm⟩ := (ih (n + (if f.names.isEmpty = true then [({ name := s!"arg{n}", type := typ } : Arg)] else List.map (fun nm => { name := nm, type := typ }) f.names).length)).mpr
          (fun t ht' => h t (List.mem_append_right _ ht'))
        exact ⟨_, by rw [hm]⟩

/-- number of arguments the generated call passes = number of (non-context) parameters declared:
this is what defect D4 (unnamed parameters dropped) violated -/
theorem collectArgs_length (fs : List Field) (n : Nat) (args : List Arg) (h : collectArgs fs n = .ok args) :
    args.length = (flatten fs).length := by
  induction fs generalizing n args with
  | nil => simp [collectArgs] at h; subst h; rfl
  | cons f rest ih =>
    rw [flatten_cons]
    simp only [collectArgs] at h
    cases ht : argTypeOf f.ty with
    | none => rw [ht] at h; cases h
    | some typ =>
      rw [ht] at h
      simp only [] at h
      cases hr : collectArgs rest (n + (if f.names.isEmpty = true then [({ name := s!"arg{n}", type := typ } : Arg)] else List.map (fun nm => { name := nm, type := typ }) f.names).length) with
      | error e => rw [hr] at h; cases h
      | ok more =>
        rw [hr] at h
        cases h
        rw [List.length_append, List.length_append, ih _ _ hr]
        congr 1
        split <;> simp

theorem numFields_cons_pos (p : Field) (rest : List Field) : ¬ numFields (p :: rest) < 1 := by
  simp only [numFields, List.map_cons, List.sum_cons]
  cases hn : p.names with
  | nil => simp
  | cons a b => simp

theorem ctx_unsupported (t : TExpr) (h : isContextTy t = true) : argTypeOf t = none := by
  simp [isContextTy] at h; subst h; rfl

/-- what `hasContextParam` decides, in terms of the flattened list -/
theorem hasContextParam_spec (params : List Field) :
    (∀ e, hasContextParam params = .error e → ¬ ∀ t ∈ afterCtx (flatten params), (argTypeOf t).isSome = true) ∧
    (∀ b, hasContextParam params = .ok b →
      flatten (if b then params.drop 1 else params) = afterCtx (flatten params) ∧
      (b = true → (flatten params).length = (afterCtx (flatten params)).length + 1) ∧
      (b = false → (flatten params).length = (afterCtx (flatten params)).length)) := by
  unfold hasContextParam
  cases params with
  | nil => simp [numFields, flatten, afterCtx]
  | cons p rest =>
    simp only [numFields_cons_pos, if_false]
    by_cases hc : isContextTy p.ty = true
    · simp only [hc, Bool.not_true, Bool.false_eq_true, if_false]
      by_cases hl : p.names.length > 1
      · simp only [hl, if_true]
        refine ⟨fun e _ hall => ?_, fun b h => by cases h⟩
        -- two contexts from one field: the second one is an unsupported parameter
        rw [flatten_cons] at hall
        cases hn : p.names with
        | nil => simp [hn] at hl
        | cons a more =>
          cases more with
          | nil => simp [hn] at hl
          | cons a2 more2 =>
            simp only [hn, List.isEmpty_cons, Bool.false_eq_true, if_false, List.map_cons, List.cons_append, afterCtx, hc, if_true] at hall
            have := hall p.ty (by simp)
            rw [ctx_unsupported _ hc] at this; cases this
      · simp only [hl, if_false]
        refine ⟨(fun e h => by cases h), fun b h => ?_⟩
        cases h
        rw [flatten_cons]
        cases hn : p.names with
        | nil => simp [afterCtx, hc]
        | cons a more =>
          cases more with
          | nil => simp [afterCtx, hc]
          | cons a2 more2 => simp [hn] at hl
    · simp only [hc, Bool.not_false, if_true]
      refine ⟨(fun e h => by cases h), fun b h => ?_⟩
      cases h
      simp only [Bool.false_eq_true, if_false]
      have : afterCtx (flatten (p :: rest)) = flatten (p :: rest) := by
        rw [flatten_cons]
        cases hn : p.names with
        | nil => simp [afterCtx, hc]
        | cons a more => simp [afterCtx, hc]
      rw [this]; simp

theorem hasErrorReturn_ok_iff (results : List Field) :
    (∃ b, hasErrorReturn results = .ok b) ↔
      (flatten results = [] ∨ ∃ t, flatten results = [t] ∧ t.printed = "error") := by
  unfold hasErrorReturn
  rw [← flatten_length]
  cases results with
  | nil => simp [flatten]
  | cons r rest =>
    have hpos : ¬ (flatten (r :: rest)).length = 0 := by
      rw [flatten_length]; have := numFields_cons_pos r rest; omega
    simp only [hpos, if_false]
    by_cases h1 : (flatten (r :: rest)).length > 1
    · simp only [h1, if_true]
      constructor
      · rintro ⟨b, h⟩; cases h
      · rintro (h | ⟨t, h, _⟩)
        · rw [h] at hpos; simp at hpos
        · rw [h] at h1; simp at h1
    · simp only [h1, if_false]
      -- exactly one result
      have hlen : (flatten (r :: rest)).length = 1 := by omega
      have hone : flatten (r :: rest) = [r.ty] ∧ ¬ r.names.length > 1 := by
        rw [flatten_cons] at hlen ⊢
        cases hn : r.names with
        | nil =>
          simp only [hn, List.isEmpty_nil, if_true, List.length_append, List.length_cons, List.length_nil] at hlen
          have hr : flatten rest = [] := List.eq_nil_of_length_eq_zero (by omega)
          simp [hr]
        | cons a more =>
          simp only [hn, List.isEmpty_cons, Bool.false_eq_true, if_false, List.length_append, List.length_map, List.length_cons] at hlen
          have hm : more = [] := List.eq_nil_of_length_eq_zero (by omega)
          have hr : flatten rest = [] := List.eq_nil_of_length_eq_zero (by omega)
          simp [hm, hr]
      rw [hone.1]
      simp only [hone.2, if_false]
      by_cases he : r.ty.printed = "error"
      · simp [he]
      · simp [he]

/-- **Classification is exact**: `funcType` accepts a declaration iff its signature is a valid target signature
(`a, b context.Context` — two contexts in one field — is invalid under both). -/
theorem classify_iff (params results : List Field) :
    (∃ f, funcType params results = .ok f) ↔ IsTargetSig params results := by
  obtain ⟨hcerr, hcok⟩ := hasContextParam_spec params
  unfold funcType IsTargetSig
  cases hc : hasContextParam params with
  | error e =>
    simp only []
    constructor
    · rintro ⟨f, h⟩; cases h
    · rintro ⟨h, _⟩; exact absurd h (hcerr e hc)
  | ok isCtx =>
    simp only []
    obtain ⟨hflat, _, _⟩ := hcok isCtx hc
    cases he : hasErrorReturn results with
    | error e =>
      simp only []
      constructor
      · rintro ⟨f, h⟩; cases h
      · rintro ⟨_, h⟩
        obtain ⟨b, hb⟩ := (hasErrorReturn_ok_iff results).mpr h
        rw [he] at hb; cases hb
    | ok isErr =>
      simp only []
      have hres := (hasErrorReturn_ok_iff results).mp ⟨isErr, he⟩
      cases ha : collectArgs (if isCtx = true then params.drop 1 else params) 0 with
      | error e =>
        simp only []
        constructor
        · rintro ⟨f, h⟩; cases h
        · rintro ⟨h, _⟩
          rw [← hflat] at h
          obtain ⟨args, hargs⟩ := (collectArgs_ok_iff _ 0).mpr h
          rw [ha] at hargs; cases hargs
      | ok args =>
        simp only []
        constructor
        · intro _
          refine ⟨?_, hres⟩
          rw [← hflat]
          exact (collectArgs_ok_iff _ 0).mp ⟨args, ha⟩
        · intro _; exact ⟨_, rfl⟩

/-- **Arity agrees**: the generated call passes exactly as many arguments as the declaration has non-context
parameters (grouped names expanded, unnamed parameters counted once) — defect D4 on the pinned tree. -/
theorem arity_agrees (params results : List Field) (f : FnSig) (h : funcType params results = .ok f) :
    f.args.length + (if f.isContext then 1 else 0) = (flatten params).length := by
  obtain ⟨_, hcok⟩ := hasContextParam_spec params
  unfold funcType at h
  cases hc : hasContextParam params with
  | error e => rw [hc] at h; cases h
  | ok isCtx =>
    rw [hc] at h
    simp only [] at h
    obtain ⟨hflat, h1, h0⟩ := hcok isCtx hc
    cases he : hasErrorReturn results with
    | error e => rw [he] at h; cases h
    | ok isErr =>
      rw [he] at h
      simp only [] at h
      cases ha : collectArgs (if isCtx = true then params.drop 1 else params) 0 with
      | error e => rw [ha] at h; cases h
      | ok args =>
        rw [ha] at h
        cases h
        simp only
        rw [collectArgs_length _ _ _ ha, hflat]
        cases isCtx
        · simp; exact (h0 rfl).symm
        · simp; exact (h1 rfl).symm

/-! ### which declarations become targets -/

theorem mem_sortBy {α} (key : α → String) (l : List α) (x : α) : x ∈ sortBy key l ↔ x ∈ l := by
  unfold sortBy; exact (List.mergeSort_perm l _).mem_iff

/-- what makes a declaration a target of its package: exported name, a valid target signature, and either no receiver
or a receiver whose base type is an exported type declared as `mg.Namespace`; a generic function (type parameters)
cannot be called without instantiation and is no target -/
def IsTargetDecl (p : Pkg) (d : FuncDecl) : Prop :=
  d ∈ p.files.flatMap (·.funcs) ∧ exported d.name = true ∧ d.typeParams = false ∧ (∃ s, funcType d.params d.results = .ok s) ∧
  (d.recv = none ∨ ∃ r t, d.recv = some r ∧ t ∈ p.files.flatMap (·.types) ∧ isNamespaceDecl t = true ∧ t.name = r.base)

/-- **The targets of a package are exactly the exported functions (and methods on exported `mg.Namespace` types) with
a valid target signature** — everything else is ignored, and nothing that qualifies is left out. -/
theorem targets_exact (p : Pkg) (f : Function) :
    f ∈ collectFuncs p ↔ ∃ d s, IsTargetDecl p d ∧ funcType d.params d.results = .ok s ∧ f = mkFunction d s := by
  unfold collectFuncs IsTargetDecl
  simp only []
  generalize p.files.flatMap (·.funcs) = funcs
  generalize p.files.flatMap (·.types) = types
  simp only [List.mem_append, List.mem_flatMap, List.mem_filterMap, mem_sortBy, List.mem_filter, Bool.and_eq_true,
    beq_iff_eq, Option.isNone_iff_eq_none]
  constructor
  · rintro (⟨t, ⟨ht, hns⟩, d, ⟨hd, ⟨hr, he⟩, htp⟩, hf⟩ | ⟨d, ⟨hd, ⟨hr, he⟩, htp⟩, hf⟩)
    · cases hs : funcType d.params d.results with
      | error e => rw [hs] at hf; cases hf
      | ok s =>
        rw [hs] at hf; simp only [Option.some.injEq] at hf
        refine ⟨d, s, ⟨hd, he, by simpa using htp, ⟨s, hs⟩, Or.inr ?_⟩, hs, hf.symm⟩
        cases hrv : d.recv with
        | none => rw [hrv] at hr; simp at hr
        | some r =>
          rw [hrv] at hr
          simp only [Option.map_some, Option.some.injEq] at hr
          exact ⟨r, t, rfl, ht, hns, hr.symm⟩
    · cases hs : funcType d.params d.results with
      | error e => rw [hs] at hf; cases hf
      | ok s =>
        rw [hs] at hf; simp only [Option.some.injEq] at hf
        exact ⟨d, s, ⟨hd, he, by simpa using htp, ⟨s, hs⟩, Or.inl hr⟩, hs, hf.symm⟩
  · rintro ⟨d, s, ⟨hd, he, htp, _, hrecv⟩, hs, rfl⟩
    rcases hrecv with hr | ⟨r, t, hr, ht, hns, hname⟩
    · right
      exact ⟨d, ⟨hd, ⟨hr, he⟩, by simp [htp]⟩, by rw [hs]⟩
    · left
      refine ⟨t, ⟨ht, hns⟩, d, ⟨hd, ⟨?_, he⟩, by simp [htp]⟩, by rw [hs]⟩
      rw [hr]; simp [hname]


/-- **Which functions are targets does not depend on how the declarations are spread over files or in which order the
files are read**: two packages with the same declarations (as sets) have the same targets. -/
theorem targets_order_independent (p p' : Pkg)
    (hf : ∀ d, d ∈ p.files.flatMap (·.funcs) ↔ d ∈ p'.files.flatMap (·.funcs))
    (ht : ∀ t, t ∈ p.files.flatMap (·.types) ↔ t ∈ p'.files.flatMap (·.types)) (f : Function) :
    f ∈ collectFuncs p ↔ f ∈ collectFuncs p' := by
  rw [targets_exact, targets_exact]
  constructor
  · rintro ⟨d, s, ⟨h1, h2, htp, h3, h4⟩, h5, h6⟩
    refine ⟨d, s, ⟨(hf d).mp h1, h2, htp, h3, ?_⟩, h5, h6⟩
    rcases h4 with h | ⟨r, t, a, b, c, e⟩
    · exact Or.inl h
    · exact Or.inr ⟨r, t, a, (ht t).mp b, c, e⟩
  · rintro ⟨d, s, ⟨h1, h2, htp, h3, h4⟩, h5, h6⟩
    refine ⟨d, s, ⟨(hf d).mpr h1, h2, htp, h3, ?_⟩, h5, h6⟩
    rcases h4 with h | ⟨r, t, a, b, c, e⟩
    · exact Or.inl h
    · exact Or.inr ⟨r, t, a, (ht t).mpr b, c, e⟩

/-- in particular for a permutation of the file list -/
theorem targets_file_order_independent (files files' : List File) (h : files.Perm files') (f : Function) :
    f ∈ collectFuncs ⟨files⟩ ↔ f ∈ collectFuncs ⟨files'⟩ := by
  apply targets_order_independent
  · intro d; simp only [List.mem_flatMap]; constructor <;> (rintro ⟨a, ha, hd⟩; exact ⟨a, by first | exact h.mem_iff.mp ha | exact h.mem_iff.mpr ha, hd⟩)
  · intro t; simp only [List.mem_flatMap]; constructor <;> (rintro ⟨a, ha, hd⟩; exact ⟨a, by first | exact h.mem_iff.mp ha | exact h.mem_iff.mpr ha, hd⟩)


/-! ### the listing stars the default target only -/
section
open MageModel.Gen
theorem filter_key_le_one {α} (l : List α) (key : α → String) (k : String) (h : (l.map key).Nodup) :
    (l.filter fun x => key x == k).length ≤ 1 := by
  induction l with
  | nil => simp
  | cons a rest ih =>
    simp only [List.map_cons, List.nodup_cons] at h
    simp only [List.filter_cons]
    split
    · rename_i hk
      have hk' : key a = k := by simpa using hk
      have : (rest.filter fun x => key x == k) = [] := by
        rw [List.filter_eq_nil_iff]
        intro x hx hxk
        have : key x = k := by simpa using hxk
        apply h.1
        rw [hk', ← this]
        exact List.mem_map_of_mem hx
      simp [this]
    · exact ih h.2

/-- which entries of the listing carry the star: those whose target name is the default's -/
def starred (info : PkgInfo) : List Function :=
  (allTargets info).filter fun f => match info.defaultFunc with
    | some d => f.targetName == d.targetName
    | none => false

/-- **At most one listed target is starred, and it is the default** (D7: comparing only name and receiver starred
imported namesakes too) — whenever the runnable names are distinct, which the duplicate check guarantees. -/
theorem star_unique (info : PkgInfo) (h : ((allTargets info).map (·.targetName)).Nodup) :
    (starred info).length ≤ 1 ∧ ∀ f ∈ starred info, ∃ d, info.defaultFunc = some d ∧ f.targetName = d.targetName := by
  unfold starred
  cases hd : info.defaultFunc with
  | none =>
    have : (allTargets info).filter (fun _ => false) = [] := by simp
    simp [this]
  | some d =>
    simp only []
    refine ⟨filter_key_le_one _ (fun (x : Function) => x.targetName) d.targetName h, ?_⟩
    intro f hf
    simp only [List.mem_filter, beq_iff_eq] at hf
    exact ⟨d, rfl, hf.2⟩

/-- the names `-l` prints are built from exactly those target names: a star iff `starred` -/
theorem listing_star (info : PkgInfo) (f : Function) :
    (match info.defaultFunc with | some d => (if d.targetName == f.targetName then "*" else "") | none => "") = "*" ↔
      (match info.defaultFunc with | some d => f.targetName == d.targetName | none => false) = true := by
  cases info.defaultFunc with
  | none => simp
  | some d =>
    simp only []
    by_cases h : d.targetName = f.targetName
    · simp [h]
    · have h' : ¬ f.targetName = d.targetName := fun e => h e.symm
      simp [h, h']

private theorem eq_of_nodup_map {α β} (key : α → β) : ∀ (l : List α), (l.map key).Nodup →
    ∀ a b, a ∈ l → b ∈ l → key a = key b → a = b
  | [], _, _, _, ha, _, _ => by cases ha
  | x :: l, h, a, b, ha, hb, e => by
    simp only [List.map_cons, List.nodup_cons, List.mem_map, not_exists, not_and] at h
    rcases List.mem_cons.mp ha with rfl | ha' <;> rcases List.mem_cons.mp hb with rfl | hb'
    · rfl
    · exact absurd e.symm (h.1 b hb')
    · exact absurd e (h.1 a ha')
    · exact eq_of_nodup_map key l h.2 a b ha' hb' e

open MageModel.Gen in
/-- **Each listed name is runnable as printed**: the key `-l` prints for a target (without the star) resolves, on the
command line, to that very target — for every package the duplicate check accepts: runnable names pairwise different
ignoring case (`hnames`) and no alias equal to a target name (`halias`).  (`lowerFirst` changes letter case only,
`lower_lowerFirst`, and the dispatcher compares lower-cased names.) -/
theorem listed_name_runs (info : PkgInfo) (f : Function) (hf : f ∈ allTargets info)
    (hnames : ((allTargets info).map fun g => lower g.targetName).Nodup)
    (halias : ∀ a ∈ info.aliases, lower a.1 ≠ lower f.targetName) :
    resolve info (lowerFirst f.targetName) = some f := by
  have hl := lower_lowerFirst f.targetName
  generalize lowerFirst f.targetName = w at hl ⊢
  generalize hkey : (fun g : Function => lower g.targetName) = key at hnames
  have hkf : ∀ g, key g = lower g.targetName := fun g => by rw [← hkey]
  generalize htn : lower f.targetName = ltn at hl halias
  have hmain : (allTargets info).find? (fun g => lower g.targetName == lower w) = some f := by
    rw [hl]
    cases hfind : (allTargets info).find? (fun g => lower g.targetName == ltn) with
    | none =>
      rw [List.find?_eq_none] at hfind
      have := hfind f hf
      simp [htn] at this
    | some g =>
      have hg := List.mem_of_find?_eq_some hfind
      have he : lower g.targetName = ltn := by simpa using List.find?_some hfind
      have he' : key g = key f := by rw [hkf, hkf, he, htn]
      exact congrArg some (eq_of_nodup_map key (allTargets info) hnames g f hg hf he')
  unfold resolve
  simp only []
  split
  · next a g hfa =>
    have hmem := List.mem_of_find?_eq_some hfa
    have hp : lower a = lower w := by simpa using List.find?_some hfa
    exact absurd (hp.trans hl) (halias (a, g) hmem)
  · exact hmain

/-- the hypotheses of `listed_name_runs` are met by an ordinary package (two targets, one alias to another name) -/
example : ((allTargets { funcs := [({ name := "Build", isError := false, isContext := false, args := [] } : Function),
                                   ({ name := "TestAll", isError := false, isContext := false, args := [] } : Function)] }).map
            fun g => lower g.targetName).Nodup := by decide

open MageModel.Gen in
/-- **The aliases `-h <target>` shows are aliases of that target**: each of them, typed on the command line, runs the
target it is listed under (D32 was the failure of this) — for packages the duplicate check accepts: runnable names
pairwise different ignoring case, alias keys included. -/
theorem help_alias_runs (info : PkgInfo) (f : Function) (a : String) (hf : f ∈ allTargets info)
    (ha : a ∈ helpAliases info f)
    (hnames : ((allTargets info).map fun g => lower g.targetName).Nodup)
    (hkeys : (info.aliases.map fun x => lower x.1).Nodup) :
    resolve info a = some f := by
  unfold helpAliases at ha
  obtain ⟨⟨k, g⟩, hmem, hk⟩ := List.mem_map.mp ha
  simp only [List.mem_filter, beq_iff_eq] at hmem
  simp only at hk; subst hk
  obtain ⟨hin, htn⟩ := hmem
  generalize hkey : (fun g : Function => lower g.targetName) = key at hnames
  have hkf : ∀ g, key g = lower g.targetName := fun g => by rw [← hkey]
  generalize hak : (fun x : String × Function => lower x.1) = akey at hkeys
  have hakf : ∀ x, akey x = lower x.1 := fun x => by rw [← hak]
  generalize hlk : lower k = lk
  generalize hltn : lower f.targetName = ltn
  have hmain : (allTargets info).find? (fun t => lower t.targetName == ltn) = some f := by
    cases hfind : (allTargets info).find? (fun t => lower t.targetName == ltn) with
    | none =>
      rw [List.find?_eq_none] at hfind
      have := hfind f hf
      simp [hltn] at this
    | some t =>
      have ht := List.mem_of_find?_eq_some hfind
      have he : lower t.targetName = ltn := by simpa using List.find?_some hfind
      have he' : key t = key f := by rw [hkf, hkf, he, hltn]
      exact congrArg some (eq_of_nodup_map key (allTargets info) hnames t f ht hf he')
  unfold resolve
  simp only []
  split
  · next k' g' hfa =>
    have hmem' := List.mem_of_find?_eq_some hfa
    have hp : lower k' = lower k := by simpa using List.find?_some hfa
    have hp' : akey (k', g') = akey (k, g) := by rw [hakf, hakf]; exact hp
    have hsame : (k', g') = (k, g) := eq_of_nodup_map akey info.aliases hkeys (k', g') (k, g) hmem' hin hp'
    have hg : g' = g := by cases hsame; rfl
    rw [hg, htn, hltn]
    exact hmain
  · next hnone =>
    rw [List.find?_eq_none] at hnone
    have := hnone (k, g) hin
    simp at this

open MageModel.Gen in
/-- … and the listing contains a row for every target: with `listed_rows_exact` (Props/C18) the rows of `-l` are the
targets, one each; this is the key of `f`'s row -/
theorem listed_key_of_target (info : PkgInfo) (f : Function) (hf : f ∈ allTargets info) :
    (listKey info f, f.synopsis) ∈ sortBy (·.1) (listRows info) := by
  rw [mem_sortBy]
  unfold listRows
  exact List.mem_map.mpr ⟨f, hf, rfl⟩

end

/-! ### the pinned tree (D4): unnamed parameters produced no argument -/
namespace Pinned
/-- `for _, name := range param.Names` only -/
def collectArgsPinned : List Field → List Arg
  | [] => []
  | p :: rest => (match argTypeOf p.ty with
      | some typ => p.names.map fun nm => ⟨nm, typ⟩
      | none => []) ++ collectArgsPinned rest
/-- `func Build(string)`: one parameter declared, no argument generated -/
theorem unnamed_dropped : (collectArgsPinned [⟨[], .ident "string"⟩]).length = 0 ∧
    (flatten [⟨[], .ident "string"⟩]).length = 1 := by decide
theorem unnamed_counted_now : funcType [⟨[], .ident "string"⟩] [] = .ok ⟨false, false, [⟨"arg0", "string"⟩]⟩ := by decide
end Pinned

/-! ### non-vacuity -/
example : IsTargetSig [⟨["ctx"], .sel "context" "Context"⟩, ⟨["a", "b"], .ident "string"⟩, ⟨[], .sel "time" "Duration"⟩]
    [⟨["err"], .ident "error"⟩] := by
  refine ⟨?_, Or.inr ⟨.ident "error", by decide, by decide⟩⟩
  decide
example : funcType [⟨["ctx"], .sel "context" "Context"⟩, ⟨["a", "b"], .ident "string"⟩, ⟨[], .sel "time" "Duration"⟩]
    [⟨["err"], .ident "error"⟩] = .ok ⟨true, true, [⟨"a", "string"⟩, ⟨"b", "string"⟩, ⟨"arg2", "time.Duration"⟩]⟩ := by decide
example : ¬ IsTargetSig [⟨["a"], .ident "string"⟩, ⟨["ctx"], .sel "context" "Context"⟩] [] := by
  intro ⟨h, _⟩
  have := h (.sel "context" "Context") (by decide)
  cases this

end MageModel.Props.C06
