import MageModel.Invoke.Cache
import MageModel.Invoke.Steps
import MageModel.Props.C18
/-!
# C08 — mage always runs code built from the current magefile contents
Names: all file lists and their permutations; histories: all sequences of edit / clean / run operations, both cache
modes, `-f`, every fault vector; locations: every start directory, `-d`/`-w` directory and cache-directory spelling.
-/
namespace MageModel.Props.C08
open MageModel.Invoke MageModel.Invoke.Cache

/-! ## 1. the name depends only on the multiset of contents, the template, the key and the toolchain version -/

theorem sortStrings_perm (l l' : List String) (h : l.Perm l') : sortStrings l = sortStrings l' := by
  unfold sortStrings
  apply MageModel.Props.C18.sort_perm_invariant
  · intro a b c h1 h2; simp only [decide_eq_true_eq] at h1 h2 ⊢; exact String.le_trans h1 h2
  · intro a b; rcases String.le_total a b with h | h <;> simp [h]
  · intro a b _ _ h1 h2; simp only [decide_eq_true_eq] at h1 h2; exact String.le_antisymm h1 h2
  · exact h

/-- **Order and names of the files are irrelevant**: any permutation of the file list gives the same name. -/
theorem exeBase_perm {B : Type} (hx : B → String) (enc : List Char → B) (tpl : B) (key ver : String) (files files' : List B)
    (h : files.Perm files') : exeBase hx enc tpl key ver files = exeBase hx enc tpl key ver files' := by
  unfold exeBase exeText
  rw [sortStrings_perm _ _ ((h.map hx).append_right [hx tpl])]

theorem sortStrings_perm_self (l : List String) : (sortStrings l).Perm l := List.mergeSort_perm l _

theorem perm_of_map_perm {B C : Type} [DecidableEq B] (f : B → C) (U : B → Prop)
    (hinj : ∀ a b, U a → U b → f a = f b → a = b) (l l' : List B) (hl : ∀ b ∈ l, U b) (hl' : ∀ b ∈ l', U b)
    (h : (l.map f).Perm (l'.map f)) : l.Perm l' := by
  induction l generalizing l' with
  | nil =>
    have : l'.map f = [] := List.Perm.eq_nil (h.symm)
    cases l' with
    | nil => exact List.Perm.refl _
    | cons b bs => simp at this
  | cons a as ih =>
    have hfa : f a ∈ l'.map f := h.mem_iff.mp (by simp)
    obtain ⟨b, hb, hfb⟩ := List.mem_map.mp hfa
    have hba : b = a := hinj b a (hl' b hb) (hl a (by simp)) hfb
    subst hba
    have hp : l'.Perm (b :: l'.erase b) := List.perm_cons_erase hb
    have h2 : ((b :: as).map f).Perm ((b :: l'.erase b).map f) := h.trans (hp.map f)
    simp only [List.map_cons] at h2
    have h3 := List.Perm.cons_inv h2
    have := ih (l'.erase b) (fun x hx => hl x (by simp [hx])) (fun x hx => hl' x (List.mem_of_mem_erase hx)) h3
    exact (List.Perm.cons b this).trans hp.symm

/-- unique decoding: blocks of equal length that never contain the first character of the key, followed by the key
and the version, determine the blocks and the version -/
theorem decode (n : Nat) (hn : 0 < n) (k0 : Char) (L L' : List (List Char)) (t t' : List Char)
    (hL : ∀ x ∈ L, x.length = n ∧ k0 ∉ x) (hL' : ∀ x ∈ L', x.length = n ∧ k0 ∉ x)
    (h : L.flatten ++ k0 :: t = L'.flatten ++ k0 :: t') : L = L' ∧ t = t' := by
  induction L generalizing L' with
  | nil =>
    cases L' with
    | nil => simp at h; exact ⟨rfl, h⟩
    | cons y ys =>
      exfalso
      have hy := hL' y (by simp)
      cases y with
      | nil => simp at hy; omega
      | cons c cs =>
        simp at h
        exact hy.2 (by rw [← h.1]; simp)
  | cons x xs ih =>
    cases L' with
    | nil =>
      exfalso
      have hx := hL x (by simp)
      cases x with
      | nil => simp at hx; omega
      | cons c cs =>
        simp at h
        exact hx.2 (by rw [h.1]; simp)
    | cons y ys =>
      have hx := hL x (by simp)
      have hy := hL' y (by simp)
      simp only [List.flatten_cons, List.append_assoc] at h
      have := List.append_inj h (by rw [hx.1, hy.1])
      obtain ⟨r1, r2⟩ := ih ys (fun z hz => hL z (by simp [hz])) (fun z hz => hL' z (by simp [hz])) this.2
      exact ⟨by rw [this.1, r1], r2⟩

/-- **The name differs whenever the contents, the template or the toolchain version differ** — as far as SHA-1 has no
collision among the texts involved (`hinj` on the set `U`; unprovable, stated).  The template's hash is sorted in with
the files' hashes, so what is determined is the multiset "contents plus template". -/
theorem exeBase_inj {B : Type} [DecidableEq B] (hx : B → String) (enc : List Char → B) (U : B → Prop)
    (hinj : ∀ a b, U a → U b → hx a = hx b → a = b) (encInj : ∀ a b, enc a = enc b → a = b)
    (k0 : Char) (krest : List Char) (key : String) (hkey : key.toList = k0 :: krest)
    (hlen : ∀ b, (hx b).toList.length = 40) (hk : ∀ b, k0 ∉ (hx b).toList)
    (tpl tpl' : B) (ver ver' : String) (files files' : List B)
    (hU : ∀ b ∈ files ++ [tpl] ++ files' ++ [tpl'], U b)
    (hUt : U (enc (exeText (files.map hx ++ [hx tpl]) key ver)) ∧ U (enc (exeText (files'.map hx ++ [hx tpl']) key ver')))
    (h : exeBase hx enc tpl key ver files = exeBase hx enc tpl' key ver' files') :
    (files ++ [tpl]).Perm (files' ++ [tpl']) ∧ ver = ver' := by
  unfold exeBase at h
  have ht := encInj _ _ (hinj _ _ hUt.1 hUt.2 h)
  unfold exeText at ht
  rw [hkey] at ht
  simp only [List.append_assoc, List.cons_append] at ht
  have blocks : ∀ (l : List String), (∀ s ∈ l, ∃ b, s = hx b) →
      ∀ x ∈ (sortStrings l).map String.toList, x.length = 40 ∧ k0 ∉ x := by
    intro l hl x hx'
    simp only [List.mem_map] at hx'
    obtain ⟨s, hs, rfl⟩ := hx'
    obtain ⟨b, rfl⟩ := hl s ((sortStrings_perm_self l).mem_iff.mp hs)
    exact ⟨hlen b, hk b⟩
  have isH : ∀ (fs : List B) (t : B), ∀ s ∈ fs.map hx ++ [hx t], ∃ b, s = hx b := by
    intro fs t s hs
    simp only [List.mem_append, List.mem_map, List.mem_singleton] at hs
    rcases hs with ⟨b, _, rfl⟩ | rfl
    · exact ⟨b, rfl⟩
    · exact ⟨t, rfl⟩
  obtain ⟨hb, hv⟩ := decode 40 (by omega) k0 _ _ _ _ (blocks _ (isH files tpl)) (blocks _ (isH files' tpl')) ht
  have hs : sortStrings (files.map hx ++ [hx tpl]) = sortStrings (files'.map hx ++ [hx tpl']) := by
    have := congrArg (List.map String.ofList) hb
    simpa [List.map_map, Function.comp_def] using this
  have hperm : (files.map hx ++ [hx tpl]).Perm (files'.map hx ++ [hx tpl']) :=
    (sortStrings_perm_self _).symm.trans (hs ▸ sortStrings_perm_self _)
  constructor
  · have e1 : files.map hx ++ [hx tpl] = (files ++ [tpl]).map hx := by simp
    have e2 : files'.map hx ++ [hx tpl'] = (files' ++ [tpl']).map hx := by simp
    rw [e1, e2] at hperm
    -- hx is injective on everything in sight, so the permutation of the images is one of the arguments
    refine perm_of_map_perm hx U hinj _ _ (fun b hb => hU b ?_) (fun b hb => hU b ?_) hperm
    · simp only [List.mem_append, List.mem_singleton] at hb ⊢
      rcases hb with h | h
      · exact Or.inl (Or.inl (Or.inl h))
      · exact Or.inl (Or.inl (Or.inr h))
    · simp only [List.mem_append, List.mem_singleton] at hb ⊢
      rcases hb with h | h
      · exact Or.inl (Or.inr h)
      · exact Or.inr h
  · have := List.append_cancel_left (as := krest) hv
    exact String.ext this


/-- the hash used by the code has the shape the decoding argument needs: 40 characters, none of them `v` (the first
character of the rebuild key "v0.3") -/
theorem sha1_shape (b : ByteArray) : (Sha1.hexSum b).toList.length = 40 ∧ 'v' ∉ (Sha1.hexSum b).toList := by
  have hl : (Sha1.sum b).length = 20 := Sha1.sum_length b
  constructor
  · simp only [Sha1.hexSum, Sha1.hex, String.toList_ofList]
    have : ∀ l : List UInt8, (l.flatMap fun b => [Sha1.hexDigit (b.toNat / 16), Sha1.hexDigit (b.toNat % 16)]).length = 2 * l.length := by
      intro l; induction l with
      | nil => rfl
      | cons a as ih => simp only [List.flatMap_cons, List.length_append, ih, List.length_cons, List.length_nil]; omega
    rw [this, hl]
  · simp only [Sha1.hexSum, Sha1.hex, String.toList_ofList, List.mem_flatMap, not_exists, not_and]
    intro x _ hv
    have hd : ∀ n, n < 16 → Sha1.hexDigit n ≠ 'v' := by decide
    simp only [List.mem_cons, List.not_mem_nil, or_false] at hv
    rcases hv with h | h
    · exact hd _ (by have := x.toNat_lt; omega) h.symm
    · exact hd _ (by omega) h.symm

/-! ## 2. every run executes a program built from the current contents, after any history -/
variable {Src : Type}

theorem runCompiled_world (runBin : Src → Int) (F : Faults) (w : World Src) (exe : Nat) :
    (runCompiled runBin F w exe).world = w := by
  unfold runCompiled; split
  · rfl
  · split <;> rfl

theorem runCompiled_ran (runBin : Src → Int) (F : Faults) (w : World Src) (exe : Nat) (s : Src)
    (h : (runCompiled runBin F w exe).ran = some s) : w.cache exe = some s := by
  unfold runCompiled at h
  split at h
  · cases h
  · split at h
    · cases h
    · rename_i s' hs _; simp only [Option.some.injEq] at h; rw [← h]; exact hs

theorem sound_cleanup {name : Src → Nat} (r : Run Src) {w : World Src} (h : CacheSound name w) : CacheSound name (cleanup r w) := by
  unfold cleanup; split
  · exact h
  · exact h.setMain _ _

theorem sound_deferred {name : Src → Nat} (cfg : Cfg) (r : Run Src) (e : Bool) {w : World Src} (h : CacheSound name w) :
    CacheSound name (deferred cfg r e w) := by
  unfold deferred; split
  · exact h
  · exact sound_cleanup r h

theorem sound_built {name : Src → Nat} (cfg : Cfg) (r : Run Src) (hc : r.compileOut = none) {w : World Src}
    (h : CacheSound name w) : CacheSound name (built cfg name r w) := by
  have he : Invoke.exePath name r = name r.src := by simp [Invoke.exePath, hc]
  unfold built
  rw [he]
  split
  · exact sound_cleanup r ((h.setMain _ _).setExe _)
  · exact (h.setMain _ _).setExe _

/-- the cache invariant survives every invocation, whatever fails in it -/
theorem invoke_sound (name : Src → Nat) (runBin : Src → Int) (r : Run Src) (F : Faults) (w : World Src)
    (hs : CacheSound name w) (hc : r.compileOut = none) :
    CacheSound name (invoke Cfg.fixed name runBin r F w).world := by
  unfold invoke
  split; · exact hs
  split; · exact hs
  split; · exact hs
  split; · exact hs
  split; · rw [runCompiled_world]; exact hs
  split; · exact hs
  unfold buildAndRun
  split
  · exact sound_deferred _ _ _ hs
  · exact sound_deferred _ _ _ (hs.setMain _ _)
  · exact sound_deferred _ _ _ (hs.setMain _ _)
  · exact sound_deferred _ _ _ (hs.setMain _ _)
  · split
    · exact sound_deferred _ _ _ (hs.setMain _ _)
    · split
      · exact sound_deferred _ _ _ (sound_built _ r hc hs)
      · simp only [runCompiled_world]
        exact sound_deferred _ _ _ (sound_built _ r hc hs)

/-- **Never a binary built from other contents**: whatever an invocation starts was built from the current magefile
contents — in the default mode, in hash mode (reuse), with `-f`, and under every fault vector. -/
theorem invoke_ran_current (name : Src → Nat) (hinj : ∀ a b, name a = name b → a = b) (runBin : Src → Int) (r : Run Src)
    (F : Faults) (w : World Src) (hs : CacheSound name w) (hc : r.compileOut = none) (s : Src)
    (h : (invoke Cfg.fixed name runBin r F w).ran = some s) : s = r.src := by
  have he : Invoke.exePath name r = name r.src := by simp [Invoke.exePath, hc]
  unfold invoke at h
  split at h; · cases h
  split at h; · cases h
  split at h; · cases h
  split at h; · cases h
  split at h
  · have := runCompiled_ran _ _ _ _ _ h
    rw [he] at this
    exact hinj _ _ (hs _ _ this).symm
  split at h; · cases h
  unfold buildAndRun at h
  split at h
  · cases h
  · cases h
  · cases h
  · cases h
  · split at h
    · cases h
    · split at h
      · cases h
      · simp only [] at h
        have := runCompiled_ran _ _ _ _ _ h
        rw [built_cache_exe] at this
        simp only [Option.some.injEq] at this
        exact this.symm

/-- **`-f` always recompiles**, and so does the default mode (Go build cache present, MAGEFILE_HASHFAST off) -/
theorem force_rebuilds (name : Src → Nat) (runBin : Src → Int) (r : Run Src) (w : World Src)
    (h : r.force = true ∨ rebuildAlways r = true) : (invoke Cfg.fixed name runBin r Faults.none w).built = true := by
  have hnot : (!rebuildAlways r && (w.cache (Invoke.exePath name r)).isSome && !r.force) = false := by
    rcases h with a | a <;> simp [a]
  unfold invoke
  simp only [Faults.none, Cfg.fixed, hnot, Bool.false_or, Bool.not_true, Bool.false_and, Bool.false_eq_true, if_false,
    Bool.and_false, buildAndRun]
  split <;> rfl

/-- **hash mode reuses** an existing binary of the right name without compiling (and it is the right binary) -/
theorem hash_mode_reuses (name : Src → Nat) (hinj : ∀ a b, name a = name b → a = b) (runBin : Src → Int) (r : Run Src)
    (w : World Src) (hs : CacheSound name w) (hc : r.compileOut = none)
    (hm : r.hashFast = true) (hf : r.force = false) (he : (w.cache (name r.src)).isSome = true) :
    (invoke Cfg.fixed name runBin r Faults.none w).built = false ∧
    (invoke Cfg.fixed name runBin r Faults.none w).ran = some r.src := by
  have hexe : Invoke.exePath name r = name r.src := by simp [Invoke.exePath, hc]
  obtain ⟨s, hsome⟩ := Option.isSome_iff_exists.mp he
  have hss : s = r.src := hinj _ _ (hs _ _ hsome).symm
  unfold invoke
  simp [Faults.none, Cfg.fixed, hc, hexe, rebuildAlways, hm, hf, he, runCompiled, hsome, hss]

/-! ### histories -/

/-- what can happen to a magefile directory and its cache between and during invocations -/
inductive Op (Src : Type) where
  | edit (s : Src)                         -- any change of the magefiles: edit, add, remove, rename, revert
  | clean (removed : Nat → Bool)           -- `mage -clean` (or a failing one: any subset of the entries disappears)
  | run (keep force hashFast goCache : Bool) (F : Faults)

def runHist (name : Src → Nat) (runBin : Src → Int) (dir : Nat) : List (Op Src) → Src → World Src → List (Src × Res Src)
  | [], _, _ => []
  | .edit s :: rest, _, w => runHist name runBin dir rest s w
  | .clean rm :: rest, cur, w => runHist name runBin dir rest cur { w with cache := fun p => if rm p then none else w.cache p }
  | .run k f h g F :: rest, cur, w =>
    let res := invoke Cfg.fixed name runBin { dir := dir, src := cur, keep := k, force := f, hashFast := h, goCache := g } F w
    (cur, res) :: runHist name runBin dir rest cur res.world

/-- **After any history of edits, cleans and runs — in both cache modes, with or without `-f`, whatever failed in
earlier runs — every run that starts a program starts one compiled from the contents current at that moment.** -/
theorem fresh (name : Src → Nat) (hinj : ∀ a b, name a = name b → a = b) (runBin : Src → Int) (dir : Nat)
    (ops : List (Op Src)) (cur : Src) (w : World Src) (hs : CacheSound name w) :
    ∀ p ∈ runHist name runBin dir ops cur w, ∀ s, p.2.ran = some s → s = p.1 := by
  induction ops generalizing cur w with
  | nil => intro p hp; cases hp
  | cons op rest ih =>
    cases op with
    | edit s => exact ih s w hs
    | clean rm =>
      apply ih
      intro p s h
      simp only [] at h
      split at h
      · cases h
      · exact hs p s h
    | run k f h g F =>
      intro p hp s hran
      simp only [runHist, List.mem_cons] at hp
      rcases hp with rfl | hp
      · exact invoke_ran_current name hinj runBin _ F w hs rfl s hran
      · exact ih cur _ (invoke_sound name runBin _ F w hs rfl) p hp s hran

/-- in a fault-free run something *is* started, so the statement above is not vacuous -/
theorem fault_free_run_starts (name : Src → Nat) (hinj : ∀ a b, name a = name b → a = b) (runBin : Src → Int) (r : Run Src)
    (w : World Src) (hs : CacheSound name w) (hc : r.compileOut = none) :
    (invoke Cfg.fixed name runBin r Faults.none w).ran = some r.src := by
  have hexe : Invoke.exePath name r = name r.src := by simp [Invoke.exePath, hc]
  unfold invoke
  simp only [Faults.none, Cfg.fixed, hc, hexe, Option.isNone_none, Bool.false_or, Bool.not_true, Bool.false_and,
    Bool.false_eq_true, if_false, Bool.and_false]
  split
  · rename_i h
    simp only [Bool.and_eq_true, Option.isSome_iff_exists] at h
    obtain ⟨⟨_, s, hsome⟩, _⟩ := h
    have : s = r.src := hinj _ _ (hs _ _ hsome).symm
    simp [runCompiled, hsome, this]
  · simp [buildAndRun, runCompiled, hc, ← hexe]

/-! ## 3. one location -/

/-- the cache path is absolute as soon as the start directory is, so the three places that use it — the existence
test in mage's own directory, `go build -o` in the `-d` directory, the exec in the `-w` directory — mean the same file -/
theorem one_location (startCwd cacheDir base : String) (d1 d2 : String)
    (h : Paths.isAbs (Cache.exePath startCwd cacheDir base) = true) :
    Paths.absFrom d1 (Cache.exePath startCwd cacheDir base) = Paths.absFrom d2 (Cache.exePath startCwd cacheDir base) := by
  simp [Paths.absFrom, h]

example : Cache.exePath "/start" "cache" "abc" = "/start/cache/abc" := by decide
example : Paths.isAbs (Cache.exePath "/start" "../c" "abc") = true := by decide
/-- the defect this replaces (D9): a relative cache directory used verbatim means different files in different directories -/
example : Paths.absFrom "/start/proj" (Paths.join "cache" "abc") ≠ Paths.absFrom "/start/work" (Paths.join "cache" "abc") := by decide

end MageModel.Props.C08
