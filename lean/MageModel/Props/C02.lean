import MageModel.Props.C01
import MageModel.Deps.Live
/-!
# C02 — Deps calls return only after all their dependencies have finished
Every program, every schedule.  `log = later ++ e :: earlier` (newest first).
-/
namespace MageModel.Props.C02
open MageModel.Deps

/-- **Barrier**: when a call returns or panics, every dependency it reached has already *stopped* — no matter
whether this call, an earlier call or a concurrent call started it. -/
theorem barrier (p : Prog) (roots : List Nat) (sched : List Agent)
    (later earlier : List Event) (e : Event) (c : CallId) (reached : List Key)
    (hlog : (reach p roots sched).log = later ++ e :: earlier)
    (he : e = .ret c reached ∨ ∃ code msgs, e = .pan c reached code msgs) :
    ∀ k ∈ reached, ∃ r, Event.stop k r ∈ earlier := by
  intro k hk
  have hgood := (reach_inv p roots sched).2.good
  rw [hlog] at hgood
  rcases he with he | ⟨code, msgs, he⟩
  · subst he; exact ⟨none, (GoodLog.at hgood).1.1 k hk⟩
  · subst he; exact (GoodLog.at hgood).1.1 k hk

/-- **Also on the failure path**: a panicking parallel call has waited for *all* listed dependencies, including
the ones that were still running when a sibling failed. -/
theorem barrier_on_failure (p : Prog) (roots : List Nat) (sched : List Agent)
    (later earlier : List Event) (c : CallId) (reached : List Key) (code : Int) (msgs : List String) (cs : CallSpec)
    (hlog : (reach p roots sched).log = later ++ Event.pan c reached code msgs :: earlier)
    (hc : (p c.owner).calls[c.idx]? = some cs) (hpar : cs.serial = false) :
    ∀ k ∈ cs.keys, ∃ r, Event.stop k r ∈ earlier := by
  have h1 := (C01.pan_reached p roots sched later earlier c reached code msgs cs hlog hc).1 hpar
  subst h1
  exact barrier p roots sched later earlier _ c cs.keys hlog (Or.inr ⟨code, msgs, rfl⟩)

/-- **No overlap**: after the call ended, no reached dependency starts (again): code after a Deps call never
overlaps with a dependency named in it. -/
theorem no_start_after_end (p : Prog) (roots : List Nat) (sched : List Agent)
    (later earlier : List Event) (e : Event) (c : CallId) (reached : List Key)
    (hlog : (reach p roots sched).log = later ++ e :: earlier)
    (he : e = .ret c reached ∨ ∃ code msgs, e = .pan c reached code msgs) :
    ∀ k ∈ reached, Event.start k ∉ later := by
  intro k hk hmem
  have := (C01.exactly_once_at_end p roots sched later earlier e c reached hlog he k hk).2
  rw [starts_append] at this
  have hp := starts_pos_of_mem hmem
  omega

private theorem split_cases {α} : ∀ (a c : List α) (x y : α) (b d : List α), a ++ x :: b = c ++ y :: d →
    (∃ m, c = a ++ x :: m ∧ b = m ++ y :: d) ∨ (a = c ∧ x = y ∧ b = d) ∨ (∃ m, a = c ++ y :: m ∧ d = m ++ x :: b)
  | [], [], x, y, b, d, h => by simp at h; exact Or.inr (Or.inl ⟨rfl, h.1, h.2⟩)
  | [], c0 :: c, x, y, b, d, h => by
    simp at h; obtain ⟨h1, h2⟩ := h; subst h1
    exact Or.inl ⟨c, by simp, h2⟩
  | a0 :: a, [], x, y, b, d, h => by
    simp at h; obtain ⟨h1, h2⟩ := h; subst h1
    exact Or.inr (Or.inr ⟨a, by simp, h2.symm⟩)
  | a0 :: a, c0 :: c, x, y, b, d, h => by
    simp at h; obtain ⟨h1, h2⟩ := h; subst h1
    rcases split_cases a c x y b d h2 with ⟨m, hm1, hm2⟩ | ⟨h3, h4, h5⟩ | ⟨m, hm1, hm2⟩
    · exact Or.inl ⟨m, by simp [hm1], hm2⟩
    · exact Or.inr (Or.inl ⟨by simp [h3], h4, h5⟩)
    · exact Or.inr (Or.inr ⟨m, by simp [hm1], hm2⟩)

/-- **… together with everything that dependency itself waited on**: when a call ends, every call that a dependency
it reached had made as owner has ended *before*, and everything *that* call reached has stopped before — so the
barrier extends down the whole dependency tree (apply repeatedly). -/
theorem barrier_transitive (p : Prog) (roots : List Nat) (sched : List Agent)
    (later earlier : List Event) (e : Event) (c : CallId) (reached : List Key)
    (hlog : (reach p roots sched).log = later ++ e :: earlier)
    (he : e = .ret c reached ∨ ∃ code msgs, e = .pan c reached code msgs)
    (k : Key) (hk : k ∈ reached)
    (e' : Event) (c' : CallId) (reached' : List Key) (hown : c'.owner = .key k)
    (he' : e' = .ret c' reached' ∨ ∃ code msgs, e' = .pan c' reached' code msgs)
    (hmem : e' ∈ (reach p roots sched).log) :
    e' ∈ earlier ∧ ∀ k' ∈ reached', ∃ r, Event.stop k' r ∈ earlier := by
  obtain ⟨r, hstop⟩ := barrier p roots sched later earlier e c reached hlog he k hk
  obtain ⟨pre, post, hsplit⟩ := mem_split hmem
  have hlive : LiveEvent e' post := by
    have := reach_live p roots sched
    rw [hsplit] at this
    exact (LiveLog.suffix this).1
  have hnot : Event.stop k r ∉ post := by
    rcases he' with he' | ⟨code, msgs, he'⟩ <;> subst he' <;> exact hlive k hown r
  rw [hlog] at hsplit
  rcases split_cases later pre e e' earlier post hsplit with ⟨m, hm1, hm2⟩ | ⟨_, _, h5⟩ | ⟨m, _, hm2⟩
  · refine ⟨by rw [hm2]; simp, ?_⟩
    intro k' hk'
    have hlog' : (reach p roots sched).log = pre ++ e' :: post := by rw [hlog, hsplit]
    obtain ⟨r', hr'⟩ := barrier p roots sched pre post e' c' reached' hlog' he' k' hk'
    exact ⟨r', by rw [hm2]; exact List.mem_append_right _ (List.mem_cons_of_mem _ hr')⟩
  · exact absurd (h5 ▸ hstop) hnot
  · exact absurd (by rw [hm2]; exact List.mem_append_right _ (List.mem_cons_of_mem _ hstop)) hnot

/-- the stop of a dependency is logged once its once-cell is done, and the cell never changes afterwards -/
theorem stopped_is_done (p : Prog) (roots : List Nat) (sched : List Agent) (k : Key) (r : Res)
    (h : Event.stop k r ∈ (reach p roots sched).log) : (reach p roots sched).cell k = .done r r :=
  (reach_inv p roots sched).2.stopCell k r h

/-! ### the hypothesis matters: without the WaitGroup barrier the call ends while a sibling still runs -/
namespace Mutant
def cfgEarly : Cfg := { Cfg.fixed with waitAll := false }
def prog : Prog := fun o => match o with
  | .root 0 => ⟨[⟨false, [1, 2]⟩], .ok⟩
  | .key 1 => ⟨[], .err 1 "boom"⟩
  | _ => ⟨[], .ok⟩
/-- key 2 is started and held; key 1 fails; the owner panics although key 2 has not stopped -/
def sched : List Agent :=
  [.owner (.root 0), .site (.root 0) 0, .site (.root 0) 1, .owner (.key 1), .site (.root 0) 0, .owner (.root 0)]
theorem panics_early :
    (run cfgEarly prog (State.init [0]) sched).log.head? = some (.pan ⟨.root 0, 0⟩ [1, 2] 1 ["boom"]) ∧
    (run cfgEarly prog (State.init [0]) sched).cell 2 = .running := by decide
/-- under the current source the same schedule leaves the owner waiting -/
theorem fixed_waits : (run Cfg.fixed prog (State.init [0]) sched).body (.root 0) ≠ .ended (panicOut [(1, "boom")]) := by decide
end Mutant

example : Event.pan ⟨.root 0, 0⟩ [1, 2] 1 ["boom"] ∈
    (reach Mutant.prog [0] (Mutant.sched ++ [.owner (.key 2), .site (.root 0) 1, .owner (.root 0)])).log := by decide

/-! non-vacuity of `barrier_transitive`: a root needing 1, which needs 2 — both calls end, in the order the theorem says -/
namespace Nested
def prog : Prog := fun o => match o with
  | .root 0 => ⟨[⟨false, [1]⟩], .ok⟩
  | .key 1 => ⟨[⟨false, [2]⟩], .ok⟩
  | _ => ⟨[], .ok⟩
def sched : List Agent :=
  [.owner (.root 0), .site (.root 0) 0, .owner (.key 1), .site (.key 1) 0, .owner (.key 2), .site (.key 1) 0,
   .owner (.key 1), .owner (.key 1), .site (.root 0) 0, .owner (.root 0)]
example : Event.ret ⟨.root 0, 0⟩ [1] ∈ (reach prog [0] sched).log ∧ Event.ret ⟨.key 1, 0⟩ [2] ∈ (reach prog [0] sched).log := by
  decide
end Nested

end MageModel.Props.C02
