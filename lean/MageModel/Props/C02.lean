import MageModel.Props.C01
/-!
# C02 — Deps calls return only after all their dependencies have finished
Every program, every schedule.  `log = later ++ e :: earlier` (newest first).
-/
namespace MageModel.Props.C02
open MageModel.Deps

/-- **Barrier**: when a call returns or panics, every dependency it reached has already *stopped* — no matter
whether this call, an earlier call or a concurrent call started it. -/
theorem barrier (p : Prog) (roots : List Nat) (sched : List Agent)
    (later earlier : List Event) (e : Event) (c : CallId) (reached : List Key)
    (hlog : (reach p roots sched).log = later ++ e :: earlier)
    (he : e = .ret c reached ∨ ∃ code msgs, e = .pan c reached code msgs) :
    ∀ k ∈ reached, ∃ r, Event.stop k r ∈ earlier := by
  intro k hk
  have hgood := (reach_inv p roots sched).2.good
  rw [hlog] at hgood
  rcases he with he | ⟨code, msgs, he⟩
  · subst he; exact ⟨none, (GoodLog.at hgood).1.1 k hk⟩
  · subst he; exact (GoodLog.at hgood).1.1 k hk

/-- **Also on the failure path**: a panicking parallel call has waited for *all* listed dependencies, including
the ones that were still running when a sibling failed. -/
theorem barrier_on_failure (p : Prog) (roots : List Nat) (sched : List Agent)
    (later earlier : List Event) (c : CallId) (reached : List Key) (code : Int) (msgs : List String) (cs : CallSpec)
    (hlog : (reach p roots sched).log = later ++ Event.pan c reached code msgs :: earlier)
    (hc : (p c.owner).calls[c.idx]? = some cs) (hpar : cs.serial = false) :
    ∀ k ∈ cs.keys, ∃ r, Event.stop k r ∈ earlier := by
  have h1 := (C01.pan_reached p roots sched later earlier c reached code msgs cs hlog hc).1 hpar
  subst h1
  exact barrier p roots sched later earlier _ c cs.keys hlog (Or.inr ⟨code, msgs, rfl⟩)

/-- **No overlap**: after the call ended, no reached dependency starts (again): code after a Deps call never
overlaps with a dependency named in it. -/
theorem no_start_after_end (p : Prog) (roots : List Nat) (sched : List Agent)
    (later earlier : List Event) (e : Event) (c : CallId) (reached : List Key)
    (hlog : (reach p roots sched).log = later ++ e :: earlier)
    (he : e = .ret c reached ∨ ∃ code msgs, e = .pan c reached code msgs) :
    ∀ k ∈ reached, Event.start k ∉ later := by
  intro k hk hmem
  have := (C01.exactly_once_at_end p roots sched later earlier e c reached hlog he k hk).2
  rw [starts_append] at this
  have hp := starts_pos_of_mem hmem
  omega

/-- the stop of a dependency is logged once its once-cell is done, and the cell never changes afterwards -/
theorem stopped_is_done (p : Prog) (roots : List Nat) (sched : List Agent) (k : Key) (r : Res)
    (h : Event.stop k r ∈ (reach p roots sched).log) : (reach p roots sched).cell k = .done r r :=
  (reach_inv p roots sched).2.stopCell k r h

/-! ### the hypothesis matters: without the WaitGroup barrier the call ends while a sibling still runs -/
namespace Mutant
def cfgEarly : Cfg := { Cfg.fixed with waitAll := false }
def prog : Prog := fun o => match o with
  | .root 0 => ⟨[⟨false, [1, 2]⟩], .ok⟩
  | .key 1 => ⟨[], .err 1 "boom"⟩
  | _ => ⟨[], .ok⟩
/-- key 2 is started and held; key 1 fails; the owner panics although key 2 has not stopped -/
def sched : List Agent :=
  [.owner (.root 0), .site (.root 0) 0, .site (.root 0) 1, .owner (.key 1), .site (.root 0) 0, .owner (.root 0)]
theorem panics_early :
    (run cfgEarly prog (State.init [0]) sched).log.head? = some (.pan ⟨.root 0, 0⟩ [1, 2] 1 ["boom"]) ∧
    (run cfgEarly prog (State.init [0]) sched).cell 2 = .running := by decide
/-- under the current source the same schedule leaves the owner waiting -/
theorem fixed_waits : (run Cfg.fixed prog (State.init [0]) sched).body (.root 0) ≠ .ended (panicOut [(1, "boom")]) := by decide
end Mutant

example : Event.pan ⟨.root 0, 0⟩ [1, 2] 1 ["boom"] ∈
    (reach Mutant.prog [0] (Mutant.sched ++ [.owner (.key 2), .site (.root 0) 1, .owner (.root 0)])).log := by decide

end MageModel.Props.C02
