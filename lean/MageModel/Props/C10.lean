import MageModel.Invoke.Select
import MageModel.Invoke.BuildEnv
/-!
# C10 — only files that require the mage build tag are compiled as magefiles
All directories (any files, any constraint expressions, any names), all platforms, all caller environments.
-/
namespace MageModel.Props.C10
open MageModel.Invoke.Select MageModel.Invoke MageModel.Gen.Flags

/-! ## the selection is exactly "satisfied with the mage tag and not without it" -/

theorem mem_listGo (p : Plat) (tags : List String) (files : List File) (n : String) :
    n ∈ listGo p tags files ↔ ∃ f ∈ files, f.name = n ∧ sat p tags f = true := by
  simp only [listGo, List.mem_map, List.mem_filter]
  constructor
  · rintro ⟨f, ⟨hf, hs⟩, rfl⟩; exact ⟨f, hf, rfl, hs⟩
  · rintro ⟨f, hf, rfl, hs⟩; exact ⟨f, ⟨hf, hs⟩, rfl⟩

/-- **Ordinary directory**: a name is a magefile iff some file of that name is satisfied with the `mage` tag set
and no file of that name is satisfied without it. -/
theorem selection_spec (p : Plat) (files : List File) (n : String) :
    n ∈ magefiles p files false ↔
      (∃ f ∈ files, f.name = n ∧ sat p ["mage"] f = true) ∧ ¬ (∃ g ∈ files, g.name = n ∧ sat p [""] g = true) := by
  simp only [magefiles, Bool.false_eq_true, if_false, List.mem_filter, mem_listGo, Bool.not_eq_true',
    List.contains_eq_mem, decide_eq_false_iff_not]

/-- with distinct file names (a directory): exactly the files satisfied with the tag and not without -/
theorem selection_spec_file (p : Plat) (files : List File) (f : File) (hf : f ∈ files)
    (huniq : ∀ g ∈ files, g.name = f.name → g = f) :
    f.name ∈ magefiles p files false ↔ (sat p ["mage"] f = true ∧ sat p [""] f = false) := by
  rw [selection_spec]
  constructor
  · rintro ⟨⟨g, hg, hn, hs⟩, hno⟩
    have := huniq g hg hn; subst this
    refine ⟨hs, ?_⟩
    cases h : sat p [""] g with
    | false => rfl
    | true => exact absurd ⟨g, hg, rfl, h⟩ hno
  · rintro ⟨h1, h2⟩
    refine ⟨⟨f, hf, rfl, h1⟩, ?_⟩
    rintro ⟨g, hg, hn, hs⟩
    have := huniq g hg hn; subst this
    rw [h2] at hs; cases hs

/-- **`magefiles` directory**: every file satisfied with the mage tag set is used, tagged or not -/
theorem magefiles_dir_all (p : Plat) (files : List File) (n : String) :
    n ∈ magefiles p files true ↔ ∃ f ∈ files, f.name = n ∧ sat p ["mage"] f = true := by
  simp only [magefiles, if_true, mem_listGo]

/-! ## files that do not mention `mage` are never magefiles -/

def tagsOf : Expr → List String
  | .tag t => [t]
  | .not e => tagsOf e
  | .and a b => tagsOf a ++ tagsOf b
  | .or a b => tagsOf a ++ tagsOf b

theorem tagTrue_irrelevant (p : Plat) (t : String) (h1 : t ≠ "mage") (h2 : t ≠ "") :
    tagTrue p ["mage"] t = tagTrue p [""] t := by
  simp [tagTrue, h1, h2]

theorem eval_irrelevant (p : Plat) (e : Expr) (h : ∀ t ∈ tagsOf e, t ≠ "mage" ∧ t ≠ "") :
    eval p ["mage"] e = eval p [""] e := by
  induction e with
  | tag t => exact tagTrue_irrelevant p t (h t (by simp [tagsOf])).1 (h t (by simp [tagsOf])).2
  | not e ih => simp only [eval]; rw [ih h]
  | and a b iha ihb =>
    simp only [eval]
    rw [iha (fun t ht => h t (by simp [tagsOf, ht])), ihb (fun t ht => h t (by simp [tagsOf, ht]))]
  | or a b iha ihb =>
    simp only [eval]
    rw [iha (fun t ht => h t (by simp [tagsOf, ht])), ihb (fun t ht => h t (by simp [tagsOf, ht]))]

/-- the platform suffix of a file name only ever names operating systems and architectures -/
theorem nameTags_known (name : String) : ∀ t ∈ nameTags name, knownOS.contains t = true ∨ knownArch.contains t = true := by
  intro t ht
  unfold nameTags at ht
  simp only [] at ht
  split at ht
  · cases ht
  · split at ht
    · split at ht
      · rename_i h
        simp only [Bool.and_eq_true] at h
        simp only [List.mem_cons, List.not_mem_nil, or_false] at ht
        rcases ht with rfl | rfl
        · exact Or.inr h.2
        · exact Or.inl h.1
      · split at ht
        · rename_i h
          simp only [List.mem_cons, List.not_mem_nil, or_false] at ht
          subst ht
          simpa using h
        · cases ht
    · split at ht
      · rename_i h
        simp only [List.mem_cons, List.not_mem_nil, or_false] at ht
        subst ht
        simpa using h
      · cases ht
    · cases ht

theorem known_not_mage (t : String) (h : knownOS.contains t = true ∨ knownArch.contains t = true) : t ≠ "mage" ∧ t ≠ "" := by
  constructor
  · rintro rfl; revert h; decide
  · rintro rfl; revert h; decide

theorem all_congr' {α} (l : List α) (f g : α → Bool) (h : ∀ t ∈ l, f t = g t) : l.all f = l.all g := by
  induction l with
  | nil => rfl
  | cons a rest ih =>
    simp only [List.all_cons]
    rw [h a (by simp), ih (fun t ht => h t (by simp [ht]))]

theorem sat_irrelevant (p : Plat) (f : File)
    (h : ∀ e, f.constraint = some e → ∀ t ∈ tagsOf e, t ≠ "mage" ∧ t ≠ "") : sat p ["mage"] f = sat p [""] f := by
  unfold sat
  have hn : (nameTags f.name).all (tagTrue p ["mage"]) = (nameTags f.name).all (tagTrue p [""]) := by
    apply all_congr'
    intro t ht
    have := known_not_mage t (nameTags_known f.name t ht)
    exact tagTrue_irrelevant p t this.1 this.2
  rw [hn]
  cases hc : f.constraint with
  | none => rfl
  | some e => simp only []; rw [eval_irrelevant p e (h e hc)]

/-- **A file whose constraints do not mention `mage` (or that has none) is never a magefile of an ordinary
directory** — whatever else its constraints say, on every platform. -/
theorem untagged_never (p : Plat) (files : List File) (f : File) (hf : f ∈ files)
    (huniq : ∀ g ∈ files, g.name = f.name → g = f)
    (h : ∀ e, f.constraint = some e → ∀ t ∈ tagsOf e, t ≠ "mage" ∧ t ≠ "") :
    f.name ∉ magefiles p files false := by
  rw [selection_spec_file p files f hf huniq, sat_irrelevant p f h]
  rintro ⟨h1, h2⟩
  rw [h1] at h2; cases h2

/-- test files, hidden files and non-Go files are never magefiles, in either kind of directory -/
theorem test_hidden_never (p : Plat) (files : List File) (f : File) (hf : f ∈ files)
    (huniq : ∀ g ∈ files, g.name = f.name → g = f) (isMfDir : Bool)
    (h : isTest f = true ∨ goodName f = false) : f.name ∉ magefiles p files isMfDir := by
  have hs : ∀ tags, sat p tags f = false := by
    intro tags
    unfold sat
    rcases h with h | h <;> simp [h]
  cases isMfDir with
  | true =>
    rw [magefiles_dir_all]
    rintro ⟨g, hg, hn, hsat⟩
    have := huniq g hg hn; subst this
    rw [hs] at hsat; cases hsat
  | false =>
    rw [selection_spec_file p files f hf huniq, hs]
    rintro ⟨h1, _⟩; cases h1

/-- a file constrained by exactly `mage` (and without a platform suffix) is a magefile on every platform -/
theorem plain_mage_file_always (p : Plat) (files : List File) (f : File) (hf : f ∈ files)
    (huniq : ∀ g ∈ files, g.name = f.name → g = f)
    (hc : f.constraint = some (.tag "mage")) (hg : goodName f = true) (ht : isTest f = false) (hn : nameTags f.name = [])
    (hp : p.os ≠ "mage" ∧ p.arch ≠ "mage") :
    f.name ∈ magefiles p files false := by
  rw [selection_spec_file p files f hf huniq]
  unfold sat
  simp only [hg, hn, ht, hc, eval, tagTrue, List.all_nil, Bool.true_and, Bool.not_false, Bool.and_true]
  have h1 : ("mage" == p.os) = false := by simpa using fun h => hp.1 h.symm
  have h2 : ("mage" == p.arch) = false := by simpa using fun h => hp.2 h.symm
  have h3 : ¬ "mage" ∈ releaseTags p.releaseMinor := by
    simp only [releaseTags, List.mem_map, List.mem_range, not_exists, not_and]
    intro i _ h
    have : ("go1." ++ toString (i + 1)).toList.head? = "mage".toList.head? := by rw [h]
    simp at this
  simp [h1, h2, h3, unixOS]

/-! ## the magefiles directory is used exactly when the directory itself has no magefiles -/

theorem choose_rule (p : Plat) (d : DirState) :
    ((choose p d).usesMagefilesDir = true ↔ ∃ sf, d.sub = some sf ∧ (d.broken = true ∨ magefiles p d.files false = [])) ∧
    (∀ sf, d.sub = some sf → (choose p d).usesMagefilesDir = true → (choose p d).files = magefiles p sf true) ∧
    ((choose p d).usesMagefilesDir = false → (choose p d).files = magefiles p d.files false) := by
  unfold choose
  cases hs : d.sub with
  | none => simp
  | some sf =>
    simp only []
    by_cases hb : d.broken = true
    · simp [hb]
    · by_cases he : (magefiles p d.files false).isEmpty = true
      · simp [hb, he, List.isEmpty_iff.mp he]
      · have : magefiles p d.files false ≠ [] := fun h => he (by simp [h])
        simp [hb, he, this]

/-! ## the platform is the flag's or the host's, never the caller's environment -/

/-- `listGoFiles` reads GOOS and GOARCH from the environment `EnvWithGOOS` built; they are `platOf host goos goarch`
whatever the caller's environment contains and in whatever order the map is iterated — and `Compile` passes the
same environment to `go build`, so `-compile` output is for the same platform. -/
theorem platform_is_flag_or_host (host : Plat) (goos goarch : String) (E L : Env)
    (hp : L.Perm (BuildEnv.goosMap host.os host.arch goos goarch E)) :
    getenv L "GOOS" = (platOf host goos goarch).os ∧ getenv L "GOARCH" = (platOf host goos goarch).arch :=
  BuildEnv.platform_is_flag_or_host host.os host.arch goos goarch E L hp

/-! ## non-vacuity: a directory with every kind of file -/
def linux : Plat := { os := "linux", arch := "amd64" }
def exDir : List File :=
  [ ⟨"a.go", some (.tag "mage"), "main"⟩,
    ⟨"b.go", none, "main"⟩,
    ⟨"c_windows.go", some (.tag "mage"), "main"⟩,
    ⟨"d.go", some (.and (.tag "mage") (.not (.tag "windows"))), "main"⟩,
    ⟨"e.go", some (.or (.tag "mage") (.tag "linux")), "main"⟩,      -- satisfied without the tag on linux
    ⟨"f_test.go", some (.tag "mage"), "main"⟩,
    ⟨"_g.go", some (.tag "mage"), "main"⟩,
    ⟨"h.go", some (.tag "ignore"), "main"⟩,
    ⟨"i.go", some (.not (.tag "mage")), "main"⟩ ]
example : magefiles linux exDir false = ["a.go", "d.go"] := by decide
example : magefiles { os := "windows", arch := "amd64" } exDir false = ["a.go", "c_windows.go", "e.go"] := by decide
example : magefiles linux exDir true = ["a.go", "b.go", "d.go", "e.go"] := by decide
example : nameTags "foo_linux_amd64_test.go" = ["amd64", "linux"] := by decide
example : nameTags "linux.go" = [] := by decide
example : nameTags "x.y_linux.go" = [] := by decide

end MageModel.Props.C10
