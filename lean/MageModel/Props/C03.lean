import MageModel.Props.C02
import MageModel.Deps.Exit
import MageModel.Deps.Monitor
import MageModel.Deps.Live
/-!
# C03 — a failed dependency fails every dependent, always
Every program, every failure kind of every node, every schedule — requesters before, while and after the
failing execution are just different schedules.
-/
namespace MageModel.Props.C03
open MageModel.Deps

/-- **A call returns normally only if every dependency it listed succeeded.** -/
theorem returns_only_if_all_ok (p : Prog) (roots : List Nat) (sched : List Agent)
    (later earlier : List Event) (c : CallId) (reached : List Key)
    (hlog : (reach p roots sched).log = later ++ Event.ret c reached :: earlier) :
    ∀ k ∈ reached, Event.stop k none ∈ earlier := by
  have hgood := (reach_inv p roots sched).2.good
  rw [hlog] at hgood
  exact (GoodLog.at hgood).1.1

/-- a dependency has one outcome for everybody: two `stop` records of one key agree -/
theorem outcome_unique (p : Prog) (roots : List Nat) (sched : List Agent) (k : Key) (r r' : Res)
    (h : Event.stop k r ∈ (reach p roots sched).log) (h' : Event.stop k r' ∈ (reach p roots sched).log) : r = r' := by
  have a := (reach_inv p roots sched).2.stopCell k r h
  have b := (reach_inv p roots sched).2.stopCell k r' h'
  rw [a] at b; cases b; rfl

/-- **… (transitively)**: a call returns normally only if, one level down as well, no call made by a dependency it
reached has panicked — a dependency whose own `Deps` call failed has failed itself (`PanStops`), and a returned call
reached only dependencies that succeeded.  Apply repeatedly for the whole tree. -/
theorem returns_only_if_all_ok_transitive (p : Prog) (roots : List Nat) (sched : List Agent)
    (later earlier : List Event) (c : CallId) (reached : List Key)
    (hlog : (reach p roots sched).log = later ++ Event.ret c reached :: earlier)
    (k : Key) (hk : k ∈ reached) (c' : CallId) (hown : c'.owner = .key k) (reached' : List Key) (code : Int) (msgs : List String) :
    Event.pan c' reached' code msgs ∉ (reach p roots sched).log := by
  intro hpan
  obtain ⟨f, hf⟩ := reach_panStops p roots sched c' reached' code msgs k hpan hown
  have hok : Event.stop k none ∈ (reach p roots sched).log := by
    rw [hlog]
    exact List.mem_append_right _ (List.mem_cons_of_mem _ (returns_only_if_all_ok p roots sched later earlier c reached hlog k hk))
  have := outcome_unique p roots sched k none (some f) hok hf
  cases this

/-- **A failed dependency fails every dependent**: if a reached dependency failed — whenever that happened
relative to this call — the call does not return: its end event is a panic. -/
theorem failed_propagates (p : Prog) (roots : List Nat) (sched : List Agent)
    (later earlier : List Event) (c : CallId) (reached : List Key) (k : Key) (f : Int × String)
    (hlog : (reach p roots sched).log = later ++ Event.ret c reached :: earlier)
    (hk : k ∈ reached) : Event.stop k (some f) ∉ (reach p roots sched).log := by
  intro hfail
  have hok := returns_only_if_all_ok p roots sched later earlier c reached hlog k hk
  have hok' : Event.stop k none ∈ (reach p roots sched).log := by
    rw [hlog]; exact List.mem_append_right _ (List.mem_cons_of_mem _ hok)
  have := outcome_unique p roots sched k _ _ hfail hok'
  cases this

/-- **What the propagated failure carries**: there is a non-empty list `fs` of (status, message) pairs,
exactly the failures of the reached dependencies, whose messages are the panic's message lines and whose combined
status is the panic's status. -/
theorem panic_carries (p : Prog) (roots : List Nat) (sched : List Agent)
    (later earlier : List Event) (c : CallId) (reached : List Key) (code : Int) (msgs : List String)
    (hlog : (reach p roots sched).log = later ++ Event.pan c reached code msgs :: earlier) :
    ∃ fs : List (Int × String), fs ≠ [] ∧ code = exitOf fs ∧ msgs = fs.map Prod.snd ∧
      (∀ f ∈ fs, ∃ k ∈ reached, Event.stop k (some f) ∈ earlier) ∧
      (∀ k ∈ reached, ∀ f, Event.stop k (some f) ∈ earlier → f ∈ fs) := by
  have hgood := (reach_inv p roots sched).2.good
  rw [hlog] at hgood
  exact (GoodLog.at hgood).1.2.1

/-- **Status**: all failures carry the same non-zero status ⇒ that status; different non-zero statuses ⇒ 1. -/
theorem panic_status (p : Prog) (roots : List Nat) (sched : List Agent)
    (later earlier : List Event) (c : CallId) (reached : List Key) (code : Int) (msgs : List String)
    (hlog : (reach p roots sched).log = later ++ Event.pan c reached code msgs :: earlier) :
    ∃ fs : List (Int × String), ∃ hne : fs ≠ [], msgs = fs.map Prod.snd ∧
      ((∀ f ∈ fs, f.1 ≠ 0) → code = if fs.all (fun f => f.1 == (fs.head hne).1) then (fs.head hne).1 else 1) := by
  obtain ⟨fs, hne, hcode, hmsgs, _, _⟩ := panic_carries p roots sched later earlier c reached code msgs hlog
  exact ⟨fs, hne, hmsgs, fun h => by rw [hcode]; exact status_rule fs hne h⟩

/-- what each failure kind is worth: returned error / panic with an error → its status; other panic value → 1 -/
theorem failure_kinds (c : Int) (m : String) :
    (Out.err c m).seen = some (c, m) ∧ (Out.panicErr c m).seen = some (c, m) ∧ (Out.panicVal m).seen = some (1, m) ∧
    Out.ok.seen = none := by simp [Out.seen]

/-- the current source remembers every failure kind (this is the D1 fix) -/
theorem fixed_stores_all (o : Out) : Cfg.fixed.stored o = o.seen := stored_fixed o

/-- the monitor's `specExit` (the property's wording) is the implementation's combination rule whenever no
failure carries status 0 -/
theorem spec_status_agrees (fs : List (Int × String)) (h : ∀ f ∈ fs, f.1 ≠ 0) : specExit fs = exitOf fs := by
  cases fs with
  | nil => rfl
  | cons a rest =>
    rw [status_rule (a :: rest) (by simp) h]
    simp only [specExit, List.head_cons, List.all_cons, beq_self_eq_true, Bool.true_and]

/-! ### the pinned tree (D1): a dependency that panicked is remembered as succeeded -/
namespace Pinned
def cfg : Cfg := { Cfg.fixed with storePanic := false }
/-- root 0 → mid(1) → leaf(2, returns an error); later root 1 → mid.  mid *panics* (its Deps call failed). -/
def prog : Prog := fun o => match o with
  | .root 0 => ⟨[⟨false, [1]⟩], .ok⟩
  | .root 1 => ⟨[⟨false, [1]⟩], .ok⟩
  | .key 1 => ⟨[⟨false, [2]⟩], .ok⟩
  | .key 2 => ⟨[], .err 1 "leaf failed"⟩
  | _ => ⟨[], .ok⟩
def sched : List Agent :=
  [.owner (.root 0), .site (.root 0) 0, .owner (.key 1), .site (.key 1) 0, .owner (.key 2), .site (.key 1) 0,
   .owner (.key 1), .site (.root 0) 0, .owner (.root 0),
   -- the late requester
   .owner (.root 1), .site (.root 1) 0, .owner (.root 1)]
/-- on the pinned tree the second dependent *returns* -/
theorem late_requester_returns :
    (run cfg prog (State.init [0, 1]) sched).log.head? = some (.ret ⟨.root 1, 0⟩ [1]) := by decide
/-- on the current source it panics with the same message and status as the first -/
theorem late_requester_fixed :
    (run Cfg.fixed prog (State.init [0, 1]) sched).log.head? = some (.pan ⟨.root 1, 0⟩ [1] 1 ["leaf failed"]) := by decide
end Pinned

/-! ### known finding D2: `mg.Fatal(0, …)` counts as "no failure" in the status combination -/
namespace KnownFinding
theorem fatal_zero_ignored : exitOf [(0, "a"), (5, "b")] = 5 ∧ specExit [(0, "a"), (5, "b")] = 1 ∧
    exitOf [(0, "a"), (0, "b")] = 0 := by decide
end KnownFinding

example : exitOf [(7, "x"), (7, "y")] = 7 ∧ exitOf [(7, "x"), (9, "y")] = 1 := by decide
example : Event.pan ⟨.root 0, 0⟩ [1] 1 ["leaf failed"] ∈ (reach Pinned.prog [0, 1] Pinned.sched).log := by decide

end MageModel.Props.C03
