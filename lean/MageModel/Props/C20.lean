import MageModel.Invoke.Multi
/-!
# C20 — concurrent mage invocations do not interfere with each other
Any number of processes, every interleaving of their steps, both cache modes, `-f`, identical or different contents,
one shared cache directory.
-/
namespace MageModel.Props.C20
open MageModel.Invoke MageModel.Invoke.Multi

variable {Src : Type}

/-- what a process produces when it runs alone (fault-free): the status of the program built from its own sources -/
def soloResult (runBin : Src → Int) (r : Run Src) : Int × Option Src := (osStatus (runBin r.src), some r.src)

/-- the per-process part of the invariant -/
def PInv (name : Src → Nat) (runBin : Src → Int) (w : World Src) (p : Proc Src) : Prop :=
  match p.pc with
  | .compile => w.main p.r.dir = .full
  | .remove => w.cache (name p.r.src) = some p.r.src
  | .runBuilt => w.cache (name p.r.src) = some p.r.src
  | .runReuse => (w.cache (name p.r.src)).isSome = true
  | .fin => p.res = some (soloResult runBin p.r)
  | _ => True

/-- what a step of process `q` may change in the world: only the main file of its own directory, and the cache entry
at the name of its own sources, which it can only set to those sources -/
def Frame (name : Src → Nat) (q : Proc Src) (w w' : World Src) : Prop :=
  (∀ d, d ≠ q.r.dir → w'.main d = w.main d) ∧
  (∀ p, w'.cache p = w.cache p ∨ (p = name q.r.src ∧ w'.cache p = some q.r.src))

theorem frame_refl (name : Src → Nat) (q : Proc Src) (w : World Src) : Frame name q w w :=
  ⟨fun _ _ => rfl, fun _ => Or.inl rfl⟩

theorem frame_setMain (name : Src → Nat) (q : Proc Src) (w : World Src) (m : MainState) :
    Frame name q w (w.setMain q.r.dir m) :=
  ⟨fun d hd => by simp [hd], fun _ => Or.inl rfl⟩

theorem frame_cleanup (name : Src → Nat) (q : Proc Src) (w : World Src) : Frame name q w (cleanup q.r w) := by
  unfold cleanup; split
  · exact frame_refl name q w
  · exact frame_setMain name q w _

theorem frame_setExe (name : Src → Nat) (q : Proc Src) (w : World Src) :
    Frame name q w (w.setExe (name q.r.src) q.r.src) := by
  refine ⟨fun _ _ => rfl, fun p => ?_⟩
  by_cases h : p = name q.r.src
  · right; exact ⟨h, by rw [h]; simp⟩
  · left; simp [h]

/-- every step stays within its frame and keeps the process's own parameters -/
theorem step_frame (name : Src → Nat) (runBin : Src → Int) (q : Proc Src) (w : World Src) :
    Frame name q w (step name runBin q w).2 ∧ (step name runBin q w).1.r = q.r := by
  unfold step
  split
  · split <;> exact ⟨frame_refl name q w, rfl⟩
  · exact ⟨frame_setMain name q w _, rfl⟩
  · exact ⟨frame_setMain name q w _, rfl⟩
  · split
    · exact ⟨frame_setExe name q w, rfl⟩
    · exact ⟨frame_cleanup name q w, rfl⟩
  · exact ⟨frame_cleanup name q w, rfl⟩
  · split <;> exact ⟨frame_cleanup name q w, rfl⟩
  · split <;> exact ⟨frame_refl name q w, rfl⟩
  · exact ⟨frame_refl name q w, rfl⟩

/-- the invariant of another process (different directory) survives a step of `q` -/
theorem pinv_frame (name : Src → Nat) (hinj : ∀ a b, name a = name b → a = b) (runBin : Src → Int) (q p : Proc Src)
    (w w' : World Src) (hf : Frame name q w w') (hd : p.r.dir ≠ q.r.dir) (h : PInv name runBin w p) : PInv name runBin w' p := by
  obtain ⟨hm, hc⟩ := hf
  have hcache : ∀ s, w.cache (name p.r.src) = some s → s = p.r.src → w'.cache (name p.r.src) = some p.r.src := by
    intro s hs he
    rcases hc (name p.r.src) with h1 | ⟨h1, h2⟩
    · rw [h1, hs, he]
    · rw [h2, hinj _ _ h1]
  unfold PInv at h ⊢
  split
  · rename_i hpc; rw [hpc] at h; simp only [] at h; rw [hm _ hd]; exact h
  · rename_i hpc; rw [hpc] at h; simp only [] at h; exact hcache _ h rfl
  · rename_i hpc; rw [hpc] at h; simp only [] at h; exact hcache _ h rfl
  · rename_i hpc; rw [hpc] at h; simp only [] at h
    rcases hc (name p.r.src) with h1 | ⟨_, h2⟩
    · rw [h1]; exact h
    · rw [h2]; rfl
  · rename_i hpc; rw [hpc] at h; simp only [] at h; exact h
  · trivial

theorem sound_frame_step (name : Src → Nat) (runBin : Src → Int) (q : Proc Src) (w : World Src) (hs : CacheSound name w) :
    CacheSound name (step name runBin q w).2 := by
  have hf := (step_frame name runBin q w).1
  intro p s hp
  rcases hf.2 p with h1 | ⟨h1, h2⟩
  · rw [h1] at hp; exact hs p s hp
  · rw [h2] at hp; cases hp; exact h1

/-- the stepping process re-establishes its own invariant -/
theorem pinv_step (name : Src → Nat) (hinj : ∀ a b, name a = name b → a = b) (runBin : Src → Int) (q : Proc Src)
    (w : World Src) (hs : CacheSound name w) (h : PInv name runBin w q) :
    PInv name runBin (step name runBin q w).2 (step name runBin q w).1 := by
  unfold step
  split
  · rename_i hpc
    split
    · rename_i hc
      simp only [PInv]
      simp only [Bool.and_eq_true] at hc
      exact hc.1.2
    · simp [PInv]
  · simp [PInv]
  · simp [PInv]
  · rename_i hpc
    unfold PInv at h; rw [hpc] at h; simp only [] at h
    simp [h, PInv]
  · rename_i hpc
    unfold PInv at h; rw [hpc] at h; simp only [] at h
    simp [PInv, h]
  · rename_i hpc
    unfold PInv at h; rw [hpc] at h; simp only [] at h
    rw [h]
    simp [PInv, soloResult]
  · rename_i hpc
    unfold PInv at h; rw [hpc] at h; simp only [] at h
    obtain ⟨s, hsome⟩ := Option.isSome_iff_exists.mp h
    have : s = q.r.src := hinj _ _ (hs _ _ hsome).symm
    rw [hsome]
    simp [PInv, soloResult, this]
  · rename_i hpc
    unfold PInv at h ⊢; rw [hpc] at h ⊢; exact h

/-- the system invariant -/
def Inv (name : Src → Nat) (runBin : Src → Int) (s : Sys Src) : Prop :=
  CacheSound name s.world ∧ ∀ i, PInv name runBin s.world (s.procs i)

theorem inv_step (name : Src → Nat) (hinj : ∀ a b, name a = name b → a = b) (runBin : Src → Int) (s : Sys Src)
    (hd : ∀ i j, i ≠ j → (s.procs i).r.dir ≠ (s.procs j).r.dir) (h : Inv name runBin s) (i : Nat) :
    Inv name runBin (sysStep name runBin s i) ∧
    (∀ j, ((sysStep name runBin s i).procs j).r = (s.procs j).r) := by
  obtain ⟨hs, hp⟩ := h
  have hfr := step_frame name runBin (s.procs i) s.world
  refine ⟨⟨sound_frame_step name runBin _ _ hs, ?_⟩, ?_⟩
  · intro j
    simp only [sysStep]
    by_cases hji : j = i
    · subst hji
      simp only [if_true]
      exact pinv_step name hinj runBin _ _ hs (hp j)
    · simp only [hji, if_false]
      exact pinv_frame name hinj runBin (s.procs i) (s.procs j) _ _ hfr.1 (hd j i hji) (hp j)
  · intro j
    simp only [sysStep]
    by_cases hji : j = i
    · subst hji; simp only [if_true]; exact hfr.2
    · simp only [hji, if_false]

/-- **Isolation.**  Processes in pairwise different directories sharing one cache directory: under every schedule,
every process that finishes has produced exactly what it produces alone — also when several of them have identical
magefiles (one cache name), in both cache modes and with `-f`. -/
theorem isolated (name : Src → Nat) (hinj : ∀ a b, name a = name b → a = b) (runBin : Src → Int) (s0 : Sys Src)
    (hd : ∀ i j, i ≠ j → (s0.procs i).r.dir ≠ (s0.procs j).r.dir) (h0 : Inv name runBin s0) (sched : List Nat) :
    ∀ i, ((runSched name runBin s0 sched).procs i).pc = .fin →
      ((runSched name runBin s0 sched).procs i).res = some (soloResult runBin (s0.procs i).r) := by
  have key : ∀ (sched : List Nat) (s : Sys Src), (∀ i j, i ≠ j → (s.procs i).r.dir ≠ (s.procs j).r.dir) → Inv name runBin s →
      Inv name runBin (runSched name runBin s sched) ∧ ∀ j, ((runSched name runBin s sched).procs j).r = (s.procs j).r := by
    intro sched
    induction sched with
    | nil => intro s _ h; exact ⟨h, fun _ => rfl⟩
    | cons i rest ih =>
      intro s hd h
      obtain ⟨h1, h2⟩ := inv_step name hinj runBin s hd h i
      have hd' : ∀ a b, a ≠ b → ((sysStep name runBin s i).procs a).r.dir ≠ ((sysStep name runBin s i).procs b).r.dir := by
        intro a b hab; rw [h2 a, h2 b]; exact hd a b hab
      obtain ⟨h3, h4⟩ := ih _ hd' h1
      exact ⟨h3, fun j => by rw [show runSched name runBin s (i :: rest) = runSched name runBin (sysStep name runBin s i) rest from rfl, h4 j, h2 j]⟩
  intro i hfin
  obtain ⟨⟨_, hp⟩, hr⟩ := key sched s0 hd h0
  have := hp i
  unfold PInv at this
  rw [hfin] at this
  simp only [] at this
  rw [this, hr i]

/-- fresh processes over a sound cache satisfy the invariant -/
theorem inv_init (name : Src → Nat) (runBin : Src → Int) (rs : Nat → Run Src) (w : World Src) (hs : CacheSound name w) :
    Inv name runBin ⟨fun i => { r := rs i }, w⟩ := ⟨hs, fun _ => trivial⟩

/-- no step blocks: every step of an unfinished process brings it strictly closer to the end, whatever the world
looks like — a process scheduled six times has finished -/
def rank : Pc → Nat
  | .init => 6 | .create => 5 | .write => 4 | .compile => 3 | .remove => 2 | .runBuilt => 1 | .runReuse => 1 | .fin => 0

theorem rank_decreases (name : Src → Nat) (runBin : Src → Int) (p : Proc Src) (w : World Src) (h : p.pc ≠ .fin) :
    rank (step name runBin p w).1.pc < rank p.pc := by
  unfold step
  split
  · rename_i hpc; rw [hpc]; split <;> simp [rank]
  · rename_i hpc; rw [hpc]; simp [rank]
  · rename_i hpc; rw [hpc]; simp [rank]
  · rename_i hpc; rw [hpc]; split <;> simp [rank]
  · rename_i hpc; rw [hpc]; simp [rank]
  · rename_i hpc; rw [hpc]; split <;> simp [rank]
  · rename_i hpc; rw [hpc]; split <;> simp [rank]
  · rename_i hpc; exact absurd hpc h

/-! ## one process alone: the interleaving machine refines `invoke` -/

def iterStep (name : Src → Nat) (runBin : Src → Int) : Nat → Proc Src × World Src → Proc Src × World Src
  | 0, x => x
  | k+1, x => iterStep name runBin k (step name runBin x.1 x.2)

theorem runSched_replicate (name : Src → Nat) (runBin : Src → Int) (i k : Nat) (s : Sys Src) :
    ((runSched name runBin s (List.replicate k i)).procs i, (runSched name runBin s (List.replicate k i)).world) =
      iterStep name runBin k (s.procs i, s.world) := by
  induction k generalizing s with
  | zero => rfl
  | succ k ih =>
    simp only [List.replicate_succ, runSched, List.foldl_cons]
    have := ih (sysStep name runBin s i)
    simp only [runSched] at this
    rw [this]
    simp [iterStep, sysStep]

section
variable (name : Src → Nat) (runBin : Src → Int) (r : Run Src) (res : Option (Int × Option Src)) (w : World Src)
theorem step_init_reuse (h : (!rebuildAlways r && (w.cache (name r.src)).isSome && !r.force) = true) :
    step name runBin ⟨r, .init, res⟩ w = (⟨r, .runReuse, res⟩, w) := by simp [step, h]
theorem step_init_build (h : ¬ (!rebuildAlways r && (w.cache (name r.src)).isSome && !r.force) = true) :
    step name runBin ⟨r, .init, res⟩ w = (⟨r, .create, res⟩, w) := by simp [step, h]
theorem step_create : step name runBin ⟨r, .create, res⟩ w = (⟨r, .write, res⟩, w.setMain r.dir .headless) := rfl
theorem step_write : step name runBin ⟨r, .write, res⟩ w = (⟨r, .compile, res⟩, w.setMain r.dir .full) := rfl
theorem step_compile_ok (h : w.main r.dir = .full) :
    step name runBin ⟨r, .compile, res⟩ w = (⟨r, .remove, res⟩, w.setExe (name r.src) r.src) := by simp [step, h]
theorem step_remove : step name runBin ⟨r, .remove, res⟩ w = (⟨r, .runBuilt, res⟩, cleanup r w) := rfl
theorem step_runBuilt_some (s : Src) (h : w.cache (name r.src) = some s) :
    step name runBin ⟨r, .runBuilt, res⟩ w = (⟨r, .fin, some (osStatus (runBin s), some s)⟩, cleanup r w) := by simp [step, h]
theorem step_runReuse_some (s : Src) (h : w.cache (name r.src) = some s) :
    step name runBin ⟨r, .runReuse, res⟩ w = (⟨r, .fin, some (osStatus (runBin s), some s)⟩, w) := by simp [step, h]
theorem step_runReuse_none (h : w.cache (name r.src) = none) :
    step name runBin ⟨r, .runReuse, res⟩ w = (⟨r, .fin, some (1, none)⟩, w) := by simp [step, h]
theorem step_fin : step name runBin ⟨r, .fin, res⟩ w = (⟨r, .fin, res⟩, w) := rfl
end

/-- one process alone: the interleaving machine computes what `invoke` (the function the other properties are about) computes -/
theorem solo_refines_invoke (name : Src → Nat) (runBin : Src → Int) (r : Run Src) (w : World Src) (hc : r.compileOut = none) :
    ((runSched name runBin ⟨fun _ => ⟨r, .init, none⟩, w⟩ (List.replicate 6 0)).procs 0).res =
      some ((invoke Cfg.fixed name runBin r Faults.none w).status, (invoke Cfg.fixed name runBin r Faults.none w).ran) := by
  have hexe : exePath name r = name r.src := by simp [exePath, hc]
  have hrs := congrArg Prod.fst (runSched_replicate name runBin 0 6 ⟨fun _ => ⟨r, .init, none⟩, w⟩)
  simp only [] at hrs
  rw [hrs]
  by_cases h : (!rebuildAlways r && (w.cache (name r.src)).isSome && !r.force) = true
  · have hinv : invoke Cfg.fixed name runBin r Faults.none w = runCompiled runBin Faults.none w (name r.src) := by
      unfold invoke
      simp [Faults.none, Cfg.fixed, hc, hexe, h]
    rw [hinv]
    simp only [iterStep, step_init_reuse name runBin r none w h]
    cases hcache : w.cache (name r.src) with
    | none => simp [runCompiled, hcache, step_runReuse_none name runBin r none w hcache, step_fin]
    | some s => simp [runCompiled, hcache, step_runReuse_some name runBin r none w s hcache, step_fin, Faults.none]
  · have hinv : invoke Cfg.fixed name runBin r Faults.none w = buildAndRun Cfg.fixed name runBin r Faults.none w := by
      unfold invoke
      simp [Faults.none, Cfg.fixed, hc, hexe, h]
    rw [hinv]
    have hfull : ((w.setMain r.dir .headless).setMain r.dir .full).main r.dir = .full := by simp
    have hcache : (cleanup r (((w.setMain r.dir .headless).setMain r.dir .full).setExe (name r.src) r.src)).cache (name r.src) = some r.src := by simp
    simp only [iterStep, step_init_build name runBin r none w h, step_create, step_write,
      step_compile_ok name runBin r none _ hfull, step_remove, step_runBuilt_some name runBin r none _ r.src hcache]
    simp [buildAndRun, Faults.none, hc, hexe, runCompiled, built, Cfg.fixed]


/-! ## the same directory: interference (known finding C20:same-directory, D19) -/
namespace SameDir
def w0 : World Unit := ⟨fun _ => .absent, fun _ => none⟩
def r : Run Unit := { dir := 0, src := () }
def s0 : Sys Unit := ⟨fun _ => { r := r }, w0⟩
/-- two invocations in one directory: the second one's `os.Create` truncates the generated file between the first
one's write and its `go build`; the first fails although alone it succeeds -/
theorem interferes :
    ((runSched (fun _ => 0) (fun _ => 0) s0 [0, 0, 0, 1, 1, 0]).procs 0).res = some (1, none) ∧
    soloResult (fun _ => 0) r = (0, some ()) := by decide
/-- … and also when the second one's removal hits the window -/
theorem interferes_by_removal :
    ((runSched (fun _ => 0) (fun _ => 0) s0 [0, 0, 0, 1, 1, 1, 1, 1, 0]).procs 0).res = some (1, none) := by decide
end SameDir

/-- non-vacuity: two directories, identical contents, hash mode, interleaved — both succeed with their solo result -/
example :
    let s : Sys Nat := ⟨fun i => { r := { dir := i, src := 7, hashFast := true } }, ⟨fun _ => .absent, fun _ => none⟩⟩
    let e := runSched (fun s => s) (fun _ => 3) s [0, 1, 0, 1, 0, 1, 1, 0, 0, 1, 0, 1, 0, 1]
    (e.procs 0).res = some (3, some 7) ∧ (e.procs 1).res = some (3, some 7) := by decide

end MageModel.Props.C20
