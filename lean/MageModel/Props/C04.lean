import MageModel.Gen.Dispatch
import MageModel.Gen.Main
import MageModel.Invoke.Front
import MageModel.Gen.StrconvLemmas
/-!
# C04 — command-line words run exactly the named targets with converted arguments
All `PkgInfo`s (any mix of plain, namespaced, imported and aliased targets, any parameter lists), all word lists,
all conversion answers of the standard library, all target outcomes.
-/
namespace MageModel.Props.C04
open MageModel.Parse MageModel.Gen

/-- **The specification**: words are consumed left to right; each name is resolved (aliases first, both
case-insensitively), takes as many following words as the target has parameters, converted in declaration order;
an unknown name, too few words or an unconvertible word stops with status 2 *before* the call; a failing call stops
with its status after it; nothing after a stop runs. -/
inductive Runs (info : PkgInfo) (conv : Conv) (outcome : Call → Int) : List String → List Call → Int → Prop where
  | done : Runs info conv outcome [] [] 0
  | unknown (w rest) : resolve info w = none → Runs info conv outcome (w :: rest) [] 2
  | tooFew (w rest f) : resolve info w = some f → rest.length < f.args.length → Runs info conv outcome (w :: rest) [] 2
  | badArg (w rest f e) : resolve info w = some f → f.args.length ≤ rest.length →
      convertArgs conv f.args (rest.take f.args.length) = .error e → Runs info conv outcome (w :: rest) [] 2
  | failed (w rest f vals) : resolve info w = some f → f.args.length ≤ rest.length →
      convertArgs conv f.args (rest.take f.args.length) = .ok vals → outcome ⟨f.id, vals⟩ ≠ 0 →
      Runs info conv outcome (w :: rest) [⟨f.id, vals⟩] (outcome ⟨f.id, vals⟩)
  | step (w rest f vals calls st) : resolve info w = some f → f.args.length ≤ rest.length →
      convertArgs conv f.args (rest.take f.args.length) = .ok vals → outcome ⟨f.id, vals⟩ = 0 →
      Runs info conv outcome (rest.drop f.args.length) calls st →
      Runs info conv outcome (w :: rest) (⟨f.id, vals⟩ :: calls) st

/-- **The generated loop implements the specification** (soundness). -/
theorem dispatch_runs (info : PkgInfo) (conv : Conv) (outcome : Call → Int) (fuel : Nat) (words : List String)
    (hf : words.length < fuel) :
    Runs info conv outcome words (dispatch info conv outcome fuel words).calls (dispatch info conv outcome fuel words).status := by
  induction fuel generalizing words with
  | zero => omega
  | succ fuel ih =>
    cases words with
    | nil => exact Runs.done
    | cons w rest =>
      simp only [dispatch]
      cases hr : resolve info w with
      | none => exact Runs.unknown w rest hr
      | some f =>
        simp only []
        by_cases hlen : rest.length < f.args.length
        · simp only [hlen, if_true]; exact Runs.tooFew w rest f hr hlen
        · simp only [hlen, if_false]
          have hle : f.args.length ≤ rest.length := by omega
          cases hc : convertArgs conv f.args (rest.take f.args.length) with
          | error e => exact Runs.badArg w rest f e hr hle hc
          | ok vals =>
            simp only []
            by_cases hst : outcome ⟨f.id, vals⟩ ≠ 0
            · rw [if_pos hst]
              exact Runs.failed w rest f vals hr hle hc hst
            · rw [if_neg hst]
              have hst' : outcome ⟨f.id, vals⟩ = 0 := by
                by_cases h : outcome ⟨f.id, vals⟩ = 0
                · exact h
                · exact absurd h hst
              apply Runs.step w rest f vals _ _ hr hle hc hst'
              apply ih
              simp only [List.length_cons] at hf
              simp only [List.length_drop]
              omega

/-- the specification is deterministic: a word list has one behaviour -/
theorem runs_functional (info : PkgInfo) (conv : Conv) (outcome : Call → Int) (words : List String)
    (c1 c2 : List Call) (s1 s2 : Int) (h1 : Runs info conv outcome words c1 s1) (h2 : Runs info conv outcome words c2 s2) :
    c1 = c2 ∧ s1 = s2 := by
  induction h1 generalizing c2 s2 with
  | done => cases h2; exact ⟨rfl, rfl⟩
  | unknown w rest hr =>
    cases h2 with
    | unknown => exact ⟨rfl, rfl⟩
    | tooFew _ _ f hr' => rw [hr] at hr'; cases hr'
    | badArg _ _ f e hr' => rw [hr] at hr'; cases hr'
    | failed _ _ f v hr' => rw [hr] at hr'; cases hr'
    | step _ _ f v c s hr' => rw [hr] at hr'; cases hr'
  | tooFew w rest f hr hl =>
    cases h2 with
    | unknown _ _ hr' => rw [hr] at hr'; cases hr'
    | tooFew => exact ⟨rfl, rfl⟩
    | badArg _ _ f' e hr' hl' => rw [hr] at hr'; cases hr'; omega
    | failed _ _ f' v hr' hl' => rw [hr] at hr'; cases hr'; omega
    | step _ _ f' v c s hr' hl' => rw [hr] at hr'; cases hr'; omega
  | badArg w rest f e hr hl hc =>
    cases h2 with
    | unknown _ _ hr' => rw [hr] at hr'; cases hr'
    | tooFew _ _ f' hr' hl' => rw [hr] at hr'; cases hr'; omega
    | badArg => exact ⟨rfl, rfl⟩
    | failed _ _ f' v hr' hl' hc' => rw [hr] at hr'; cases hr'; rw [hc] at hc'; cases hc'
    | step _ _ f' v c s hr' hl' hc' => rw [hr] at hr'; cases hr'; rw [hc] at hc'; cases hc'
  | failed w rest f vals hr hl hc hst =>
    cases h2 with
    | unknown _ _ hr' => rw [hr] at hr'; cases hr'
    | tooFew _ _ f' hr' hl' => rw [hr] at hr'; cases hr'; omega
    | badArg _ _ f' e hr' hl' hc' => rw [hr] at hr'; cases hr'; rw [hc] at hc'; cases hc'
    | failed _ _ f' v hr' hl' hc' => rw [hr] at hr'; cases hr'; rw [hc] at hc'; cases hc'; exact ⟨rfl, rfl⟩
    | step _ _ f' v c s hr' hl' hc' hst' => rw [hr] at hr'; cases hr'; rw [hc] at hc'; cases hc'; exact absurd hst' hst
  | step w rest f vals calls st hr hl hc hst _ ih =>
    cases h2 with
    | unknown _ _ hr' => rw [hr] at hr'; cases hr'
    | tooFew _ _ f' hr' hl' => rw [hr] at hr'; cases hr'; omega
    | badArg _ _ f' e hr' hl' hc' => rw [hr] at hr'; cases hr'; rw [hc] at hc'; cases hc'
    | failed _ _ f' v hr' hl' hc' hst' => rw [hr] at hr'; cases hr'; rw [hc] at hc'; cases hc'; exact absurd hst hst'
    | step _ _ f' v c s hr' hl' hc' hst' hrest =>
      rw [hr] at hr'; cases hr'; rw [hc] at hc'; cases hc'
      obtain ⟨e1, e2⟩ := ih _ _ hrest
      exact ⟨by rw [e1], e2⟩

/-- **Exactly the specified behaviour** (completeness follows from soundness and determinism). -/
theorem dispatch_iff_runs (info : PkgInfo) (conv : Conv) (outcome : Call → Int) (words : List String)
    (calls : List Call) (st : Int) :
    ((dispatch info conv outcome (words.length + 1) words).calls = calls ∧
      (dispatch info conv outcome (words.length + 1) words).status = st) ↔ Runs info conv outcome words calls st := by
  have hs := dispatch_runs info conv outcome (words.length + 1) words (by omega)
  constructor
  · rintro ⟨h1, h2⟩; rw [← h1, ← h2]; exact hs
  · intro h
    have := runs_functional info conv outcome words _ _ _ _ hs h
    exact this

/-- **Case-insensitive names**: two spellings that differ only in letter case resolve to the same function. -/
theorem case_insensitive (info : PkgInfo) (w w' : String) (h : lower w = lower w') : resolve info w = resolve info w' := by
  unfold resolve
  rw [h]
  cases info.aliases.find? (fun x => lower x.1 == lower w') with
  | some p => rfl
  | none => simp only []; rw [h]

/-- **Aliases first**: a declared alias resolves to its function's own name, whatever case it is typed in. -/
theorem alias_resolves (info : PkgInfo) (w a : String) (f : Function)
    (h : info.aliases.find? (fun x => lower x.1 == lower w) = some (a, f)) :
    resolve info w = (allTargets info).find? fun g => lower g.targetName == lower f.targetName := by
  unfold resolve; rw [h]

/-- **String arguments are passed verbatim** — also when they look like target names or flags: a word in argument
position is never looked up. -/
theorem string_arg_verbatim (conv : Conv) (name w : String) (as : List Arg) (ws : List String) (vals : List ArgVal)
    (h : convertArgs conv (⟨name, "string"⟩ :: as) (w :: ws) = .ok vals) : vals.head? = some (.str w) := by
  simp only [convertArgs] at h
  cases hc : convertArgs conv as ws with
  | error e => rw [hc] at h; cases h
  | ok more => rw [hc] at h; cases h; rfl

/-- **Conversions in declaration order with the standard library's parsers** -/
theorem int_arg_atoi (conv : Conv) (name w : String) (as : List Arg) (ws : List String) :
    (∃ vals, convertArgs conv (⟨name, "int"⟩ :: as) (w :: ws) = .ok vals) →
      ∃ i, conv.atoi w = some i := by
  rintro ⟨vals, h⟩
  simp only [convertArgs] at h
  cases ha : conv.atoi w with
  | none => rw [ha] at h; cases h
  | some i => exact ⟨i, rfl⟩

/-- an unknown name, a missing or an unconvertible argument stops with status 2 before the target's body starts,
and nothing later runs -/
theorem misuse_stops (info : PkgInfo) (conv : Conv) (outcome : Call → Int) (w : String) (rest : List String)
    (h : resolve info w = none) :
    (dispatch info conv outcome (rest.length + 2) (w :: rest)).calls = [] ∧
    (dispatch info conv outcome (rest.length + 2) (w :: rest)).status = 2 := by
  simp [dispatch, h]

/-- no target words: the default target, or the list when there is none or MAGEFILE_IGNOREDEFAULT is set -/
theorem no_words (info : PkgInfo) (conv : Conv) (outcome : Call → Int) (ign : Bool) :
    (info.defaultFunc = none → (run info conv outcome ign []).2 = true ∧ (run info conv outcome ign []).1.calls = []) ∧
    (∀ d, info.defaultFunc = some d → ign = true → (run info conv outcome ign []).2 = true ∧ (run info conv outcome ign []).1.calls = []) ∧
    (∀ d, info.defaultFunc = some d → ign = false → d.args = [] →
      (run info conv outcome ign []).1.calls = [⟨d.id, []⟩] ∧ (run info conv outcome ign []).2 = false) := by
  refine ⟨?_, ?_, ?_⟩
  · intro h; simp [run, h]
  · intro d h hi; simp [run, h, hi]
  · intro d h hi ha; simp [run, h, hi, ha]

/-! ### through the front end: the words reach the compiled magefile verbatim -/

/-- **`mage w₁ … wₙ` hands exactly `w₁ … wₙ` to the dispatch loop** — whatever the words look like (`-l`, `--`, `-v=x`):
the front end passes its flags through the environment and puts `--` before the words, so the generated main's own
flag parser consumes nothing of them (this is what `mage -- -l` relies on; D21). -/
theorem words_reach_child_verbatim (pd : String → Option Int) (inv : MageModel.Invoke.Inv) :
    MageModel.Gen.Flags.parse childSpecs pd (MageModel.Invoke.childArgv inv) [] = .ok ([], inv.args) := by
  simp [MageModel.Invoke.childArgv, MageModel.Gen.Flags.parse, MageModel.Gen.Flags.classify]

/-- given to the compiled binary directly, a first word that looks like a flag *is* parsed as one — `--` is needed there too -/
example : MageModel.Gen.Flags.parse childSpecs (fun _ => none) ["-l"] [] = .ok ([("l", .b true)], []) := by decide
example : MageModel.Gen.Flags.parse childSpecs (fun _ => none) ["--", "-l"] [] = .ok ([], ["-l"]) := by decide

/-! ### non-vacuity -/
def exInfo : PkgInfo :=
  { funcs := [{ name := "Build", isError := false, isContext := false, args := [⟨"n", "int"⟩] },
              { name := "Clean", isError := false, isContext := false, args := [] }],
    aliases := [("b", { name := "Build", isError := false, isContext := false, args := [⟨"n", "int"⟩] })] }
def exConv : Conv := ⟨fun w => if w = "7" then some 7 else none, fun _ => none, fun _ => none⟩
example : (dispatch exInfo exConv (fun _ => 0) 9 ["B", "7", "CLEAN"]).calls =
    [⟨"<current>.Build", [.int 7]⟩, ⟨"<current>.Clean", []⟩] := by decide
example : (dispatch exInfo exConv (fun _ => 0) 9 ["build", "x", "clean"]).status = 2 := by decide

/-! ### The conversions are the standard library's, transcribed (`Gen/Strconv.lean`), not recorded answers

`stdConv` instantiates every theorem above (they hold for all `conv`); the statements below are about the concrete
`strconv.Atoi`, `strconv.ParseBool` and `time.ParseDuration`. -/

/-- **int via strconv.Atoi**: the decimal numeral of any `n < 2^63` given to an `int` parameter arrives as `n` -/
theorem int_word_decimal (name : String) (n : Nat) (h : n < Strconv.two63) :
    convertArgs stdConv [⟨name, "int"⟩] [Nat.repr n] = .ok [.int n] := by
  simp [convertArgs, stdConv, Strconv.atoi_repr n h]

/-- … and `-n` down to −2^63 -/
theorem int_word_negative (name : String) (n : Nat) (h : n ≤ Strconv.two63) :
    convertArgs stdConv [⟨name, "int"⟩] ["-" ++ Nat.repr n] = .ok [.int (-(n : Int))] := by
  simp [convertArgs, stdConv, Strconv.atoi_neg_repr n h]

/-- every `int` a target receives fits 64 bits -/
theorem int_arg_in_range (name w : String) (i : Int) (h : convertArgs stdConv [⟨name, "int"⟩] [w] = .ok [.int i]) :
    -(Strconv.two63 : Int) ≤ i ∧ i < (Strconv.two63 : Int) := by
  simp only [convertArgs, stdConv] at h
  cases ha : Strconv.atoi w with
  | none => rw [ha] at h; cases h
  | some j => rw [ha] at h; cases h; exact Strconv.atoi_range w _ ha

/-- **bool via strconv.ParseBool**: `true` arrives exactly for the six spellings -/
theorem bool_word_true_iff (name w : String) :
    convertArgs stdConv [⟨name, "bool"⟩] [w] = .ok [.bool true] ↔ w ∈ ["1", "t", "T", "TRUE", "true", "True"] := by
  rw [← Strconv.parseBool_true_iff]
  simp only [convertArgs, stdConv]
  cases hb : Strconv.parseBool w with
  | none => simp
  | some b => cases b <;> simp

/-- every duration a target receives is an `int64` count of nanoseconds -/
theorem duration_arg_in_range (name w : String) (d : Int)
    (h : convertArgs stdConv [⟨name, "time.Duration"⟩] [w] = .ok [.dur d]) :
    -(Strconv.two63 : Int) ≤ d ∧ d < (Strconv.two63 : Int) := by
  simp only [convertArgs, stdConv] at h
  cases ha : Strconv.parseDuration w with
  | none => rw [ha] at h; cases h
  | some j => rw [ha] at h; cases h; exact Strconv.parseDuration_range w _ ha

/-- **the empty word converts to nothing but a string**: `mage t ""` stops with status 2 for an `int`, `bool` or
`time.Duration` parameter (no "empty means zero" shortcut) -/
theorem empty_word_rejected (name : String) :
    convertArgs stdConv [⟨name, "int"⟩] [""] = .error (.badArg "int" "") ∧
    convertArgs stdConv [⟨name, "bool"⟩] [""] = .error (.badArg "bool" "") ∧
    convertArgs stdConv [⟨name, "time.Duration"⟩] [""] = .error (.badArg "time.Duration" "") ∧
    convertArgs stdConv [⟨name, "string"⟩] [""] = .ok [.str ""] := by
  refine ⟨?_, ?_, ?_, ?_⟩
  · have : Strconv.atoi "" = none := by decide
    simp [convertArgs, stdConv, this]
  · have : Strconv.parseBool "" = none := by decide
    simp [convertArgs, stdConv, this]
  · have : Strconv.parseDuration "" = none := by decide
    simp [convertArgs, stdConv, this]
  · simp [convertArgs]

/-- an unconvertible word stops the run with status 2 and **no** call, whatever follows -/
theorem unconvertible_stops (info : PkgInfo) (outcome : Call → Int) (fuel : Nat) (w a : String) (rest : List String)
    (f : Function) (name : String) (hr : resolve info w = some f) (hargs : f.args = [⟨name, "int"⟩])
    (ha : Strconv.atoi a = none) :
    dispatch info stdConv outcome (fuel + 1) (w :: a :: rest) = ⟨[], 2, some (.badArg "int" a)⟩ := by
  simp [dispatch, hr, hargs, convertArgs, stdConv, ha]

example : (dispatch exInfo stdConv (fun _ => 0) 9 ["B", "7", "CLEAN"]).status = 0 := by decide
example : (dispatch exInfo stdConv (fun _ => 0) 9 ["B", "", "CLEAN"]).status = 2 := by decide
example : (dispatch exInfo stdConv (fun _ => 0) 9 ["B", "0x7", "CLEAN"]).calls = [] := by decide

end MageModel.Props.C04
