import MageModel.Gen.Ctx
/-!
# C12 — `-t` bounds the run and cancels the context given to targets
All timeout values, all target durations on either side of the deadline, targets that honour or ignore
cancellation, any number of targets per invocation, all arrival times of one or two SIGINTs (simultaneous events
excluded), dependencies reached by CtxDeps or Deps.
-/
namespace MageModel.Props.C12
open MageModel.Gen.Ctx

/-! ## the head target of the remaining list, at any position and time -/

theorem dlHit_false (dl sig : Option Nat) (natural : Nat) (h : ∀ D, dl = some D → natural ≤ D) : dlHit dl sig natural = false := by
  cases dl with
  | none => rfl
  | some D => have := h D rfl; simp [dlHit]; intro h'; omega

theorem sigHit_false (dl sig : Option Nat) (natural : Nat) (h : ∀ g, sig = some g → natural ≤ g) : sigHit dl sig natural = false := by
  cases sig with
  | none => rfl
  | some g => have := h g rfl; simp [sigHit]; intro h'; omega

/-- nothing happens while the head target runs and it succeeds: the next one starts when it ends, same deadline -/
theorem head_quiet (e : Env) (dl : Option Nat) (i s : Nat) (t : Target) (rest : List Target) (started saw : List Nat)
    (hok : t.status = 0)
    (hdl : ∀ D, dl = some D → s + t.dur ≤ D)
    (hsig : ∀ g, sigDuring e.sig1 s = some g → s + t.dur ≤ g) :
    runFrom e dl false i s (t :: rest) started saw = runFrom e dl false (i+1) (s + t.dur) rest (started ++ [i]) saw := by
  have h1 : dlHit dl (sigDuring e.sig1 s) (s + t.dur) = false := dlHit_false _ _ _ hdl
  have h2 : sigHit dl (sigDuring e.sig1 s) (s + t.dur) = false := sigHit_false _ _ _ hsig
  simp only [runFrom, h1, h2, hok]
  simp

/-- **The deadline ends the run, whether or not the running target honours its context**: if the shared deadline `D`
falls strictly inside the head target's run and no SIGINT came first, main exits at `D` with status 1, reporting the
deadline; nothing later starts. -/
theorem head_deadline (e : Env) (D i s : Nat) (t : Target) (rest : List Target) (started saw : List Nat)
    (hD : D < s + t.dur) (hsig : ∀ g, sigDuring e.sig1 s = some g → D < g) :
    (runFrom e (some D) false i s (t :: rest) started saw).ending = .deadline i ∧
    (runFrom e (some D) false i s (t :: rest) started saw).time = D ∧
    (runFrom e (some D) false i s (t :: rest) started saw).started = started ++ [i] ∧
    (runFrom e (some D) false i s (t :: rest) started saw).ending.status = 1 := by
  have h1 : dlHit (some D) (sigDuring e.sig1 s) (s + t.dur) = true := by
    cases hg : sigDuring e.sig1 s with
    | none => simp [dlHit, hD]
    | some g => have := hsig g hg; simp [dlHit, hD, this]
  simp only [runFrom, h1, if_true]
  simp [Ending.status]

/-- the head target fails on its own before anything else happens: main exits with its status -/
theorem head_fails (e : Env) (dl : Option Nat) (i s : Nat) (t : Target) (rest : List Target) (started saw : List Nat)
    (hbad : t.status ≠ 0)
    (hdl : ∀ D, dl = some D → s + t.dur ≤ D)
    (hsig : ∀ g, sigDuring e.sig1 s = some g → s + t.dur ≤ g) :
    (runFrom e dl false i s (t :: rest) started saw).ending = .targetFailed i t.status := by
  have h1 : dlHit dl (sigDuring e.sig1 s) (s + t.dur) = false := dlHit_false _ _ _ hdl
  have h2 : sigHit dl (sigDuring e.sig1 s) (s + t.dur) = false := sigHit_false _ _ _ hsig
  simp only [runFrom, h1, h2]
  simp [hbad]

/-! ## the deadline is shared by all targets of the invocation -/

def total (ts : List Target) : Nat := (ts.map (·.dur)).sum

/-- **A run that finishes before the deadline is unaffected by `-t`**: same ending, same exit time, same targets
started, nobody sees a cancellation — as with no timeout at all (no SIGINT). -/
theorem under_deadline_unaffected (e : Env) (hs : e.sig1 = none) (D : Nat) (ts : List Target) :
    ∀ (i s : Nat) (started saw : List Nat), s + total ts ≤ D →
      runFrom e (some D) false i s ts started saw = runFrom e none false i s ts started saw := by
  induction ts with
  | nil => intro i s started saw _; rfl
  | cons t rest ih =>
    intro i s started saw h
    have hsd : sigDuring e.sig1 s = none := by simp [sigDuring, hs]
    have htot : total (t :: rest) = t.dur + total rest := by simp [total]
    by_cases hok : t.status = 0
    · rw [head_quiet e (some D) i s t rest started saw hok (by intro D' hD'; cases hD'; omega) (by intro g hg; rw [hsd] at hg; cases hg),
          head_quiet e none i s t rest started saw hok (by intro D' hD'; cases hD') (by intro g hg; rw [hsd] at hg; cases hg)]
      exact ih (i+1) (s + t.dur) _ _ (by omega)
    · have hd1 : ¬ D < s + t.dur := by omega
      simp [runFrom, hsd, hok, hd1, dlHit, sigHit]

/-- with no timeout and no SIGINT nothing is ever cancelled and main exits only through its targets -/
theorem never_cancelled (e : Env) (hd : e.d = 0) (hs : e.sig1 = none) (ts : List Target) :
    ∀ (i s : Nat) (started saw : List Nat),
      (runFrom e none false i s ts started saw).sawCancel = saw ∧
      ((∃ st, (runFrom e none false i s ts started saw).ending = .finished st) ∨
       (∃ j st, (runFrom e none false i s ts started saw).ending = .targetFailed j st)) := by
  induction ts with
  | nil => intro i s started saw; exact ⟨rfl, Or.inl ⟨0, rfl⟩⟩
  | cons t rest ih =>
    intro i s started saw
    have hsd : sigDuring e.sig1 s = none := by simp [sigDuring, hs]
    by_cases hok : t.status = 0
    · rw [head_quiet e none i s t rest started saw hok (by intro D' hD'; cases hD') (by intro g hg; rw [hsd] at hg; cases hg)]
      exact ih _ _ _ _
    · simp [runFrom, hsd, hok, dlHit, sigHit]

/-- **Shared deadline**: a second target that starts within the timeout still has only what is left of it.  First
target `a` (succeeds, shorter than `d`), then `b`: if together they exceed `d`, main reports the deadline at `t0 + d`
although `b` alone is shorter than `d`. -/
theorem shared_deadline (d t0 : Nat) (a b : Target) (rest : List Target) (hd : d ≠ 0) (ha : a.status = 0)
    (h1 : a.dur ≤ d) (h2 : d < a.dur + b.dur) :
    (run { d := d } t0 (a :: b :: rest)).ending = .deadline 1 ∧ (run { d := d } t0 (a :: b :: rest)).time = t0 + d := by
  have hdl : deadlineOf { d := d } t0 = some (t0 + d) := by simp [deadlineOf, hd]
  unfold run
  rw [hdl, head_quiet _ _ _ _ _ _ _ _ ha (by intro D hD; cases hD; omega) (by intro g hg; simp [sigDuring] at hg)]
  have := head_deadline { d := d } (t0 + d) 1 (t0 + a.dur) b rest ([] ++ [0]) [] (by omega) (by intro g hg; simp [sigDuring] at hg)
  exact ⟨this.1, this.2.1⟩

/-! ## SIGINT -/

/-- **first SIGINT, target honours its context**: it is cancelled and main exits with status 1 right then -/
theorem sigint_honoured (e : Env) (dl : Option Nat) (i s g : Nat) (t : Target) (rest : List Target) (started saw : List Nat)
    (hg : sigDuring e.sig1 s = some g) (hh : t.honours = true) (hbefore : g < s + t.dur) (hdl : ∀ D, dl = some D → g ≤ D) :
    (runFrom e dl false i s (t :: rest) started saw).ending = .cancelled i ∧ (runFrom e dl false i s (t :: rest) started saw).time = g := by
  have h1 : dlHit dl (sigDuring e.sig1 s) (s + t.dur) = false := by
    rw [hg]
    cases dl with
    | none => rfl
    | some D => have := hdl D rfl; simp [dlHit]; intro _; omega
  have h2 : sigHit dl (sigDuring e.sig1 s) (s + t.dur) = true := by
    rw [hg]
    cases dl with
    | none => simp [sigHit, hbefore]
    | some D => simp [sigHit, hbefore, hdl D rfl]
  simp only [runFrom, h1, h2, hh]
  simp [hg]

/-- **first SIGINT, target ignores it**: five seconds of grace, then "cleanup timeout exceeded" (status 1) — unless a
second SIGINT arrives first, which exits immediately ("exit forced", status 1) -/
theorem sigint_ignored (e : Env) (i s g : Nat) (t : Target) (rest : List Target) (started saw : List Nat)
    (hg : sigDuring e.sig1 s = some g) (hh : t.honours = false) (hlong : g + e.grace < s + t.dur) :
    (∀ g2, sigDuring e.sig2 g = some g2 → g2 < g + e.grace →
        (runFrom e none false i s (t :: rest) started saw).ending = .forced i ∧ (runFrom e none false i s (t :: rest) started saw).time = g2) ∧
    (sigDuring e.sig2 g = none →
        (runFrom e none false i s (t :: rest) started saw).ending = .cleanupTimeout i ∧
        (runFrom e none false i s (t :: rest) started saw).time = g + e.grace) := by
  have hb : g < s + t.dur := by omega
  constructor
  · intro g2 h2 hlt
    have : g2 < s + t.dur := by omega
    simp [runFrom, hg, hh, hb, h2, this, hlt, dlHit, sigHit]
  · intro h2
    simp [runFrom, hg, hh, hb, h2, hlong, dlHit, sigHit]

/-- once a SIGINT has cancelled the context, a target that ignored it and ended within the grace period lets the run go
on — but the next target finds the context already cancelled and main exits with the context's error (status 1) -/
theorem after_cancel_next_target_fails (e : Env) (dl : Option Nat) (i s : Nat) (t : Target) (rest : List Target)
    (started saw : List Nat) :
    (runFrom e dl true i s (t :: rest) started saw).ending = .cancelled i ∧
    (runFrom e dl true i s (t :: rest) started saw).ending.status = 1 := ⟨rfl, rfl⟩

/-- every ending other than the targets' own carries status 1 -/
theorem abnormal_status_one (en : Ending) (h : ∀ st, en ≠ .finished st) (h' : ∀ j st, en ≠ .targetFailed j st) : en.status = 1 := by
  cases en with
  | finished st => exact absurd rfl (h st)
  | targetFailed j st => exact absurd rfl (h' j st)
  | _ => rfl

/-! ## contexts of dependencies -/

/-- a dependency all of whose requesters use CtxDeps with the invocation's context sees its cancellation -/
theorem ctxdeps_forward (requests : List Style) (winner : Nat) (hw : winner < requests.length)
    (h : ∀ r ∈ requests, r = .ctxDeps) : depSeesCancel requests winner = true := by
  unfold depSeesCancel depContext
  rw [List.getElem?_eq_getElem hw, h _ (List.getElem_mem hw)]
  rfl

/-- a dependency started by plain Deps / SerialDeps runs with a context that is never cancelled -/
theorem deps_background (requests : List Style) (winner : Nat) (h : ∀ r ∈ requests, r = .deps) :
    depSeesCancel requests winner = false := by
  unfold depSeesCancel depContext
  cases hg : requests[winner]? with
  | none => rfl
  | some r => rw [h r (List.mem_of_getElem? hg)]; rfl

/-- known finding C12:ctx-dep-won-by-plain-deps (D22): requested through both, the dependency runs with the context of
whoever won its once-cell — if that was plain Deps it never sees the deadline although it is reached through CtxDeps -/
example : depSeesCancel [.deps, .ctxDeps] 0 = false ∧ depSeesCancel [.deps, .ctxDeps] 1 = true := by decide

/-! ## non-vacuity -/
def sec (n : Nat) : Nat := n * 1000000000
example : (run { d := sec 1 } 0 [⟨sec 3, false, 0, true⟩]).ending = .deadline 0 := by decide
example : (run { d := sec 1 } 0 [⟨sec 3, false, 0, true⟩]).time = sec 1 := by decide
example : (run { d := sec 2 } 0 [⟨sec 1, true, 0, true⟩, ⟨sec 1 / 2, true, 0, true⟩]).ending = .finished 0 := by decide
example : (run { d := 0, sig1 := some (sec 1), sig2 := some (sec 2) } 0 [⟨sec 30, false, 0, true⟩]).ending = .forced 0 := by decide
example : (run { d := 0, sig1 := some (sec 1) } 0 [⟨sec 30, false, 0, true⟩]).time = sec 6 := by decide

end MageModel.Props.C12
