import MageModel.Deps.Reach
/-!
# C01 — a dependency's body runs exactly once

For every program (any graph of owners/keys, repeats inside a call, mixed parallel and serial calls, any
outcomes), every set of root goroutines and **every schedule** (`List Agent`, unbounded).
`log` is newest-first: `later ++ e :: earlier`.
-/
namespace MageModel.Props.C01
open MageModel.Deps

/-- **At most once**: under every schedule the body of every key starts at most once. -/
theorem at_most_once (p : Prog) (roots : List Nat) (sched : List Agent) (k : Key) :
    starts k (reach p roots sched).log ≤ 1 := by
  have := (reach_inv p roots sched).1.once k
  rw [this]; split <;> omega

/-- **Exactly once when a call ends**: whenever a Deps-family call returns or panics, every dependency it
reached (all listed ones for a parallel call and for a serial call that returns) has started exactly once, and
before the call ended — whoever started it. -/
theorem exactly_once_at_end (p : Prog) (roots : List Nat) (sched : List Agent)
    (later earlier : List Event) (e : Event) (c : CallId) (reached : List Key)
    (hlog : (reach p roots sched).log = later ++ e :: earlier)
    (he : e = .ret c reached ∨ ∃ code msgs, e = .pan c reached code msgs) :
    ∀ k ∈ reached, starts k earlier = 1 ∧ starts k (later ++ [e]) = 0 := by
  intro k hk
  have hgood := (reach_inv p roots sched).2.good
  rw [hlog] at hgood
  have hstop : ∃ r, Event.stop k r ∈ earlier := by
    rcases he with he | ⟨code, msgs, he⟩
    · subst he; exact ⟨none, (GoodLog.at hgood).1.1 k hk⟩
    · subst he; exact (GoodLog.at hgood).1.1 k hk
  obtain ⟨r, hr⟩ := hstop
  obtain ⟨pre, post, hsplit⟩ := mem_split hr
  have hg2 : GoodLog p earlier := (GoodLog.at hgood).2
  rw [hsplit] at hg2
  have hstart : Event.start k ∈ post := start_before_stop hg2
  have hpos : 0 < starts k earlier := by
    rw [hsplit, starts_append]
    have := starts_pos_of_mem (k := k) (l := Event.stop k r :: post) (List.mem_cons_of_mem _ hstart)
    omega
  have htot := at_most_once p roots sched k
  rw [hlog] at htot
  have : later ++ e :: earlier = (later ++ [e]) ++ earlier := by simp
  rw [this, starts_append] at htot
  omega

/-- a returning call reached every function it listed -/
theorem ret_reached_all (p : Prog) (roots : List Nat) (sched : List Agent)
    (later earlier : List Event) (c : CallId) (reached : List Key) (cs : CallSpec)
    (hlog : (reach p roots sched).log = later ++ Event.ret c reached :: earlier)
    (hc : (p c.owner).calls[c.idx]? = some cs) : reached = cs.keys := by
  have hgood := (reach_inv p roots sched).2.good
  rw [hlog] at hgood
  exact (GoodLog.at hgood).1.2 cs hc

/-- a panicking parallel call reached every function it listed; a serial one a prefix of its list -/
theorem pan_reached (p : Prog) (roots : List Nat) (sched : List Agent)
    (later earlier : List Event) (c : CallId) (reached : List Key) (code : Int) (msgs : List String) (cs : CallSpec)
    (hlog : (reach p roots sched).log = later ++ Event.pan c reached code msgs :: earlier)
    (hc : (p c.owner).calls[c.idx]? = some cs) :
    (cs.serial = false → reached = cs.keys) ∧ ∃ n, reached = cs.keys.take n := by
  have hgood := (reach_inv p roots sched).2.good
  rw [hlog] at hgood
  exact (GoodLog.at hgood).1.2.2 cs hc

/-- **No conflation**: the once-cell of one key is never touched by the execution of another: a key whose
body never started is still absent — whatever other keys did. -/
theorem distinct_keys_independent (p : Prog) (roots : List Nat) (sched : List Agent) (k : Key)
    (h : starts k (reach p roots sched).log = 0) : (reach p roots sched).cell k = .absent := by
  have := (reach_inv p roots sched).1.once k
  rw [h] at this
  by_cases hc : (reach p roots sched).cell k = .absent
  · exact hc
  · simp [hc] at this

/-- With `-v` one line `Running dependency: <name>` is printed by the once-body right before the function runs,
i.e. exactly at the `start` events: at most one per key under every schedule. -/
theorem verbose_line_once (p : Prog) (roots : List Nat) (sched : List Agent) (k : Key) :
    ((reach p roots sched).log.filter (· == Event.start k)).length ≤ 1 := by
  have := at_most_once p roots sched k
  simpa [starts, List.count_eq_countP, List.countP_eq_length_filter] using this

/-! ### the hypotheses matter: without the atomic lookup-or-insert the body can start twice -/
namespace Mutant
def cfgRacy : Cfg := { Cfg.fixed with atomicOnce := false }
def prog : Prog := fun o => match o with
  | .root 0 => ⟨[⟨false, [7]⟩], .ok⟩
  | .root 1 => ⟨[⟨false, [7]⟩], .ok⟩
  | _ => ⟨[], .ok⟩
def sched : List Agent :=
  [.owner (.root 0), .owner (.root 1), .site (.root 0) 0, .site (.root 1) 0, .site (.root 0) 0, .site (.root 1) 0]
/-- two requesters both see the key absent, both run the body -/
theorem twice : starts 7 (run cfgRacy prog (State.init [0, 1]) sched).log = 2 := by decide
/-- the same schedule under the current source: once -/
theorem fixed_once : starts 7 (run Cfg.fixed prog (State.init [0, 1]) sched).log = 1 := by decide
end Mutant

/-! ### non-vacuity: a concrete run that reaches an end event -/
example : Event.ret ⟨.root 0, 0⟩ [7] ∈ (reach Mutant.prog [0, 1]
    (Mutant.sched ++ [.owner (.key 7), .site (.root 0) 0, .site (.root 1) 0, .owner (.root 0), .owner (.root 1)])).log := by
  decide

end MageModel.Props.C01
