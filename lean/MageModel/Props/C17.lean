import MageModel.Target.Lemmas
/-!
# C17 — target.Path/Glob/Dir report exactly when a rebuild is needed

Property theorems only.  Quantifiers: every destination state, every list of sources (any length,
any order, any mtimes, any tree below a source), unbounded.
-/
namespace MageModel.Props.C17
open MageModel.Target

/-- A source exists and is not newer than `t`. -/
def Quiet (t : Int) (s : Option Int) : Prop := ∃ m, s = some m ∧ m ≤ t
/-- A tree source exists and nothing in it is newer than `t`. -/
def QuietTree (t : Int) (s : Option (List Int)) : Prop := ∃ ts, s = some ts ∧ ∀ m ∈ ts, m ≤ t

private theorem pathStep_cont {t : Int} {s : Option Int} : pathStep t s = .cont ↔ Quiet t s := by
  unfold pathStep Quiet after
  cases s with
  | none => simp
  | some m => by_cases h : m > t <;> simp [h] <;> omega
private theorem pathStep_yes {t : Int} {s : Option Int} : pathStep t s = .yes ↔ ∃ m, s = some m ∧ m > t := by
  unfold pathStep after
  cases s with
  | none => simp
  | some m => by_cases h : m > t <;> simp [h]
private theorem pathStep_fail {t : Int} {s : Option Int} : pathStep t s = .fail ↔ s = none := by
  unfold pathStep after
  cases s with
  | none => simp
  | some m => by_cases h : m > t <;> simp [h]

/-- **PathNewer, full decision table (true)**: the answer is `true` exactly when some source is strictly
newer than the destination time and every source before it exists and is not newer. -/
theorem pathNewer_true_iff (t : Int) (srcs : List (Option Int)) :
    pathNewer t srcs = .ok true ↔
      ∃ pre m post, srcs = pre ++ some m :: post ∧ m > t ∧ ∀ s ∈ pre, Quiet t s := by
  unfold pathNewer
  rw [scan_true_iff]
  constructor
  · rintro ⟨pre, post, h, hp⟩
    obtain ⟨l1, l2, rfl, h1, h2⟩ := List.map_eq_append_iff.mp h
    cases l2 with
    | nil => simp at h2
    | cons x xs =>
      simp at h2
      obtain ⟨m, rfl, hm⟩ := pathStep_yes.mp h2.1
      refine ⟨l1, m, xs, rfl, hm, ?_⟩
      intro s hs
      exact pathStep_cont.mp (hp _ (by rw [← h1]; exact List.mem_map_of_mem hs))
  · rintro ⟨pre, m, post, rfl, hm, hq⟩
    refine ⟨pre.map (pathStep t), post.map (pathStep t), ?_, ?_⟩
    · simp [pathStep_yes.mpr ⟨m, rfl, hm⟩]
    · intro s hs
      obtain ⟨a, ha, rfl⟩ := List.mem_map.mp hs
      exact pathStep_cont.mpr (hq a ha)

/-- **PathNewer (error)**: an error is returned exactly when a source is missing and every source before it
exists and is not newer ("unless an earlier source already proved the destination stale"). -/
theorem pathNewer_error_iff (t : Int) (srcs : List (Option Int)) (i : Nat) :
    pathNewer t srcs = .error i ↔
      ∃ pre post, srcs = pre ++ none :: post ∧ pre.length = i ∧ ∀ s ∈ pre, Quiet t s := by
  unfold pathNewer
  rw [scan_error_iff]
  constructor
  · rintro ⟨pre, post, h, hl, hp⟩
    obtain ⟨l1, l2, rfl, h1, h2⟩ := List.map_eq_append_iff.mp h
    cases l2 with
    | nil => simp at h2
    | cons x xs =>
      simp at h2
      have := pathStep_fail.mp h2.1
      subst this
      refine ⟨l1, xs, rfl, ?_, ?_⟩
      · rw [← hl, ← h1]; simp
      · intro s hs
        exact pathStep_cont.mp (hp _ (by rw [← h1]; exact List.mem_map_of_mem hs))
  · rintro ⟨pre, post, rfl, hl, hq⟩
    refine ⟨pre.map (pathStep t), post.map (pathStep t), ?_, by simp [hl], ?_⟩
    · simp [pathStep_fail.mpr rfl]
    · intro s hs
      obtain ⟨a, ha, rfl⟩ := List.mem_map.mp hs
      exact pathStep_cont.mpr (hq a ha)

/-- **PathNewer (false)**: `false` exactly when every source exists and none is newer. -/
theorem pathNewer_false_iff (t : Int) (srcs : List (Option Int)) :
    pathNewer t srcs = .ok false ↔ ∀ s ∈ srcs, Quiet t s := by
  unfold pathNewer
  rw [scan_false_iff]
  constructor
  · intro h s hs; exact pathStep_cont.mp (h _ (List.mem_map_of_mem hs))
  · intro h s hs
    obtain ⟨a, ha, rfl⟩ := List.mem_map.mp hs
    exact pathStep_cont.mpr (h a ha)

/-- When all sources exist the answer is the order-free "some source is strictly newer". -/
theorem pathNewer_all_exist (t : Int) (ms : List Int) :
    pathNewer t (ms.map some) = .ok (ms.any (fun m => decide (m > t))) := by
  unfold pathNewer
  rw [scan_noFail]
  · congr 1
    induction ms with
    | nil => rfl
    | cons m rest ih =>
      simp only [List.map_cons, List.any_cons, ih]
      congr 1
      simp [pathStep, after]; by_cases h : t < m <;> simp [h]
  · intro s hs
    simp only [List.map_map, List.mem_map] at hs
    obtain ⟨m, _, rfl⟩ := hs
    simp [pathStep]; split <;> simp

/-- **Order independence** (all sources exist): permuting the sources does not change the answer. -/
theorem pathNewer_perm (t : Int) (ms ms' : List Int) (h : ms.Perm ms') :
    pathNewer t (ms.map some) = pathNewer t (ms'.map some) := by
  rw [pathNewer_all_exist, pathNewer_all_exist]
  congr 1
  have : ∀ l : List Int, l.any (fun m => decide (m > t)) = true ↔ ∃ m ∈ l, m > t := by
    intro l; simp
  apply Bool.eq_iff_iff.mpr
  rw [this, this]
  constructor
  · rintro ⟨m, hm, h'⟩; exact ⟨m, h.mem_iff.mp hm, h'⟩
  · rintro ⟨m, hm, h'⟩; exact ⟨m, h.mem_iff.mpr hm, h'⟩

/-- **Strictness**: an equal time stamp is not newer; one nanosecond later is. -/
theorem strict_equal (t : Int) : pathNewer t [some t] = .ok false := by
  simp [pathNewer, pathStep, after, scan, scanFrom]
theorem strict_plus_one (t : Int) : pathNewer t [some (t + 1)] = .ok true := by
  have : t < t + 1 := by omega
  simp [pathNewer, pathStep, after, scan, scanFrom, this]

/-- **Path**: missing destination ⇒ `true`, whatever the sources (even missing ones). -/
theorem path_missing (srcs : List (Option Int)) : path .missing srcs = .ok true := rfl
theorem glob_missing (g) : glob .missing g = .ok true := rfl
theorem dir_missing (z) (srcs) : dir z .missing srcs = .ok true := rfl

/-- **Path, existing destination, all sources exist**: `true` iff some source is strictly newer than the
destination's own mtime (also when the destination is a directory: Path never descends). -/
theorem path_spec (d : Dst) (mt : Int) (hd : d.mt? = some mt) (ms : List Int) :
    path d (ms.map some) = .ok (ms.any (fun m => decide (m > mt))) := by
  cases d <;> simp [Dst.mt?] at hd <;> subst hd <;> simp [path, pathNewer_all_exist, liftAns]

/-- Path agrees with PathNewer on the destination's time. -/
theorem path_agrees (d : Dst) (mt : Int) (hd : d.mt? = some mt) (srcs) :
    path d srcs = liftAns (pathNewer mt srcs) := by
  cases d <;> simp [Dst.mt?] at hd <;> subst hd <;> rfl

/-! ### Dir -/

private theorem dirStep_cont {t : Int} {s : Option (List Int)} : dirStep t s = .cont ↔ QuietTree t s := by
  unfold dirStep QuietTree
  cases s with
  | none => simp
  | some ts =>
    simp only [walkNewer_eq_any]
    by_cases h : ts.any (fun m => after m t) = true
    · simp only [h, if_true]
      simp [after] at h
      obtain ⟨m, hm, hlt⟩ := h
      simp; exact ⟨m, hm, hlt⟩
    · simp only [h]
      simp [after] at h
      simp; exact h
private theorem dirStep_yes {t : Int} {s : Option (List Int)} :
    dirStep t s = .yes ↔ ∃ ts, s = some ts ∧ ∃ m ∈ ts, m > t := by
  unfold dirStep
  cases s with
  | none => simp
  | some ts =>
    simp only [walkNewer_eq_any]
    by_cases h : ts.any (fun m => after m t) = true
    · simp only [h, if_true]
      simp [after] at h
      simp; exact h
    · simp only [h]
      simp [after] at h
      simp; exact h
private theorem dirStep_fail {t : Int} {s : Option (List Int)} : dirStep t s = .fail ↔ s = none := by
  unfold dirStep
  cases s with
  | none => simp
  | some ts => simp; split <;> simp

/-- **DirNewer (true)**: some entry — the source itself or any file or directory beneath it — is strictly newer,
and every earlier source exists with nothing newer in it. -/
theorem dirNewer_true_iff (t : Int) (srcs : List (Option (List Int))) :
    dirNewer t srcs = .ok true ↔
      ∃ pre ts post, srcs = pre ++ some ts :: post ∧ (∃ m ∈ ts, m > t) ∧ ∀ s ∈ pre, QuietTree t s := by
  unfold dirNewer
  rw [scan_true_iff]
  constructor
  · rintro ⟨pre, post, h, hp⟩
    obtain ⟨l1, l2, rfl, h1, h2⟩ := List.map_eq_append_iff.mp h
    cases l2 with
    | nil => simp at h2
    | cons x xs =>
      simp at h2
      obtain ⟨ts, rfl, hm⟩ := dirStep_yes.mp h2.1
      refine ⟨l1, ts, xs, rfl, hm, ?_⟩
      intro s hs
      exact dirStep_cont.mp (hp _ (by rw [← h1]; exact List.mem_map_of_mem hs))
  · rintro ⟨pre, ts, post, rfl, hm, hq⟩
    refine ⟨pre.map (dirStep t), post.map (dirStep t), ?_, ?_⟩
    · simp [dirStep_yes.mpr ⟨ts, rfl, hm⟩]
    · intro s hs
      obtain ⟨a, ha, rfl⟩ := List.mem_map.mp hs
      exact dirStep_cont.mpr (hq a ha)

theorem dirNewer_error_iff (t : Int) (srcs : List (Option (List Int))) (i : Nat) :
    dirNewer t srcs = .error i ↔
      ∃ pre post, srcs = pre ++ none :: post ∧ pre.length = i ∧ ∀ s ∈ pre, QuietTree t s := by
  unfold dirNewer
  rw [scan_error_iff]
  constructor
  · rintro ⟨pre, post, h, hl, hp⟩
    obtain ⟨l1, l2, rfl, h1, h2⟩ := List.map_eq_append_iff.mp h
    cases l2 with
    | nil => simp at h2
    | cons x xs =>
      simp at h2
      have := dirStep_fail.mp h2.1
      subst this
      refine ⟨l1, xs, rfl, ?_, ?_⟩
      · rw [← hl, ← h1]; simp
      · intro s hs
        exact dirStep_cont.mp (hp _ (by rw [← h1]; exact List.mem_map_of_mem hs))
  · rintro ⟨pre, post, rfl, hl, hq⟩
    refine ⟨pre.map (dirStep t), post.map (dirStep t), ?_, by simp [hl], ?_⟩
    · simp [dirStep_fail.mpr rfl]
    · intro s hs
      obtain ⟨a, ha, rfl⟩ := List.mem_map.mp hs
      exact dirStep_cont.mpr (hq a ha)

theorem dirNewer_false_iff (t : Int) (srcs : List (Option (List Int))) :
    dirNewer t srcs = .ok false ↔ ∀ s ∈ srcs, QuietTree t s := by
  unfold dirNewer
  rw [scan_false_iff]
  constructor
  · intro h s hs; exact dirStep_cont.mp (h _ (List.mem_map_of_mem hs))
  · intro h s hs
    obtain ⟨a, ha, rfl⟩ := List.mem_map.mp hs
    exact dirStep_cont.mpr (h a ha)

/-- All sources exist ⇒ the answer is "some entry of some tree is strictly newer": independent of the
order of the sources *and* of the visit order inside each tree. -/
theorem dirNewer_all_exist (t : Int) (trees : List (List Int)) :
    dirNewer t (trees.map some) = .ok (decide (∃ ts ∈ trees, ∃ m ∈ ts, m > t)) := by
  cases hb : decide (∃ ts ∈ trees, ∃ m ∈ ts, m > t) with
  | true =>
    have hb' := of_decide_eq_true hb
    -- take the first tree with a newer entry
    rw [dirNewer_true_iff]
    clear hb
    induction trees with
    | nil => obtain ⟨ts, h, _⟩ := hb'; cases h
    | cons x rest ih =>
      by_cases hx : ∃ m ∈ x, m > t
      · exact ⟨[], x, rest.map some, by simp, hx, by simp⟩
      · have : ∃ ts ∈ rest, ∃ m ∈ ts, m > t := by
          obtain ⟨ts, h, hm⟩ := hb'
          rcases List.mem_cons.mp h with h | h
          · subst h; exact absurd hm hx
          · exact ⟨ts, h, hm⟩
        obtain ⟨pre, ts, post, h1, h2, h3⟩ := ih this
        refine ⟨some x :: pre, ts, post, by simp [h1], h2, ?_⟩
        intro s hs
        rcases List.mem_cons.mp hs with h | h
        · subst h; exact ⟨x, rfl, fun m hm => by
            have : ¬ m > t := fun hgt => hx ⟨m, hm, hgt⟩
            omega⟩
        · exact h3 s h
  | false =>
    have hb' := of_decide_eq_false hb
    rw [dirNewer_false_iff]
    intro s hs
    obtain ⟨ts, hts, rfl⟩ := List.mem_map.mp hs
    exact ⟨ts, rfl, fun m hm => by
      have : ¬ m > t := fun hgt => hb' ⟨ts, hts, m, hm, hgt⟩
      omega⟩

theorem dirNewer_perm (t : Int) (a b : List (List Int)) (h : a.Perm b) :
    dirNewer t (a.map some) = dirNewer t (b.map some) := by
  rw [dirNewer_all_exist, dirNewer_all_exist]
  congr 1
  apply decide_eq_decide.mpr
  constructor
  · rintro ⟨ts, h1, h2⟩; exact ⟨ts, h.mem_iff.mp h1, h2⟩
  · rintro ⟨ts, h1, h2⟩; exact ⟨ts, h.mem_iff.mpr h1, h2⟩

/-- Pointwise permutation of the visit lists (a different `filepath.Walk` order inside each source). -/
inductive TreesPerm : List (List Int) → List (List Int) → Prop
  | nil : TreesPerm [] []
  | cons {x y xs ys} : x.Perm y → TreesPerm xs ys → TreesPerm (x :: xs) (y :: ys)

/-- Visit order inside a tree is irrelevant as well. -/
theorem dirNewer_walk_order (t : Int) (a b : List (List Int)) (h : TreesPerm a b) :
    dirNewer t (a.map some) = dirNewer t (b.map some) := by
  rw [dirNewer_all_exist, dirNewer_all_exist]
  congr 1
  apply decide_eq_decide.mpr
  induction h with
  | nil => simp
  | cons hp _ ih =>
    simp only [List.mem_cons, exists_eq_or_imp]
    rw [ih]
    constructor
    · rintro (⟨m, h1, h2⟩ | h)
      · exact Or.inl ⟨m, hp.mem_iff.mp h1, h2⟩
      · exact Or.inr h
    · rintro (⟨m, h1, h2⟩ | h)
      · exact Or.inl ⟨m, hp.mem_iff.mpr h1, h2⟩
      · exact Or.inr h

/-! ### NewestModTime / OldestModTime -/

/-- **NewestModTime is the maximum** over every entry of every target (when all exist and no entry predates
Go's zero time, which no file system can represent). -/
theorem newest_is_max (zero : Int) (trees : List (List Int)) :
    ∃ r, newest zero (trees.map some) = .ok r ∧ (∀ ts ∈ trees, ∀ m ∈ ts, m ≤ r) ∧ zero ≤ r ∧
      (r = zero ∨ ∃ ts ∈ trees, r ∈ ts) := by
  unfold newest
  suffices h : ∀ (i : Nat) (t : Int), ∃ r, newestFrom i t (trees.map some) = .ok r ∧
      (∀ ts ∈ trees, ∀ m ∈ ts, m ≤ r) ∧ t ≤ r ∧ (r = t ∨ ∃ ts ∈ trees, r ∈ ts) from h 0 zero
  induction trees with
  | nil => intro i t; exact ⟨t, rfl, by simp, Int.le_refl _, Or.inl rfl⟩
  | cons x rest ih =>
    intro i t
    obtain ⟨r, h1, h2, h3, h4⟩ := ih (i+1) (newestWalk t x)
    refine ⟨r, by simp [newestFrom, h1], ?_, ?_, ?_⟩
    · intro ts hts m hm
      rcases List.mem_cons.mp hts with h | h
      · subst h; have := newestWalk_upper t ts m hm; omega
      · exact h2 ts h m hm
    · have := newestWalk_ge t x; omega
    · rcases h4 with h | ⟨ts, hts, hr⟩
      · rcases newestWalk_mem t x with h' | h'
        · left; rw [h, h']
        · right; exact ⟨x, by simp, by rw [h]; exact h'⟩
      · right; exact ⟨ts, by simp [hts], hr⟩

/-- A missing target is an error of NewestModTime (first missing one, by index). -/
theorem newest_missing (zero : Int) (pre : List (List Int)) (post) :
    newest zero (pre.map some ++ none :: post) = .error pre.length := by
  unfold newest
  suffices h : ∀ (i : Nat) (t : Int), newestFrom i t (pre.map some ++ none :: post) = .error (i + pre.length) by
    simpa using h 0 zero
  induction pre with
  | nil => intro i t; simp [newestFrom]
  | cons x rest ih => intro i t; simp [newestFrom, ih]; omega

/-- **OldestModTime is the minimum** over every entry, as soon as there is at least one entry —
whatever the sentinel (this is what the D23 fix restores; see `Pinned.oldest_sentinel_wins`). -/
theorem oldest_is_min (sentinel : Int) (trees : List (List Int)) (hne : ∃ ts ∈ trees, ts ≠ []) :
    ∃ r, oldest true sentinel (trees.map some) = .ok r ∧ (∀ ts ∈ trees, ∀ m ∈ ts, r ≤ m) ∧
      (∃ ts ∈ trees, r ∈ ts) := by
  unfold oldest
  suffices h : ∀ (i : Nat) (t : Int) (first : Bool), ∃ r, oldestFrom true i (t, first) (trees.map some) = .ok r ∧
      (∀ ts ∈ trees, ∀ m ∈ ts, r ≤ m) ∧ (first = false → r ≤ t) ∧
      ((∃ ts ∈ trees, r ∈ ts) ∨ (r = t ∧ (first = true → ∀ ts ∈ trees, ts = []))) by
    obtain ⟨r, h1, h2, _, h4⟩ := h 0 sentinel true
    refine ⟨r, h1, h2, ?_⟩
    rcases h4 with h | ⟨_, h⟩
    · exact h
    · obtain ⟨ts, hts, hne'⟩ := hne; exact absurd (h rfl ts hts) hne'
  clear hne
  induction trees with
  | nil => intro i t first; exact ⟨t, rfl, by simp, fun _ => Int.le_refl _, Or.inr ⟨rfl, by simp⟩⟩
  | cons x rest ih =>
    intro i t first
    obtain ⟨w1, w2, w3, w4⟩ := oldestWalk_spec x t first
    generalize hw : oldestWalk true (t, first) x = w at w1 w2 w3 w4
    obtain ⟨t', first'⟩ := w
    obtain ⟨r, h1, h2, h3, h4⟩ := ih (i+1) t' first'
    simp only at w1 w2 w3 w4
    refine ⟨r, by simp [oldestFrom, hw, h1], ?_, ?_, ?_⟩
    · intro ts hts m hm
      rcases List.mem_cons.mp hts with h | h
      · subst h
        -- r ≤ t' ≤ m : need first' = false, which holds since ts is non-empty
        have hf : first' = false := by
          rw [w3]; cases ts with
          | nil => cases hm
          | cons _ _ => simp
        have := h3 hf; have := w1 m hm; omega
      · exact h2 ts h m hm
    · intro hf
      subst hf
      have hf' : first' = false := by rw [w3]; simp
      have := h3 hf'; have := w2 rfl; omega
    · rcases h4 with ⟨ts, hts, hr⟩ | ⟨hr, hall⟩
      · left; exact ⟨ts, by simp [hts], hr⟩
      · rcases w4 with h | h
        · left; exact ⟨x, by simp, by rw [hr]; exact h⟩
        · right
          have ht : t' = t := by have := congrArg Prod.fst h; simpa using this
          have hfst : first' = first := by have := congrArg Prod.snd h; simpa using this
          refine ⟨by rw [hr, ht], ?_⟩
          intro hft ts hts
          subst hft
          rcases List.mem_cons.mp hts with h' | h'
          · subst h'
            rw [hfst] at w3
            cases ts with
            | nil => rfl
            | cons y ys => simp at w3
          · exact hall hfst ts h'

/-! ### Dir with a directory destination, Glob -/

/-- **Dir, directory destination**: the reference time is the newest entry of the destination's whole subtree
(root included); the answer is then DirNewer against that time. -/
theorem dir_dirdst (zero : Int) (mt : Int) (tree : List Int) (srcs) :
    ∃ r, (∀ m ∈ tree, m ≤ r) ∧ (r = zero ∨ r ∈ tree) ∧ zero ≤ r ∧
      dir zero (.dir mt (some tree)) srcs = liftAns (dirNewer r srcs) := by
  obtain ⟨r, h1, h2, h3, h4⟩ := newest_is_max zero [tree]
  refine ⟨r, fun m hm => h2 tree (by simp) m hm, ?_, h3, ?_⟩
  · rcases h4 with h | ⟨ts, hts, hr⟩
    · exact Or.inl h
    · simp at hts; subst hts; exact Or.inr hr
  · simp only [List.map_cons, List.map_nil] at h1
    simp [dir, h1]

theorem dir_filedst (zero mt : Int) (srcs) : dir zero (.file mt) srcs = liftAns (dirNewer mt srcs) := rfl

/-- DirNewer against NewestModTime of `d` is Dir with destination directory `d` (agreement of the helpers). -/
theorem dir_agrees_newest (zero mt : Int) (tree : List Int) (srcs) (r : Int)
    (h : newest zero [some tree] = .ok r) :
    dir zero (.dir mt (some tree)) srcs = liftAns (dirNewer r srcs) := by
  simp [dir, h]

private theorem globStep_cont {t : Int} {g : Option (List (Option Int))} :
    globStep t g = .cont ↔ ∃ ms, g = some ms ∧ ms ≠ [] ∧ ∀ s ∈ ms, Quiet t s := by
  cases g with
  | none => simp [globStep]
  | some ms =>
    cases ms with
    | nil => simp [globStep]
    | cons a as =>
      simp only [globStep]
      cases h : pathNewer t (a :: as) with
      | error i =>
        constructor
        · intro hh; simp at hh
        · rintro ⟨ms, hms, _, hq⟩
          cases hms
          have := (pathNewer_false_iff t _).mpr hq
          rw [h] at this; cases this
      | ok b =>
        cases b with
        | true =>
          constructor
          · intro hh; simp at hh
          · rintro ⟨ms, hms, _, hq⟩
            cases hms
            have := (pathNewer_false_iff t _).mpr hq
            rw [h] at this; cases this
        | false =>
          have := (pathNewer_false_iff t (a :: as)).mp h
          constructor
          · intro _; exact ⟨a :: as, rfl, by simp, this⟩
          · intro _; rfl

/-- **GlobNewer (false)**: `false` exactly when every pattern is well-formed, matches at least one path, and no
match is strictly newer. -/
theorem globNewer_false_iff (t : Int) (globs : List (Option (List (Option Int)))) :
    globNewer t globs = .ok false ↔ ∀ g ∈ globs, ∃ ms, g = some ms ∧ ms ≠ [] ∧ ∀ s ∈ ms, Quiet t s := by
  unfold globNewer
  rw [scan_false_iff]
  constructor
  · intro h g hg; exact globStep_cont.mp (h _ (List.mem_map_of_mem hg))
  · intro h s hs
    obtain ⟨a, ha, rfl⟩ := List.mem_map.mp hs
    exact globStep_cont.mpr (h a ha)

/-- **GlobNewer (true)**: a pattern has a strictly newer match that is decisive within its own match list, and
every earlier pattern matched something with nothing newer. -/
theorem globNewer_true_iff (t : Int) (globs : List (Option (List (Option Int)))) :
    globNewer t globs = .ok true ↔
      ∃ pre ms post, globs = pre ++ some ms :: post ∧ pathNewer t ms = .ok true ∧
        ∀ g ∈ pre, ∃ ms', g = some ms' ∧ ms' ≠ [] ∧ ∀ s ∈ ms', Quiet t s := by
  unfold globNewer
  rw [scan_true_iff]
  have yes_iff : ∀ g, globStep t g = .yes ↔ ∃ ms, g = some ms ∧ pathNewer t ms = .ok true := by
    intro g
    cases g with
    | none => simp [globStep]
    | some ms =>
      cases ms with
      | nil => simp [globStep, pathNewer, scan, scanFrom]
      | cons a as =>
        simp only [globStep]
        cases h : pathNewer t (a :: as) with
        | error i => simp [h]
        | ok b => cases b <;> simp [h]
  constructor
  · rintro ⟨pre, post, h, hp⟩
    obtain ⟨l1, l2, rfl, h1, h2⟩ := List.map_eq_append_iff.mp h
    cases l2 with
    | nil => simp at h2
    | cons x xs =>
      simp at h2
      obtain ⟨ms, rfl, hm⟩ := (yes_iff x).mp h2.1
      refine ⟨l1, ms, xs, rfl, hm, ?_⟩
      intro s hs
      exact globStep_cont.mp (hp _ (by rw [← h1]; exact List.mem_map_of_mem hs))
  · rintro ⟨pre, ms, post, rfl, hm, hq⟩
    refine ⟨pre.map (globStep t), post.map (globStep t), ?_, ?_⟩
    · simp [(yes_iff (some ms)).mpr ⟨ms, rfl, hm⟩]
    · intro s hs
      obtain ⟨a, ha, rfl⟩ := List.mem_map.mp hs
      exact globStep_cont.mpr (hq a ha)

/-- A pattern without matches is an error unless an earlier pattern already decided. -/
theorem globNewer_empty_match (t : Int) (pre : List (List Int)) (post)
    (hpre : ∀ ms ∈ pre, ms ≠ [] ∧ ∀ m ∈ ms, m ≤ t) :
    globNewer t (pre.map (fun ms => some (ms.map some)) ++ some [] :: post) = .error pre.length := by
  unfold globNewer
  rw [scan_error_iff]
  refine ⟨(pre.map (fun ms => some (ms.map some))).map (globStep t), post.map (globStep t), by simp [globStep], by simp, ?_⟩
  intro s hs
  simp only [List.map_map, List.mem_map] at hs
  obtain ⟨ms, hms, rfl⟩ := hs
  apply globStep_cont.mpr
  refine ⟨ms.map some, rfl, ?_, ?_⟩
  · intro h; exact (hpre ms hms).1 (List.map_eq_nil_iff.mp h)
  · intro s hs
    obtain ⟨m, hm, rfl⟩ := List.mem_map.mp hs
    exact ⟨m, rfl, (hpre ms hms).2 m hm⟩

/-! ### The pinned tree (before the D23 fix) violated `oldest_is_min` -/
namespace Pinned
/-- `useFirst = false` is the loop as it was: every entry later than the sentinel ⇒ the sentinel is returned. -/
theorem oldest_sentinel_wins : oldest false 100 [some [200, 300]] = .ok 100 := by decide
/-- With the fix the minimum is returned on the same input. -/
theorem oldest_fixed : oldest true 100 [some [200, 300]] = .ok 200 := by decide
end Pinned

/-! ### Non-vacuity: the hypotheses of the theorems above are met by concrete non-trivial inputs -/
example : pathNewer 10 [some 5, some 11, none] = .ok true := by decide
example : pathNewer 10 [some 5, none, some 11] = .error 1 := by decide
example : Quiet 10 (some 10) := ⟨10, rfl, by omega⟩
example : dirNewer 10 [some [1, 2, 3], some [4, 11]] = .ok true := by decide
example : (∃ ts ∈ [[(3:Int), 4], []], ts ≠ []) := ⟨[3,4], by simp, by simp⟩
example : dir 0 (.dir 50 (some [50, 70, 60])) [some [65, 70]] = .ok false := by decide
example : dir 0 (.dir 50 (some [50, 70, 60])) [some [65, 71]] = .ok true := by decide
example : globNewer 10 [some [some 3], some []] = .error 1 := by decide

end MageModel.Props.C17
