import MageModel.Sh.Exec
/-!
# C15 — sh reports a command's outcome exactly
Quantifiers: every raw outcome (all exit codes, unbounded), every payload, every env map / inherited environment.
-/
namespace MageModel.Props.C15
open MageModel.Sh

/-- the returned error is nil exactly when the command exited 0 -/
theorem nil_iff_zero (raw : Raw) : (exec raw).2 = none ↔ raw = .exited 0 := by
  cases raw with
  | exited k => cases k <;> simp [exec, Raw.isNil, cmdRan]
  | signaled => simp [exec, Raw.isNil, cmdRan]
  | startFailed => simp [exec, Raw.isNil, cmdRan]

/-- exit with code k ≠ 0: Exec's first result is true and both ExitStatus functions return k -/
theorem status_exact (k : Nat) (hk : k ≠ 0) :
    (exec (.exited k)).1 = true ∧ mgExitStatus (exec (.exited k)).2 = k ∧ shExitStatus (exec (.exited k)).2 = k := by
  cases k with
  | zero => exact absurd rfl hk
  | succ n => simp [exec, Raw.isNil, cmdRan, exitStatusRaw, mgExitStatus, shExitStatus]

/-- exit 0: ran, no error, status 0 -/
theorem status_zero : exec (.exited 0) = (true, none) ∧ mgExitStatus none = 0 ∧ shExitStatus none = 0 := by
  simp [exec, Raw.isNil, mgExitStatus, shExitStatus]

/-- could not be started: first result false, status 1 by both functions -/
theorem not_started : (exec .startFailed).1 = false ∧ mgExitStatus (exec .startFailed).2 = 1 ∧
    shExitStatus (exec .startFailed).2 = 1 := by
  simp [exec, Raw.isNil, cmdRan, mgExitStatus, shExitStatus]

/-- CmdRan / ExitStatus on the *raw* os/exec error give the same two answers as Exec's results
    (this is what the mage front end applies to the compiled binary, C05). -/
theorem raw_helpers_agree (raw : Raw) (h : raw ≠ .signaled) :
    cmdRan raw = (exec raw).1 ∧ exitStatusRaw raw = mgExitStatus (exec raw).2 := by
  cases raw with
  | exited k => cases k <;> simp [exec, Raw.isNil, cmdRan, exitStatusRaw, mgExitStatus]
  | signaled => exact absurd rfl h
  | startFailed => simp [exec, Raw.isNil, cmdRan, exitStatusRaw, mgExitStatus]

/-- mg.ExitStatus and sh.ExitStatus agree on every error Exec can build -/
theorem statuses_agree (raw : Raw) : mgExitStatus (exec raw).2 = shExitStatus (exec raw).2 := by
  cases raw with
  | exited k => cases k <;> simp [exec, Raw.isNil, cmdRan, mgExitStatus, shExitStatus]
  | signaled => simp [exec, Raw.isNil, cmdRan, mgExitStatus, shExitStatus]
  | startFailed => simp [exec, Raw.isNil, cmdRan, mgExitStatus, shExitStatus]

/-! ### Output trims exactly one trailing newline -/

theorem trim_newline (s : List Char) : trimOne (s ++ ['\n']) = s := by
  simp [trimOne]

theorem trim_none (s : List Char) (h : s.getLast? ≠ some '\n') : trimOne s = s := by
  unfold trimOne
  cases hr : s.reverse with
  | nil => rfl
  | cons c r =>
    have : s.getLast? = some c := by
      rw [List.getLast?_eq_head?_reverse, hr]; rfl
    rw [this] at h
    have hc : c ≠ '\n' := fun e => h (by rw [e])
    split
    · rename_i r' heq; cases heq; exact absurd rfl hc
    · rfl

/-- exactly one: two trailing newlines leave one -/
theorem trim_exactly_one (s : List Char) : trimOne (s ++ ['\n', '\n']) = s ++ ['\n'] := by
  have : s ++ ['\n', '\n'] = (s ++ ['\n']) ++ ['\n'] := by simp
  rw [this, trim_newline]

/-! ### env map overrides inherited variables, consistently in expansion and in the child -/

@[simp] private theorem lastFrom_nil (k : String) (acc : Option String) : lastFrom k acc [] = acc := rfl
private theorem lastFrom_cons (k : String) (acc : Option String) (kv : String × String) (rest) :
    lastFrom k acc (kv :: rest) = lastFrom k (if kv.1 == k then some kv.2 else acc) rest := rfl

private theorem lastFrom_or (k : String) (acc : Option String) (l : List (String × String)) :
    lastFrom k acc l = (lastFrom k none l).or acc := by
  induction l generalizing acc with
  | nil => simp
  | cons kv rest ih =>
    rw [lastFrom_cons, lastFrom_cons, ih (if kv.1 == k then some kv.2 else acc), ih (if kv.1 == k then some kv.2 else none)]
    cases hb : (kv.1 == k)
    · simp
    · cases lastFrom k none rest <;> simp

private theorem lastFrom_none_of_not_mem (k : String) (l : List (String × String)) (h : k ∉ l.map Prod.fst) :
    lastFrom k none l = none := by
  induction l with
  | nil => rfl
  | cons kv rest ih =>
    simp only [List.map_cons, List.mem_cons, not_or] at h
    rw [lastFrom_cons]
    have : (kv.1 == k) = false := by
      cases hb : (kv.1 == k)
      · rfl
      · exact absurd (by simpa using hb : kv.1 = k).symm h.1
    rw [this]
    exact ih h.2

private theorem lookup_cons (k : String) (k' v' : String) (rest : List (String × String)) :
    ((k', v') :: rest).lookup k = if k == k' then some v' else rest.lookup k := by
  cases hb : (k == k') <;> simp [List.lookup, hb]

/-- with unique keys (a Go map; a well-formed environ) first and last binding coincide -/
theorem lastFrom_eq_lookup (k : String) (l : List (String × String)) (hu : (l.map Prod.fst).Nodup) :
    lastFrom k none l = l.lookup k := by
  induction l with
  | nil => rfl
  | cons kv rest ih =>
    obtain ⟨k', v'⟩ := kv
    simp only [List.map_cons, List.nodup_cons] at hu
    rw [lastFrom_cons, lastFrom_or, lookup_cons]
    by_cases hk : k' = k
    · subst hk
      rw [lastFrom_none_of_not_mem k' rest hu.1]
      simp
    · have h2 : (k' == k) = false := by
        cases hb : (k' == k)
        · rfl
        · exact absurd (by simpa using hb) hk
      have h3 : (k == k') = false := by
        cases hb : (k == k')
        · rfl
        · exact absurd (by simpa using hb : k = k').symm hk
      simp only [h2, h3]
      rw [ih hu.2]
      cases rest.lookup k <;> simp

private theorem lookup_some_iff_mem (k v : String) (l : List (String × String)) (hu : (l.map Prod.fst).Nodup) :
    l.lookup k = some v ↔ (k, v) ∈ l := by
  induction l with
  | nil => simp
  | cons kv rest ih =>
    obtain ⟨k', v'⟩ := kv
    simp only [List.map_cons, List.nodup_cons] at hu
    rw [lookup_cons]
    by_cases hk : k = k'
    · subst hk
      simp only [BEq.rfl, if_true, List.mem_cons, Prod.mk.injEq, true_and]
      constructor
      · intro h; left; exact (Option.some.inj h).symm
      · rintro (h | h)
        · rw [h]
        · exact absurd (List.mem_map_of_mem (f := Prod.fst) h) hu.1
    · have h3 : (k == k') = false := by
        cases hb : (k == k')
        · rfl
        · exact absurd (by simpa using hb) hk
      simp only [h3, List.mem_cons, Prod.mk.injEq, Bool.false_eq_true, if_false]
      rw [ih hu.2]
      constructor
      · intro h; right; exact h
      · rintro (h | h)
        · exact absurd h.1 hk
        · exact h

private theorem perm_lookup (k : String) (a b : List (String × String)) (ha : (a.map Prod.fst).Nodup)
    (hb : (b.map Prod.fst).Nodup) (h : a.Perm b) : a.lookup k = b.lookup k := by
  cases hbl : b.lookup k with
  | some v => exact (lookup_some_iff_mem k v a ha).mpr (h.mem_iff.mpr ((lookup_some_iff_mem k v b hb).mp hbl))
  | none =>
    cases hal : a.lookup k with
    | none => rfl
    | some v =>
      have := (lookup_some_iff_mem k v b hb).mpr (h.mem_iff.mp ((lookup_some_iff_mem k v a ha).mp hal))
      rw [hbl] at this; cases this

theorem childGetenv_append (k : String) (E m : List (String × String)) :
    childGetenv (E ++ m) k = (childGetenv m k).or (childGetenv E k) := by
  unfold childGetenv
  have : lastFrom k none (E ++ m) = lastFrom k (lastFrom k none E) m := by
    unfold lastFrom; rw [List.foldl_append]
  rw [this, lastFrom_or]

/-- **Override consistency**: for every key, what `$KEY` expands to in the command line is what the child finds
in its environment: the map entry if the map has the key (also when its value is empty), else the inherited
value — whatever order the map was iterated in. -/
theorem override_consistent (E m mπ : List (String × String)) (k : String)
    (hE : (E.map Prod.fst).Nodup) (hm : (m.map Prod.fst).Nodup) (hπ : mπ.Perm m) :
    lookupExec m (getenv E) k = (childGetenv (childEnv E mπ) k).getD "" := by
  have hmπ : (mπ.map Prod.fst).Nodup := (hπ.map Prod.fst).nodup_iff.mpr hm
  unfold childEnv
  rw [childGetenv_append]
  unfold childGetenv
  rw [lastFrom_eq_lookup k mπ hmπ, lastFrom_eq_lookup k E hE]
  have hperm : mπ.lookup k = m.lookup k := perm_lookup k mπ m hmπ hm hπ
  rw [hperm]
  unfold lookupExec getenv
  cases m.lookup k <;> simp

/-- map wins over inherited, in both places -/
theorem map_wins (E m : List (String × String)) (k v : String)
    (hE : (E.map Prod.fst).Nodup) (hm : (m.map Prod.fst).Nodup) (h : m.lookup k = some v) :
    lookupExec m (getenv E) k = v ∧ childGetenv (childEnv E m) k = some v := by
  have := override_consistent E m m k hE hm (List.Perm.refl _)
  refine ⟨by simp [lookupExec, h], ?_⟩
  unfold childEnv
  rw [childGetenv_append]
  unfold childGetenv
  rw [lastFrom_eq_lookup k m hm, h]; rfl

/-- inherited variables not mentioned in the map pass through -/
theorem inherited_passthrough (E m : List (String × String)) (k : String)
    (hE : (E.map Prod.fst).Nodup) (hm : (m.map Prod.fst).Nodup) (h : m.lookup k = none) :
    childGetenv (childEnv E m) k = getenv E k := by
  unfold childEnv
  rw [childGetenv_append]
  unfold childGetenv getenv
  rw [lastFrom_eq_lookup k m hm, lastFrom_eq_lookup k E hE, h]; rfl

/-! ### stdout gating -/
/-- stdout is shown on the caller's stdout iff verbose, or a V variant; captured by Output*; stderr/stdin are not gated. -/
theorem stdout_gating (verbose : Bool) :
    stdoutSink verbose .run = (if verbose then .osStdout else .discard) ∧
    stdoutSink verbose .runWith = (if verbose then .osStdout else .discard) ∧
    stdoutSink verbose .runV = .osStdout ∧ stdoutSink verbose .runWithV = .osStdout ∧
    stdoutSink verbose .output = .buffer ∧ stdoutSink verbose .outputWith = .buffer := by
  simp [stdoutSink]

/-! ### non-vacuity -/
example : exec (.exited 94) = (true, some (.fatal 94)) := by decide
example : trimOne "a\n\n".toList = "a\n".toList := by decide
example : lookupExec [("K", "")] (getenv [("K", "inherited")]) "K" = "" := by decide
example : childGetenv (childEnv [("K", "inherited")] [("K", "")]) "K" = some "" := by decide
example : ([("A","1"),("B","2")].map Prod.fst).Nodup := by decide

end MageModel.Props.C15
