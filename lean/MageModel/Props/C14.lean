import MageModel.Fn.Main
import MageModel.Fn.JsonInj
/-!
# C14 — mg.F accepts exactly well-typed argument lists and calls faithfully
All signatures (any parameter and result types, namespace receiver, context, variadic tail) × all argument lists
(any length, any dynamic types incl. untyped nil and look-alike types), unbounded.
-/
namespace MageModel.Props.C14
open MageModel.Fn

theorem prefixLen_le (ins : List Ty) : prefixLen ins ≤ ins.length := by unfold prefixLen; omega

theorem rest_length (ins : List Ty) : ((stripPrefix ins).2.2).length = ins.length - prefixLen ins := by
  rw [← stripPrefix_drop]; simp

theorem rest_get (ins : List Ty) (k : Nat) : ((stripPrefix ins).2.2)[k]? = ins[prefixLen ins + k]? := by
  rw [← stripPrefix_drop]; simp

theorem paramTy_nonvariadic (s : Sig) (hv : s.variadic = false) (j : Nat) : paramTy s j = s.ins[j]? := by
  unfold paramTy
  cases h : s.ins[j]? with
  | none => rfl
  | some t => simp [hv]

theorem eq_map_some_of_get (args : List ArgTy) (rest : List Ty) (hl : args.length = rest.length)
    (h : ∀ k, k < args.length → ∃ t, rest[k]? = some t ∧ args[k]? = some (some t)) : args = rest.map some := by
  apply List.ext_getElem?
  intro k
  by_cases hk : k < args.length
  · obtain ⟨t, h1, h2⟩ := h k hk
    rw [h2]; simp [h1]
  · rw [List.getElem?_eq_none (by omega), List.getElem?_eq_none (by simp; omega)]

/-- the prefix (receiver, context) never swallows a slice parameter -/
theorem prefixLen_lt_of_slice (pre : List Ty) (e : Ty) : prefixLen (pre ++ [Ty.slice e]) ≤ pre.length := by
  unfold prefixLen
  match pre with
  | [] => simp [stripPrefix]
  | [.ns] => simp [stripPrefix]
  | [.ctx] => simp [stripPrefix]
  | .ns :: .ctx :: rest => simp [stripPrefix]
  | .ns :: .ns :: rest => simp [stripPrefix]
  | .ns :: .int :: rest => simp [stripPrefix]
  | .ns :: .str :: rest => simp [stripPrefix]
  | .ns :: .bool :: rest => simp [stripPrefix]
  | .ns :: .dur :: rest => simp [stripPrefix]
  | .ns :: .err :: rest => simp [stripPrefix]
  | .ns :: .other n :: rest => simp [stripPrefix]
  | .ns :: .slice t :: rest => simp [stripPrefix]
  | .ctx :: a :: rest => simp [stripPrefix]
  | .int :: rest => simp [stripPrefix]
  | .str :: rest => simp [stripPrefix]
  | .bool :: rest => simp [stripPrefix]
  | .dur :: rest => simp [stripPrefix]
  | .err :: rest => simp [stripPrefix]
  | .other n :: rest => simp [stripPrefix]
  | .slice t :: rest => simp [stripPrefix]

/-- **Non-variadic functions**: `mg.F` succeeds exactly on well-typed argument lists. -/
theorem checkF_ok_iff_nonvariadic (s : Sig) (hv : s.variadic = false) (args : List ArgTy) :
    (∃ r, checkF (.func s) args = .ok r) ↔ WellTyped s args := by
  obtain ⟨_, _, hx⟩ := idxOf_eq s.ins
  have hrl := rest_length s.ins
  have hple := prefixLen_le s.ins
  constructor
  · rintro ⟨r, h⟩
    obtain ⟨ho, h3, h | h⟩ := (checkF_ok_unfold s args r).mp h
    · -- no parameters at all
      have hargs : args = [] := by
        have : ¬ args.length > 0 := fun hh => h3 ⟨by omega, hv⟩
        exact List.eq_nil_of_length_eq_zero (by omega)
      have hins : s.ins = [] := List.eq_nil_of_length_eq_zero h.1
      refine ⟨ho, ?_⟩
      simp [hv, hins, hargs, stripPrefix]
    · obtain ⟨h4, _, h6, hp, ha, _⟩ := h
      rw [hx] at h6 hp ha
      have hlen : args.length = s.ins.length - prefixLen s.ins := by
        by_cases e : args.length = s.ins.length - prefixLen s.ins
        · exact e
        · exact absurd ⟨hv, e⟩ h6
      refine ⟨ho, ?_⟩
      simp only [hv, Bool.false_eq_true, if_false]
      have hsup : ∀ t ∈ (stripPrefix s.ins).2.2, t.supported = true := by
        intro t ht
        obtain ⟨k, hk, hkt⟩ := List.getElem_of_mem ht
        have hk' : k < s.ins.length - prefixLen s.ins := by omega
        obtain ⟨t', h1, h2⟩ := (checkParams_ok_iff s _ _).mp hp (prefixLen s.ins + k) (by omega) (by omega)
        rw [paramTy_nonvariadic s hv, ← rest_get] at h1
        have : (stripPrefix s.ins).2.2[k]? = some t := by simp [hk, hkt]
        rw [this] at h1; cases h1; exact h2
      refine ⟨hsup, ?_⟩
      apply eq_map_some_of_get _ _ (by omega)
      intro k hk
      have hxle : prefixLen s.ins ≤ s.ins.length - 1 := by omega
      obtain ⟨t, h1, _, h3'⟩ := (checkArgs_ok_iff s _ args hxle).mp ha k hk
      have hmin : min (prefixLen s.ins + k) (s.ins.length - 1) = prefixLen s.ins + k := by omega
      rw [hmin, paramTy_nonvariadic s hv, ← rest_get] at h1
      exact ⟨t, h1, h3'⟩
  · rintro ⟨ho, hw⟩
    simp only [hv, Bool.false_eq_true, if_false] at hw
    obtain ⟨hsup, hargs⟩ := hw
    have hlen : args.length = s.ins.length - prefixLen s.ins := by rw [hargs]; simp [hrl]
    by_cases hn : s.ins.length = 0
    · exact ⟨(false, false), (checkF_ok_unfold s args _).mpr ⟨ho, (by intro ⟨a, _⟩; omega), Or.inl ⟨hn, rfl⟩⟩⟩
    · refine ⟨((idxOf s.ins).hasCtx, (idxOf s.ins).isNs), (checkF_ok_unfold s args _).mpr
        ⟨ho, (by intro ⟨a, _⟩; omega), Or.inr ⟨hn, (by intro ⟨a, _⟩; rw [hv] at a; cases a), ?_, ?_, ?_, rfl⟩⟩⟩
      · rw [hx]; intro ⟨_, b⟩; exact b hlen
      · rw [hx, checkParams_ok_iff]
        intro j h1 h2
        have hj : j < s.ins.length := by omega
        refine ⟨s.ins[j], by rw [paramTy_nonvariadic s hv]; simp [hj], ?_⟩
        apply hsup
        rw [← stripPrefix_drop]
        have : s.ins[j] = (s.ins.drop (prefixLen s.ins))[j - prefixLen s.ins]'(by simp; omega) := by
          simp; congr 1; omega
        rw [this]; exact List.getElem_mem _
      · rw [hx]
        by_cases hargs0 : args = []
        · rw [hargs0]; rfl
        · have hpos : 0 < args.length := List.length_pos_iff.mpr hargs0
          rw [checkArgs_ok_iff s _ args (by omega)]
          intro k hk
          have hmin : min (prefixLen s.ins + k) (s.ins.length - 1) = prefixLen s.ins + k := by omega
          have hkr : k < ((stripPrefix s.ins).2.2).length := by omega
          refine ⟨((stripPrefix s.ins).2.2)[k], ?_, hsup _ (List.getElem_mem _), ?_⟩
          · rw [hmin, paramTy_nonvariadic s hv, ← rest_get]; simp [hkr]
          · rw [hargs]; simp [hkr]

theorem paramTy_var_lt (s : Sig) (hv : s.variadic = true) (pre : List Ty) (e : Ty) (hins : s.ins = pre ++ [Ty.slice e])
    (j : Nat) (hj : j < pre.length) : paramTy s j = pre[j]? := by
  unfold paramTy
  have h1 : s.ins[j]? = pre[j]? := by rw [hins, List.getElem?_append_left hj]
  have h2 : (j == s.ins.length - 1) = false := by
    have : s.ins.length = pre.length + 1 := by rw [hins]; simp
    simp; omega
  rw [h1]
  have h3 : pre[j]? = some pre[j] := by simp [hj]
  rw [h3]; simp [hv, h2]

theorem paramTy_var_last (s : Sig) (hv : s.variadic = true) (pre : List Ty) (e : Ty) (hins : s.ins = pre ++ [Ty.slice e]) :
    paramTy s pre.length = some e := by
  unfold paramTy
  have h1 : s.ins[pre.length]? = some (Ty.slice e) := by rw [hins]; simp
  have h2 : (pre.length == s.ins.length - 1) = true := by
    have : s.ins.length = pre.length + 1 := by rw [hins]; simp
    simp; omega
  rw [h1]; simp [hv, h2]

/-- **Variadic functions**: `mg.F` succeeds exactly on well-typed argument lists (fixed part, then any number of
values of the element type — which must itself be supported even when no value is passed: the D14a fix). -/
theorem checkF_ok_iff_variadic (s : Sig) (hv : s.variadic = true) (hwf : s.WF) (args : List ArgTy) :
    (∃ r, checkF (.func s) args = .ok r) ↔ WellTyped s args := by
  obtain ⟨e, pre, hins⟩ := hwf hv
  obtain ⟨_, _, hx⟩ := idxOf_eq s.ins
  have hn : s.ins.length = pre.length + 1 := by rw [hins]; simp
  have hxle : prefixLen s.ins ≤ pre.length := by rw [hins]; exact prefixLen_lt_of_slice pre e
  have hrest : (stripPrefix s.ins).2.2 = pre.drop (prefixLen s.ins) ++ [Ty.slice e] := by
    rw [← stripPrefix_drop]
    have : s.ins.drop (prefixLen s.ins) = (pre ++ [Ty.slice e]).drop (prefixLen s.ins) := by rw [hins]
    rw [this, List.drop_append_of_le_length hxle]
  have hfl : (pre.drop (prefixLen s.ins)).length = pre.length - prefixLen s.ins := by simp
  constructor
  · rintro ⟨r, h⟩
    obtain ⟨ho, _, h | h⟩ := (checkF_ok_unfold s args r).mp h
    · omega
    · obtain ⟨_, h5, _, hp, ha, _⟩ := h
      rw [hx] at h5 hp ha
      have hlen : pre.length - prefixLen s.ins ≤ args.length := by
        by_cases hh : args.length < s.ins.length - prefixLen s.ins - 1
        · exact absurd ⟨hv, hh⟩ h5
        · omega
      have hP := (checkParams_ok_iff s _ _).mp hp
      have hA := (checkArgs_ok_iff s _ args (by omega)).mp ha
      refine ⟨ho, ?_⟩
      simp only [hv, if_true]
      refine ⟨pre.drop (prefixLen s.ins), e, args.drop (pre.length - prefixLen s.ins), hrest, ?_, ?_, ?_, ?_⟩
      · intro t ht
        obtain ⟨k, hk, hkt⟩ := List.getElem_of_mem ht
        rw [hfl] at hk
        obtain ⟨t', h1, h2⟩ := hP (prefixLen s.ins + k) (by omega) (by omega)
        rw [paramTy_var_lt s hv pre e hins _ (by omega)] at h1
        have : pre[prefixLen s.ins + k]? = some t := by
          rw [← hkt]; simp [List.getElem_drop]
        rw [this] at h1; cases h1; exact h2
      · obtain ⟨t', h1, h2⟩ := hP pre.length (by omega) (by omega)
        rw [paramTy_var_last s hv pre e hins] at h1; cases h1; exact h2
      · have htake : args.take (pre.length - prefixLen s.ins) = (pre.drop (prefixLen s.ins)).map some := by
          apply eq_map_some_of_get
          · simp; omega
          · intro k hk
            have hk2 : k < pre.length - prefixLen s.ins ∧ k < args.length := by
              simp only [List.length_take] at hk; omega
            obtain ⟨t, h1, _, h3⟩ := hA k hk2.2
            have hmin : min (prefixLen s.ins + k) (s.ins.length - 1) = prefixLen s.ins + k := by omega
            rw [hmin, paramTy_var_lt s hv pre e hins _ (by omega)] at h1
            refine ⟨t, by simp [List.getElem?_drop]; exact h1, ?_⟩
            rw [List.getElem?_take]; simp [hk2.1]; exact h3
        rw [← htake, List.take_append_drop]
      · intro a ha'
        obtain ⟨k, hk, hka⟩ := List.getElem_of_mem ha'
        simp at hk
        obtain ⟨t, h1, _, h3⟩ := hA (pre.length - prefixLen s.ins + k) (by omega)
        have hmin : min (prefixLen s.ins + (pre.length - prefixLen s.ins + k)) (s.ins.length - 1) = pre.length := by omega
        rw [hmin, paramTy_var_last s hv pre e hins] at h1; cases h1
        have : args[pre.length - prefixLen s.ins + k]? = some a := by
          rw [← hka]; simp [List.getElem_drop]
        rw [this] at h3; cases h3; rfl
  · rintro ⟨ho, hw⟩
    simp only [hv, if_true] at hw
    obtain ⟨fixed, e', tail, hr, hfs, hes, hargs, htail⟩ := hw
    rw [hrest] at hr
    have hfe : pre.drop (prefixLen s.ins) = fixed ∧ e = e' := by
      have := List.append_inj' hr (by simp)
      exact ⟨this.1, by have h2 := this.2; simp at h2; exact h2⟩
    obtain ⟨hfix, hee⟩ := hfe
    subst hee
    have hfixl : fixed.length = pre.length - prefixLen s.ins := by rw [← hfix]; simp
    have hal : args.length = fixed.length + tail.length := by rw [hargs]; simp
    refine ⟨((idxOf s.ins).hasCtx, (idxOf s.ins).isNs), (checkF_ok_unfold s args _).mpr
      ⟨ho, (by intro ⟨_, b⟩; rw [hv] at b; cases b), Or.inr ⟨by omega, ?_, (by intro ⟨a, _⟩; rw [hv] at a; cases a), ?_, ?_, rfl⟩⟩⟩
    · rw [hx]; intro ⟨_, b⟩; omega
    · rw [hx, checkParams_ok_iff]
      intro j h1 h2
      by_cases hj : j < pre.length
      · refine ⟨pre[j], by rw [paramTy_var_lt s hv pre e hins j hj]; simp [hj], ?_⟩
        apply hfs
        rw [← hfix]
        have : pre[j] = (pre.drop (prefixLen s.ins))[j - prefixLen s.ins]'(by simp; omega) := by
          simp [List.getElem_drop]; congr 1; omega
        rw [this]; exact List.getElem_mem _
      · have : j = pre.length := by omega
        subst this
        exact ⟨e, paramTy_var_last s hv pre e hins, hes⟩
    · rw [hx, checkArgs_ok_iff s _ args (by omega)]
      intro k hk
      by_cases hkf : k < fixed.length
      · have hmin : min (prefixLen s.ins + k) (s.ins.length - 1) = prefixLen s.ins + k := by omega
        refine ⟨fixed[k], ?_, hfs _ (List.getElem_mem _), ?_⟩
        · rw [hmin, paramTy_var_lt s hv pre e hins _ (by omega)]
          have : fixed[k] = pre[prefixLen s.ins + k]'(by omega) := by
            have : fixed[k] = (pre.drop (prefixLen s.ins))[k]'(by rw [hfix]; exact hkf) := by
              congr 1 <;> simp [hfix]
            rw [this]; simp [List.getElem_drop]
          rw [this]; simp
        · rw [hargs, List.getElem?_append_left (by simp; exact hkf)]; simp [hkf]
      · have hmin : min (prefixLen s.ins + k) (s.ins.length - 1) = pre.length := by omega
        refine ⟨e, by rw [hmin]; exact paramTy_var_last s hv pre e hins, hes, ?_⟩
        rw [hargs, List.getElem?_append_right (by simp; omega)]
        simp only [List.length_map]
        have hkt : k - fixed.length < tail.length := by omega
        have : tail[k - fixed.length]? = some tail[k - fixed.length] := by simp [hkt]
        rw [this, htail _ (List.getElem_mem _)]

/-- **mg.F accepts exactly the well-typed argument lists** (all functions reflect can produce). -/
theorem checkF_ok_iff (s : Sig) (hwf : s.WF) (args : List ArgTy) :
    (∃ r, checkF (.func s) args = .ok r) ↔ WellTyped s args := by
  cases hv : s.variadic
  · exact checkF_ok_iff_nonvariadic s hv args
  · exact checkF_ok_iff_variadic s hv hwf args

/-- a non-function (nil, or any value whose kind is not Func) is rejected at construction time -/
theorem notFunc_rejected (args : List ArgTy) : checkF .notFunc args = .error .notFunc := rfl

/-- the flags `F` uses to assemble the call are the declared receiver and context -/
theorem checkF_flags (s : Sig) (args : List ArgTy) (r : Bool × Bool) (h : checkF (.func s) args = .ok r)
    (hne : s.ins ≠ []) : r = ((stripPrefix s.ins).1, (stripPrefix s.ins).2.1) := by
  obtain ⟨h1, h2, _⟩ := idxOf_eq s.ins
  obtain ⟨_, _, h | h⟩ := (checkF_ok_unfold s args r).mp h
  · exact absurd (List.eq_nil_of_length_eq_zero h.1) hne
  · rw [h.2.2.2.2.2, h1, h2]

/-- the parameter list is the (optional) receiver, the (optional) context, then the rest -/
theorem ins_decomp (ins : List Ty) :
    ins = (if (stripPrefix ins).2.1 then [Ty.ns] else []) ++ (if (stripPrefix ins).1 then [Ty.ctx] else []) ++ (stripPrefix ins).2.2 := by
  match ins with
  | [] => simp [stripPrefix]
  | [.ns] => simp [stripPrefix]
  | .ns :: .ctx :: rest => simp [stripPrefix]
  | .ns :: .ns :: rest => simp [stripPrefix]
  | .ns :: .int :: rest => simp [stripPrefix]
  | .ns :: .str :: rest => simp [stripPrefix]
  | .ns :: .bool :: rest => simp [stripPrefix]
  | .ns :: .dur :: rest => simp [stripPrefix]
  | .ns :: .err :: rest => simp [stripPrefix]
  | .ns :: .other n :: rest => simp [stripPrefix]
  | .ns :: .slice t :: rest => simp [stripPrefix]
  | .ctx :: rest => simp [stripPrefix]
  | .int :: rest => simp [stripPrefix]
  | .str :: rest => simp [stripPrefix]
  | .bool :: rest => simp [stripPrefix]
  | .dur :: rest => simp [stripPrefix]
  | .err :: rest => simp [stripPrefix]
  | .other n :: rest => simp [stripPrefix]
  | .slice t :: rest => simp [stripPrefix]

/-- **Faithful call**: the vector `F` passes to `reflect.Value.Call` — receiver value, context, then exactly the
given arguments in order — satisfies Go's call rule for the function, so running an accepted `mg.F` never raises a
type error later. -/
theorem call_conforms (s : Sig) (hwf : s.WF) (args : List ArgTy) (r : Bool × Bool)
    (h : checkF (.func s) args = .ok r) (hne : s.ins ≠ []) : conforms s.ins s.variadic (callVec r args) := by
  have hflags := checkF_flags s args r h hne
  have hwt := (checkF_ok_iff s hwf args).mp ⟨r, h⟩
  have hd := ins_decomp s.ins
  subst hflags
  unfold conforms callVec
  unfold WellTyped at hwt
  rcases Bool.eq_false_or_eq_true s.variadic with hv | hv
  case inr =>
    simp only [hv, Bool.false_eq_true, if_false] at hwt ⊢
    obtain ⟨_, _, hargs⟩ := hwt
    rw [hargs]
    conv => rhs; rw [hd]
    simp only [List.map_append]
    cases (stripPrefix s.ins).2.1 <;> cases (stripPrefix s.ins).1 <;> simp
  case inl =>
    simp only [hv, if_true] at hwt ⊢
    obtain ⟨_, fixed, e, tail, hr, _, _, hargs, htail⟩ := hwt
    refine ⟨(if (stripPrefix s.ins).2.1 then [Ty.ns] else []) ++ (if (stripPrefix s.ins).1 then [Ty.ctx] else []) ++ fixed, e, ?_, ?_, ?_⟩
    · conv => lhs; rw [hd, hr]
      simp [List.append_assoc]
    · rw [hargs]
      cases (stripPrefix s.ins).2.1 <;> cases (stripPrefix s.ins).1 <;> simp
    · rw [hargs]
      intro a ha
      apply htail
      cases h1 : (stripPrefix s.ins).2.1 <;> cases h2 : (stripPrefix s.ins).1 <;> simp [h1, h2] at ha <;> exact ha

theorem paramTy_isSome (s : Sig) (hwf : s.WF) (j : Nat) (hj : j < s.ins.length) : (paramTy s j).isSome = true := by
  cases hv : s.variadic
  · rw [paramTy_nonvariadic s hv]; simp [hj]
  · obtain ⟨e, pre, hins⟩ := hwf hv
    have hn : s.ins.length = pre.length + 1 := by rw [hins]; simp
    by_cases h : j < pre.length
    · rw [paramTy_var_lt s hv pre e hins j h]; simp [h]
    · have : j = pre.length := by omega
      subst this; rw [paramTy_var_last s hv pre e hins]; rfl

/-- **Never later, never a crash inside the validator**: every `t.In(x)` of `checkF` is in range. -/
theorem checkF_no_reflect_panic (s : Sig) (hwf : s.WF) (args : List ArgTy) :
    checkF (.func s) args ≠ .error .reflectPanic := by
  obtain ⟨_, _, hx⟩ := idxOf_eq s.ins
  have hple := prefixLen_le s.ins
  unfold checkF
  simp only []
  split
  · intro h; cases h
  · split
    · intro h; cases h
    · split
      · intro h; cases h
      · split
        · intro h; cases h
        · rename_i hn
          split
          · intro h; cases h
          · rename_i h5
            split
            · intro h; cases h
            · rename_i h6
              rw [hx]
              have hP := checkParams_no_panic s (s.ins.length - prefixLen s.ins) (prefixLen s.ins)
                (fun j h1 h2 => paramTy_isSome s hwf j (by omega))
              cases hp : checkParams s (s.ins.length - prefixLen s.ins) (prefixLen s.ins) with
              | error e => simp only []; intro h; cases h; exact hP hp
              | ok u =>
                simp only []
                by_cases hargs : args = []
                · subst hargs; simp [checkArgs]
                · have hxlt : prefixLen s.ins ≤ s.ins.length - 1 := by
                    cases hv : s.variadic
                    · have : args.length = s.ins.length - prefixLen s.ins := by
                        rw [hx] at h6
                        by_cases e : args.length = s.ins.length - prefixLen s.ins
                        · exact e
                        · exact absurd ⟨hv, e⟩ h6
                      have hpos : 0 < args.length := List.length_pos_iff.mpr hargs
                      omega
                    · obtain ⟨e, pre, hins⟩ := hwf hv
                      have := prefixLen_lt_of_slice pre e
                      rw [← hins] at this
                      have hn' : s.ins.length = pre.length + 1 := by rw [hins]; simp
                      omega
                  have hA := checkArgs_no_panic s (prefixLen s.ins) args hxlt
                    (fun j h1 h2 => paramTy_isSome s hwf j (by omega))
                  cases ha : checkArgs s (prefixLen s.ins) args with
                  | error e => simp only []; intro h; cases h; exact hA ha
                  | ok u' => simp only []; intro h; cases h

/-! ### the pinned tree (D14a): an unsupported variadic tail was accepted when no value was passed -/
namespace Pinned
/-- `checkF` without the parameter loop of the fix -/
def checkFPinned (s : Sig) (args : List ArgTy) : Except Err Unit := checkArgs s (idxOf s.ins).x args
def sigFloats : Sig := ⟨[Ty.slice (Ty.other 0)], true, []⟩     -- func(...float64)
theorem accepted_before : checkFPinned sigFloats [] = .ok () := by decide
theorem rejected_now : checkF (.func sigFloats) [] = .error (.unsupported 0) := by decide
theorem not_well_typed : ¬ WellTyped sigFloats [] := by
  intro ⟨_, h⟩
  simp only [sigFloats, if_true] at h
  obtain ⟨fixed, e, tail, hr, _, hes, _, _⟩ := h
  have : fixed = [] ∧ e = Ty.other 0 := by
    cases fixed with
    | nil => simp [stripPrefix] at hr; exact ⟨rfl, hr.symm⟩
    | cons a b => simp [stripPrefix] at hr
  rw [this.2] at hes; cases hes
end Pinned

/-! ### identity: two mg.F values denote the same dependency iff same function and equal argument values -/

/-- the registry key of an `mg.F` value: the function's runtime name and `json.Marshal(args)` -/
def fKey (name : String) (args : List Json.Arg) : String × List Char := (name, Json.encList args)

/-- **Same key ⇔ same function and equal arguments**, for argument lists accepted by one function (whose parameter
kinds are fixed by its signature: `checkF` demands exactly matching types) and strings that are valid UTF-8. -/
theorem same_dependency_iff (name name' : String) (a b : List Json.Arg)
    (hshape : name = name' → a.map Json.Arg.kind = b.map Json.Arg.kind) :
    fKey name a = fKey name' b ↔ (name = name' ∧ a = b) := by
  constructor
  · intro h
    have h1 : name = name' := congrArg Prod.fst h
    have h2 : Json.encList a = Json.encList b := congrArg Prod.snd h
    exact ⟨h1, Json.encList_inj a b (hshape h1) h2⟩
  · rintro ⟨rfl, rfl⟩; rfl

/-- strings that contain the separators of the encoding are not confused: `["a\",\"b","c"]` vs `["a","b\",\"c"]` -/
example : fKey "f" [.str "a\",\"b".toList, .str "c".toList] ≠ fKey "f" [.str "a".toList, .str "b\",\"c".toList] := by decide

/-! ### non-vacuity -/
example : (⟨[Ty.ns, Ty.ctx, Ty.int, Ty.slice Ty.str], true, [Ty.err]⟩ : Sig).WF :=
  fun _ => ⟨Ty.str, [Ty.ns, Ty.ctx, Ty.int], rfl⟩
example : checkF (.func ⟨[Ty.ns, Ty.ctx, Ty.int, Ty.slice Ty.str], true, [Ty.err]⟩) [some Ty.int, some Ty.str, some Ty.str]
    = .ok (true, true) := by decide
example : checkF (.func ⟨[Ty.int, Ty.str], false, []⟩) [some Ty.int, some (Ty.other 3)] = .error (.mismatch 1) := by decide
example : checkF (.func ⟨[Ty.int], false, []⟩) [none] = .error (.mismatch 0) := by decide

end MageModel.Props.C14
