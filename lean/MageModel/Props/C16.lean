import MageModel.Sh.SliceLemmas
/-!
# C16 — sh calls do not modify their inputs and are repeatable

Theorems for `Cfg.fixed` (the current source, see `Bridge/C16.lean`): for every heap, every captured slice
(any offset, any spare capacity), every argument list, every environment and every amount of spare capacity the
runtime hands out.  Histories are lists of calls with an arbitrary environment per call.
-/
namespace MageModel.Props.C16
open MageModel.Sh

/-- **One closure call**: the child receives `map (expand env) (baked ++ extra)`; no cell of any array that
existed before the call changes (in particular the captured slice, the caller's slices, and their spare
capacity). -/
theorem closure_call (env) (h : Heap) (baked : Slice) (extra : List String) (sp1 sp2 : Nat)
    (hb : baked.arr < h.size) :
    (closureCall Cfg.fixed env h baked extra sp1 sp2).2 = (h.read baked ++ extra).map (expand env) ∧
    (∀ a i, a < h.size → (closureCall Cfg.fixed env h baked extra sp1 sp2).1.get a i = h.get a i) ∧
    h.size ≤ (closureCall Cfg.fixed env h baked extra sp1 sp2).1.size := by
  simp only [closureCall, Cfg.fixed, if_true]
  -- the copy
  generalize hh1 : h.alloc (h.read baked) sp1 = r1
  obtain ⟨h1, t⟩ := r1
  have ht : t = ⟨h.size, 0, (h.read baked).length, (h.read baked).length + sp1⟩ := by
    have := congrArg Prod.snd hh1; simpa using this.symm
  have hh1' : h1 = (h.alloc (h.read baked) sp1).1 := by rw [hh1]
  have hread1 : h1.read t = h.read baked := by
    have := Heap.read_alloc_new h (h.read baked) sp1
    rw [hh1] at this; exact this
  have hsz1 : h1.size = h.size + 1 := by rw [hh1']; simp
  have hold1 : ∀ a i, a < h.size → h1.get a i = h.get a i := by
    intro a i ha; rw [hh1']; have : a ≠ h.size := by omega
    simp [this]
  -- the append onto the copy
  obtain ⟨a1, a2, a3, a4, a4', a5, a6⟩ := appendS_spec h1 t extra sp2
  generalize hh2 : appendS h1 t extra sp2 = r2 at a1 a2 a3 a4 a4' a5 a6
  obtain ⟨h2, argv⟩ := r2
  simp only at a1 a2 a3 a4 a4' a5 a6
  have hargv : argv.arr < h2.size := a4' (by rw [ht]; simp; omega)
  obtain ⟨e1, e2, e3⟩ := execArgs_fixed env h2 argv hargv
  show (execArgs Cfg.fixed env h2 argv).2 = _ ∧ (∀ a i, a < h.size → (execArgs Cfg.fixed env h2 argv).1.get a i = h.get a i) ∧
    h.size ≤ (execArgs Cfg.fixed env h2 argv).1.size
  refine ⟨?_, ?_, ?_⟩
  · rw [e1, a1, hread1]
  · intro a i ha
    rw [e2 a i (by omega)]
    have hne : a ≠ t.arr := by rw [ht]; simp; omega
    rw [a5 a i hne (by omega)]
    exact hold1 a i ha
  · omega

/-- **Direct call** `sh.Run(cmd, xs...)`, `sh.Output(cmd, xs...)`, … with the caller's slice: the caller's slice
(and everything else) is unchanged afterwards. -/
theorem direct_call (env) (h : Heap) (xs : Slice) (hx : xs.arr < h.size) :
    (directCall Cfg.fixed env h xs).2 = (h.read xs).map (expand env) ∧
    (∀ a i, a < h.size → (directCall Cfg.fixed env h xs).1.get a i = h.get a i) :=
  ⟨(execArgs_fixed env h xs hx).1, (execArgs_fixed env h xs hx).2.1⟩

/-- a history of closure calls: per call its extra arguments, the environment at that time and the runtime's
spare-capacity choices -/
structure Call where
  extra : List String
  env : String → String
  sp1 : Nat
  sp2 : Nat

def runHistory (h : Heap) (baked : Slice) : List Call → Heap × List (List String)
  | [] => (h, [])
  | c :: rest =>
    let r := closureCall Cfg.fixed c.env h baked c.extra c.sp1 c.sp2
    let rr := runHistory r.1 baked rest
    (rr.1, r.2 :: rr.2)

/-- **Every call of a history** — first or later, with or without extra arguments, whatever spare capacity —
behaves like sh.Run / sh.Output with `baked₀ ++ extra`, expanded against the environment of *that* call; and
at the end every array that existed at the beginning is unchanged. -/
theorem history_spec (h : Heap) (baked : Slice) (hb : baked.arr < h.size) (calls : List Call) :
    (runHistory h baked calls).2 = calls.map (fun c => (h.read baked ++ c.extra).map (expand c.env)) ∧
    (∀ a i, a < h.size → (runHistory h baked calls).1.get a i = h.get a i) := by
  induction calls generalizing h with
  | nil => exact ⟨rfl, fun _ _ _ => rfl⟩
  | cons c rest ih =>
    obtain ⟨c1, c2, c3⟩ := closure_call c.env h baked c.extra c.sp1 c.sp2 hb
    have hb' : baked.arr < (closureCall Cfg.fixed c.env h baked c.extra c.sp1 c.sp2).1.size := by omega
    obtain ⟨i1, i2⟩ := ih _ hb'
    have hsame : (closureCall Cfg.fixed c.env h baked c.extra c.sp1 c.sp2).1.read baked = h.read baked :=
      Heap.read_congr _ _ _ _ rfl (fun i _ => c2 _ _ hb)
    refine ⟨?_, ?_⟩
    · simp only [runHistory, List.map_cons]
      rw [c1, i1, hsame]
    · intro a i ha
      simp only [runHistory]
      rw [i2 a i (by omega), c2 a i ha]

/-- closure call ≡ direct call with the concatenated argument list -/
theorem equals_direct (env) (h h' : Heap) (baked xs : Slice) (extra : List String) (sp1 sp2 : Nat)
    (hb : baked.arr < h.size) (hx : xs.arr < h'.size) (heq : h'.read xs = h.read baked ++ extra) :
    (closureCall Cfg.fixed env h baked extra sp1 sp2).2 = (directCall Cfg.fixed env h' xs).2 := by
  rw [(closure_call env h baked extra sp1 sp2 hb).1, (direct_call env h' xs hx).1, heq]

/-! ### The pinned tree (both facts false) violated all three clauses — witnesses -/
namespace Pinned
def envX (v : String) : String → String := fun k => if k = "X" then v else ""
def h0 : Heap := (Heap.alloc ⟨0, fun _ _ => ""⟩ ["$X"] 0).1          -- baked = ["$X"], cap = len
def baked0 : Slice := ⟨0, 0, 1, 1⟩
/-- second call sees the first call's expansion -/
theorem second_call_stale :
    let r1 := closureCall Cfg.pinned (envX "one") h0 baked0 [] 0 0
    (closureCall Cfg.pinned (envX "two") r1.1 baked0 [] 0 0).2 = ["one"] := by decide
/-- the fixed code gives the environment of that call -/
theorem second_call_fixed :
    let r1 := closureCall Cfg.fixed (envX "one") h0 baked0 [] 0 0
    (closureCall Cfg.fixed (envX "two") r1.1 baked0 [] 0 0).2 = ["two"] := by decide
/-- the caller's slice is rewritten by a direct call -/
theorem caller_slice_rewritten : (directCall Cfg.pinned (envX "one") h0 baked0).1.get 0 0 = "one" := by decide
/-- spare capacity: two calls of one closure share the slot after the baked arguments -/
def h1 : Heap := (Heap.alloc ⟨0, fun _ _ => ""⟩ ["a"] 1).1             -- baked = ["a"], one spare slot
def baked1 : Slice := ⟨0, 0, 1, 2⟩
theorem spare_capacity_shared :
    ((appendS (appendS h1 baked1 ["x"] 0).1 baked1 ["y"] 0).1).read (appendS h1 baked1 ["x"] 0).2 = ["a", "y"] := by decide
end Pinned

/-! ### non-vacuity -/
example : (0 : Nat) < Pinned.h0.size := by decide
example : (closureCall Cfg.fixed (Pinned.envX "v") Pinned.h1 Pinned.baked1 ["$X", "z"] 3 0).2 = ["a", "v", "z"] := by decide

end MageModel.Props.C16
