import MageModel.Base
/-
Model of target/newer.go and target/target.go.

Times are `Int` nanoseconds.  A *source* as the code sees it is what `os.Stat` / `filepath.Walk`
reports, recorded by the harness from the real file system:
  * for Path/PathNewer: `none` (stat fails) or `some mtime`;
  * for Dir/DirNewer/Newest/Oldest: `none` (root missing: walkFn gets the Lstat error and returns it)
    or `some ts` = the modification times of the root and of everything beneath it, in visit order;
  * for Glob/GlobNewer: `none` (bad pattern) or `some ms` = the matches, each with its stat result.
Errors carry the index of the source that produced them.
-/
namespace MageModel.Target

/-- One iteration of the three `for _, source := range sources` loops: go on, answer `true`, or fail. -/
inductive Step where
  | cont | yes | fail
  deriving DecidableEq, Repr

/-- The common loop shape of PathNewer / GlobNewer / DirNewer: the first non-`cont` element decides. -/
def scanFrom (i : Nat) : List Step → Except Nat Bool
  | [] => .ok false
  | .cont :: rest => scanFrom (i+1) rest
  | .yes :: _ => .ok true
  | .fail :: _ => .error i

def scan (l : List Step) : Except Nat Bool := scanFrom 0 l

/-- `stat.ModTime().After(target)` -/
def after (m t : Int) : Bool := decide (m > t)

def pathStep (t : Int) : Option Int → Step
  | none => .fail
  | some m => if after m t then .yes else .cont

/-- target.PathNewer -/
def pathNewer (t : Int) (srcs : List (Option Int)) : Except Nat Bool :=
  scan (srcs.map (pathStep t))

/-- One `filepath.Walk(source, walkFn)`: the walk function returns errNewer at the first newer entry. -/
def walkNewer (t : Int) : List Int → Bool
  | [] => false
  | m :: rest => if after m t then true else walkNewer t rest

def dirStep (t : Int) : Option (List Int) → Step
  | none => .fail
  | some ts => if walkNewer t ts then .yes else .cont

/-- target.DirNewer -/
def dirNewer (t : Int) (srcs : List (Option (List Int))) : Except Nat Bool :=
  scan (srcs.map (dirStep t))

/-- One glob pattern: error from filepath.Glob, no match, or PathNewer over the matches
    (a failing stat inside PathNewer is an error of this pattern as well). -/
def globStep (t : Int) : Option (List (Option Int)) → Step
  | none => .fail
  | some [] => .fail
  | some ms => match pathNewer t ms with
      | .ok true => .yes
      | .ok false => .cont
      | .error _ => .fail

/-- target.GlobNewer -/
def globNewer (t : Int) (globs : List (Option (List (Option Int)))) : Except Nat Bool :=
  scan (globs.map (globStep t))

/-- `walkFn` of NewestModTime over one target, starting from the running value `t`. -/
def newestWalk (t : Int) : List Int → Int
  | [] => t
  | m :: rest => newestWalk (if after m t then m else t) rest

def newestFrom (i : Nat) (t : Int) : List (Option (List Int)) → Except Nat Int
  | [] => .ok t
  | none :: _ => .error i
  | some ts :: rest => newestFrom (i+1) (newestWalk t ts) rest

/-- target.NewestModTime; `zero` is Go's `time.Time{}`. -/
def newest (zero : Int) (targets : List (Option (List Int))) : Except Nat Int :=
  newestFrom 0 zero targets

/-- State of OldestModTime's loop: the running value and whether the sentinel has been replaced
    (`first`, the variable added by the D23 fix; `useFirst = false` is the pinned code). -/
def oldestWalk (useFirst : Bool) : Int × Bool → List Int → Int × Bool
  | s, [] => s
  | (t, first), m :: rest =>
      if (useFirst && first) || decide (m < t) then oldestWalk useFirst (m, false) rest
      else oldestWalk useFirst (t, first) rest

def oldestFrom (useFirst : Bool) (i : Nat) (s : Int × Bool) : List (Option (List Int)) → Except Nat Int
  | [] => .ok s.1
  | none :: _ => .error i
  | some ts :: rest => oldestFrom useFirst (i+1) (oldestWalk useFirst s ts) rest

/-- target.OldestModTime; `sentinel` = `time.Now().Add(100000h)`. -/
def oldest (useFirst : Bool) (sentinel : Int) (targets : List (Option (List Int))) : Except Nat Int :=
  oldestFrom useFirst 0 (sentinel, true) targets

/-- What `os.Stat(dst)` gave. -/
inductive Dst where
  | missing                         -- os.IsNotExist
  | statErr                         -- any other error
  | file (mt : Int)
  | dir (mt : Int) (tree : Option (List Int))   -- walk of the directory itself, root first
  deriving Repr

inductive Ans where
  | ok (b : Bool) | dstErr | srcErr (i : Nat)
  deriving DecidableEq, Repr

def liftAns : Except Nat Bool → Ans
  | .ok b => .ok b
  | .error i => .srcErr i

def Dst.mt? : Dst → Option Int
  | .file m => some m
  | .dir m _ => some m
  | _ => none

/-- target.Path -/
def path (d : Dst) (srcs : List (Option Int)) : Ans :=
  match d with
  | .missing => .ok true
  | .statErr => .dstErr
  | .file m => liftAns (pathNewer m srcs)
  | .dir m _ => liftAns (pathNewer m srcs)

/-- target.Glob -/
def glob (d : Dst) (globs : List (Option (List (Option Int)))) : Ans :=
  match d with
  | .missing => .ok true
  | .statErr => .dstErr
  | .file m => liftAns (globNewer m globs)
  | .dir m _ => liftAns (globNewer m globs)

/-- target.Dir -/
def dir (zero : Int) (d : Dst) (srcs : List (Option (List Int))) : Ans :=
  match d with
  | .missing => .ok true
  | .statErr => .dstErr
  | .file m => liftAns (dirNewer m srcs)
  | .dir _ tree => match newest zero [tree] with
      | .error _ => .dstErr
      | .ok t => liftAns (dirNewer t srcs)

end MageModel.Target
