import MageModel.Target.Newer
/-! Helper lemmas for the C17 theorems. -/
namespace MageModel.Target

theorem scanFrom_shift (i : Nat) (l : List Step) :
    scanFrom i l = (match scanFrom 0 l with | .ok b => .ok b | .error j => .error (i + j)) := by
  induction l generalizing i with
  | nil => simp [scanFrom]
  | cons s rest ih =>
    cases s with
    | cont =>
      simp only [scanFrom]
      rw [ih (i+1), ih (0+1)]
      cases scanFrom 0 rest <;> simp <;> omega
    | yes => simp [scanFrom]
    | fail => simp [scanFrom]

theorem scan_nil : scan [] = .ok false := rfl
theorem scan_cons_cont (l : List Step) :
    scan (.cont :: l) = (match scan l with | .ok b => .ok b | .error j => .error (j + 1)) := by
  unfold scan; simp only [scanFrom]; rw [scanFrom_shift]; cases scanFrom 0 l <;> simp <;> omega
theorem scan_cons_yes (l : List Step) : scan (.yes :: l) = .ok true := rfl
theorem scan_cons_fail (l : List Step) : scan (.fail :: l) = .error 0 := rfl

/-- `true` iff a `yes` is preceded only by `cont`s. -/
theorem scan_true_iff (l : List Step) :
    scan l = .ok true ↔ ∃ pre post, l = pre ++ .yes :: post ∧ ∀ s ∈ pre, s = .cont := by
  induction l with
  | nil => simp [scan_nil]
  | cons s rest ih =>
    cases s with
    | cont =>
      rw [scan_cons_cont]
      constructor
      · intro h
        have : scan rest = .ok true := by cases hr : scan rest <;> simp_all
        obtain ⟨pre, post, h1, h2⟩ := ih.mp this
        exact ⟨.cont :: pre, post, by simp [h1], by
          intro s hs; rcases List.mem_cons.mp hs with h | h
          · exact h
          · exact h2 s h⟩
      · rintro ⟨pre, post, h1, h2⟩
        cases pre with
        | nil => simp at h1
        | cons p pre' =>
          simp at h1
          have : scan rest = .ok true := ih.mpr ⟨pre', post, h1.2, fun s hs => h2 s (by simp [hs])⟩
          simp [this]
    | yes =>
      simp only [scan_cons_yes, true_iff]
      exact ⟨[], rest, rfl, by simp⟩
    | fail =>
      simp only [scan_cons_fail]
      constructor
      · intro h; cases h
      · rintro ⟨pre, post, h1, h2⟩
        cases pre with
        | nil => simp at h1
        | cons p pre' => simp at h1; have := h2 p (by simp); simp_all

/-- error `i` iff position `i` is a `fail` preceded only by `cont`s. -/
theorem scan_error_iff (l : List Step) (i : Nat) :
    scan l = .error i ↔ ∃ pre post, l = pre ++ .fail :: post ∧ pre.length = i ∧ ∀ s ∈ pre, s = .cont := by
  induction l generalizing i with
  | nil => simp [scan_nil]
  | cons s rest ih =>
    cases s with
    | cont =>
      rw [scan_cons_cont]
      constructor
      · intro h
        cases hr : scan rest with
        | ok b => simp [hr] at h
        | error j =>
          simp [hr] at h
          obtain ⟨pre, post, h1, h2, h3⟩ := (ih j).mp hr
          exact ⟨.cont :: pre, post, by simp [h1], by simp [h2, h], by
            intro s hs; rcases List.mem_cons.mp hs with h | h
            · exact h
            · exact h3 s h⟩
      · rintro ⟨pre, post, h1, h2, h3⟩
        cases pre with
        | nil => simp at h1
        | cons p pre' =>
          simp at h1 h2
          have : scan rest = .error pre'.length := (ih _).mpr ⟨pre', post, h1.2, rfl, fun s hs => h3 s (by simp [hs])⟩
          simp [this, h2]
    | yes =>
      simp only [scan_cons_yes]
      constructor
      · intro h; cases h
      · rintro ⟨pre, post, h1, _, h3⟩
        cases pre with
        | nil => simp at h1
        | cons p pre' => simp at h1; have := h3 p (by simp); simp_all
    | fail =>
      simp only [scan_cons_fail]
      constructor
      · intro h; cases h; exact ⟨[], rest, rfl, rfl, by simp⟩
      · rintro ⟨pre, post, h1, h2, h3⟩
        cases pre with
        | nil => simp at h2; simp [h2]
        | cons p pre' => simp at h1; have := h3 p (by simp); simp_all

theorem scan_false_iff (l : List Step) : scan l = .ok false ↔ ∀ s ∈ l, s = .cont := by
  induction l with
  | nil => simp [scan_nil]
  | cons s rest ih =>
    cases s with
    | cont =>
      rw [scan_cons_cont]
      constructor
      · intro h
        have : scan rest = .ok false := by
          cases hr : scan rest with
          | ok b => rw [hr] at h; simp at h; simp [h]
          | error j => rw [hr] at h; simp at h
        intro s hs; rcases List.mem_cons.mp hs with h' | h'
        · exact h'
        · exact ih.mp this s h'
      · intro h
        have : scan rest = .ok false := ih.mpr (fun s hs => h s (by simp [hs]))
        simp [this]
    | yes => simp [scan_cons_yes]
    | fail => simp [scan_cons_fail]

/-- Without a failing element the loop is an order-free "exists". -/
theorem scan_noFail (l : List Step) (h : ∀ s ∈ l, s ≠ .fail) :
    scan l = .ok (l.any (· == .yes)) := by
  induction l with
  | nil => rfl
  | cons s rest ih =>
    have hr := ih (fun s hs => h s (by simp [hs]))
    cases s with
    | cont => rw [scan_cons_cont, hr]; simp
    | yes => simp [scan_cons_yes]
    | fail => exact absurd rfl (h .fail (by simp))

theorem walkNewer_eq_any (t : Int) (ts : List Int) : walkNewer t ts = ts.any (fun m => after m t) := by
  induction ts with
  | nil => rfl
  | cons m rest ih => simp only [walkNewer, List.any_cons, ih]; cases after m t <;> simp

theorem newestWalk_ge (t : Int) (ts : List Int) : t ≤ newestWalk t ts := by
  induction ts generalizing t with
  | nil => simp [newestWalk]
  | cons m rest ih =>
    simp only [newestWalk]
    split
    · rename_i h; simp [after] at h; have := ih m; omega
    · exact ih t

theorem newestWalk_upper (t : Int) (ts : List Int) : ∀ m ∈ ts, m ≤ newestWalk t ts := by
  induction ts generalizing t with
  | nil => simp
  | cons x rest ih =>
    intro m hm
    simp only [newestWalk]
    cases hm with
    | head =>
      split
      · exact newestWalk_ge _ _
      · rename_i h; simp [after] at h; have := newestWalk_ge t rest; omega
    | tail _ h' => exact ih _ m h'

theorem newestWalk_mem (t : Int) (ts : List Int) : newestWalk t ts = t ∨ newestWalk t ts ∈ ts := by
  induction ts generalizing t with
  | nil => simp [newestWalk]
  | cons x rest ih =>
    simp only [newestWalk]
    split
    · rcases ih x with h | h
      · right; simp [h]
      · right; simp [h]
    · rcases ih t with h | h
      · left; exact h
      · right; simp [h]

theorem oldestWalk_spec (ts : List Int) : ∀ (t : Int) (first : Bool),
    (∀ m ∈ ts, (oldestWalk true (t, first) ts).1 ≤ m) ∧
    (first = false → (oldestWalk true (t, first) ts).1 ≤ t) ∧
    ((oldestWalk true (t, first) ts).2 = (first && ts.isEmpty)) ∧
    ((oldestWalk true (t, first) ts).1 ∈ ts ∨ oldestWalk true (t, first) ts = (t, first)) := by
  induction ts with
  | nil => intro t first; simp [oldestWalk]
  | cons x rest ih =>
    intro t first
    simp only [oldestWalk]
    by_cases hc : ((true && first) || decide (x < t)) = true
    · rw [if_pos hc]
      obtain ⟨h1, h2, h3, h4⟩ := ih x false
      have h2' := h2 rfl
      refine ⟨?_, ?_, ?_, ?_⟩
      · intro m hm; rcases List.mem_cons.mp hm with h | h
        · rw [h]; exact h2'
        · exact h1 m h
      · intro hf; subst hf; simp at hc; omega
      · rw [h3]; simp
      · rcases h4 with h | h
        · left; exact List.mem_cons_of_mem _ h
        · left; rw [h]; simp
    · rw [if_neg hc]
      obtain ⟨h1, h2, h3, h4⟩ := ih t first
      have hf : first = false := by cases first <;> simp_all
      have hxt : t ≤ x := by subst hf; simp at hc; omega
      refine ⟨?_, h2, ?_, ?_⟩
      · intro m hm; rcases List.mem_cons.mp hm with h | h
        · rw [h]; have := h2 hf; omega
        · exact h1 m h
      · rw [h3, hf]; simp
      · rcases h4 with h | h
        · left; exact List.mem_cons_of_mem _ h
        · right; exact h

end MageModel.Target
