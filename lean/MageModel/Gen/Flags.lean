/-
Go's `flag.FlagSet.Parse` (src/flag/flag.go: parseOne/Parse with the zero-value error handling ContinueOnError)
transcribed over character lists, plus the environment rules both programs rely on.
All syntax characters ('-', '=') are ASCII, so for valid UTF-8 the byte-level Go code and this character-level
model agree (trusted; the differential streams contain multi-byte words).

Both `mage.Parse` (mage/main.go) and the generated `main` (mage/template.go) are instances: a table of flag
specifications, parsed left to right, stopping at the first non-flag word or after `--`.
-/
namespace MageModel.Gen.Flags

inductive Kind where | bool | dur | str
  deriving DecidableEq, Repr

structure Spec where
  name : String
  kind : Kind
  deriving DecidableEq, Repr

inductive Val where
  | b (v : Bool) | d (ns : Int) | s (v : String)
  deriving DecidableEq, Repr

inductive PErr where
  | badSyntax (word : String)        -- "bad flag syntax: %s"
  | notDefined (name : String)       -- "flag provided but not defined: -%s"
  | help                             -- flag.ErrHelp: -h / -help where no such flag is defined
  | badBool (name value : String)    -- "invalid boolean value %q for -%s"
  | needsArg (name : String)         -- "flag needs an argument: -%s"
  | badValue (name value : String)   -- "invalid value %q for flag -%s"
  deriving DecidableEq, Repr

/-- the error text of the flag package (`quote` is `%q`); a value that does not parse is reported as "parse error"
for booleans and durations alike -/
def PErr.message (quote : String → String) : PErr → String
  | .badSyntax w => "bad flag syntax: " ++ w
  | .notDefined n => "flag provided but not defined: -" ++ n
  | .help => "flag: help requested"
  | .badBool n v => "invalid boolean value " ++ quote v ++ " for -" ++ n ++ ": parse error"
  | .needsArg n => "flag needs an argument: -" ++ n
  | .badValue n v => "invalid value " ++ quote v ++ " for flag -" ++ n ++ ": parse error"

/-- `strconv.ParseBool`: exactly these twelve spellings -/
def parseBool (s : String) : Option Bool :=
  if s = "1" ∨ s = "t" ∨ s = "T" ∨ s = "TRUE" ∨ s = "true" ∨ s = "True" then some true
  else if s = "0" ∨ s = "f" ∨ s = "F" ∨ s = "FALSE" ∨ s = "false" ∨ s = "False" then some false
  else none

/-- `strconv.FormatBool` -/
def formatBool (b : Bool) : String := if b then "true" else "false"

theorem parseBool_formatBool (b : Bool) : parseBool (formatBool b) = some b := by
  cases b <;> decide

/-- how one command-line word looks to `parseOne` -/
inductive Word where
  | nonFlag                                    -- shorter than 2, or not starting with '-': parsing stops, word stays
  | terminator                                 -- exactly "--": parsing stops, word is dropped
  | bad                                        -- "-", "---x", "-=x", "--=x" … : bad flag syntax
  | flag (name : String) (value : Option String)
  deriving DecidableEq, Repr

/-- split `name` at the first '=' that is not its first character -/
def splitEq : List Char → List Char → List Char × Option (List Char)
  | acc, [] => (acc.reverse, none)
  | acc, c :: rest => if c == '=' then (acc.reverse, some rest) else splitEq (c :: acc) rest

def classify (s : String) : Word :=
  match s.toList with
  | '-' :: c :: rest =>
    let name := if c == '-' then rest else c :: rest
    if c == '-' && rest.isEmpty then .terminator
    else match name with
      | [] => .bad
      | n0 :: nrest =>
        if n0 == '-' || n0 == '=' then .bad
        else
          let (nm, v) := splitEq [n0] nrest
          .flag (String.ofList nm) (v.map String.ofList)
  | _ => .nonFlag

abbrev Assign := List (String × Val)

/-- `Value.Set` for the three kinds of flag used by mage; `pd` is the recorded `time.ParseDuration` -/
def setVal (pd : String → Option Int) (k : Kind) (v : String) : Option Val :=
  match k with
  | .bool => (parseBool v).map .b
  | .dur => (pd v).map .d
  | .str => some (.s v)

/-- `FlagSet.Parse`: the assignments made, in order, and the remaining (non-flag) words -/
def parse (specs : List Spec) (pd : String → Option Int) : List String → Assign → Except PErr (Assign × List String)
  | [], acc => .ok (acc, [])
  | w :: rest, acc =>
    match classify w with
    | .nonFlag => .ok (acc, w :: rest)
    | .terminator => .ok (acc, rest)
    | .bad => .error (.badSyntax w)
    | .flag name value =>
      match specs.find? (fun sp => sp.name == name) with
      | none => if name == "help" || name == "h" then .error .help else .error (.notDefined name)
      | some sp =>
        match sp.kind, value with
        | .bool, none => parse specs pd rest (acc ++ [(name, .b true)])
        | .bool, some v =>
          match parseBool v with
          | some b => parse specs pd rest (acc ++ [(name, .b b)])
          | none => .error (.badBool name v)
        | k, some v =>
          match setVal pd k v with
          | some x => parse specs pd rest (acc ++ [(name, x)])
          | none => .error (.badValue name v)
        | k, none =>
          match rest with
          | [] => .error (.needsArg name)
          | v :: rest' =>
            match setVal pd k v with
            | some x => parse specs pd rest' (acc ++ [(name, x)])
            | none => .error (.badValue name v)

/-- final value of a flag: the last assignment, else the default -/
def lastVal (a : Assign) (name : String) : Option Val :=
  (a.reverse.find? (fun p => p.1 == name)).map (·.2)

def getBool (a : Assign) (name : String) (dflt : Bool) : Bool :=
  match lastVal a name with | some (.b v) => v | _ => dflt
def getDur (a : Assign) (name : String) (dflt : Int) : Int :=
  match lastVal a name with | some (.d v) => v | _ => dflt
def getStr (a : Assign) (name : String) (dflt : String) : String :=
  match lastVal a name with | some (.s v) => v | _ => dflt

/-! ### Environments -/

abbrev Env := List (String × String)

/-- `os.Getenv` in a process started with environment list `E` by os/exec (`dedupEnv`: the LAST binding of a key
wins); "" when unset -/
def getenv (E : Env) (k : String) : String :=
  match E.reverse.find? (fun p => p.1 == k) with
  | some p => p.2
  | none => ""

theorem getenv_append_same (E : Env) (k v : String) : getenv (E ++ [(k, v)]) k = v := by
  simp [getenv, List.reverse_append]

theorem getenv_append_other (E : Env) (k k' v : String) (h : k' ≠ k) : getenv (E ++ [(k', v)]) k = getenv E k := by
  simp [getenv, List.reverse_append, h]

end MageModel.Gen.Flags
