/-
A small interpreter for the subset of Go's text/template that mage's generated-main template uses: text, actions,
variables, `if`/`else`, `with`, `range` (over lists and over maps in key order), field chains, and the functions
`lower`, `lowerFirst`, `printf "%q"`, `len`, `and`, `eq`, `ne`.
The template itself arrives as a term of type `List Node`, regenerated from mage/template.go on every run
(`Generated/TemplateAst.lean`); this file only gives it meaning.
-/
namespace MageModel.Gen.Tpl

inductive Val where
  | str (s : String)
  | nat (n : Nat)
  | bool (b : Bool)
  | list (l : List Val)
  | struct (fields : List (String × Val))  -- a struct: field and method values by name
  | map (entries : List (String × Val))    -- a Go map[string]T: ranged over in key order
  | none                                   -- an invalid / missing value
  deriving Repr, Inhabited

inductive Expr where
  | dot
  | field (e : Expr) (name : String)
  | var (name : String)                    -- "$", "$x"
  | lit (s : String)
  | call (fn : String) (args : List Expr)
  deriving Repr, Inhabited

inductive Node where
  | text (s : String)
  | action (e : Expr)
  | assign (name : String) (e : Expr)
  | ifElse (c : Expr) (thenB elseB : List Node)
  | withDo (c : Expr) (body elseB : List Node)
  | range (k v : String) (e : Expr) (body elseB : List Node)
  deriving Repr, Inhabited

/-- text/template truth: the zero value of a type is false -/
def truth : Val → Bool
  | .str s => s ≠ ""
  | .nat n => n ≠ 0
  | .bool b => b
  | .list l => !l.isEmpty
  | .struct _ => true
  | .map m => !m.isEmpty
  | .none => false

def getField (v : Val) (name : String) : Val :=
  match v with
  | .struct fs => (fs.lookup name).getD .none
  | _ => .none

/-- how an action prints a value -/
def render : Val → String
  | .str s => s
  | .nat n => toString n
  | .bool b => if b then "true" else "false"
  | _ => "<no value>"

def valEq : Val → Val → Bool
  | .str a, .str b => a == b
  | .nat a, .nat b => a == b
  | .bool a, .bool b => a == b
  | _, _ => false

structure Env where
  dot : Val
  vars : List (String × Val)               -- innermost first

def lookupVar (env : Env) (name : String) : Val := (env.vars.lookup name).getD .none

/-- the functions available in the template; `quote` is `fmt.Sprintf("%q", s)`, `lower`/`lowerFirst` as registered by mage -/
structure Funcs where
  lower : String → String
  lowerFirst : String → String
  quote : String → String

mutual
def evalExpr (F : Funcs) (env : Env) : Expr → Val
  | .dot => env.dot
  | .field e name => getField (evalExpr F env e) name
  | .var name => lookupVar env name
  | .lit s => .str s
  | .call fn args => evalCall F env fn args
def evalCall (F : Funcs) (env : Env) (fn : String) : List Expr → Val
  | [] => .none
  | [a] =>
    let v := evalExpr F env a
    match fn, v with
    | "lower", .str s => .str (F.lower s)
    | "lowerFirst", .str s => .str (F.lowerFirst s)
    | "len", .list l => .nat l.length
    | "len", .map m => .nat m.length
    | "len", .str s => .nat s.utf8ByteSize
    | "and", v => v
    | _, _ => .none
  | [a, b] =>
    let x := evalExpr F env a
    let y := evalExpr F env b
    match fn with
    | "printf" => (match x, y with | .str "%q", .str s => .str (F.quote s) | _, _ => .none)
    | "and" => if truth x then y else x
    | "eq" => .bool (valEq x y)
    | "ne" => .bool (!valEq x y)
    | _ => .none
  | _ :: _ :: _ :: _ => .none
end

/-- execute a node list; `fuel` bounds the nesting depth (the template's is 6) -/
def exec (F : Funcs) : Nat → Env → List Node → Env × String
  | 0, env, _ => (env, "")
  | _, env, [] => (env, "")
  | fuel+1, env, n :: rest =>
    let (env', out) : Env × String :=
      match n with
      | .text s => (env, s)
      | .action e => (env, render (evalExpr F env e))
      | .assign name e => ({ env with vars := (name, evalExpr F env e) :: env.vars }, "")
      | .ifElse c t e =>
        -- variables declared inside a branch do not escape it
        (env, (exec F fuel env (if truth (evalExpr F env c) then t else e)).2)
      | .withDo c body e =>
        let v := evalExpr F env c
        (env, if truth v then (exec F fuel { env with dot := v } body).2 else (exec F fuel env e).2)
      | .range k v e body elseB =>
        let items : List (Val × Val) := match evalExpr F env e with
          | .list l => l.zipIdx.map fun (x, i) => (.nat i, x)
          | .map m => (m.mergeSort (fun a b => decide (a.1 ≤ b.1))).map fun (key, x) => (.str key, x)
          | _ => []
        if items.isEmpty then (env, (exec F fuel env elseB).2)
        else
          (env, String.join (items.map fun (key, x) =>
            let vars := (if v ≠ "" then [(v, x)] else []) ++ (if k ≠ "" then [(k, key)] else []) ++ env.vars
            (exec F fuel { dot := x, vars := vars } body).2))
    let (envFinal, outRest) := exec F (fuel+1) env' rest
    (envFinal, out ++ outRest)
termination_by fuel _ nodes => (fuel, nodes.length)

/-- `template.Execute(w, data)` -/
def execute (F : Funcs) (nodes : List Node) (data : Val) : String :=
  (exec F 32 { dot := data, vars := [("$", data)] } nodes).2

end MageModel.Gen.Tpl
