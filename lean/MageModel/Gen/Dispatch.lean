import MageModel.Parse.Pkg
/-
What the generated `main` does with the command-line words (mage/template.go + parse.Function.ExecCode), as an
interpreter over `PkgInfo`.
-/
namespace MageModel.Gen
open MageModel.Parse

/-- recorded answers of the standard library for one word -/
structure Conv where
  atoi : String → Option Int
  parseBool : String → Option Bool
  parseDuration : String → Option Int

inductive ArgVal where
  | str (s : String) | int (i : Int) | bool (b : Bool) | dur (ns : Int)
  deriving DecidableEq, Repr

structure Call where
  callee : String            -- Function.id: import path (or <current>), receiver, name
  args : List ArgVal
  deriving DecidableEq, Repr

inductive Stop where
  | unknownTarget (w : String)
  | notEnoughArgs (target : String)
  | badArg (kind : String) (w : String)
  | targetFailed (status : Int)
  deriving DecidableEq, Repr

structure Result where
  calls : List Call
  status : Int
  stop : Option Stop
  deriving DecidableEq, Repr

/-- every function reachable from the command line: own targets, then the imported ones -/
def allTargets (info : PkgInfo) : List Function := info.funcs ++ info.imports.flatMap (·.funcs)

/-- alias switch, then target switch, both on the lower-cased word -/
def resolve (info : PkgInfo) (word : String) : Option Function :=
  let target := match info.aliases.find? fun (a, _) => lower a == lower word with
    | some (_, f) => f.targetName
    | none => word
  (allTargets info).find? fun f => lower f.targetName == lower target

/-- the generated argument parsing of ExecCode: in declaration order, stop at the first unconvertible word -/
def convertArgs (conv : Conv) : List Arg → List String → Except Stop (List ArgVal)
  | [], _ => .ok []
  | _ :: _, [] => .ok []                                  -- not reached: the count was checked before
  | a :: as, w :: ws =>
    let v : Except Stop ArgVal := match a.type with
      | "string" => .ok (.str w)
      | "int" => match conv.atoi w with | some i => .ok (.int i) | none => .error (.badArg "int" w)
      | "bool" => match conv.parseBool w with | some b => .ok (.bool b) | none => .error (.badArg "bool" w)
      | "time.Duration" => match conv.parseDuration w with | some d => .ok (.dur d) | none => .error (.badArg "time.Duration" w)
      | _ => .ok (.str w)
    match v with
    | .error e => .error e
    | .ok v => match convertArgs conv as ws with
      | .error e => .error e
      | .ok more => .ok (v :: more)

/-- `for x := 0; x < len(args.Args); { … }`; `outcome` is what the called target does (0 = success) -/
def dispatch (info : PkgInfo) (conv : Conv) (outcome : Call → Int) : (fuel : Nat) → List String → Result
  | 0, _ => ⟨[], 0, none⟩
  | _, [] => ⟨[], 0, none⟩
  | fuel+1, w :: rest =>
    match resolve info w with
    | none => ⟨[], 2, some (.unknownTarget w)⟩
    | some f =>
      if rest.length < f.args.length then ⟨[], 2, some (.notEnoughArgs f.targetName)⟩
      else
        match convertArgs conv f.args (rest.take f.args.length) with
        | .error e => ⟨[], 2, some e⟩
        | .ok vals =>
          let call : Call := ⟨f.id, vals⟩
          let st := outcome call
          if st ≠ 0 then ⟨[call], st, some (.targetFailed st)⟩
          else
            let r := dispatch info conv outcome fuel (rest.drop f.args.length)
            ⟨call :: r.calls, r.status, r.stop⟩

/-- `lowerFirstWord` on characters (the regular expressions' `[[:upper:]]` is ASCII-only, `strings.ToLower` is not): `(Aaaa)(Bbbb) → aaaaBbbb`, `(AAAA)(Bbbb) → aaaaBbbb`, else all lower -/
def lowerFirstWordL (cs : List Char) : List Char :=
  match cs with
  | [] => []
  | c :: rest =>
    if !c.isUpper then cs.map goToLower
    else
      -- first regexp: one upper, then at least one non-upper, then an upper
      let nonUp := rest.takeWhile (fun x => !x.isUpper)
      let after := rest.dropWhile (fun x => !x.isUpper)
      if !nonUp.isEmpty && !after.isEmpty then
        (c :: nonUp).map goToLower ++ after
      else
        -- second regexp: a run of uppers, the last of which starts a word followed by a non-upper
        let ups := cs.takeWhile Char.isUpper
        let tail := cs.dropWhile Char.isUpper
        if ups.length ≥ 2 && !tail.isEmpty then
          (ups.dropLast).map goToLower ++ (ups.drop (ups.length - 1)) ++ tail
        else cs.map goToLower

def lowerFirstWord (s : String) : String := String.ofList (lowerFirstWordL s.toList)

/-- the template function `lowerFirst`: `lowerFirstWord` on every `:`-separated part -/
def lowerFirst (s : String) : String :=
  String.ofList ([':'].intercalate ((s.toList.splitOn ':').map lowerFirstWordL))

/-- names printed by `-l`, sorted, the default one starred -/
def listing (info : PkgInfo) : List String :=
  let names := (allTargets info).map fun f =>
    lowerFirst f.targetName ++ (match info.defaultFunc with
      | some d => if d.targetName == f.targetName then "*" else ""
      | none => "")
  sortBy id names

/-- the whole run of the generated main for target words `words` (no flags) -/
def run (info : PkgInfo) (conv : Conv) (outcome : Call → Int) (ignoreDefault : Bool) (words : List String) : Result × Bool :=
  -- second component: the target list was printed
  match words with
  | [] =>
    match info.defaultFunc with
    | some d =>
      if ignoreDefault then (⟨[], 0, none⟩, true)
      else if !d.args.isEmpty then (⟨[], 2, some (.notEnoughArgs d.targetName)⟩, false)
      else
        let call : Call := ⟨d.id, []⟩
        let st := outcome call
        (⟨[call], st, if st ≠ 0 then some (.targetFailed st) else none⟩, false)
    | none => (⟨[], 0, none⟩, true)
  | _ => (dispatch info conv outcome (words.length + 1) words, false)

end MageModel.Gen
