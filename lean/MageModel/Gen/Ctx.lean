/-
The generated main's `getContext` / `runTarget` (mage/template.go:262-325) over a logical clock.
One context for the whole invocation, created when the first target starts (time `t0`), with deadline `t0 + d`
when `-t d` is non-zero.  Each target is run under a `select` over {SIGINT, ctx.Done, target finished}; after a
first SIGINT the context is cancelled and a second `select` waits for {target finished, 5 s, second SIGINT}.
Times are natural numbers (nanoseconds, say); simultaneous events are excluded by hypotheses where it matters
(Go's `select` then chooses arbitrarily).
-/
namespace MageModel.Gen.Ctx

/-- what a target does: how long it takes when left alone, whether it returns as soon as its context is cancelled,
and the status its own result carries (0 = success) -/
structure Target where
  dur : Nat
  honours : Bool
  status : Int := 0
  takesCtx : Bool := true
  deriving DecidableEq, Repr

/-- the environment of one invocation: the timeout (0 = none) and the arrival times of at most two SIGINTs -/
structure Env where
  d : Nat
  sig1 : Option Nat := none
  sig2 : Option Nat := none
  grace : Nat := 5000000000      -- the 5 s of `time.After(5 * time.Second)`
  deriving DecidableEq, Repr

inductive Ending where
  | finished (status : Int)      -- all targets ran; the last handleError saw `status`
  | targetFailed (i : Nat) (status : Int)
  | deadline (i : Nat)           -- "context deadline exceeded" while target i was running: status 1
  | cancelled (i : Nat)          -- target i returned because of the cancellation it honoured: status 1
  | cleanupTimeout (i : Nat)     -- "cleanup timeout exceeded": status 1
  | forced (i : Nat)             -- "exit forced" (second SIGINT): status 1
  deriving DecidableEq, Repr

structure Outcome where
  ending : Ending
  time : Nat                     -- logical time at which main exits
  started : List Nat             -- indices of the targets that were started
  sawCancel : List Nat           -- indices of the started context-taking targets whose context was cancelled before they returned
  deriving DecidableEq, Repr

def Ending.status : Ending → Int
  | .finished s => s
  | .targetFailed _ s => s
  | _ => 1

/-- the deadline of the invocation's single context, given the start time of the first target -/
def deadlineOf (e : Env) (t0 : Nat) : Option Nat := if e.d = 0 then none else some (t0 + e.d)

/-- a SIGINT that arrives while a target that started at `s` is being waited for (strictly after its start) -/
def sigDuring (sig : Option Nat) (s : Nat) : Option Nat := sig.bind fun t => if s < t then some t else none

/-- the deadline is the first thing to happen while a target with natural end `natural` runs -/
def dlHit (dl sig : Option Nat) (natural : Nat) : Bool :=
  match dl with
  | some D => decide (D < natural) && (match sig with | some g => decide (D < g) | none => true)
  | none => false

/-- the first SIGINT is the first thing to happen (a SIGINT at the very instant of the deadline wins: both are ready) -/
def sigHit (dl sig : Option Nat) (natural : Nat) : Bool :=
  match sig with
  | some g => decide (g < natural) && (match dl with | some D => decide (g ≤ D) | none => true)
  | none => false

/-- run the targets from index `i`, the current one starting at time `s`; `dl` is the shared deadline; `gone` says
that the context was already cancelled by a SIGINT during an earlier target (which ignored it and ended in time):
`runTarget` then finds `ctx.Done()` ready and returns the context's error at once -/
def runFrom (e : Env) (dl : Option Nat) : Bool → Nat → Nat → List Target → List Nat → List Nat → Outcome
  | _, _, s, [], started, saw => ⟨.finished 0, s, started, saw⟩
  | true, i, s, t :: _, started, saw => ⟨.cancelled i, s, started ++ [i], if t.takesCtx then saw ++ [i] else saw⟩
  | false, i, s, t :: rest, started, saw =>
    let started := started ++ [i]
    let natural := s + t.dur
    let sig := sigDuring e.sig1 s
    if dlHit dl sig natural then
      ⟨.deadline i, dl.getD 0, started, if t.takesCtx then saw ++ [i] else saw⟩
    else if sigHit dl sig natural then
      let g := sig.getD 0
      let saw := if t.takesCtx then saw ++ [i] else saw
      if t.honours then ⟨.cancelled i, g, started, saw⟩
      else
        -- the target ignores the cancellation: wait for it, for the grace period, or for a second SIGINT
        let second := (sigDuring e.sig2 g)
        let limit := g + e.grace
        match second with
        | some g2 =>
          if g2 < natural && g2 < limit then ⟨.forced i, g2, started, saw⟩
          else if limit < natural then ⟨.cleanupTimeout i, limit, started, saw⟩
          else if t.status ≠ 0 then ⟨.targetFailed i t.status, natural, started, saw⟩
          else runFrom e dl true (i+1) natural rest started saw
        | none =>
          if limit < natural then ⟨.cleanupTimeout i, limit, started, saw⟩
          else if t.status ≠ 0 then ⟨.targetFailed i t.status, natural, started, saw⟩
          else runFrom e dl true (i+1) natural rest started saw
    else if t.status ≠ 0 then ⟨.targetFailed i t.status, natural, started, saw⟩
    else runFrom e dl false (i+1) natural rest started saw

/-- the whole invocation: the context is created when the first target starts, at `t0` -/
def run (e : Env) (t0 : Nat) (ts : List Target) : Outcome := runFrom e (deadlineOf e t0) false 0 t0 ts [] []

/-! ### contexts of dependencies (mg/deps.go: CtxDeps forwards, Deps uses Background; mg/fn.go passes it on) -/

inductive Style where | ctxDeps | deps
  deriving DecidableEq, Repr

/-- the context a dependency's body runs with: that of the requester who won its once-cell -/
def depContext (requests : List Style) (winner : Nat) : Option Style := requests[winner]?

/-- does the dependency's context carry the invocation's deadline / cancellation? -/
def depSeesCancel (requests : List Style) (winner : Nat) : Bool := depContext requests winner == some .ctxDeps

/-- **the only sources of cancellation** of the context a dependency runs with: the invocation's deadline or SIGINT, and
only when it was reached through CtxDeps; the failure of a sibling named in the same call is not one (runDeps passes the
caller's context on unchanged) -/
def depCancelled (style : Style) (deadlineHit sigHit _siblingFailed : Bool) : Bool :=
  style == .ctxDeps && (deadlineHit || sigHit)

theorem sibling_failure_never_cancels (style : Style) (dl sig : Bool) :
    depCancelled style dl sig true = depCancelled style dl sig false := rfl

theorem plain_deps_never_cancelled (dl sig sib : Bool) : depCancelled .deps dl sig sib = false := rfl

end MageModel.Gen.Ctx
