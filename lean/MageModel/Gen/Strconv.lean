/-
The three standard-library conversions the generated `main` applies to command-line words and to `-t` /
`MAGEFILE_TIMEOUT` (`strconv.Atoi`, `strconv.ParseBool`, `time.ParseDuration`), transcribed from Go 1.26's
sources (src/strconv/atoi.go, src/time/format.go) instead of being *recorded* answers.

* All syntax characters are ASCII; Go works on bytes, the model on characters.  For valid UTF-8 the two agree
  (bytes of a multi-byte character are ≥ 0x80, never a digit, sign or '.'); the unit names `µs` (U+00B5) and `μs`
  (U+03BC) are compared as strings.
* `ParseDuration` evaluates the fractional part in `float64`: `uint64(float64(f) * (float64(unit) / scale))`.
  The model does *not* use Lean's opaque `Float`: `roundF64` is round-to-nearest-even of a positive rational to a
  binary64 significand (53 bits, normal range only — every value that occurs lies in [1e-19, 1e32]), so the whole
  function is kernel-reducible and theorems can be stated about it.
* `int` is 64 bits wide (`intSize == 64`; the harness runs on amd64, recorded in the trusted base).

The tie: stream `conv` (go/cmd/harness/conv.go) sends words to both the real functions and these definitions;
`fe.run` additionally compares the recorded conversions of every word it uses with the model's.
-/
namespace MageModel.Gen.Strconv

def two63 : Nat := 9223372036854775808

/-- value of a run of decimal digits (`n = n*10 + (ch - '0')`), `none` at the first other character -/
def digitsVal : List Char → Nat → Option Nat
  | [], acc => some acc
  | c :: cs, acc => if c.isDigit then digitsVal cs (10 * acc + (c.toNat - '0'.toNat)) else none

/-- the optional leading sign of both Atoi and ParseDuration -/
def splitSign : List Char → Bool × List Char
  | '-' :: r => (true, r)
  | '+' :: r => (false, r)
  | cs => (false, cs)

/-- Atoi after the sign: at least one decimal digit, nothing else, value in range -/
def atoiCore (neg : Bool) (ds : List Char) : Option Int :=
  if ds.isEmpty then none
  else match digitsVal ds 0 with
    | none => none
    | some n =>
      if neg then (if n ≤ two63 then some (-(n : Int)) else none)
      else (if n < two63 then some (n : Int) else none)

/-- `strconv.Atoi` on a 64-bit platform: optional sign, at least one decimal digit, nothing else (no underscores:
the slow path calls `ParseInt(s, 10, 0)` with an explicit base), value in [-2^63, 2^63) -/
def atoi (s : String) : Option Int :=
  atoiCore (splitSign s.toList).1 (splitSign s.toList).2

/-- `strconv.ParseBool`: exactly these twelve spellings -/
def parseBool (s : String) : Option Bool :=
  if s = "1" ∨ s = "t" ∨ s = "T" ∨ s = "TRUE" ∨ s = "true" ∨ s = "True" then some true
  else if s = "0" ∨ s = "f" ∨ s = "F" ∨ s = "FALSE" ∨ s = "false" ∨ s = "False" then some false
  else none

/-! ### binary64 rounding of positive rationals -/

/-- largest `k ≤ fuel` steps of halving: `⌊log2 n⌋` for `n > 0` -/
def log2 (n : Nat) : Nat := Nat.log2 n

/-- round-half-even of `num / den` to an integer (`den > 0`) -/
def roundHalfEven (num den : Nat) : Nat :=
  let q := num / den
  let r := num % den
  if 2 * r < den then q
  else if 2 * r > den then q + 1
  else if q % 2 = 0 then q else q + 1

/-- a positive binary64 value `m * 2^e` with `2^52 ≤ m < 2^53` (or 0), kept as an exact rational `num / den` -/
structure F64 where
  num : Nat
  den : Nat
  deriving DecidableEq, Repr

/-- round the positive rational `num / den` to the nearest binary64 (ties to even); normal range assumed.
Find `e` with `2^52 ≤ (num/den) / 2^e < 2^53`, round the significand, scale back. -/
def roundF64 (num den : Nat) : F64 :=
  if num = 0 ∨ den = 0 then ⟨0, 1⟩
  else
    -- estimate of ⌊log2 (num/den)⌋, corrected below
    let e0 : Int := (Nat.log2 num : Int) - (Nat.log2 den : Int)
    -- scaled (e) = (num/den) / 2^(e-52) as a fraction
    let scaled (e : Int) : Nat × Nat :=
      let sh := e - 52
      if sh ≥ 0 then (num, den * 2 ^ sh.toNat) else (num * 2 ^ (-sh).toNat, den)
    -- choose e with 2^52 ≤ scaled < 2^53: e0 is off by at most one
    let e : Int :=
      let (n0, d0) := scaled e0
      if n0 < 2 ^ 52 * d0 then e0 - 1 else if n0 ≥ 2 ^ 53 * d0 then e0 + 1 else e0
    let (n1, d1) := scaled e
    let m := roundHalfEven n1 d1            -- may be exactly 2^53, still representable (as 2^52 · 2^(e+1))
    let sh := e - 52
    if sh ≥ 0 then ⟨m * 2 ^ sh.toNat, 1⟩ else ⟨m, 2 ^ (-sh).toNat⟩

def F64.mul (a b : F64) : F64 := roundF64 (a.num * b.num) (a.den * b.den)
def F64.div (a b : F64) : F64 := roundF64 (a.num * b.den) (a.den * b.num)
def F64.ofNat (n : Nat) : F64 := roundF64 n 1
/-- `uint64(x)` for a non-negative finite value below 2^64: truncation -/
def F64.trunc (a : F64) : Nat := a.num / a.den

/-! ### time.ParseDuration -/

/-- `leadingInt`: the run of digits, `none` on overflow (> 2^63 at any step) -/
def leadingInt : List Char → Nat → Option (Nat × List Char)
  | [], x => some (x, [])
  | c :: cs, x =>
    if c.isDigit then
      if x > two63 / 10 then none
      else
        let y := x * 10 + (c.toNat - '0'.toNat)
        if y > two63 then none else leadingInt cs y
    else some (x, c :: cs)

/-- `leadingFraction`: digits are consumed to the end of the run; once one would overflow, `x` and `scale` freeze.
Returns (x, number of digits that counted, rest). `scale = 10^digits` is exact in binary64 (digits ≤ 19 ≤ 22). -/
def leadingFraction : List Char → Nat → Nat → Bool → Nat × Nat × List Char
  | [], x, k, _ => (x, k, [])
  | c :: cs, x, k, overflow =>
    if c.isDigit then
      if overflow then leadingFraction cs x k true
      else if x > (two63 - 1) / 10 then leadingFraction cs x k true
      else
        let y := x * 10 + (c.toNat - '0'.toNat)
        if y > two63 then leadingFraction cs x k true
        else leadingFraction cs y (k + 1) false
    else (x, k, c :: cs)

def unitOf (u : String) : Option Nat :=
  if u = "ns" then some 1
  else if u = "us" ∨ u = "µs" ∨ u = "μs" then some 1000
  else if u = "ms" then some 1000000
  else if u = "s" then some 1000000000
  else if u = "m" then some 60000000000
  else if u = "h" then some 3600000000000
  else none

/-- the unit: everything up to the next '.' or digit -/
def spanUnit : List Char → List Char × List Char
  | [] => ([], [])
  | c :: cs => if c == '.' || c.isDigit then ([], c :: cs) else
    let (u, r) := spanUnit cs
    (c :: u, r)

/-- `float64(f) * (float64(unit) / scale)` truncated, `scale = 10^k` -/
def fracNanos (f k unit : Nat) : Nat :=
  (F64.mul (F64.ofNat f) (F64.div (F64.ofNat unit) (F64.ofNat (10 ^ k)))).trunc

/-- one `number unit` group of the loop body: its value in nanoseconds and the rest of the input -/
def group1 (c : Char) (cs : List Char) : Option (Nat × List Char) :=
  if !(c == '.' || c.isDigit) then none
  else match leadingInt (c :: cs) 0 with
    | none => none
    | some (v, s1) =>
      let pre := s1.length ≠ (c :: cs).length
      let (f, k, post, s2) : Nat × Nat × Bool × List Char := match s1 with
        | '.' :: r =>
          let (f, k, s2) := leadingFraction r 0 0 false
          (f, k, s2.length ≠ r.length, s2)
        | _ => (0, 0, false, s1)
      if !pre && !post then none
      else
        let (u, s3) := spanUnit s2
        if u.isEmpty then none
        else match unitOf (String.ofList u) with
          | none => none
          | some unit =>
            if v > two63 / unit then none
            else
              let v1 := v * unit
              let v2 := if f > 0 then v1 + fracNanos f k unit else v1
              if f > 0 ∧ v2 > two63 then none else some (v2, s3)

/-- the loop `for s != ""`: one group per round; `d` is the running total -/
def groups : (fuel : Nat) → List Char → Nat → Option Nat
  | 0, _, _ => none
  | _, [], d => some d
  | fuel + 1, c :: cs, d =>
    match group1 c cs with
    | none => none
    | some (v, rest) => if d + v > two63 then none else groups fuel rest (d + v)

/-- ParseDuration after the sign -/
def durCore (neg : Bool) (r : List Char) : Option Int :=
  if r = ['0'] then some 0
  else if r.isEmpty then none
  else match groups (r.length + 1) r 0 with
    | none => none
    | some d =>
      if neg then some (-(d : Int))
      else if d > two63 - 1 then none else some (d : Int)

/-- `time.ParseDuration`, nanoseconds -/
def parseDuration (s : String) : Option Int :=
  durCore (splitSign s.toList).1 (splitSign s.toList).2

/-! ### time.Duration.String (src/time/time.go: format, fmtFrac, fmtInt) -/

/-- `fmtFrac`'s loop, building from the right: `prec` digits of `v`, trailing zeros omitted -/
def fmtFracL : (prec : Nat) → (v : Nat) → (print : Bool) → (acc : List Char) → List Char × Nat × Bool
  | 0, v, p, acc => (acc, v, p)
  | prec + 1, v, p, acc =>
    let digit := v % 10
    let p' := p || digit != 0
    fmtFracL prec (v / 10) p' (if p' then Nat.digitChar digit :: acc else acc)

/-- `fmtFrac`: the fraction (with its point, unless it is zero) in front of `acc`, and `v / 10^prec` -/
def fmtFrac (v prec : Nat) (acc : List Char) : List Char × Nat :=
  let r := fmtFracL prec v false acc
  (if r.2.2 then '.' :: r.1 else r.1, r.2.1)

/-- `fmtInt` -/
def fmtInt (v : Nat) (acc : List Char) : List Char := Nat.toDigits 10 v ++ acc

/-- `time.Duration.String`; `d` in nanoseconds (`uint64(-d)` of the smallest int64 is 2^63 = its `natAbs`) -/
def durString (d : Int) : String :=
  let u := d.natAbs
  let body : List Char :=
    if u < 1000000000 then
      if u = 0 then ['0', 's']
      else
        let pu : Nat × List Char :=
          if u < 1000 then (0, ['n', 's']) else if u < 1000000 then (3, ['µ', 's']) else (6, ['m', 's'])
        let r := fmtFrac u pu.1 pu.2
        fmtInt r.2 r.1
    else
      let r := fmtFrac u 9 ['s']
      let a := fmtInt (r.2 % 60) r.1
      let m := r.2 / 60
      if m > 0 then
        let a := fmtInt (m % 60) ('m' :: a)
        let h := m / 60
        if h > 0 then fmtInt h ('h' :: a) else a
      else a
  String.ofList (if d < 0 then '-' :: body else body)

end MageModel.Gen.Strconv
