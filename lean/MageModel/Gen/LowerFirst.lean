import MageModel.Gen.Dispatch
/-! `lowerFirst` changes letter case only: `lower (lowerFirst s) = lower s`.  This is what makes every name printed by
`-l` runnable as printed (Props/C06 `listed_name_runs`). -/
namespace MageModel.Gen
open MageModel.Parse

theorem toLower_val (c : Char) : c.toLower.val = if 65 ≤ c.val ∧ c.val ≤ 90 then c.val + 32 else c.val := by
  unfold Char.toLower
  split
  · next h => simp at h; simp [h]
  · next h => simp at h; simp; intro a; exact h a

theorem toLower_idem (c : Char) : c.toLower.toLower = c.toLower := by
  apply Char.ext
  rw [toLower_val c.toLower, toLower_val c]
  by_cases h : 65 ≤ c.val ∧ c.val ≤ 90
  · simp only [h, and_self, if_true]
    have a1 := UInt32.le_iff_toNat_le.mp h.1
    have a2 := UInt32.le_iff_toNat_le.mp h.2
    have e : (c.val + 32).toNat = c.val.toNat + 32 := by
      rw [UInt32.toNat_add]
      have : c.val.toNat ≤ 90 := a2
      have : (32 : UInt32).toNat = 32 := rfl
      omega
    have : ¬ (65 ≤ c.val + 32 ∧ c.val + 32 ≤ 90) := by
      intro ⟨_, h4⟩
      have a4 := UInt32.le_iff_toNat_le.mp h4
      rw [e] at a4
      have : (90 : UInt32).toNat = 90 := rfl
      have : (65 : UInt32).toNat = 65 := rfl
      omega
    simp [this]
  · simp [h]

def lowerL (cs : List Char) : List Char := cs.map Char.toLower

theorem lowerL_idem (cs : List Char) : lowerL (lowerL cs) = lowerL cs := by
  simp [lowerL, toLower_idem]

theorem lowerL_append (a b : List Char) : lowerL (a ++ b) = lowerL a ++ lowerL b := by simp [lowerL]

theorem lowerL_lowerFirstWordL (cs : List Char) : lowerL (lowerFirstWordL cs) = lowerL cs := by
  unfold lowerFirstWordL
  cases cs with
  | nil => rfl
  | cons c rest =>
    simp only []
    split
    · exact lowerL_idem _
    · split
      · -- (c :: nonUp).map toLower ++ after
        rw [lowerL_append]
        have h1 : lowerL ((c :: rest.takeWhile fun x => !x.isUpper).map Char.toLower) = lowerL (c :: rest.takeWhile fun x => !x.isUpper) :=
          lowerL_idem _
        rw [h1, ← lowerL_append]
        simp [List.takeWhile_append_dropWhile]
      · split
        · rw [lowerL_append, lowerL_append]
          have h1 : lowerL (((c :: rest).takeWhile Char.isUpper).dropLast.map Char.toLower) = lowerL ((c :: rest).takeWhile Char.isUpper).dropLast :=
            lowerL_idem _
          rw [h1, ← lowerL_append, ← lowerL_append]
          congr 1
          have : ((c :: rest).takeWhile Char.isUpper).dropLast ++ ((c :: rest).takeWhile Char.isUpper).drop (((c :: rest).takeWhile Char.isUpper).length - 1)
              = (c :: rest).takeWhile Char.isUpper := by
            rw [List.dropLast_eq_take]; exact List.take_append_drop _ _
          rw [this, List.takeWhile_append_dropWhile]
        · exact lowerL_idem _

theorem lowerL_intercalate_map (f : List Char → List Char) (hf : ∀ p, lowerL (f p) = lowerL p) (sep : List Char) (ps : List (List Char)) :
    lowerL (sep.intercalate (ps.map f)) = lowerL (sep.intercalate ps) := by
  induction ps with
  | nil => rfl
  | cons p rest ih =>
    cases rest with
    | nil => simp [hf]
    | cons q rest' =>
      simp only [List.map_cons, List.intercalate_cons_cons, lowerL_append, hf]
      simp only [List.map_cons] at ih
      rw [ih]

/-- `lowerFirst` changes case only -/
theorem lower_lowerFirst (s : String) : lower (lowerFirst s) = lower s := by
  unfold lower lowerFirst
  congr 1
  rw [String.toList_ofList]
  have := lowerL_intercalate_map lowerFirstWordL lowerL_lowerFirstWordL [':'] (s.toList.splitOn ':')
  unfold lowerL at this
  rw [this, List.intercalate_splitOn]

end MageModel.Gen
