import MageModel.Gen.Dispatch
/-! `lowerFirst` changes letter case only: `lower (lowerFirst s) = lower s`.  This is what makes every name printed by
`-l` runnable as printed (Props/C06 `listed_name_runs`). -/
namespace MageModel.Gen
open MageModel.Parse

theorem toLower_val (c : Char) : c.toLower.val = if 65 ≤ c.val ∧ c.val ≤ 90 then c.val + 32 else c.val := by
  unfold Char.toLower
  split
  · next h => simp at h; simp [h]
  · next h => simp at h; simp; intro a; exact h a

theorem toLower_toNat (c : Char) : c.toLower.toNat = if 65 ≤ c.toNat ∧ c.toNat ≤ 90 then c.toNat + 32 else c.toNat := by
  have h := toLower_val c
  unfold Char.toNat
  rw [h]
  by_cases hc : 65 ≤ c.val ∧ c.val ≤ 90
  · have a1 := UInt32.le_iff_toNat_le.mp hc.1
    have a2 := UInt32.le_iff_toNat_le.mp hc.2
    have e65 : (65 : UInt32).toNat = 65 := rfl
    have e90 : (90 : UInt32).toNat = 90 := rfl
    have e32 : (32 : UInt32).toNat = 32 := rfl
    have : (65 ≤ c.val.toNat ∧ c.val.toNat ≤ 90) := ⟨by omega, by omega⟩
    simp only [hc, this, and_self, if_true]
    rw [UInt32.toNat_add]; omega
  · have : ¬ (65 ≤ c.val.toNat ∧ c.val.toNat ≤ 90) := by
      intro ⟨x, y⟩
      apply hc
      exact ⟨UInt32.le_iff_toNat_le.mpr (by simpa using x), UInt32.le_iff_toNat_le.mpr (by simpa using y)⟩
    rw [if_neg hc, if_neg this]

theorem ofNat_toNat_small (n : Nat) (h : n < 0xD800) : (Char.ofNat n).toNat = n := by
  have hv : n.isValidChar := Or.inl h
  simp [Char.ofNat, hv, Char.toNat, Char.ofNatAux]

theorem goToLower_idem (c : Char) : goToLower (goToLower c) = goToLower c := by
  by_cases h : isLatin1Upper c = true
  · have hn : 0xC0 ≤ c.toNat ∧ c.toNat ≤ 0xDE := by
      unfold isLatin1Upper at h; simp at h; exact ⟨h.1.1, h.1.2⟩
    have e1 : goToLower c = Char.ofNat (c.toNat + 32) := by unfold goToLower; simp [h]
    have t1 : (Char.ofNat (c.toNat + 32)).toNat = c.toNat + 32 := ofNat_toNat_small _ (by omega)
    have nl : isLatin1Upper (Char.ofNat (c.toNat + 32)) = false := by
      unfold isLatin1Upper; rw [t1]; simp; omega
    rw [e1]
    unfold goToLower
    simp only [nl, Bool.false_eq_true, if_false]
    apply Char.ext
    have := toLower_toNat (Char.ofNat (c.toNat + 32))
    rw [t1] at this
    have hne : ¬ (65 ≤ c.toNat + 32 ∧ c.toNat + 32 ≤ 90) := by omega
    simp only [hne, if_false] at this
    apply UInt32.toNat_inj.mp
    show (Char.ofNat (c.toNat + 32)).toLower.toNat = (Char.ofNat (c.toNat + 32)).toNat
    rw [this, t1]
  · have h' : isLatin1Upper c = false := by simpa using h
    have e1 : goToLower c = c.toLower := by unfold goToLower; simp [h']
    rw [e1]
    unfold goToLower
    have tn := toLower_toNat c
    have nl : isLatin1Upper c.toLower = false := by
      unfold isLatin1Upper at h' ⊢
      rw [tn]
      by_cases hc : 65 ≤ c.toNat ∧ c.toNat ≤ 90
      · simp [hc]; omega
      · simp only [hc, if_false]; exact h'
    simp only [nl, Bool.false_eq_true, if_false]
    apply Char.ext
    apply UInt32.toNat_inj.mp
    show c.toLower.toLower.toNat = c.toLower.toNat
    rw [toLower_toNat c.toLower, tn]
    by_cases hc : 65 ≤ c.toNat ∧ c.toNat ≤ 90
    · simp only [hc, and_self, if_true]
      have : ¬ (65 ≤ c.toNat + 32 ∧ c.toNat + 32 ≤ 90) := by omega
      rw [if_neg this]
    · simp [hc]

def lowerL (cs : List Char) : List Char := cs.map goToLower

theorem lowerL_idem (cs : List Char) : lowerL (lowerL cs) = lowerL cs := by
  simp [lowerL, goToLower_idem]

theorem lowerL_append (a b : List Char) : lowerL (a ++ b) = lowerL a ++ lowerL b := by simp [lowerL]

theorem lowerL_lowerFirstWordL (cs : List Char) : lowerL (lowerFirstWordL cs) = lowerL cs := by
  unfold lowerFirstWordL
  cases cs with
  | nil => rfl
  | cons c rest =>
    simp only []
    split
    · exact lowerL_idem _
    · split
      · -- (c :: nonUp).map toLower ++ after
        rw [lowerL_append]
        have h1 : lowerL ((c :: rest.takeWhile fun x => !x.isUpper).map goToLower) = lowerL (c :: rest.takeWhile fun x => !x.isUpper) :=
          lowerL_idem _
        rw [h1, ← lowerL_append]
        simp [List.takeWhile_append_dropWhile]
      · split
        · rw [lowerL_append, lowerL_append]
          have h1 : lowerL (((c :: rest).takeWhile Char.isUpper).dropLast.map goToLower) = lowerL ((c :: rest).takeWhile Char.isUpper).dropLast :=
            lowerL_idem _
          rw [h1, ← lowerL_append, ← lowerL_append]
          congr 1
          have : ((c :: rest).takeWhile Char.isUpper).dropLast ++ ((c :: rest).takeWhile Char.isUpper).drop (((c :: rest).takeWhile Char.isUpper).length - 1)
              = (c :: rest).takeWhile Char.isUpper := by
            rw [List.dropLast_eq_take]; exact List.take_append_drop _ _
          rw [this, List.takeWhile_append_dropWhile]
        · exact lowerL_idem _

theorem lowerL_intercalate_map (f : List Char → List Char) (hf : ∀ p, lowerL (f p) = lowerL p) (sep : List Char) (ps : List (List Char)) :
    lowerL (sep.intercalate (ps.map f)) = lowerL (sep.intercalate ps) := by
  induction ps with
  | nil => rfl
  | cons p rest ih =>
    cases rest with
    | nil => simp [hf]
    | cons q rest' =>
      simp only [List.map_cons, List.intercalate_cons_cons, lowerL_append, hf]
      simp only [List.map_cons] at ih
      rw [ih]

/-- `lowerFirst` changes case only -/
theorem lower_lowerFirst (s : String) : lower (lowerFirst s) = lower s := by
  unfold lower lowerFirst
  congr 1
  rw [String.toList_ofList]
  have := lowerL_intercalate_map lowerFirstWordL lowerL_lowerFirstWordL [':'] (s.toList.splitOn ':')
  unfold lowerL at this
  rw [this, List.intercalate_splitOn]

end MageModel.Gen
