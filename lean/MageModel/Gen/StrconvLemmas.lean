import MageModel.Gen.Strconv
import MageModel.Gen.Flags
import MageModel.Gen.Dispatch
/-
Facts about the transcribed conversions (`Gen/Strconv.lean`), for every word.
-/
namespace MageModel.Gen.Strconv

theorem digitsVal_eq (cs : List Char) (acc : Nat) (h : ∀ c ∈ cs, c.isDigit = true) :
    digitsVal cs acc = some (Nat.ofDigitChars 10 cs acc) := by
  induction cs generalizing acc with
  | nil => simp [digitsVal]
  | cons c cs ih =>
    have hc := h c (by simp)
    simp only [digitsVal, hc, if_true, Nat.ofDigitChars_cons]
    exact ih _ (fun c' hc' => h c' (by simp [hc']))

theorem digitsVal_none_of_nondigit (pre : List Char) (c : Char) (post : List Char) (acc : Nat)
    (hc : c.isDigit = false) : digitsVal (pre ++ c :: post) acc = none := by
  induction pre generalizing acc with
  | nil => simp [digitsVal, hc]
  | cons p pre ih =>
    simp only [List.cons_append, digitsVal]
    split
    · exact ih _
    · rfl

theorem splitSign_digit (c : Char) (r : List Char) (hc : c ≠ '-' ∧ c ≠ '+') : splitSign (c :: r) = (false, c :: r) := by
  unfold splitSign
  split
  · rename_i heq; simp only [List.cons.injEq] at heq; exact absurd heq.1 hc.1
  · rename_i heq; simp only [List.cons.injEq] at heq; exact absurd heq.1 hc.2
  · rfl

theorem not_sign_of_digit (c : Char) (hc : c.isDigit = true) : c ≠ '-' ∧ c ≠ '+' := by
  constructor <;> (intro e; subst e; simp [Char.isDigit] at hc)

private theorem toDigits_digits (n : Nat) : ∀ c ∈ Nat.toDigits 10 n, c.isDigit = true :=
  fun _ hc => Nat.isDigit_of_mem_toDigits (by decide) (by decide) hc

private theorem toDigits_nonempty (n : Nat) : (Nat.toDigits 10 n).isEmpty = false := by
  cases hcs : Nat.toDigits 10 n with
  | nil => exact absurd hcs Nat.toDigits_ne_nil
  | cons _ _ => rfl

theorem atoiCore_digits (neg : Bool) (n : Nat) :
    atoiCore neg (Nat.toDigits 10 n) =
      if neg then (if n ≤ two63 then some (-(n : Int)) else none) else (if n < two63 then some (n : Int) else none) := by
  unfold atoiCore
  simp only [toDigits_nonempty, digitsVal_eq _ _ (toDigits_digits n), Nat.ofDigitChars_ten_toDigits]
  simp

/-- the decimal numeral of a natural number below 2^63 converts to that number: what `fmt`/`strconv.Itoa` print
for a non-negative `int`, Atoi reads back -/
theorem atoi_repr (n : Nat) (h : n < two63) : atoi (Nat.repr n) = some (n : Int) := by
  unfold atoi
  rw [Nat.toList_repr]
  cases hcs : Nat.toDigits 10 n with
  | nil => exact absurd hcs Nat.toDigits_ne_nil
  | cons c rest =>
    have hc : c.isDigit = true := toDigits_digits n c (by simp [hcs])
    rw [splitSign_digit c rest (not_sign_of_digit c hc), ← hcs, atoiCore_digits]
    simp [h]

/-- … and with a minus sign, down to −2^63 -/
theorem atoi_neg_repr (n : Nat) (h : n ≤ two63) : atoi ("-" ++ Nat.repr n) = some (-(n : Int)) := by
  unfold atoi
  have : ("-" ++ Nat.repr n).toList = '-' :: Nat.toDigits 10 n := by
    rw [String.toList_append, Nat.toList_repr]; rfl
  rw [this]
  show atoiCore true (Nat.toDigits 10 n) = _
  rw [atoiCore_digits]; simp [h]

theorem atoiCore_range (neg : Bool) (ds : List Char) (i : Int) (h : atoiCore neg ds = some i) :
    -(two63 : Int) ≤ i ∧ i < (two63 : Int) := by
  unfold atoiCore at h
  split at h
  · cases h
  · split at h
    · cases h
    · cases neg
      · simp only [Bool.false_eq_true, if_false] at h
        split at h
        · cases h; omega
        · cases h
      · simp only [if_true] at h
        split at h
        · cases h; simp only [two63] at *; omega
        · cases h

/-- whatever Atoi accepts is an `int` (64 bits) -/
theorem atoi_range (s : String) (i : Int) (h : atoi s = some i) : -(two63 : Int) ≤ i ∧ i < (two63 : Int) :=
  atoiCore_range _ _ i h

theorem atoi_empty : atoi "" = none := by decide
theorem atoi_sign_only : atoi "-" = none ∧ atoi "+" = none := by decide

theorem atoiCore_rejects (neg : Bool) (pre : List Char) (c : Char) (post : List Char) (hc : c.isDigit = false) :
    atoiCore neg (pre ++ c :: post) = none := by
  unfold atoiCore
  rw [digitsVal_none_of_nondigit pre c post 0 hc]
  split <;> rfl

/-- any non-digit after the optional sign makes Atoi fail: no blanks, underscores, base prefixes, exponents, second
signs -/
theorem atoi_rejects (s : String) (pre : List Char) (c : Char) (post : List Char)
    (h : (splitSign s.toList).2 = pre ++ c :: post) (hc : c.isDigit = false) : atoi s = none := by
  unfold atoi; rw [h]; exact atoiCore_rejects _ pre c post hc

example : atoi "1_000" = none ∧ atoi "0x10" = none ∧ atoi " 1" = none ∧ atoi "--1" = none ∧ atoi "1e3" = none := by decide

/-- the flag package and the target arguments use one and the same `ParseBool` -/
theorem parseBool_eq_flags : parseBool = Flags.parseBool := rfl

theorem parseBool_true_iff (s : String) :
    parseBool s = some true ↔ s ∈ ["1", "t", "T", "TRUE", "true", "True"] := by
  unfold parseBool
  split
  · rename_i h; simp; rcases h with h | h | h | h | h | h <;> simp [h]
  · rename_i h
    split <;> simp_all

theorem parseBool_false_iff (s : String) :
    parseBool s = some false ↔ s ∈ ["0", "f", "F", "FALSE", "false", "False"] := by
  unfold parseBool
  split
  · rename_i h; rcases h with h | h | h | h | h | h <;> subst h <;> decide
  · rename_i h
    split <;> simp_all

/-! ### ParseDuration -/

theorem groups_le (fuel : Nat) (cs : List Char) (d r : Nat) (h : groups fuel cs d = some r) (hd : d ≤ two63) :
    r ≤ two63 := by
  induction fuel generalizing cs d with
  | zero => simp [groups] at h
  | succ fuel ih =>
    cases cs with
    | nil => simp [groups] at h; omega
    | cons c cs =>
      simp only [groups] at h
      split at h
      · cases h
      · split at h
        · cases h
        · exact ih _ _ h (by omega)

theorem durCore_range (neg : Bool) (r : List Char) (d : Int) (h : durCore neg r = some d) :
    -(two63 : Int) ≤ d ∧ d < (two63 : Int) := by
  unfold durCore at h
  split at h
  · cases h; simp [two63]
  · split at h
    · cases h
    · split at h
      · cases h
      · rename_i r' hg
        have hr := groups_le _ _ _ _ hg (by simp [two63])
        split at h
        · cases h; simp only [two63] at *; omega
        · split at h
          · cases h
          · cases h; simp only [two63] at *; omega

/-- whatever ParseDuration accepts is an `int64` number of nanoseconds -/
theorem parseDuration_range (s : String) (d : Int) (h : parseDuration s = some d) :
    -(two63 : Int) ≤ d ∧ d < (two63 : Int) := durCore_range _ _ d h

theorem parseDuration_zero : parseDuration "0" = some 0 ∧ parseDuration "-0" = some 0 ∧ parseDuration "+0" = some 0 := by decide
theorem parseDuration_needs_unit : parseDuration "3" = none ∧ parseDuration "" = none ∧ parseDuration "1.5" = none := by decide
theorem parseDuration_examples :
    parseDuration "1h2m3.5s" = some 3723500000000 ∧ parseDuration "1.5h" = some 5400000000000 ∧
    parseDuration ".5s" = some 500000000 ∧ parseDuration "1µs" = some 1000 ∧ parseDuration "-2ms" = some (-2000000) := by
  decide

end MageModel.Gen.Strconv

namespace MageModel.Gen
/-- the conversions the generated program really uses: the transcribed standard-library functions -/
def stdConv : Conv := ⟨Strconv.atoi, Strconv.parseBool, Strconv.parseDuration⟩
end MageModel.Gen

