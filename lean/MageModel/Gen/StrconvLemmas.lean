import MageModel.Gen.Strconv
import MageModel.Gen.Flags
import MageModel.Gen.Dispatch
/-
Facts about the transcribed conversions (`Gen/Strconv.lean`), for every word.
-/
namespace MageModel.Gen.Strconv

theorem digitsVal_eq (cs : List Char) (acc : Nat) (h : ∀ c ∈ cs, c.isDigit = true) :
    digitsVal cs acc = some (Nat.ofDigitChars 10 cs acc) := by
  induction cs generalizing acc with
  | nil => simp [digitsVal]
  | cons c cs ih =>
    have hc := h c (by simp)
    simp only [digitsVal, hc, if_true, Nat.ofDigitChars_cons]
    exact ih _ (fun c' hc' => h c' (by simp [hc']))

theorem digitsVal_none_of_nondigit (pre : List Char) (c : Char) (post : List Char) (acc : Nat)
    (hc : c.isDigit = false) : digitsVal (pre ++ c :: post) acc = none := by
  induction pre generalizing acc with
  | nil => simp [digitsVal, hc]
  | cons p pre ih =>
    simp only [List.cons_append, digitsVal]
    split
    · exact ih _
    · rfl

theorem splitSign_digit (c : Char) (r : List Char) (hc : c ≠ '-' ∧ c ≠ '+') : splitSign (c :: r) = (false, c :: r) := by
  unfold splitSign
  split
  · rename_i heq; simp only [List.cons.injEq] at heq; exact absurd heq.1 hc.1
  · rename_i heq; simp only [List.cons.injEq] at heq; exact absurd heq.1 hc.2
  · rfl

theorem not_sign_of_digit (c : Char) (hc : c.isDigit = true) : c ≠ '-' ∧ c ≠ '+' := by
  constructor <;> (intro e; subst e; simp [Char.isDigit] at hc)

private theorem toDigits_digits (n : Nat) : ∀ c ∈ Nat.toDigits 10 n, c.isDigit = true :=
  fun _ hc => Nat.isDigit_of_mem_toDigits (by decide) (by decide) hc

private theorem toDigits_nonempty (n : Nat) : (Nat.toDigits 10 n).isEmpty = false := by
  cases hcs : Nat.toDigits 10 n with
  | nil => exact absurd hcs Nat.toDigits_ne_nil
  | cons _ _ => rfl

theorem atoiCore_digits (neg : Bool) (n : Nat) :
    atoiCore neg (Nat.toDigits 10 n) =
      if neg then (if n ≤ two63 then some (-(n : Int)) else none) else (if n < two63 then some (n : Int) else none) := by
  unfold atoiCore
  simp only [toDigits_nonempty, digitsVal_eq _ _ (toDigits_digits n), Nat.ofDigitChars_ten_toDigits]
  simp

/-- the decimal numeral of a natural number below 2^63 converts to that number: what `fmt`/`strconv.Itoa` print
for a non-negative `int`, Atoi reads back -/
theorem atoi_repr (n : Nat) (h : n < two63) : atoi (Nat.repr n) = some (n : Int) := by
  unfold atoi
  rw [Nat.toList_repr]
  cases hcs : Nat.toDigits 10 n with
  | nil => exact absurd hcs Nat.toDigits_ne_nil
  | cons c rest =>
    have hc : c.isDigit = true := toDigits_digits n c (by simp [hcs])
    rw [splitSign_digit c rest (not_sign_of_digit c hc), ← hcs, atoiCore_digits]
    simp [h]

/-- … and with a minus sign, down to −2^63 -/
theorem atoi_neg_repr (n : Nat) (h : n ≤ two63) : atoi ("-" ++ Nat.repr n) = some (-(n : Int)) := by
  unfold atoi
  have : ("-" ++ Nat.repr n).toList = '-' :: Nat.toDigits 10 n := by
    rw [String.toList_append, Nat.toList_repr]; rfl
  rw [this]
  show atoiCore true (Nat.toDigits 10 n) = _
  rw [atoiCore_digits]; simp [h]

theorem atoiCore_range (neg : Bool) (ds : List Char) (i : Int) (h : atoiCore neg ds = some i) :
    -(two63 : Int) ≤ i ∧ i < (two63 : Int) := by
  unfold atoiCore at h
  split at h
  · cases h
  · split at h
    · cases h
    · cases neg
      · simp only [Bool.false_eq_true, if_false] at h
        split at h
        · cases h; omega
        · cases h
      · simp only [if_true] at h
        split at h
        · cases h; simp only [two63] at *; omega
        · cases h

/-- whatever Atoi accepts is an `int` (64 bits) -/
theorem atoi_range (s : String) (i : Int) (h : atoi s = some i) : -(two63 : Int) ≤ i ∧ i < (two63 : Int) :=
  atoiCore_range _ _ i h

theorem atoi_empty : atoi "" = none := by decide
theorem atoi_sign_only : atoi "-" = none ∧ atoi "+" = none := by decide

theorem atoiCore_rejects (neg : Bool) (pre : List Char) (c : Char) (post : List Char) (hc : c.isDigit = false) :
    atoiCore neg (pre ++ c :: post) = none := by
  unfold atoiCore
  rw [digitsVal_none_of_nondigit pre c post 0 hc]
  split <;> rfl

/-- any non-digit after the optional sign makes Atoi fail: no blanks, underscores, base prefixes, exponents, second
signs -/
theorem atoi_rejects (s : String) (pre : List Char) (c : Char) (post : List Char)
    (h : (splitSign s.toList).2 = pre ++ c :: post) (hc : c.isDigit = false) : atoi s = none := by
  unfold atoi; rw [h]; exact atoiCore_rejects _ pre c post hc

example : atoi "1_000" = none ∧ atoi "0x10" = none ∧ atoi " 1" = none ∧ atoi "--1" = none ∧ atoi "1e3" = none := by decide

/-- the flag package and the target arguments use one and the same `ParseBool` -/
theorem parseBool_eq_flags : parseBool = Flags.parseBool := rfl

theorem parseBool_true_iff (s : String) :
    parseBool s = some true ↔ s ∈ ["1", "t", "T", "TRUE", "true", "True"] := by
  unfold parseBool
  split
  · rename_i h; simp; rcases h with h | h | h | h | h | h <;> simp [h]
  · rename_i h
    split <;> simp_all

theorem parseBool_false_iff (s : String) :
    parseBool s = some false ↔ s ∈ ["0", "f", "F", "FALSE", "false", "False"] := by
  unfold parseBool
  split
  · rename_i h; rcases h with h | h | h | h | h | h <;> subst h <;> decide
  · rename_i h
    split <;> simp_all

/-! ### ParseDuration -/

theorem groups_le (fuel : Nat) (cs : List Char) (d r : Nat) (h : groups fuel cs d = some r) (hd : d ≤ two63) :
    r ≤ two63 := by
  induction fuel generalizing cs d with
  | zero => simp [groups] at h
  | succ fuel ih =>
    cases cs with
    | nil => simp [groups] at h; omega
    | cons c cs =>
      simp only [groups] at h
      split at h
      · cases h
      · split at h
        · cases h
        · exact ih _ _ h (by omega)

theorem durCore_range (neg : Bool) (r : List Char) (d : Int) (h : durCore neg r = some d) :
    -(two63 : Int) ≤ d ∧ d < (two63 : Int) := by
  unfold durCore at h
  split at h
  · cases h; simp [two63]
  · split at h
    · cases h
    · split at h
      · cases h
      · rename_i r' hg
        have hr := groups_le _ _ _ _ hg (by simp [two63])
        split at h
        · cases h; simp only [two63] at *; omega
        · split at h
          · cases h
          · cases h; simp only [two63] at *; omega

/-- whatever ParseDuration accepts is an `int64` number of nanoseconds -/
theorem parseDuration_range (s : String) (d : Int) (h : parseDuration s = some d) :
    -(two63 : Int) ≤ d ∧ d < (two63 : Int) := durCore_range _ _ d h

theorem parseDuration_zero : parseDuration "0" = some 0 ∧ parseDuration "-0" = some 0 ∧ parseDuration "+0" = some 0 := by decide
theorem parseDuration_needs_unit : parseDuration "3" = none ∧ parseDuration "" = none ∧ parseDuration "1.5" = none := by decide
theorem parseDuration_examples :
    parseDuration "1h2m3.5s" = some 3723500000000 ∧ parseDuration "1.5h" = some 5400000000000 ∧
    parseDuration ".5s" = some 500000000 ∧ parseDuration "1µs" = some 1000 ∧ parseDuration "-2ms" = some (-2000000) := by
  decide

end MageModel.Gen.Strconv

namespace MageModel.Gen
/-- the conversions the generated program really uses: the transcribed standard-library functions -/
def stdConv : Conv := ⟨Strconv.atoi, Strconv.parseBool, Strconv.parseDuration⟩
end MageModel.Gen


namespace MageModel.Gen.Strconv

/-! ### whole numbers of a unit: `-t 5s` means 5·10⁹ ns -/

theorem ofDigitChars_ge (ds : List Char) (acc : Nat) : acc ≤ Nat.ofDigitChars 10 ds acc := by
  rw [Nat.ofDigitChars_eq_ofDigitChars_zero]
  have : 1 ≤ 10 ^ ds.length := Nat.pow_pos (by decide)
  calc acc = 1 * acc := by omega
    _ ≤ 10 ^ ds.length * acc := Nat.mul_le_mul_right _ this
    _ ≤ _ := Nat.le_add_right _ _

/-- `leadingInt` reads a run of digits that ends at a non-digit, when the value fits -/
theorem leadingInt_digits (ds : List Char) (c : Char) (rest : List Char) (acc : Nat)
    (hd : ∀ x ∈ ds, x.isDigit = true) (hc : c.isDigit = false)
    (hfit : Nat.ofDigitChars 10 ds acc ≤ two63) :
    leadingInt (ds ++ c :: rest) acc = some (Nat.ofDigitChars 10 ds acc, c :: rest) := by
  induction ds generalizing acc with
  | nil => simp [leadingInt, hc]
  | cons d ds ih =>
    have hdd := hd d (by simp)
    simp only [List.cons_append, leadingInt, hdd, if_true, Nat.ofDigitChars_cons] at *
    have hy : 10 * acc + (d.toNat - '0'.toNat) ≤ two63 := Nat.le_trans (ofDigitChars_ge ds _) hfit
    have h1 : ¬ acc > two63 / 10 := by simp only [two63] at *; omega
    have h2 : ¬ acc * 10 + (d.toNat - '0'.toNat) > two63 := by simp only [two63] at *; omega
    rw [if_neg h1, if_neg h2]
    have : acc * 10 = 10 * acc := Nat.mul_comm _ _
    rw [this]
    exact ih _ (fun x hx => hd x (by simp [hx])) hfit

theorem spanUnit_all (ucs : List Char) (h : ∀ x ∈ ucs, (x == '.' || x.isDigit) = false) : spanUnit ucs = (ucs, []) := by
  induction ucs with
  | nil => rfl
  | cons c cs ih =>
    have hc := h c (by simp)
    simp only [spanUnit, hc]
    rw [ih (fun x hx => h x (by simp [hx]))]
    simp

theorem group1_whole (n : Nat) (c : Char) (rest : List Char) (unit : Nat) (d0 : Char) (ds : List Char)
    (hds : Nat.toDigits 10 n = d0 :: ds)
    (hu : ∀ x ∈ c :: rest, (x == '.' || x.isDigit) = false)
    (hunit : unitOf (String.ofList (c :: rest)) = some unit) (hfit : n * unit < two63) (hpos : 0 < unit) :
    group1 d0 (ds ++ c :: rest) = some (n * unit, []) := by
  have hdig : ∀ x ∈ d0 :: ds, x.isDigit = true := by
    intro x hx; rw [← hds] at hx; exact Nat.isDigit_of_mem_toDigits (by decide) (by decide) hx
  have hd0 : d0.isDigit = true := hdig d0 (by simp)
  have hc := hu c (by simp)
  have hcd : c.isDigit = false := by
    cases h : c.isDigit <;> simp_all
  have hcdot : c ≠ '.' := by
    intro e; subst e; simp at hc
  have hval : Nat.ofDigitChars 10 (d0 :: ds) 0 = n := by rw [← hds]; exact Nat.ofDigitChars_ten_toDigits
  have hn : n ≤ two63 := by
    have : n * 1 ≤ n * unit := Nat.mul_le_mul_left _ hpos
    omega
  have hli : leadingInt (d0 :: (ds ++ c :: rest)) 0 = some (n, c :: rest) := by
    have := leadingInt_digits (d0 :: ds) c rest 0 hdig hcd (by rw [hval]; exact hn)
    rw [hval] at this; simpa using this
  have hle : ¬ n > two63 / unit := by
    have : n ≤ two63 / unit := (Nat.le_div_iff_mul_le hpos).2 (Nat.le_of_lt hfit)
    omega
  unfold group1
  simp only [hd0, Bool.or_true, Bool.not_true, Bool.false_eq_true, if_false, hli]
  split
  · rename_i r heq; simp only [List.cons.injEq] at heq; exact absurd heq.1 hcdot
  · simp only [spanUnit_all _ hu, hunit, hle]
    simp
    omega


/-- **a whole number of a unit**: `<decimal n><unit>` is `n · unit` nanoseconds whenever that fits an `int64`
(`-t 90s`, `MAGEFILE_TIMEOUT=5m`, a `time.Duration` argument `2h`) -/
theorem parseDuration_whole (n : Nat) (c : Char) (rest : List Char) (unit : Nat)
    (hu : ∀ x ∈ c :: rest, (x == '.' || x.isDigit) = false)
    (hunit : unitOf (String.ofList (c :: rest)) = some unit) (hfit : n * unit < two63) (hpos : 0 < unit) :
    parseDuration (Nat.repr n ++ String.ofList (c :: rest)) = some ((n * unit : Nat) : Int) := by
  unfold parseDuration
  rw [String.toList_append, Nat.toList_repr, String.toList_ofList]
  cases hds : Nat.toDigits 10 n with
  | nil => exact absurd hds Nat.toDigits_ne_nil
  | cons d0 ds =>
    have hd0 : d0.isDigit = true := by
      have : d0 ∈ Nat.toDigits 10 n := by simp [hds]
      exact Nat.isDigit_of_mem_toDigits (by decide) (by decide) this
    simp only [List.cons_append]
    rw [splitSign_digit d0 _ (not_sign_of_digit d0 hd0)]
    have hg := group1_whole n c rest unit d0 ds hds hu hunit hfit hpos
    unfold durCore
    have hne : ¬ (d0 :: (ds ++ c :: rest) = ['0']) := by
      intro h; simp only [List.cons.injEq] at h
      have := congrArg List.length h.2; simp at this
    simp only [hne, if_false, List.isEmpty_cons, Bool.false_eq_true, List.length_cons, groups, hg]
    have h1 : ¬ (0 + n * unit > two63) := by omega
    have h2 : ¬ (0 + n * unit > two63 - 1) := by simp only [two63] at *; omega
    simp only [h1, if_false]
    simp only [h2, if_false]
    simp

example : parseDuration "90s" = some 90000000000 := by decide

/-! ### Duration.String and the way back (how `-t d` travels from `mage` to the compiled program)

The general round trip `parseDuration (durString d) = some d` is **not** proved (it needs exactness of the binary64
path for ≤ 9 fraction digits); the stream `conv` compares it on every generated duration.  What is decided here is a
finite table — a test inside the kernel, not the unbounded claim. -/

def roundTrips (d : Int) : Bool := parseDuration (durString d) == some d

theorem durString_examples :
    durString 0 = "0s" ∧ durString 1500000000 = "1.5s" ∧ durString 90000000000 = "1m30s" ∧
    durString 3600000000000 = "1h0m0s" ∧ durString 1001 = "1.001µs" ∧ durString (-250000000) = "-250ms" := by decide

/-- every whole number of seconds from 1 s to 60 s (a test over a finite table) -/
theorem roundTrips_seconds_table : ∀ n < 60, roundTrips (((n + 1) * 1000000000 : Nat) : Int) = true := by
  decide +kernel

/-- typical `-t` values, with fractions and several units (a test over a finite table) -/
theorem roundTrips_typical :
    roundTrips 1 = true ∧ roundTrips 1000000 = true ∧ roundTrips 250000000 = true ∧ roundTrips 1500000000 = true ∧
    roundTrips 90000000000 = true ∧ roundTrips 300000000000 = true ∧ roundTrips 3600000000000 = true ∧
    roundTrips 5400000000000 = true ∧ roundTrips 123456789 = true ∧ roundTrips 3723004005006 = true ∧
    roundTrips 9223372036854775807 = true := by
  decide +kernel

end MageModel.Gen.Strconv
