import MageModel.Gen.Dispatch
import MageModel.Gen.Flags
/-!
# What the generated main prints for `-l` and for `-h <target>`

The `list` closure of the template builds a Go map literal `targets` (key: `lowerFirst TargetName`, starred for the
default target; value: the synopsis), sorts the keys with `sort.Strings` and writes `"  key\tsynopsis\n"` lines through
`text/tabwriter` (min width 0, tab width 4, padding 4, pad character blank, no flags).  Every line has exactly one
tab-terminated cell, so there is one column, as wide as the widest `"  key"` plus the padding; the synopsis is the
trailing cell and is written as it is (go/doc's synopsis contains neither tabs nor line breaks).
`-h <target>` prints the one-line comment, the usage line and the aliases that run this target.
Colour (`MAGEFILE_ENABLE_COLOR`, `MAGEFILE_TARGET_COLOR`, `TERM`) wraps each key in an ANSI sequence before the
tabwriter measures it.
-/
namespace MageModel.Gen
open MageModel.Parse

/-- key of a target in the `targets` map of the generated `list` -/
def listKey (info : PkgInfo) (f : Function) : String :=
  lowerFirst f.targetName ++ (match info.defaultFunc with
    | some d => if d.name ≠ "" && d.targetName == f.targetName then "*" else ""
    | none => "")

/-- the rows of the table before sorting: one per target, own targets first, then the imports' in order -/
def listRows (info : PkgInfo) : List (String × String) :=
  (allTargets info).map fun f => (listKey info f, f.synopsis)

/-! ### colour -/
def colorNames : List String :=
  ["black", "red", "green", "yellow", "blue", "magenta", "cyan", "white", "brightblack", "brightred", "brightgreen",
   "brightyellow", "brightblue", "brightmagenta", "brightcyan", "brightwhite"]

def esc : String := String.singleton (Char.ofNat 27)

/-- the `ansiColor` table -/
def ansiOf (i : Nat) : String :=
  if i < 8 then esc ++ "[3" ++ toString i ++ "m" else esc ++ "[3" ++ toString (i - 8) ++ ";1m"

def ansiReset : String := esc ++ "[0m"

/-- `targetColor()`: a known colour name (any case) from `MAGEFILE_TARGET_COLOR`, else cyan -/
def targetColor (env : String → Option String) : String :=
  match env "MAGEFILE_TARGET_COLOR" with
  | some s => match colorNames.findIdx? (· == lower s) with
    | some i => ansiOf i
    | none => ansiOf 6
  | none => ansiOf 6

/-- `enableColor() && terminalSupportsColor()` -/
def colorOn (env : String → Option String) : Bool :=
  (Flags.parseBool ((env "MAGEFILE_ENABLE_COLOR").getD "")).getD false &&
    !(["vt100", "cygwin", "xterm-mono"].contains ((env "TERM").getD ""))

/-- `printName` -/
def printName (env : String → Option String) (s : String) : String :=
  if colorOn env then targetColor env ++ s ++ ansiReset else s

def pad (n : Nat) : String := String.ofList (List.replicate n ' ')

/-- text/tabwriter on one-column input -/
def tabulate (rows : List (String × String)) : String :=
  let width := (rows.map fun r => r.1.length + 2).foldl max 0 + 4
  String.join (rows.map fun r => "  " ++ r.1 ++ pad (width - (r.1.length + 2)) ++ r.2 ++ "\n")

/-- standard output of `-l` in a given environment: the keys are sorted first and coloured afterwards -/
def listTextEnv (env : String → Option String) (info : PkgInfo) : String :=
  (if info.description ≠ "" then info.description ++ "\n\n" else "") ++
  "Targets:\n" ++ tabulate ((sortBy (·.1) (listRows info)).map fun r => (printName env r.1, r.2)) ++
  (match info.defaultFunc with
   | some d => if d.name ≠ "" then "\n* default target\n" else ""
   | none => "")

/-- standard output of `-l` (colour off) -/
def listText (info : PkgInfo) : String :=
  (if info.description ≠ "" then info.description ++ "\n\n" else "") ++
  "Targets:\n" ++ tabulate (sortBy (·.1) (listRows info)) ++
  (match info.defaultFunc with
   | some d => if d.name ≠ "" then "\n* default target\n" else ""
   | none => "")

/-- the aliases shown by `-h <target>`: those that run this very target (same command-line name) -/
def helpAliases (info : PkgInfo) (f : Function) : List String :=
  (info.aliases.filter fun a => a.2.targetName == f.targetName).map (·.1)

/-- standard output of `-h <target>` for a known target -/
def helpText (bin : String) (info : PkgInfo) (f : Function) : String :=
  (if f.comment ≠ "" then f.comment ++ "\n\n" else "") ++
  "Usage:\n\n\t" ++ bin ++ " " ++ lower f.targetName ++ String.join (f.args.map fun a => " <" ++ a.name ++ ">") ++ "\n\n" ++
  (let al := helpAliases info f
   if al.isEmpty then "" else "Aliases: " ++ ", ".intercalate al ++ "\n\n")

/-- `-h <word>`: the `switch strings.ToLower(word)` over own targets, then imported ones -/
def helpLookupFn (info : PkgInfo) (word : String) : Option Function :=
  (allTargets info).find? fun f => lower f.targetName == lower word

/-- `-h` with words: text on stdout and exit status (2 with nothing on stdout for no word or an unknown one) -/
def help (bin : String) (info : PkgInfo) (words : List String) : String × Int :=
  match words with
  | [] => ("", 2)
  | w :: _ =>
    match helpLookupFn info w with
    | some f => (helpText bin info f, 0)
    | none => ("", 2)

/-- `fs.Usage` of the generated main (`-h` without a target, `-help`): the binary's base name and a fixed text -/
def usageText (bin : String) : String :=
  bin ++ " [options] [target]\n\nCommands:\n  -l    list targets in this binary\n  -h    show this help\n\nOptions:\n" ++
  "  -h    show description of a target\n  -t <string>\n        timeout in duration parsable format (e.g. 5m30s)\n" ++
  "  -v    show verbose output when running targets\n "

/-- without `MAGEFILE_ENABLE_COLOR` (or on a terminal without colour) the environment does not matter -/
theorem listTextEnv_plain (env : String → Option String) (info : PkgInfo) (h : colorOn env = false) :
    listTextEnv env info = listText info := by
  unfold listTextEnv listText printName
  simp [h]

/-- the generated `list()` returns the error of writing the table (the tabwriter's `Flush`); `main` hands it to the same
error path as a failing target: a listing that could not be written is not a successful listing -/
def listingStatus (stdoutWritable : Bool) : Int := if stdoutWritable then 0 else 1

end MageModel.Gen
