import MageModel.Gen.Dispatch
/-!
# What the generated main prints for `-l` and for `-h <target>`

The `list` closure of the template builds a Go map literal `targets` (key: `lowerFirst TargetName`, starred for the
default target; value: the synopsis), sorts the keys with `sort.Strings` and writes `"  key\tsynopsis\n"` lines through
`text/tabwriter` (min width 0, tab width 4, padding 4, pad character blank, no flags).  Every line has exactly one
tab-terminated cell, so there is one column, as wide as the widest `"  key"` plus the padding; the synopsis is the
trailing cell and is written as it is (go/doc's synopsis contains neither tabs nor line breaks).
`-h <target>` prints the one-line comment, the usage line and the aliases whose function has the same name and receiver.
Colour is off unless `MAGEFILE_ENABLE_COLOR` is set (not modelled).
-/
namespace MageModel.Gen
open MageModel.Parse

/-- key of a target in the `targets` map of the generated `list` -/
def listKey (info : PkgInfo) (f : Function) : String :=
  lowerFirst f.targetName ++ (match info.defaultFunc with
    | some d => if d.name ≠ "" && d.targetName == f.targetName then "*" else ""
    | none => "")

/-- the rows of the table before sorting: one per target, own targets first, then the imports' in order -/
def listRows (info : PkgInfo) : List (String × String) :=
  (allTargets info).map fun f => (listKey info f, f.synopsis)

def pad (n : Nat) : String := String.ofList (List.replicate n ' ')

/-- text/tabwriter on one-column input -/
def tabulate (rows : List (String × String)) : String :=
  let width := (rows.map fun r => r.1.length + 2).foldl max 0 + 4
  String.join (rows.map fun r => "  " ++ r.1 ++ pad (width - (r.1.length + 2)) ++ r.2 ++ "\n")

/-- standard output of `-l` -/
def listText (info : PkgInfo) : String :=
  (if info.description ≠ "" then info.description ++ "\n\n" else "") ++
  "Targets:\n" ++ tabulate (sortBy (·.1) (listRows info)) ++
  (match info.defaultFunc with
   | some d => if d.name ≠ "" then "\n* default target\n" else ""
   | none => "")

/-- the aliases shown by `-h`: the template compares name and receiver only -/
def helpAliases (info : PkgInfo) (f : Function) : List String :=
  (info.aliases.filter fun a => a.2.name == f.name && a.2.receiver == f.receiver).map (·.1)

/-- standard output of `-h <target>` for a known target -/
def helpText (bin : String) (info : PkgInfo) (f : Function) : String :=
  (if f.comment ≠ "" then f.comment ++ "\n\n" else "") ++
  "Usage:\n\n\t" ++ bin ++ " " ++ lower f.targetName ++ String.join (f.args.map fun a => " <" ++ a.name ++ ">") ++ "\n\n" ++
  (let al := helpAliases info f
   if al.isEmpty then "" else "Aliases: " ++ ", ".intercalate al ++ "\n\n")

/-- `-h <word>`: the `switch strings.ToLower(word)` over own targets, then imported ones -/
def helpLookupFn (info : PkgInfo) (word : String) : Option Function :=
  (allTargets info).find? fun f => lower f.targetName == lower word

/-- `-h` with words: text on stdout and exit status (2 with nothing on stdout for no word or an unknown one) -/
def help (bin : String) (info : PkgInfo) (words : List String) : String × Int :=
  match words with
  | [] => ("", 2)
  | w :: _ =>
    match helpLookupFn info w with
    | some f => (helpText bin info f, 0)
    | none => ("", 2)

end MageModel.Gen
