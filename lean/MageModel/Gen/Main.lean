import MageModel.Gen.Dispatch
import MageModel.Gen.Flags
import MageModel.Deps.Exit
/-
The generated `main` (mage/template.go) as a function from (environment, argv) to what the process does:
flag defaults from MAGEFILE_* variables, flag parsing, `-h`, `-l`, default target, dispatch loop, `handleError`.
What a target *does* is a parameter: `outcome : Call → Outcome`.
-/
namespace MageModel.Gen
open MageModel.Parse MageModel.Gen.Flags

/-- What running one target function ends in, as seen by `runTarget` (which recovers panics) and `handleError`. -/
inductive Outcome where
  | ok
  | err (code : Option Int)        -- returned error; `some c` when it has `ExitStatus() = c` (mg.Fatal, failed sh command)
  | panicErr (code : Option Int)   -- panic(error value); recovered by runTarget, same treatment
  | panicVal                       -- panic with a non-error value
  | depsFailed (codes : List Int)  -- mg.Deps & co. panic with mg.Fatal(fold changeExit codes, …)
  | osExit (code : Int)            -- the target calls os.Exit itself
  deriving DecidableEq, Repr

/-- `handleError`: nil → keep going (0); a value with `ExitStatus()` → that; anything else → 1.
`os.Exit` in the target bypasses it. -/
def Outcome.status : Outcome → Int
  | .ok => 0
  | .err (some c) => c
  | .err none => 1
  | .panicErr (some c) => c
  | .panicErr none => 1
  | .panicVal => 1
  | .depsFailed codes => codes.foldl MageModel.Deps.changeExit 0
  | .osExit c => c

/-- does `handleError` (or the runtime) write a message to stderr before the process ends? -/
def Outcome.isFailure (o : Outcome) : Bool := o != .ok

/-- flag table of the generated main (template.go: fs.BoolVar/DurationVar) -/
def childSpecs : List Spec := [⟨"v", .bool⟩, ⟨"l", .bool⟩, ⟨"h", .bool⟩, ⟨"t", .dur⟩]

/-- the template's `parseBool(env)`: "" → false, invalid → false (with a warning) -/
def envBool (E : Env) (k : String) : Bool := (parseBool (getenv E k)).getD false

/-- the template's `parseDuration(env)`: "" → 0, invalid → 0 (with a warning) -/
def envDur (pd : String → Option Int) (E : Env) (k : String) : Int :=
  if getenv E k = "" then 0 else (pd (getenv E k)).getD 0

inductive How where
  | flagError (e : PErr)     -- exit 2 (message printed by package flag)
  | usage                    -- -h without words, or -help: exit 0
  | listed                   -- -l, or no words and (no default or MAGEFILE_IGNOREDEFAULT): exit 0
  | helpShown (target : String)
  | helpUnknown (word : String)   -- exit 2
  | ran                      -- targets were dispatched (see `result`)
  deriving DecidableEq, Repr

structure ChildOut where
  how : How
  status : Int
  calls : List Call := []
  stop : Option Stop := none
  verbose : Bool := false        -- the effective value: what mg.Verbose() reports inside targets
  timeout : Int := 0             -- the effective -t (ns)
  deriving DecidableEq, Repr

/-- `-h <word>`: the help switch looks the lower-cased word up among the targets (aliases are NOT resolved) -/
def helpLookup (info : PkgInfo) (w : String) : Option Function :=
  (allTargets info).find? fun f => lower f.targetName == lower w

/-- the generated main after its flags and defaults are settled -/
def childCore (info : PkgInfo) (conv : Conv) (outcome : Call → Outcome) (verbose list help : Bool) (timeout : Int)
    (ignoreDefault : Bool) (words : List String) : ChildOut :=
  if help && words.isEmpty then { how := .usage, status := 0, verbose, timeout }
  else if list then { how := .listed, status := 0, verbose, timeout }
  else if help then
    match words with
    | [] => { how := .usage, status := 0, verbose, timeout }      -- not reached
    | w :: _ =>
      match helpLookup info w with
      | some f => { how := .helpShown f.targetName, status := 0, verbose, timeout }
      | none => { how := .helpUnknown w, status := 2, verbose, timeout }
  else
    let (r, listed) := run info conv (fun c => (outcome c).status) ignoreDefault words
    { how := if listed then .listed else .ran, status := r.status, calls := r.calls, stop := r.stop, verbose, timeout }

/-- the generated main: `E` is the environment the process was started with, `argv` = os.Args[1:] -/
def childMain (info : PkgInfo) (conv : Conv) (outcome : Call → Outcome) (E : Env) (argv : List String) : ChildOut :=
  match parse childSpecs conv.parseDuration argv [] with
  | .error .help => { how := .usage, status := 0 }
  | .error e => { how := .flagError e, status := 2 }
  | .ok (a, words) =>
    childCore info conv outcome
      (getBool a "v" (envBool E "MAGEFILE_VERBOSE")) (getBool a "l" (envBool E "MAGEFILE_LIST"))
      (getBool a "h" (envBool E "MAGEFILE_HELP")) (getDur a "t" (envDur conv.parseDuration E "MAGEFILE_TIMEOUT"))
      ((parseBool (getenv E "MAGEFILE_IGNOREDEFAULT")).getD false) words

end MageModel.Gen
