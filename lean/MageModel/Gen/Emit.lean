import MageModel.Gen.Tpl
import MageModel.Gen.Dispatch
/-
`mage.GenerateMainfile`: the data handed to the template (parse.PkgInfo with its documentation strings), the two
methods the template calls on a Function (`TargetName`, `ExecCode`), the functions registered with the template
(`lower`, `lowerFirst`) and `printf "%q"`.  The template itself and the string literals of `ExecCode` are parameters:
they are regenerated from the source (`Generated/TemplateAst.lean`).
-/
namespace MageModel.Gen.Emit
open MageModel.Parse MageModel.Gen MageModel.Gen.Tpl

/-- `fmt.Sprintf(format, n)` for formats containing only `%d` and `%%` -/
def sprintfD : List Char → Nat → List Char
  | '%' :: 'd' :: rest, n => (toString n).toList ++ sprintfD rest n
  | '%' :: '%' :: rest, n => '%' :: sprintfD rest n
  | c :: rest, n => c :: sprintfD rest n
  | [], _ => []

def lit (lits : List String) (i : Nat) : String := lits.getD i "<missing literal>"

/-- parse.Function.ExecCode, over the string literals of its source (in source order) -/
def execCode (lits : List String) (f : Function) : String :=
  let name :=
    if f.receiver ≠ "" then
      let recv := if f.package ≠ "" then f.package ++ lit lits 2 ++ f.receiver else f.receiver
      lit lits 3 ++ recv ++ lit lits 4 ++ f.name
    else if f.package ≠ "" then f.package ++ lit lits 6 ++ f.name
    else f.name
  let parseargs := String.join (f.args.zipIdx.map fun (a, x) =>
    let fmt := if a.type = lit lits 7 then some (lit lits 8) else if a.type = lit lits 9 then some (lit lits 10)
      else if a.type = lit lits 11 then some (lit lits 12) else if a.type = lit lits 13 then some (lit lits 14) else none
    match fmt with
    | some s => String.ofList (sprintfD s.toList x)
    | none => "")
  let args := (if f.isContext then [lit lits 18] else []) ++
    (List.range f.args.length).map fun x => String.ofList (sprintfD (lit lits 19).toList x)
  parseargs ++ lit lits 15 ++ (if f.isError then lit lits 16 else "") ++ name ++ lit lits 17 ++
    (lit lits 20).intercalate args ++ lit lits 21 ++ (if !f.isError then lit lits 22 else "") ++ lit lits 23

def hex4 (n : Nat) : List Char :=
  let d (k : Nat) : Char := let v := (n / 16 ^ k) % 16; if v < 10 then Char.ofNat (48 + v) else Char.ofNat (87 + v)
  [d 3, d 2, d 1, d 0]

/-- `strconv.Quote` (what `%q` prints) — for text whose non-ASCII characters are printable -/
def quoteChar (c : Char) : List Char :=
  if c = '"' then ['\\', '"'] else if c = '\\' then ['\\', '\\']
  else if c = '\x07' then ['\\', 'a'] else if c = '\x08' then ['\\', 'b'] else if c = '\x0c' then ['\\', 'f']
  else if c = '\n' then ['\\', 'n'] else if c = '\r' then ['\\', 'r'] else if c = '\t' then ['\\', 't']
  else if c = '\x0b' then ['\\', 'v']
  else if c.toNat < 0x20 ∨ c.toNat = 0x7f then ['\\', 'x'] ++ (hex4 c.toNat).drop 2
  else [c]

def quote (s : String) : String := String.ofList ('"' :: s.toList.flatMap quoteChar ++ ['"'])

def funcs : Funcs := { lower := lower, lowerFirst := lowerFirst, quote := quote }

def argVal (a : Arg) : Val := .struct [("Name", .str a.name), ("Type", .str a.type)]

def fnVal (lits : List String) (f : Function) : Val :=
  .struct [("PkgAlias", .str f.pkgAlias), ("Package", .str f.package), ("ImportPath", .str f.importPath), ("Name", .str f.name),
    ("Receiver", .str f.receiver), ("IsError", .bool f.isError), ("IsContext", .bool f.isContext),
    ("Synopsis", .str f.synopsis), ("Comment", .str f.comment), ("Args", .list (f.args.map argVal)),
    ("TargetName", .str f.targetName), ("ExecCode", .str (execCode lits f)), ("ID", .str f.id)]

/-- the zero `parse.Function` (what `data.DefaultFunc` is when the magefile declares no default) -/
def zeroFn : Function := { name := "", isError := false, isContext := false, args := [] }

def importVal (lits : List String) (i : Import) : Val :=
  .struct [("Alias", .str i.alias), ("Name", .str i.name), ("UniqueName", .str i.uniqueName), ("Path", .str i.path),
    ("Info", .struct [("Funcs", .list (i.funcs.map (fnVal lits)))])]

/-- mainfileTemplateData -/
def dataVal (lits : List String) (binaryName : String) (info : PkgInfo) : Val :=
  .struct [("Description", .str info.description), ("Funcs", .list (info.funcs.map (fnVal lits))),
    ("DefaultFunc", fnVal lits (info.defaultFunc.getD zeroFn)),
    -- a Go map: text/template visits it in key order, whatever order the runtime would iterate in
    ("Aliases", .map ((sortBy (·.1) info.aliases).map fun (k, f) => (k, fnVal lits f))),
    ("Imports", .list (info.imports.map (importVal lits))), ("BinaryName", .str binaryName)]

/-- the bytes `GenerateMainfile` writes -/
def emit (nodes : List Node) (lits : List String) (binaryName : String) (info : PkgInfo) : String :=
  execute funcs nodes (dataVal lits binaryName info)

end MageModel.Gen.Emit
