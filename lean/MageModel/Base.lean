namespace MageModel
def hello := 1
end MageModel
