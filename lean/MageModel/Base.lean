/-! Shared instances. -/
deriving instance DecidableEq for Except

namespace MageModel
end MageModel
