import MageModel.Sh.Expand
/-
Heap model of Go slices for sh.RunCmd / sh.OutCmd / sh.Run… / sh.Exec (C16).

A heap is a growing family of backing arrays; a slice is (array, offset, length, capacity).  `append` is Go's rule:
in place iff `len + n ≤ cap`, otherwise a fresh array (with an arbitrary amount of spare capacity, chosen by
the runtime — a parameter here).  `Cfg` records the two facts about sh/cmd.go the theorems depend on:
  * `copyBaked`   — the closures copy the captured slice before appending the call's arguments;
  * `expandFresh` — `Exec` writes the expanded arguments into a slice of its own, not into `args`.
`Cfg.fixed` (both true) is the current source (bridge: `Bridge/C16.lean`); `Cfg.pinned` (both false) is the tree
before the D15 fix.
-/
namespace MageModel.Sh

structure Slice where
  arr : Nat
  off : Nat
  len : Nat
  cap : Nat
  deriving DecidableEq, Repr

/-- number of arrays allocated so far, and their cells (array id, index) -/
structure Heap where
  size : Nat
  cell : Nat → Nat → String

def Heap.get (h : Heap) (a i : Nat) : String := h.cell a i

def Heap.set (h : Heap) (a i : Nat) (v : String) : Heap :=
  { h with cell := fun a' i' => if a' = a ∧ i' = i then v else h.cell a' i' }

def Heap.read (h : Heap) (s : Slice) : List String :=
  (List.range s.len).map (fun i => h.get s.arr (s.off + i))

/-- allocate a fresh array holding `xs` plus `spare` unused slots -/
def Heap.alloc (h : Heap) (xs : List String) (spare : Nat) : Heap × Slice :=
  ({ size := h.size + 1, cell := fun a i => if a = h.size then xs.getD i "" else h.cell a i },
   ⟨h.size, 0, xs.length, xs.length + spare⟩)

def Heap.writeList (h : Heap) (a : Nat) : Nat → List String → Heap
  | _, [] => h
  | i, x :: xs => Heap.writeList (h.set a i x) a (i+1) xs

/-- Go's `append(s, xs...)` -/
def appendS (h : Heap) (s : Slice) (xs : List String) (spare : Nat) : Heap × Slice :=
  if s.len + xs.length ≤ s.cap then
    (h.writeList s.arr (s.off + s.len) xs, { s with len := s.len + xs.length })
  else
    h.alloc (h.read s ++ xs) spare

structure Cfg where
  copyBaked : Bool
  expandFresh : Bool
  deriving DecidableEq, Repr

def Cfg.fixed : Cfg := ⟨true, true⟩
def Cfg.pinned : Cfg := ⟨false, false⟩

/-- `Exec`'s loop `for i := range args { dst[i] = os.Expand(args[i], expand) }` from index `i` -/
def expandLoop (env : String → String) (argv dst : Slice) : (n : Nat) → Nat → Heap → Heap
  | 0, _, h => h
  | n+1, i, h =>
    let v := expand env (h.get argv.arr (argv.off + i))
    expandLoop env argv dst n (i+1) (h.set dst.arr (dst.off + i) v)

/-- `Exec` on the slice it was handed: returns the heap afterwards and the argv given to the child. -/
def execArgs (cfg : Cfg) (env : String → String) (h : Heap) (argv : Slice) : Heap × List String :=
  if cfg.expandFresh then
    let (h1, dst) := h.alloc (List.replicate argv.len "") 0
    let h2 := expandLoop env argv dst argv.len 0 h1
    (h2, h2.read dst)
  else
    let h2 := expandLoop env argv argv argv.len 0 h
    (h2, h2.read argv)

/-- one complete call of a RunCmd/OutCmd closure with captured slice `baked` and arguments `extra`
    (`sp1`, `sp2`: spare capacity the runtime happens to give the two possible allocations) -/
def closureCall (cfg : Cfg) (env : String → String) (h : Heap) (baked : Slice) (extra : List String)
    (sp1 sp2 : Nat) : Heap × List String :=
  if cfg.copyBaked then
    let (h1, t) := h.alloc (h.read baked) sp1          -- append([]string(nil), args...)
    let (h2, argv) := appendS h1 t extra sp2            -- append(copy, args2...)
    execArgs cfg env h2 argv
  else
    let (h2, argv) := appendS h baked extra sp2         -- append(args, args2...)
    execArgs cfg env h2 argv

/-- a direct call sh.Run(cmd, xs...) / sh.Output(cmd, xs...) with the caller's slice `xs` -/
def directCall (cfg : Cfg) (env : String → String) (h : Heap) (xs : Slice) : Heap × List String :=
  execArgs cfg env h xs

end MageModel.Sh
