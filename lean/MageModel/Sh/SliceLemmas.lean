import MageModel.Sh.Slices
namespace MageModel.Sh

@[simp] theorem Heap.get_set (h : Heap) (a i : Nat) (v : String) (a' i' : Nat) :
    (h.set a i v).get a' i' = if a' = a ∧ i' = i then v else h.get a' i' := rfl
@[simp] theorem Heap.size_set (h : Heap) (a i : Nat) (v : String) : (h.set a i v).size = h.size := rfl
@[simp] theorem Heap.get_alloc (h : Heap) (xs : List String) (sp a i : Nat) :
    (h.alloc xs sp).1.get a i = if a = h.size then xs.getD i "" else h.get a i := rfl
@[simp] theorem Heap.size_alloc (h : Heap) (xs : List String) (sp : Nat) : (h.alloc xs sp).1.size = h.size + 1 := rfl
@[simp] theorem Heap.alloc_slice (h : Heap) (xs : List String) (sp : Nat) :
    (h.alloc xs sp).2 = ⟨h.size, 0, xs.length, xs.length + sp⟩ := rfl

theorem range_map_getD (xs : List String) : (List.range xs.length).map (fun i => xs.getD i "") = xs := by
  apply List.ext_getElem
  · simp
  · intro i h1 h2
    simp at h1
    simp [List.getD, h1]

theorem Heap.read_congr (h h' : Heap) (s s' : Slice) (hl : s.len = s'.len)
    (hc : ∀ i, i < s.len → h.get s.arr (s.off + i) = h'.get s'.arr (s'.off + i)) : h.read s = h'.read s' := by
  unfold Heap.read
  rw [← hl]
  apply List.map_congr_left
  intro i hi
  exact hc i (List.mem_range.mp hi)

theorem Heap.read_length (h : Heap) (s : Slice) : (h.read s).length = s.len := by simp [Heap.read]

theorem Heap.read_getD (h : Heap) (s : Slice) (i : Nat) (hi : i < s.len) :
    (h.read s).getD i "" = h.get s.arr (s.off + i) := by
  simp [Heap.read, List.getD, hi]

theorem Heap.read_alloc_new (h : Heap) (xs : List String) (sp : Nat) :
    (h.alloc xs sp).1.read (h.alloc xs sp).2 = xs := by
  simp only [Heap.read, Heap.alloc_slice, Heap.get_alloc, if_true, Nat.zero_add]
  exact range_map_getD xs

theorem Heap.size_writeList (h : Heap) (a i : Nat) (xs : List String) : (h.writeList a i xs).size = h.size := by
  induction xs generalizing h i with
  | nil => rfl
  | cons x rest ih => simp [Heap.writeList, ih]

theorem Heap.get_writeList (h : Heap) (a i : Nat) (xs : List String) (a' i' : Nat) :
    (h.writeList a i xs).get a' i' =
      if a' = a ∧ i ≤ i' ∧ i' < i + xs.length then xs.getD (i' - i) "" else h.get a' i' := by
  induction xs generalizing h i with
  | nil => simp [Heap.writeList]; intro _ h1 h2; omega
  | cons x rest ih =>
    simp only [Heap.writeList, ih, Heap.get_set, List.length_cons]
    by_cases ha : a' = a
    · subst ha
      by_cases h1 : i + 1 ≤ i' ∧ i' < i + 1 + rest.length
      · have h2 : i ≤ i' ∧ i' < i + (rest.length + 1) := by omega
        have h3 : i' - i = (i' - (i+1)) + 1 := by omega
        simp [h1, h2, h3]
      · by_cases h4 : i' = i
        · subst h4
          have h2 : i' ≤ i' ∧ i' < i' + (rest.length + 1) := by omega
          simp [h1, h2]
        · have h2 : ¬ (i ≤ i' ∧ i' < i + (rest.length + 1)) := by omega
          simp [h1, h2, h4]
    · simp [ha]

theorem Heap.read_eq_of_getD (h : Heap) (s : Slice) (l : List String) (hl : l.length = s.len)
    (hc : ∀ i, i < s.len → l[i]?.getD "" = h.get s.arr (s.off + i)) : h.read s = l := by
  apply List.ext_getElem
  · simp [Heap.read_length, hl]
  · intro i h1 h2
    simp [Heap.read_length] at h1
    have := hc i h1
    rw [List.getElem?_eq_getElem h2] at this
    simp only [Heap.read, List.getElem_map, List.getElem_range]
    simpa using this.symm

theorem Heap.read_getElem? (h : Heap) (s : Slice) (i : Nat) :
    (h.read s)[i]? = if i < s.len then some (h.get s.arr (s.off + i)) else none := by
  unfold Heap.read
  by_cases hi : i < s.len <;> simp [hi]

/-- What `append` guarantees. -/
theorem appendS_spec (h : Heap) (s : Slice) (xs : List String) (sp : Nat) :
    let r := appendS h s xs sp
    r.1.read r.2 = h.read s ++ xs ∧ h.size ≤ r.1.size ∧ r.2.len = s.len + xs.length ∧
    (r.2.arr = s.arr ∨ r.2.arr = h.size) ∧ (s.arr < h.size → r.2.arr < r.1.size) ∧
    (∀ a i, a ≠ s.arr → a < h.size → r.1.get a i = h.get a i) ∧
    (∀ i, s.arr < h.size → i < s.off + s.len → r.1.get s.arr i = h.get s.arr i) := by
  unfold appendS
  split
  · -- in place
    refine ⟨?_, by simp [Heap.size_writeList], rfl, Or.inl rfl, by simp [Heap.size_writeList], ?_, ?_⟩
    · apply Heap.read_eq_of_getD
      · simp [Heap.read_length]
      · intro i hi
        simp only at hi
        rw [List.getElem?_append, Heap.read_getElem?, Heap.get_writeList, Heap.read_length]
        by_cases h1 : i < s.len
        · have : ¬ (s.off + s.len ≤ s.off + i ∧ s.off + i < s.off + s.len + xs.length) := by omega
          simp [h1]; intro h5; omega
        · have h3 : s.off + s.len ≤ s.off + i ∧ s.off + i < s.off + s.len + xs.length := by omega
          have h4 : s.off + i - (s.off + s.len) = i - s.len := by omega
          simp [h1, h3, h4, List.getD_eq_getElem?_getD]
    · intro a i ha _; simp [Heap.get_writeList, ha]
    · intro i _ hi
      have : ¬ (s.off + s.len ≤ i ∧ i < s.off + s.len + xs.length) := by omega
      simp [Heap.get_writeList, this]
  · refine ⟨Heap.read_alloc_new _ _ _, by simp, by simp [Heap.read_length], Or.inr rfl, by simp, ?_, ?_⟩
    · intro a i _ ha
      have : a ≠ h.size := by omega
      simp [this]
    · intro i ha _
      have : s.arr ≠ h.size := by omega
      simp [this]

end MageModel.Sh

namespace MageModel.Sh

theorem expandLoop_size (env) (argv dst : Slice) (n i : Nat) (h : Heap) :
    (expandLoop env argv dst n i h).size = h.size := by
  induction n generalizing i h with
  | zero => rfl
  | succ n ih => simp [expandLoop, ih]

theorem expandLoop_get (env) (argv dst : Slice) (hne : argv.arr ≠ dst.arr) (n i : Nat) (h : Heap) (a j : Nat) :
    (expandLoop env argv dst n i h).get a j =
      if a = dst.arr ∧ dst.off + i ≤ j ∧ j < dst.off + i + n
      then expand env (h.get argv.arr (argv.off + (j - dst.off))) else h.get a j := by
  induction n generalizing i h with
  | zero => simp [expandLoop]; intro _ h1 h2; omega
  | succ n ih =>
    simp only [expandLoop]
    rw [ih]
    have hargv : ∀ x, (h.set dst.arr (dst.off + i) (expand env (h.get argv.arr (argv.off + i)))).get argv.arr x
        = h.get argv.arr x := by
      intro x; simp [hne]
    rw [hargv]
    by_cases ha : a = dst.arr
    · subst ha
      by_cases h1 : dst.off + (i + 1) ≤ j ∧ j < dst.off + (i + 1) + n
      · have h2 : dst.off + i ≤ j ∧ j < dst.off + i + (n + 1) := by omega
        simp [h1, h2]
      · by_cases h3 : j = dst.off + i
        · have h2 : dst.off + i ≤ j ∧ j < dst.off + i + (n + 1) := by omega
          have h4 : j - dst.off = i := by omega
          simp [h3]
        · have h2 : ¬ (dst.off + i ≤ j ∧ j < dst.off + i + (n + 1)) := by omega
          simp [h1, h2, h3]
    · simp [ha]

/-- Pinned variant (`dst = argv`): the loop overwrites the slice it reads from. -/
theorem expandLoop_inplace_get (env) (argv : Slice) (n i : Nat) (h : Heap) (a j : Nat) :
    (expandLoop env argv argv n i h).get a j =
      if a = argv.arr ∧ argv.off + i ≤ j ∧ j < argv.off + i + n
      then expand env (h.get argv.arr j) else h.get a j := by
  induction n generalizing i h with
  | zero => simp [expandLoop]; intro _ h1 h2; omega
  | succ n ih =>
    simp only [expandLoop]
    rw [ih]
    by_cases ha : a = argv.arr
    · subst ha
      by_cases h1 : argv.off + (i + 1) ≤ j ∧ j < argv.off + (i + 1) + n
      · have h2 : argv.off + i ≤ j ∧ j < argv.off + i + (n + 1) := by omega
        have h3 : j ≠ argv.off + i := by omega
        simp [h1, h2, h3]
      · by_cases h3 : j = argv.off + i
        · have h2 : argv.off + i ≤ j ∧ j < argv.off + i + (n + 1) := by omega
          simp [h3]; intro h5; omega
        · have h2 : ¬ (argv.off + i ≤ j ∧ j < argv.off + i + (n + 1)) := by omega
          simp [h1, h2, h3]
    · simp [ha]

/-- `Exec` of the current source: the child gets the expansion of what the slice held; no existing cell changes. -/
theorem execArgs_fixed (env) (h : Heap) (argv : Slice) (hv : argv.arr < h.size) :
    (execArgs Cfg.fixed env h argv).2 = (h.read argv).map (expand env) ∧
    (∀ a i, a < h.size → (execArgs Cfg.fixed env h argv).1.get a i = h.get a i) ∧
    h.size ≤ (execArgs Cfg.fixed env h argv).1.size := by
  have hne : argv.arr ≠ (h.alloc (List.replicate argv.len "") 0).2.arr := by simp; omega
  simp only [execArgs, Cfg.fixed, if_true]
  refine ⟨?_, ?_, ?_⟩
  · apply Heap.read_eq_of_getD
    · simp [Heap.read_length]
    · intro i hi
      simp at hi
      rw [expandLoop_get _ _ _ hne]
      have h1 : (h.alloc (List.replicate argv.len "") 0).2.off + 0 ≤ (h.alloc (List.replicate argv.len "") 0).2.off + i
          ∧ (h.alloc (List.replicate argv.len "") 0).2.off + i < (h.alloc (List.replicate argv.len "") 0).2.off + 0 + argv.len := by
        simp; exact hi
      rw [if_pos ⟨rfl, h1⟩]
      have h2 : argv.arr ≠ h.size := by omega
      simp [h2, Heap.read_getElem?, hi]
  · intro a i ha
    rw [expandLoop_get _ _ _ hne]
    have h1 : a ≠ h.size := by omega
    simp [h1]
  · rw [expandLoop_size]; simp

end MageModel.Sh
