/-
`os.Expand` (Go standard library, src/os/env.go) transcribed over character lists, and the lookup closure
`sh.Exec` hands to it.  All syntax characters are ASCII, so for valid UTF-8 the byte-level Go code and this
character-level model agree (trusted; the differential stream covers multi-byte characters).
-/
namespace MageModel.Sh

def isShellSpecialVar (c : Char) : Bool :=
  c == '*' || c == '#' || c == '$' || c == '@' || c == '!' || c == '?' || c == '-' || ('0' ≤ c && c ≤ '9')

def isAlphaNum (c : Char) : Bool :=
  c == '_' || ('0' ≤ c && c ≤ '9') || ('a' ≤ c && c ≤ 'z') || ('A' ≤ c && c ≤ 'Z')

/-- scan to the closing brace: `some (name, rest after the brace)` -/
def scanBrace : List Char → List Char → Option (List Char × List Char)
  | _, [] => none
  | acc, c :: rest => if c == '}' then some (acc.reverse, rest) else scanBrace (c :: acc) rest

/-- `getShellName s` for non-empty `s` (the text after a `$`): the name and the remaining text.
    `name = []` with `eaten = true` is "bad syntax, eat the characters". -/
structure NameRes where
  name : List Char
  rest : List Char
  eaten : Bool       -- w > 0
  deriving Repr

def getShellName : List Char → NameRes
  | [] => ⟨[], [], false⟩                         -- not reached: caller guarantees non-empty
  | '{' :: s =>
    match s with
    | c :: '}' :: rest' =>
        if isShellSpecialVar c then ⟨[c], rest', true⟩
        else match scanBrace [] s with
          | some (nm, r) => if nm.isEmpty then ⟨[], r, true⟩ else ⟨nm, r, true⟩
          | none => ⟨[], s, true⟩
    | _ => match scanBrace [] s with
          | some (nm, r) => if nm.isEmpty then ⟨[], r, true⟩ else ⟨nm, r, true⟩   -- "${}" eats 2
          | none => ⟨[], s, true⟩                                                   -- "${" eats 1
  | c :: s =>
    if isShellSpecialVar c then ⟨[c], s, true⟩
    else
      let nm := (c :: s).takeWhile isAlphaNum
      ⟨nm, (c :: s).dropWhile isAlphaNum, !nm.isEmpty⟩

/-- `os.Expand(s, mapping)` -/
def expandAux (mapping : String → String) : (fuel : Nat) → List Char → List Char
  | 0, s => s
  | _, [] => []
  | _, ['$'] => ['$']                                  -- `$` at the very end: j+1 < len(s) fails
  | fuel+1, '$' :: c :: s =>
    let r := getShellName (c :: s)
    let out :=
      if r.name.isEmpty && r.eaten then []             -- invalid syntax: eat
      else if r.name.isEmpty then ['$']                -- `$` not followed by a name: keep the dollar
      else (mapping (String.ofList r.name)).toList
    out ++ expandAux mapping fuel r.rest
  | fuel+1, c :: s => c :: expandAux mapping fuel s

def expand (mapping : String → String) (s : String) : String :=
  String.ofList (expandAux mapping (s.length + 1) s.toList)

/-- The lookup closure of `sh.Exec`: the env map first, otherwise the process environment. -/
def lookupExec (envMap : List (String × String)) (inherited : String → Option String) (k : String) : String :=
  match envMap.lookup k with
  | some v => v
  | none => (inherited k).getD ""

end MageModel.Sh
