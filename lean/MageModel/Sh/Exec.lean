import MageModel.Sh.Expand
/-
Model of sh/cmd.go: `run`, `Exec`, `CmdRan`, `ExitStatus` and the seven wrappers, plus mg.ExitStatus on the
errors they build.
-/
namespace MageModel.Sh

/-- What `c.Run()` of os/exec reported. -/
inductive Raw where
  | exited (code : Nat)      -- process ran and exited with `code` (0 ⇒ Run returns nil)
  | signaled                 -- *exec.ExitError with Exited() = false
  | startFailed              -- any other error: not found, not executable, a directory …
  deriving DecidableEq, Repr

/-- `c.Run()` returned nil -/
def Raw.isNil : Raw → Bool
  | .exited 0 => true
  | _ => false

/-- sh.CmdRan applied to the raw error -/
def cmdRan : Raw → Bool
  | .exited _ => true          -- nil, or ExitError with Exited()
  | .signaled => false
  | .startFailed => false

/-- sh.ExitStatus applied to the raw error (signaled: WaitStatus.ExitStatus() = -1) -/
def exitStatusRaw : Raw → Int
  | .exited k => k
  | .signaled => -1
  | .startFailed => 1

/-- errors built by Exec -/
inductive Err where
  | fatal (code : Int)     -- mg.Fatalf(code, `running "…" failed with exit code %d`)
  | plain                  -- fmt.Errorf(`failed to run "…: %v"`)
  deriving DecidableEq, Repr

/-- mg.ExitStatus -/
def mgExitStatus : Option Err → Int
  | none => 0
  | some (.fatal c) => c
  | some .plain => 1

/-- sh.ExitStatus on an error built by Exec (fatalErr implements ExitStatus(); it is not an *exec.ExitError) -/
def shExitStatus : Option Err → Int
  | none => 0
  | some (.fatal c) => c
  | some .plain => 1

/-- sh.Exec: (ran, err) -/
def exec (raw : Raw) : Bool × Option Err :=
  if raw.isNil then (true, none)
  else if cmdRan raw then (true, some (.fatal (exitStatusRaw raw)))
  else (false, some .plain)

/-- `strings.TrimSuffix(s, "\n")` -/
def trimOne (s : List Char) : List Char :=
  match s.reverse with
  | '\n' :: r => r.reverse
  | _ => s

/-- The child's environment as `run` builds it: `os.Environ()` followed by the map entries (in map order `π`).
    os/exec keeps the last binding of a key. -/
def childEnv (inherited : List (String × String)) (mapInOrder : List (String × String)) : List (String × String) :=
  inherited ++ mapInOrder

/-- scan remembering the last binding of `k` -/
def lastFrom (k : String) (acc : Option String) (env : List (String × String)) : Option String :=
  env.foldl (fun a kv => if kv.1 == k then some kv.2 else a) acc

/-- last binding wins (os/exec dedupEnv) -/
def childGetenv (env : List (String × String)) (k : String) : Option String :=
  lastFrom k none env

/-- os.Getenv/LookupEnv on a list environment with unique keys -/
def getenv (env : List (String × String)) (k : String) : Option String := env.lookup k

/-- where the child's stdout goes -/
inductive Sink where
  | discard | osStdout | buffer | given
  deriving DecidableEq, Repr

inductive Fn where
  | run | runV | runWith | runWithV | output | outputWith | exec
  deriving DecidableEq, Repr

def Fn.usesEnvMap : Fn → Bool
  | .runWith | .runWithV | .outputWith | .exec => true
  | _ => false

def stdoutSink (verbose : Bool) : Fn → Sink
  | .run | .runWith => if verbose then .osStdout else .discard
  | .runV | .runWithV => .osStdout
  | .output | .outputWith => .buffer
  | .exec => .given

end MageModel.Sh
