/-
Lexical path algebra of `path/filepath` on Unix: `Clean`, `Join`, `IsAbs`, and `Abs` relative to a given working
directory.  Used for the working directory of targets (C11) and for the single location of the cache (C08).
-/
namespace MageModel.Invoke.Paths

def isAbs (p : String) : Bool := p.toList.head? == some '/'

/-- the component stack of `Clean`: "" and "." vanish, ".." pops a real component, stays when relative, vanishes at the root -/
def cleanComps (abs : Bool) : List String → List String → List String
  | stack, [] => stack.reverse
  | stack, c :: rest =>
    if c = "" ∨ c = "." then cleanComps abs stack rest
    else if c = ".." then
      match stack with
      | top :: below => if top = ".." then cleanComps abs (".." :: stack) rest else cleanComps abs below rest
      | [] => if abs then cleanComps abs [] rest else cleanComps abs [".."] rest
    else cleanComps abs (c :: stack) rest

/-- split at every '/' (like `strings.Split(p, "/")`) -/
def splitSlash : List Char → List Char → List String
  | acc, [] => [String.ofList acc.reverse]
  | acc, c :: rest => if c == '/' then String.ofList acc.reverse :: splitSlash [] rest else splitSlash (c :: acc) rest

/-- `filepath.Clean` -/
def clean (p : String) : String :=
  let comps := cleanComps (isAbs p) [] (splitSlash [] p.toList)
  let body := "/".intercalate comps
  if isAbs p then "/" ++ body else if body = "" then "." else body

/-- `filepath.Join` of two elements (empty elements are ignored) -/
def join (a b : String) : String :=
  if a = "" then (if b = "" then "" else clean b)
  else if b = "" then clean a
  else clean (a ++ "/" ++ b)

/-- `filepath.Abs` in a process whose working directory is `cwd` -/
def absFrom (cwd p : String) : String := if isAbs p then clean p else join cwd p

example : clean "a//b/./c/.." = "a/b" := by decide
example : clean "/../a" = "/a" := by decide
example : clean "../../a/.." = "../.." := by decide
example : clean "" = "." := by decide
example : join "/root/x" "../y" = "/root/y" := by decide
example : absFrom "/w" "cache" = "/w/cache" := by decide
example : absFrom "/w" "/abs//c/" = "/abs/c" := by decide

end MageModel.Invoke.Paths
