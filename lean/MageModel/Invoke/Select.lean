/-
Which files of a directory are magefiles (mage/main.go: Magefiles, listGoFiles; go/build's file matcher).
The evaluator below is written from go/build's documentation and source rules: file-name rule (`goodOSArchFile`),
build-constraint expressions (`//go:build`, or the legacy `// +build` lines when there is no `//go:build`), the
truth of a tag for a platform (`matchTag`), and the classification of `_test.go` files.
-/
namespace MageModel.Invoke.Select

/-- a build-constraint expression -/
inductive Expr where
  | tag (t : String)
  | not (e : Expr)
  | and (a b : Expr)
  | or (a b : Expr)
  deriving DecidableEq, Repr

structure Plat where
  os : String
  arch : String
  cgo : Bool := false            -- build.Default.CgoEnabled
  releaseMinor : Nat := 23       -- go1.1 … go1.N are set
  deriving DecidableEq, Repr

def knownOS : List String :=
  ["aix", "android", "darwin", "dragonfly", "freebsd", "hurd", "illumos", "ios", "js", "linux", "nacl", "netbsd",
   "openbsd", "plan9", "solaris", "wasip1", "windows", "zos"]
def unixOS : List String :=
  ["aix", "android", "darwin", "dragonfly", "freebsd", "hurd", "illumos", "ios", "linux", "netbsd", "openbsd", "solaris"]
def knownArch : List String :=
  ["386", "amd64", "amd64p32", "arm", "armbe", "arm64", "arm64be", "loong64", "mips", "mipsle", "mips64", "mips64le",
   "mips64p32", "mips64p32le", "ppc", "ppc64", "ppc64le", "riscv", "riscv64", "s390", "s390x", "sparc", "sparc64", "wasm"]

def releaseTags (n : Nat) : List String := (List.range n).map fun i => "go1." ++ toString (i + 1)

/-- `Context.matchTag`: is tag `t` set for platform `p` with the extra build tags `tags`? -/
def tagTrue (p : Plat) (tags : List String) (t : String) : Bool :=
  (p.cgo && t == "cgo") || t == p.os || t == p.arch || t == "gc" ||
  (p.os == "android" && t == "linux") || (p.os == "illumos" && t == "solaris") || (p.os == "ios" && t == "darwin") ||
  (t == "unix" && unixOS.contains p.os) || tags.contains t || (releaseTags p.releaseMinor).contains t

def eval (p : Plat) (tags : List String) : Expr → Bool
  | .tag t => tagTrue p tags t
  | .not e => !eval p tags e
  | .and a b => eval p tags a && eval p tags b
  | .or a b => eval p tags a || eval p tags b

/-! ### file names -/

def splitOnChar (sep : Char) : List Char → List Char → List String
  | acc, [] => [String.ofList acc.reverse]
  | acc, c :: rest => if c == sep then String.ofList acc.reverse :: splitOnChar sep [] rest else splitOnChar sep (c :: acc) rest

/-- `goodOSArchFile`: the platform suffix of a file name, as the tags it requires -/
def nameTags (name : String) : List String :=
  let stem := (name.toList.takeWhile (· != '.'))                  -- strings.Cut(name, ".")
  let fromUnderscore := stem.dropWhile (· != '_')                  -- ignore everything before the first '_'
  if fromUnderscore.isEmpty then []
  else
    let l := splitOnChar '_' [] fromUnderscore
    let l := if l.getLast? == some "test" then l.dropLast else l
    match l.reverse with
    | a :: o :: _ =>
      if knownOS.contains o && knownArch.contains a then [a, o]
      else if knownOS.contains a || knownArch.contains a then [a] else []
    | [a] => if knownOS.contains a || knownArch.contains a then [a] else []
    | [] => []

def hasSuffix (s suf : String) : Bool := suf.toList.isSuffixOf s.toList
def hasPrefix (s pre : String) : Bool := pre.toList.isPrefixOf s.toList

structure File where
  name : String
  constraint : Option Expr := none     -- the file's `//go:build` (or legacy `+build`) constraint, if any
  pkg : String := "main"
  deriving DecidableEq, Repr

/-- is the file considered at all: not hidden, a `.go` file -/
def goodName (f : File) : Bool := !hasPrefix f.name "_" && !hasPrefix f.name "." && hasSuffix f.name ".go"

def isTest (f : File) : Bool := hasSuffix f.name "_test.go"

/-- does the file belong to the package's GoFiles for platform `p` with build tags `tags`? -/
def sat (p : Plat) (tags : List String) (f : File) : Bool :=
  goodName f && (nameTags f.name).all (tagTrue p tags) &&
    (match f.constraint with | some e => eval p tags e | none => true) && !isTest f

/-- `listGoFiles(dir, tag)`: names in directory order (ReadDir sorts) -/
def listGo (p : Plat) (tags : List String) (files : List File) : List String :=
  (files.filter (sat p tags)).map (·.name)

/-- `Magefiles(dir, …, isMagefilesDirectory)` -/
def magefiles (p : Plat) (files : List File) (isMagefilesDir : Bool) : List String :=
  let withMage := listGo p ["mage"] files
  if isMagefilesDir then withMage
  else withMage.filter fun n => !(listGo p [""] files).contains n

/-- the platform the listing is evaluated for: `-goos`/`-goarch`, else the host (never the environment: BuildEnv) -/
def platOf (host : Plat) (goos goarch : String) : Plat :=
  { host with os := if goos = "" then host.os else goos, arch := if goarch = "" then host.arch else goarch }

/-- Invoke's choice of the magefile directory: `dir/magefiles` when it is a directory and `dir` itself has no magefiles -/
structure DirState where
  files : List File
  broken : Bool := false        -- listing the directory itself fails (a file go/build cannot read)
  sub : Option (List File)      -- the `magefiles` subdirectory, when it exists and is a directory

structure Chosen where
  usesMagefilesDir : Bool
  files : List String
  deriving DecidableEq, Repr

def choose (p : Plat) (d : DirState) : Chosen :=
  match d.sub with
  | none => ⟨false, magefiles p d.files false⟩
  | some sf =>
    if d.broken || (magefiles p d.files false).isEmpty then ⟨true, magefiles p sf true⟩
    else ⟨false, magefiles p d.files false⟩

end MageModel.Invoke.Select
