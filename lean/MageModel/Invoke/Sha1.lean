/-
SHA-1 (FIPS 180-4) over byte arrays, executable, so that the oracle computes the *real* cache file names that
`mage.ExeName` produces.  Nothing is proved about SHA-1 beyond the shape of its output (20 bytes, hence 40 hex
digits): collision-freeness is a hypothesis wherever it is needed.
-/
namespace MageModel.Invoke.Sha1

def rotl (x : UInt32) (n : UInt32) : UInt32 := (x <<< n) ||| (x >>> (32 - n))

/-- message padding: 0x80, zeros up to 56 mod 64, the bit length as 64-bit big-endian -/
def pad (msg : ByteArray) : ByteArray := Id.run do
  let bitLen : UInt64 := msg.size.toUInt64 * 8
  let mut out := msg.push 0x80
  while out.size % 64 != 56 do
    out := out.push 0
  for i in [0:8] do
    out := out.push ((bitLen >>> (UInt64.ofNat (8 * (7 - i)))).toUInt8)
  return out

def be32 (b : ByteArray) (i : Nat) : UInt32 :=
  (b.get! i).toUInt32 <<< 24 ||| (b.get! (i+1)).toUInt32 <<< 16 ||| (b.get! (i+2)).toUInt32 <<< 8 ||| (b.get! (i+3)).toUInt32

structure St where
  h0 : UInt32
  h1 : UInt32
  h2 : UInt32
  h3 : UInt32
  h4 : UInt32

def init : St := ⟨0x67452301, 0xEFCDAB89, 0x98BADCFE, 0x10325476, 0xC3D2E1F0⟩

def chunk (s : St) (b : ByteArray) (off : Nat) : St := Id.run do
  let mut w : Array UInt32 := Array.mkEmpty 80
  for i in [0:16] do
    w := w.push (be32 b (off + 4 * i))
  for i in [16:80] do
    w := w.push (rotl (w[i-3]! ^^^ w[i-8]! ^^^ w[i-14]! ^^^ w[i-16]!) 1)
  let mut a := s.h0
  let mut bb := s.h1
  let mut c := s.h2
  let mut d := s.h3
  let mut e := s.h4
  for i in [0:80] do
    let (f, k) : UInt32 × UInt32 :=
      if i < 20 then ((bb &&& c) ||| ((~~~ bb) &&& d), 0x5A827999)
      else if i < 40 then (bb ^^^ c ^^^ d, 0x6ED9EBA1)
      else if i < 60 then ((bb &&& c) ||| (bb &&& d) ||| (c &&& d), 0x8F1BBCDC)
      else (bb ^^^ c ^^^ d, 0xCA62C1D6)
    let temp := rotl a 5 + f + e + k + w[i]!
    e := d
    d := c
    c := rotl bb 30
    bb := a
    a := temp
  return ⟨s.h0 + a, s.h1 + bb, s.h2 + c, s.h3 + d, s.h4 + e⟩

def bytes32 (x : UInt32) : List UInt8 := [(x >>> 24).toUInt8, (x >>> 16).toUInt8, (x >>> 8).toUInt8, x.toUInt8]

def finalState (msg : ByteArray) : St := Id.run do
  let p := pad msg
  let mut s := init
  for i in [0:p.size / 64] do
    s := chunk s p (64 * i)
  return s

def digestOf (s : St) : List UInt8 := bytes32 s.h0 ++ bytes32 s.h1 ++ bytes32 s.h2 ++ bytes32 s.h3 ++ bytes32 s.h4

/-- the digest: 20 bytes -/
def sum (msg : ByteArray) : List UInt8 := digestOf (finalState msg)

theorem sum_length (msg : ByteArray) : (sum msg).length = 20 := rfl

def hexDigit (n : Nat) : Char := if n < 10 then Char.ofNat (48 + n) else Char.ofNat (87 + n)
def hex (bs : List UInt8) : String := String.ofList (bs.flatMap fun b => [hexDigit (b.toNat / 16), hexDigit (b.toNat % 16)])

/-- `fmt.Sprintf("%x", sha1.Sum(b))` -/
def hexSum (msg : ByteArray) : String := hex (sum msg)

end MageModel.Invoke.Sha1
