import MageModel.Invoke.Steps
/-
Several `mage` invocations at the same time: each is the step sequence of `Invoke` (fault-free), the steps of
different processes interleave arbitrarily over one shared world (the magefile directories and the cache directory).
  init     listing, hashing, `go env`, existence test of the executable      (reads only)
  create   os.Create of the generated main file: truncates whatever is there
  write    the template output: the file is complete
  compile  `go build -o exe` over the magefiles and the main file; installs the executable (atomically: assumption)
  remove   explicit removal of the main file
  run      exec of the executable (+ the deferred removal on the build path)
-/
namespace MageModel.Invoke.Multi
open MageModel.Invoke

inductive Pc where
  | init | create | write | compile | remove | runBuilt | runReuse | fin
  deriving DecidableEq, Repr

structure Proc (Src : Type) where
  r : Run Src
  pc : Pc := .init
  res : Option (Int × Option Src) := none      -- exit status and the sources of the program it started

variable {Src : Type}

/-- one step of one process over the shared world -/
def step (name : Src → Nat) (runBin : Src → Int) (p : Proc Src) (w : World Src) : Proc Src × World Src :=
  match p.pc with
  | .init =>
    if !rebuildAlways p.r && (w.cache (name p.r.src)).isSome && !p.r.force then ({ p with pc := .runReuse }, w)
    else ({ p with pc := .create }, w)
  | .create => ({ p with pc := .write }, w.setMain p.r.dir .headless)
  | .write => ({ p with pc := .compile }, w.setMain p.r.dir .full)
  | .compile =>
    if w.main p.r.dir = .full then ({ p with pc := .remove }, w.setExe (name p.r.src) p.r.src)
    else ({ p with pc := .fin, res := some (1, none) }, cleanup p.r w)          -- "error compiling magefiles"
  | .remove => ({ p with pc := .runBuilt }, cleanup p.r w)
  | .runBuilt =>
    match w.cache (name p.r.src) with
    | none => ({ p with pc := .fin, res := some (1, none) }, cleanup p.r w)
    | some s => ({ p with pc := .fin, res := some (osStatus (runBin s), some s) }, cleanup p.r w)
  | .runReuse =>
    match w.cache (name p.r.src) with
    | none => ({ p with pc := .fin, res := some (1, none) }, w)
    | some s => ({ p with pc := .fin, res := some (osStatus (runBin s), some s) }, w)
  | .fin => (p, w)

/-- any number of processes (indexed by ℕ) over one world -/
structure Sys (Src : Type) where
  procs : Nat → Proc Src
  world : World Src

def sysStep (name : Src → Nat) (runBin : Src → Int) (s : Sys Src) (i : Nat) : Sys Src :=
  let (p', w') := step name runBin (s.procs i) s.world
  { procs := fun j => if j = i then p' else s.procs j, world := w' }

/-- a schedule is any list of process numbers -/
def runSched (name : Src → Nat) (runBin : Src → Int) (s : Sys Src) (sched : List Nat) : Sys Src :=
  sched.foldl (sysStep name runBin) s

end MageModel.Invoke.Multi
