import MageModel.Gen.Main
import MageModel.Invoke.Front
import MageModel.Invoke.Steps
/-
The whole chain `mage <argv>`: front-end flag parsing, the build steps, and the generated main run with the
environment and argument vector `RunCompiled` gives it.
-/
namespace MageModel.Invoke
open MageModel.Parse MageModel.Gen MageModel.Gen.Flags

/-- what the user sees of one `mage` invocation -/
structure MageOut where
  status : Int
  child : Option ChildOut := none      -- the run of the compiled magefile, when it got that far
  parsed : Parsed
  deriving Repr

/-- `mage argv` in environment `E` on a directory whose magefiles parse to `info`; `F` are the faults of this
invocation, `cached` says whether an executable for the current sources is already in the cache -/
def mage (info : PkgInfo) (conv : Conv) (fmtDur : Int → String) (out : Call → Outcome) (E : Env) (argv : List String)
    (F : Faults) (cached : Bool) (goCache : Bool := true) : MageOut :=
  let p := frontParse conv.parseDuration E argv
  match p with
  | .usage => { status := 0, parsed := p }
  | .misuse _ => { status := 2, parsed := p }
  | .ok _ .version => { status := 0, parsed := p }
  | .ok _ .init => { status := 0, parsed := p }
  | .ok _ .clean => { status := 0, parsed := p }
  | .ok inv cmd =>
    let child := childMain info conv out (childEnv fmtDur E inv) (childArgv inv)
    let r : Run Unit := { dir := 0, src := (), keep := inv.keep, force := inv.force, hashFast := inv.hashFast,
                          goCache := goCache, compileOut := if cmd = .compileStatic then some 1 else none }
    let w : World Unit := ⟨fun _ => .absent, fun p => if cached && p == 0 then some () else none⟩
    let res := invoke Cfg.fixed (fun _ => 0) (fun _ => child.status) r F w
    { status := res.status, parsed := p, child := res.ran.map fun _ => child }

end MageModel.Invoke
