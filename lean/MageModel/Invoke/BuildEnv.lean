import MageModel.Gen.Flags
/-
`internal.EnvWithGOOS` (internal/run.go): `os.Environ()` split into a Go map, GOOS and GOARCH overwritten with the
flag value or the host's, re-joined in map iteration order.  The iteration order is a parameter: the result is *any
permutation* of the map's entries.
-/
namespace MageModel.Invoke.BuildEnv
open MageModel.Gen.Flags

/-- Go map assignment `m[k] = v` on an association list with unique keys -/
def setKey (m : Env) (k v : String) : Env :=
  if m.any (fun p => p.1 == k) then m.map (fun p => if p.1 == k then (k, v) else p) else m ++ [(k, v)]

/-- `internal.SplitEnv`: a later binding of a key overwrites an earlier one -/
def splitEnv (E : Env) : Env := E.foldl (fun m p => setKey m p.1 p.2) []

/-- the map `EnvWithGOOS` builds before `joinEnv` -/
def goosMap (hostOS hostArch goos goarch : String) (E : Env) : Env :=
  setKey (setKey (splitEnv E) "GOOS" (if goos = "" then hostOS else goos)) "GOARCH" (if goarch = "" then hostArch else goarch)

def keys (m : Env) : List String := m.map (·.1)

theorem keys_setKey_present (m : Env) (k v : String) (h : m.any (fun p => p.1 == k) = true) : keys (setKey m k v) = keys m := by
  simp only [setKey, h, if_true, keys, List.map_map]
  apply List.map_congr_left
  intro p _
  simp only [Function.comp]
  split
  · rename_i hk
    have : p.1 = k := by simpa using hk
    simp [this]
  · rfl

theorem setKey_nodup (m : Env) (k v : String) (h : (keys m).Nodup) : (keys (setKey m k v)).Nodup := by
  by_cases hk : m.any (fun p => p.1 == k) = true
  · rw [keys_setKey_present m k v hk]; exact h
  · have hk' : m.any (fun p => p.1 == k) = false := by
      cases hb : m.any (fun p => p.1 == k) with
      | false => rfl
      | true => exact absurd hb hk
    simp only [setKey, hk', Bool.false_eq_true, if_false, keys, List.map_append, List.map_cons, List.map_nil]
    rw [List.nodup_append]
    refine ⟨h, by simp, ?_⟩
    intro a ha b hb
    simp only [List.mem_singleton] at hb
    subst hb
    intro hab
    subst hab
    apply hk
    simp only [List.any_eq_true]
    simp only [keys, List.mem_map] at ha
    obtain ⟨p, hp, rfl⟩ := ha
    exact ⟨p, hp, by simp⟩

theorem setKey_mem (m : Env) (k v : String) : (k, v) ∈ setKey m k v := by
  by_cases hk : m.any (fun p => p.1 == k) = true
  · simp only [setKey, hk, if_true, List.mem_map]
    simp only [List.any_eq_true] at hk
    obtain ⟨p, hp, hpk⟩ := hk
    exact ⟨p, hp, by simp [hpk]⟩
  · simp [setKey, hk]

theorem setKey_mem_other (m : Env) (k v k' v' : String) (hne : k' ≠ k) (h : (k', v') ∈ m) : (k', v') ∈ setKey m k v := by
  by_cases hk : m.any (fun p => p.1 == k) = true
  · simp only [setKey, hk, if_true, List.mem_map]
    exact ⟨(k', v'), h, by simp [hne]⟩
  · simp [setKey, hk, h]

theorem splitEnv_nodup_aux (E m : Env) (h : (keys m).Nodup) : (keys (E.foldl (fun m p => setKey m p.1 p.2) m)).Nodup := by
  induction E generalizing m with
  | nil => exact h
  | cons p rest ih => exact ih _ (setKey_nodup m p.1 p.2 h)

theorem splitEnv_nodup (E : Env) : (keys (splitEnv E)).Nodup := splitEnv_nodup_aux E [] (by simp [keys])

theorem goosMap_nodup (ho ha goos goarch : String) (E : Env) : (keys (goosMap ho ha goos goarch E)).Nodup :=
  setKey_nodup _ _ _ (setKey_nodup _ _ _ (splitEnv_nodup E))

/-- in a list with unique keys the (last-binding) lookup finds the one binding of a key -/
theorem getenv_of_mem (L : Env) (k v : String) (hn : (keys L).Nodup) (hm : (k, v) ∈ L) : getenv L k = v := by
  induction L with
  | nil => cases hm
  | cons p rest ih =>
    simp only [keys, List.map_cons, List.nodup_cons] at hn
    have hcons : (p :: rest) = [p] ++ rest := rfl
    rcases List.mem_cons.mp hm with h | h
    · subst h
      -- k is not a key of rest
      have hnone : rest.reverse.find? (fun q => q.1 == k) = none := by
        rw [List.find?_eq_none]
        intro q hq hqk
        apply hn.1
        simp only [List.mem_map]
        exact ⟨q, List.mem_reverse.mp hq, by simpa using hqk⟩
      simp [getenv, List.find?_append, hnone]
    · have := ih hn.2 h
      simp only [getenv, List.reverse_cons, List.find?_append] at this ⊢
      cases hf : rest.reverse.find? (fun q => q.1 == k) with
      | some q => rw [hf] at this; simpa using this
      | none =>
        exfalso
        rw [List.find?_eq_none] at hf
        exact hf (k, v) (List.mem_reverse.mpr h) (by simp)

/-- **The platform the magefiles are selected and compiled for is the flag's or the host's — never the caller's
GOOS/GOARCH** — for every caller environment and every iteration order of the map. -/
theorem platform_is_flag_or_host (ho ha goos goarch : String) (E L : Env) (hp : L.Perm (goosMap ho ha goos goarch E)) :
    getenv L "GOOS" = (if goos = "" then ho else goos) ∧ getenv L "GOARCH" = (if goarch = "" then ha else goarch) := by
  have hn : (keys L).Nodup := by
    have := goosMap_nodup ho ha goos goarch E
    exact (List.Perm.nodup_iff (List.Perm.map _ hp)).mpr this
  constructor
  · apply getenv_of_mem L _ _ hn
    rw [List.Perm.mem_iff hp]
    exact setKey_mem_other _ _ _ _ _ (by decide) (setKey_mem _ _ _)
  · apply getenv_of_mem L _ _ hn
    rw [List.Perm.mem_iff hp]
    exact setKey_mem _ _ _

/-- every other variable keeps the caller's (last) value -/
theorem setKey_getenv_other (m : Env) (k v k' : String) (hne : k' ≠ k) (hn : (keys m).Nodup) (v' : String)
    (h : (k', v') ∈ m) : getenv (setKey m k v) k' = v' :=
  getenv_of_mem _ _ _ (setKey_nodup m k v hn) (setKey_mem_other m k v k' v' hne h)

example : goosMap "linux" "amd64" "" "arm64" [("GOOS", "plan9"), ("A", "x=y"), ("GOOS", "windows")] =
    [("GOOS", "linux"), ("A", "x=y"), ("GOARCH", "arm64")] := by decide

end MageModel.Invoke.BuildEnv
