/-
`-init` (mage/main.go: generateInit) and `-clean` (removeContents) as functions over directory listings.
-/
namespace MageModel.Invoke.Dirs

/-- `mage -init` in a directory given as name ↦ content; `tpl` is the starter magefile.
`os.OpenFile(O_WRONLY|O_CREATE|O_EXCL)`: an existing magefile.go makes it fail without touching anything. -/
def mageInit (excl : Bool) (files : List (String × String)) (tpl : String) : List (String × String) × Int :=
  if files.any (fun p => p.1 == "magefile.go") then
    if excl then (files, 1)
    else (files.map (fun p => if p.1 == "magefile.go" then ("magefile.go", tpl) else p), 0)   -- os.Create truncates (D10)
  else (files ++ [("magefile.go", tpl)], 0)

structure Entry where
  name : String
  isDir : Bool          -- as `ioutil.ReadDir` (lstat) reports: a symbolic link is not a directory
  deriving DecidableEq, Repr

/-- `removeContents`: walk the listing, skip directories, `os.Remove` everything else; the `failAt`-th removal fails
and ends the walk.  Returns what is left of the listing and whether it succeeded. -/
def removeContents : List Entry → Nat → List Entry × Bool
  | [], _ => ([], true)
  | e :: rest, k =>
    if e.isDir then
      let (r, ok) := removeContents rest k
      (e :: r, ok)
    else if k = 0 then (e :: rest, false)
    else removeContents rest (k - 1)

end MageModel.Invoke.Dirs
