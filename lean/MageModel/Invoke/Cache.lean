import MageModel.Invoke.Sha1
import MageModel.Invoke.Paths
/-
`mage.ExeName` (mage/main.go:656-687): the name of the cached binary as a function of the magefile contents, the
generated-main template, the rebuild key and the `go version` string.
  hashes := [sha1hex(content) | files] ++ [sha1hex(template)]; sort; sha1hex(join(hashes) ++ key ++ version)
Parametric in the hash `hx` (content ↦ 40 hex digits) and in the encoding `enc` of the final text as bytes.
-/
namespace MageModel.Invoke.Cache

def sortStrings (l : List String) : List String := l.mergeSort (fun a b => decide (a ≤ b))

/-- the text whose hash is the file name -/
def exeText (hashes : List String) (key ver : String) : List Char :=
  ((sortStrings hashes).map String.toList).flatten ++ key.toList ++ ver.toList

/-- the base name of the cached executable -/
def exeBase {B : Type} (hx : B → String) (enc : List Char → B) (tpl : B) (key ver : String) (files : List B) : String :=
  hx (enc (exeText (files.map hx ++ [hx tpl]) key ver))

/-- the instance the code uses: SHA-1, UTF-8 -/
def sha1Name (tpl : ByteArray) (key ver : String) (files : List ByteArray) : String :=
  exeBase Sha1.hexSum (fun cs => (String.ofList cs).toUTF8) tpl key ver files

/-- where the binary lives: the cache directory made absolute in the directory mage was started in, then the name -/
def exePath (startCwd cacheDir base : String) : String := Paths.join (Paths.absFrom startCwd cacheDir) base

end MageModel.Invoke.Cache
