import MageModel.Gen.Flags
import MageModel.Invoke.Paths
/-
`mage.Parse` (mage/main.go:177-310): the front end's flag table, the command selection and the misuse checks;
`RunCompiled`'s environment for the child (mage/main.go:705-747).
-/
namespace MageModel.Invoke
open MageModel.Gen.Flags

/-- the front end's flag table, in declaration order -/
def frontSpecs : List Spec :=
  [⟨"f", .bool⟩, ⟨"debug", .bool⟩, ⟨"v", .bool⟩, ⟨"h", .bool⟩, ⟨"t", .dur⟩, ⟨"keep", .bool⟩, ⟨"d", .str⟩, ⟨"w", .str⟩,
   ⟨"gocmd", .str⟩, ⟨"goos", .str⟩, ⟨"goarch", .str⟩, ⟨"ldflags", .str⟩, ⟨"l", .bool⟩, ⟨"version", .bool⟩,
   ⟨"init", .bool⟩, ⟨"clean", .bool⟩, ⟨"compile", .str⟩]

inductive Command where | none | version | init | clean | compileStatic
  deriving DecidableEq, Repr

/-- mage.Invocation (the fields that matter after parsing) -/
structure Inv where
  debug : Bool := false
  dir : String := ""
  workDir : String := ""
  force : Bool := false
  verbose : Bool := false
  list : Bool := false
  help : Bool := false
  keep : Bool := false
  timeout : Int := 0
  compileOut : String := ""
  goos : String := ""
  goarch : String := ""
  ldflags : String := ""
  args : List String := []
  goCmd : String := "go"
  cacheDir : String := ""
  hashFast : Bool := false
  deriving DecidableEq, Repr

inductive Misuse where
  | flag (e : PErr)            -- rejected by package flag
  | severalCommands            -- "-h, -init, -clean, -compile and -version cannot be used simultaneously"
  | goosWithoutCompile         -- "-goos and -goarch only apply when running with -compile"
  | helpSeveralTargets         -- "-h can only show help for a single target"
  | strayArgs                  -- "unexpected arguments to command"
  deriving DecidableEq, Repr

inductive Parsed where
  | usage                      -- flag.ErrHelp: usage printed, exit 0
  | misuse (m : Misuse)        -- exit 2
  | ok (inv : Inv) (cmd : Command)
  deriving DecidableEq, Repr

/-- mg.Verbose / mg.Debug: ParseBool of the variable, false when unset or invalid -/
def envFlag (E : Env) (k : String) : Bool := (parseBool (getenv E k)).getD false
/-- mg.GoCmd -/
def envGoCmd (E : Env) : String := if getenv E "MAGEFILE_GOCMD" = "" then "go" else getenv E "MAGEFILE_GOCMD"
/-- mg.CacheDir (non-Windows) -/
def envCacheDir (E : Env) : String :=
  if getenv E "MAGEFILE_CACHE" = "" then Paths.join (getenv E "HOME") ".magefile" else getenv E "MAGEFILE_CACHE"

/-- mage.Parse; `E` is mage's own environment, `pd` the recorded time.ParseDuration -/
def frontParse (pd : String → Option Int) (E : Env) (argv : List String) : Parsed :=
  match parse frontSpecs pd argv [] with
  | .error .help => .usage
  | .error e => .misuse (.flag e)
  | .ok (a, words) =>
    let help := getBool a "h" false
    if help && words.isEmpty then .usage
    else
      let mageInit := getBool a "init" false
      let compileOut := getStr a "compile" ""
      let showVersion := getBool a "version" false
      let clean := getBool a "clean" false
      -- the `switch` picks the first matching command only
      let cmd : Command :=
        if mageInit then .init else if compileOut ≠ "" then .compileStatic
        else if showVersion then .version else if clean then .clean else .none
      if cmd = .clean ∧ !words.isEmpty then .misuse .severalCommands
      else
        let numCommands := (if cmd = .none then 0 else 1) + (if help then 1 else 0)
        if numCommands > 1 then .misuse .severalCommands
        else
          let goos := getStr a "goos" ""
          let goarch := getStr a "goarch" ""
          if cmd ≠ .compileStatic ∧ (goarch ≠ "" ∨ goos ≠ "") then .misuse .goosWithoutCompile
          else if help ∧ words.length > 1 then .misuse .helpSeveralTargets
          else if !words.isEmpty ∧ cmd ≠ .none then .misuse .strayArgs
          else
            .ok { debug := getBool a "debug" (envFlag E "MAGEFILE_DEBUG"),
                  dir := getStr a "d" "", workDir := getStr a "w" "",
                  force := getBool a "f" false || cmd = .compileStatic,
                  verbose := getBool a "v" (envFlag E "MAGEFILE_VERBOSE"),
                  list := getBool a "l" false, help := help, keep := getBool a "keep" false,
                  timeout := getDur a "t" 0,
                  compileOut := if cmd = .compileStatic then compileOut else "",
                  goos := goos, goarch := goarch, ldflags := getStr a "ldflags" "",
                  args := words, goCmd := getStr a "gocmd" (envGoCmd E),
                  cacheDir := envCacheDir E, hashFast := envFlag E "MAGEFILE_HASHFAST" } cmd

/-- `time.Duration.String` is a recorded function; only its round trip through ParseDuration matters -/
structure DurFmt where
  fmt : Int → String
  pd : String → Option Int
  roundTrip : ∀ d, d > 0 → pd (fmt d) = some d

/-- the bindings `RunCompiled` appends to mage's own environment, in the order the code appends them -/
def childBindings (fmtDur : Int → String) (inv : Inv) : Env :=
  [("MAGEFILE_VERBOSE", formatBool inv.verbose)]
    ++ (if inv.list then [("MAGEFILE_LIST", "1")] else [])
    ++ (if inv.help then [("MAGEFILE_HELP", "1")] else [])
    ++ [("MAGEFILE_DEBUG", formatBool inv.debug)]
    ++ (if inv.goCmd ≠ "" then [("MAGEFILE_GOCMD", inv.goCmd)] else [])
    ++ (if inv.timeout > 0 then [("MAGEFILE_TIMEOUT", fmtDur inv.timeout)] else [])

/-- the environment `RunCompiled` starts the binary with: mage's own (`os.Environ()`, unaltered), then the
MAGEFILE_* bindings appended (os/exec keeps the last binding of a key) -/
def childEnv (fmtDur : Int → String) (E : Env) (inv : Inv) : Env := E ++ childBindings fmtDur inv

/-- the argument vector: flags travel in the environment, `--` keeps the words from being parsed as flags -/
def childArgv (inv : Inv) : List String := "--" :: inv.args

/-- the working directory of the child: `-w`, else `-d`, else "."; a magefiles directory switches Dir but not WorkDir -/
def childDir (inv : Inv) : String :=
  let dir := if inv.dir = "" then "." else inv.dir
  if inv.workDir = "" then dir else inv.workDir

end MageModel.Invoke

namespace MageModel.Invoke
open MageModel.Gen.Flags

/-- `mage.ParseAndRun`: usage → 0, misuse → 2, `-version` → 0, `-init`/`-clean` → 0 or 1, otherwise `Invoke` -/
def parseAndRun (pd : String → Option Int) (E : Env) (argv : List String) (initOk cleanOk : Bool)
    (invokeStatus : Inv → Int) : Int :=
  match frontParse pd E argv with
  | .usage => 0
  | .misuse _ => 2
  | .ok _ .version => 0
  | .ok _ .init => if initOk then 0 else 1
  | .ok _ .clean => if cleanOk then 0 else 1
  | .ok inv _ => invokeStatus inv

end MageModel.Invoke
