/-
`mage.Invoke` (mage/main.go:313-458) as a function over an abstract world, with a fault at any step.

World: per magefile directory the state of the generated main file, and the cache directory as a finite map from
executable path to the sources the binary was built from.  The other files of a magefile directory are not in the
world at all: no step writes them (that claim is the tie's: strace-checked fault-injected runs).
`Src` identifies a set of magefile contents (+ template + toolchain): what a binary is a function of.
-/
namespace MageModel.Invoke

/-- the generated main file in a magefile directory -/
inductive MainState where
  | absent
  | headless   -- a prefix too short to contain the whole `//go:build ignore` line (or empty): not skippable by go/build
  | truncated  -- a longer prefix: carries the ignore constraint, is not a complete Go file
  | full
  deriving DecidableEq, Repr

structure World (Src : Type) where
  main : Nat → MainState           -- by directory
  cache : Nat → Option Src         -- executable path ↦ what it was built from

def World.setMain {Src} (w : World Src) (d : Nat) (m : MainState) : World Src :=
  { w with main := fun d' => if d' = d then m else w.main d' }
def World.setExe {Src} (w : World Src) (p : Nat) (s : Src) : World Src :=
  { w with cache := fun p' => if p' = p then some s else w.cache p' }

@[simp] theorem World.setMain_main_same {Src} (w : World Src) d m : (w.setMain d m).main d = m := by simp [World.setMain]
@[simp] theorem World.setMain_main_other {Src} (w : World Src) d d' m (h : d' ≠ d) : (w.setMain d m).main d' = w.main d' := by
  simp [World.setMain, h]
@[simp] theorem World.setMain_cache {Src} (w : World Src) d m : (w.setMain d m).cache = w.cache := rfl
@[simp] theorem World.setExe_main {Src} (w : World Src) p s : (w.setExe p s).main = w.main := rfl
@[simp] theorem World.setExe_cache_same {Src} (w : World Src) p s : (w.setExe p s).cache p = some s := by simp [World.setExe]
@[simp] theorem World.setExe_cache_other {Src} (w : World Src) p p' s (h : p' ≠ p) : (w.setExe p s).cache p' = w.cache p' := by
  simp [World.setExe, h]

/-- which part of GenerateMainfile fails -/
inductive GenFault where
  | none | create
  | write (early : Bool)     -- the template output fails midway; `early`: before the constraint line was complete
  | close | chtimes
  deriving DecidableEq, Repr

/-- one Boolean per step of Invoke that can fail (the go tool, the file system, the parser) -/
structure Faults where
  list : Bool := false       -- Magefiles(): go/build listing (or `go env`) fails
  noFiles : Bool := false    -- the listing is empty
  exeName : Bool := false    -- hashing a file or `go version` fails
  goEnv : Bool := false      -- `go env GOCACHE` fails
  parse : Bool := false      -- parse.PrimaryPackage: syntax error, `go list`, duplicate targets
  gen : GenFault := .none
  compile : Bool := false    -- `go build` fails
  start : Bool := false      -- the binary cannot be started
  deriving DecidableEq, Repr

def Faults.none : Faults := {}

/-- the facts about the code that the theorems depend on (regenerated and bridged) -/
structure Cfg where
  deferBeforeGenerate : Bool   -- `defer os.RemoveAll(main)` is registered before GenerateMainfile (D12)
  explicitRemove : Bool        -- main is removed after a successful compile, before the binary runs
  listSkipsMain : Bool         -- the directory listing never looks at mage_output_file.go (D11)
  deriving DecidableEq, Repr

def Cfg.fixed : Cfg := ⟨true, true, true⟩

/-- one invocation, after flag parsing and the choice of the magefile directory -/
structure Run (Src : Type) where
  dir : Nat                       -- the magefile directory
  src : Src                       -- its current magefile contents
  keep : Bool := false
  force : Bool := false
  hashFast : Bool := false
  goCache : Bool := true          -- `go env GOCACHE` is non-empty
  compileOut : Option Nat := none -- `-compile path`

/-- `os.Exit` status as the parent sees it -/
def osStatus (c : Int) : Int := c % 256

variable {Src : Type}

/-- result of an invocation: the world it leaves, its exit status, and which program (built from which sources) it
started, if any -/
structure Res (Src : Type) where
  world : World Src
  status : Int
  ran : Option Src := none
  built : Bool := false          -- `go build` ran successfully in this invocation

/-- RunCompiled: start the executable at `exe` -/
def runCompiled (runBin : Src → Int) (F : Faults) (w : World Src) (exe : Nat) : Res Src :=
  match w.cache exe with
  | none => { world := w, status := 1 }                  -- "failed to run compiled magefile"
  | some s => if F.start then { world := w, status := 1 } else { world := w, status := osStatus (runBin s), ran := some s }

/-- what `defer os.RemoveAll(main)` / the explicit removal do -/
def cleanup (r : Run Src) (w : World Src) : World Src := if r.keep then w else w.setMain r.dir .absent

/-- the path of the executable: `-compile`'s argument, else the cache name of the sources -/
def exePath (name : Src → Nat) (r : Run Src) : Nat := r.compileOut.getD (name r.src)

/-- the code's `useCache`: the Go build cache exists and MAGEFILE_HASHFAST is off, so every invocation rebuilds -/
def rebuildAlways (r : Run Src) : Bool := !r.hashFast && r.goCache

/-- effect of the deferred removal on a path that leaves Invoke during (`early`) or after GenerateMainfile -/
def deferred (cfg : Cfg) (r : Run Src) (early : Bool) (w : World Src) : World Src :=
  if early && !cfg.deferBeforeGenerate then w else cleanup r w

/-- the world after a successful generate + compile (+ explicit removal) -/
def built (cfg : Cfg) (name : Src → Nat) (r : Run Src) (w : World Src) : World Src :=
  if cfg.explicitRemove then cleanup r ((w.setMain r.dir .full).setExe (exePath name r) r.src)
  else (w.setMain r.dir .full).setExe (exePath name r) r.src

@[simp] theorem cleanup_cache (r : Run Src) (w : World Src) : (cleanup r w).cache = w.cache := by
  unfold cleanup; split <;> rfl
@[simp] theorem deferred_cache (cfg : Cfg) (r : Run Src) (e : Bool) (w : World Src) : (deferred cfg r e w).cache = w.cache := by
  unfold deferred; split <;> simp
@[simp] theorem built_cache_exe (cfg : Cfg) (name : Src → Nat) (r : Run Src) (w : World Src) :
    (built cfg name r w).cache (exePath name r) = some r.src := by
  unfold built; split <;> simp
theorem built_cache_other (cfg : Cfg) (name : Src → Nat) (r : Run Src) (w : World Src) (p : Nat) (h : p ≠ exePath name r) :
    (built cfg name r w).cache p = w.cache p := by
  unfold built; split <;> simp [h]

/-- generate, compile, run: the part of Invoke after the decision to (re)build -/
def buildAndRun (cfg : Cfg) (name : Src → Nat) (runBin : Src → Int) (r : Run Src) (F : Faults) (w : World Src) : Res Src :=
  match F.gen with
  | .create => { world := deferred cfg r true w, status := 1 }
  | .write early => { world := deferred cfg r true (w.setMain r.dir (if early then .headless else .truncated)), status := 1 }
  | .close => { world := deferred cfg r true (w.setMain r.dir .full), status := 1 }
  | .chtimes => { world := deferred cfg r true (w.setMain r.dir .full), status := 1 }
  | .none =>
    if F.compile then { world := deferred cfg r false (w.setMain r.dir .full), status := 1 }
    else if r.compileOut.isSome then { world := deferred cfg r false (built cfg name r w), status := 0, built := true }
    else
      let rc := runCompiled runBin F (built cfg name r w) (exePath name r)
      { world := deferred cfg r false rc.world, status := rc.status, ran := rc.ran, built := true }

/-- Invoke from the listing of the magefiles on. `name` is ExeName as a function of the sources. -/
def invoke (cfg : Cfg) (name : Src → Nat) (runBin : Src → Int) (r : Run Src) (F : Faults) (w : World Src) : Res Src :=
  -- Magefiles(): a main file without its constraint line makes go/build fail unless the listing skips it
  if F.list || (!cfg.listSkipsMain && w.main r.dir == .headless) then { world := w, status := 1 }
  else if F.noFiles then { world := w, status := 1 }
  else if r.compileOut.isNone && F.exeName then { world := w, status := 1 }
  else if !r.hashFast && F.goEnv then { world := w, status := 1 }
  else if !rebuildAlways r && (w.cache (exePath name r)).isSome && !r.force then runCompiled runBin F w (exePath name r)
  else if F.parse then { world := w, status := 1 }
  else buildAndRun cfg name runBin r F w

end MageModel.Invoke

namespace MageModel.Invoke
variable {Src : Type}

/-- every executable in the cache directory sits at the name computed from the sources it was built from -/
def CacheSound (name : Src → Nat) (w : World Src) : Prop := ∀ p s, w.cache p = some s → p = name s

theorem CacheSound.setExe {name : Src → Nat} {w : World Src} (h : CacheSound name w) (s : Src) :
    CacheSound name (w.setExe (name s) s) := by
  intro p s' hp
  by_cases hpe : p = name s
  · subst hpe; simp at hp; subst hp; rfl
  · rw [World.setExe_cache_other _ _ _ _ hpe] at hp; exact h p s' hp

theorem CacheSound.setMain {name : Src → Nat} {w : World Src} (h : CacheSound name w) (d : Nat) (m : MainState) :
    CacheSound name (w.setMain d m) := by
  intro p s hp; exact h p s hp

end MageModel.Invoke
