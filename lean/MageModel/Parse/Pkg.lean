import MageModel.Parse.Ast
/-
Model of parse.Package / parse.PrimaryPackage: from the abstract syntax of the magefiles (and of the packages they
mage:import, as `go list` resolves them) to the `PkgInfo` the generator consumes.
go/doc's part (exported declarations only, methods attached to their exported type, everything sorted by name) is
modelled by `exported`/sorting below.
-/
namespace MageModel.Parse

structure TypeDecl where
  name : String
  rhs : TExpr
  deriving DecidableEq, Repr

/-- the expression forms `getFunction` understands -/
inductive FnRef where
  | ident (f : String)                 -- Build
  | sel (x f : String)                 -- NS.Build or pkg.Build
  | selsel (pkg recv f : String)       -- pkg.NS.Build
  | other
  deriving DecidableEq, Repr

structure File where
  name : String
  imports : List ImportSpec := []
  funcs : List FuncDecl := []
  types : List TypeDecl := []
  defaultVar : Option FnRef := none
  aliases : Option (List (String × FnRef)) := none
  pkgDoc : String := ""              -- the comment above the package clause ("" = none)
  deriving Repr

structure Pkg where
  files : List File
  deriving Repr

/-- what `go list` says about an import path, and the files of that package -/
structure Imported where
  name : String
  pkg : Pkg
  deriving Repr

abbrev World := String → Option Imported

/-- parse.Function -/
structure Function where
  pkgAlias : String := ""
  package : String := ""        -- unique import name in the generated file
  importPath : String := ""
  name : String
  receiver : String := ""
  isError : Bool
  isContext : Bool
  args : List Arg
  recvPtr : Bool := false
  doc : String := ""            -- the declaration's doc comment as written
  synopsis : String := ""       -- parse.sanitizeSynopsis: the first sentence, without the function's own name
  comment : String := ""        -- parse.toOneLine: the whole doc comment, as one line
  deriving DecidableEq, Repr

/-- Function.TargetName -/
def Function.targetName (f : Function) : String :=
  ":".intercalate ([f.pkgAlias, f.receiver, f.name].filter (· ≠ ""))

/-- Function.ID -/
def Function.id (f : Function) : String :=
  (if f.importPath = "" then "<current>" else f.importPath) ++ "." ++
    (if f.receiver = "" then "" else f.receiver ++ ".") ++ f.name

structure Import where
  alias : String
  name : String
  uniqueName : String
  path : String
  funcs : List Function
  deriving Repr

structure PkgInfo where
  funcs : List Function
  imports : List Import := []
  defaultFunc : Option Function := none
  aliases : List (String × Function) := []
  description : String := ""     -- the package comment
  deriving Repr

inductive BuildErr where
  | caseConflict (groups : List (List String))   -- "Build targets must be case insensitive, thus the following targets conflict": the names of each group
  | multipleDefs (all : List (String × List String))   -- every ambiguous name with the sorted IDs of its definitions
  | aliasDup (alias : String) (ids : List String) (determinate : Bool)
      -- the message names one colliding alias and the definitions it runs into; which one, when several aliases collide
      -- or two aliases collide with each other, depends on Go's map iteration order (`determinate = false`)
  | importNotFound (path : String)
  deriving DecidableEq, Repr

/-- the capital letters of Latin-1 (À … Þ without ×): with ASCII, the part of Unicode the identifiers of the generators use -/
def isLatin1Upper (c : Char) : Bool := (0xC0 ≤ c.toNat && c.toNat ≤ 0xDE) && c.toNat != 0xD7

/-- unicode.ToLower on ASCII and Latin-1 -/
def goToLower (c : Char) : Char := if isLatin1Upper c then Char.ofNat (c.toNat + 32) else c.toLower

/-- unicode.IsUpper on ASCII and Latin-1 -/
def goIsUpper (c : Char) : Bool := c.isUpper || isLatin1Upper c

/-- ast.IsExported (identifiers over ASCII and Latin-1) -/
def exported (s : String) : Bool := match s.toList with | c :: _ => goIsUpper c | [] => false

/-- strings.ToLower (text over ASCII and Latin-1) -/
def lower (s : String) : String := String.ofList (s.toList.map goToLower)

/-- sort by a string key (`sort.Strings`, `sort.Sort` with a `Less` on a string field) -/
def sortBy {α} (key : α → String) (l : List α) : List α :=
  l.mergeSort (fun a b => decide (key a ≤ key b))

def isNamespaceDecl (t : TypeDecl) : Bool := exported t.name && t.rhs == .sel "mg" "Namespace"

def mkFunction (d : FuncDecl) (s : FnSig) : Function :=
  { name := d.name, receiver := (d.recv.map (·.base)).getD "", isError := s.isError, isContext := s.isContext,
    args := s.args, recvPtr := (d.recv.map (·.ptr)).getD false, doc := d.doc }

/-- setNamespaces then setFuncs -/
def collectFuncs (p : Pkg) : List Function :=
  let funcs := p.files.flatMap (·.funcs)
  let types := sortBy (·.name) ((p.files.flatMap (·.types)).filter isNamespaceDecl)
  let methods := types.flatMap fun t =>
    (sortBy (·.name) (funcs.filter fun d => (d.recv.map (·.base)) == some t.name && exported d.name && !d.typeParams)).filterMap fun d =>
      match funcType d.params d.results with
      | .ok s => some (mkFunction d s)
      | .error _ => none
  let plain := (sortBy (·.name) (funcs.filter fun d => d.recv.isNone && exported d.name && !d.typeParams)).filterMap fun d =>
      match funcType d.params d.results with
      | .ok s => some (mkFunction d s)
      | .error _ => none
  methods ++ plain

/-- checkDupeTargets' key -/
def dupeKey (f : Function) : String :=
  if f.receiver = "" then lower f.name else lower f.receiver ++ ":" ++ lower f.name

def hasDup : List String → Bool
  | [] => false
  | x :: rest => rest.contains x || hasDup rest

/-- parse.Package -/
def package (p : Pkg) : Except BuildErr (List Function) :=
  let fs := collectFuncs p
  if hasDup (fs.map dupeKey) then
    .error (.caseConflict (((fs.map dupeKey).eraseDups.map fun k => (fs.filter fun f => dupeKey f == k).map (·.name)).filter (·.length > 1)))
  else .ok fs

/-- runnable-name collisions: parse.checkDupes. `aliases` are the declared alias keys (empty on the first call). -/
def checkDupes (own : List Function) (imports : List Import) (aliases : List (String × Function)) : Except BuildErr Unit :=
  let targets := own ++ imports.flatMap (·.funcs)
  let names := targets.map fun f => lower f.targetName
  -- alias against targets (and against earlier aliases)
  let idsOf : String → List String := fun n => (targets.filter fun f => lower f.targetName == n).map (·.id)
  let rec goAlias (seen : List String) (as : List (String × Function)) : Except BuildErr (List String) :=
    match as with
    | [] => .ok seen
    | (a, _) :: rest =>
      if seen.contains (lower a) then .error (.aliasDup (lower a) [] false) else goAlias (lower a :: seen) rest
  match goAlias names aliases with
  | .error e =>
    -- the report: the alias, the definitions it runs into; determinate iff it is the only colliding alias
    let keys := aliases.map fun x => lower x.1
    let colliding := keys.filter fun k => names.contains k || (keys.filter (· == k)).length > 1
    .error (match e with
      | .aliasDup a _ _ => .aliasDup a (idsOf a) (colliding.length == 1)
      | e => e)
  | .ok _ =>
    if hasDup names then
      let dups := (names.eraseDups.filter fun n => (names.filter (· == n)).length > 1)
      .error (.multipleDefs ((sortBy id dups).map fun n => (n, sortBy id (idsOf n))))
    else .ok ()

def dedupAdjacent : List String → List String
  | [] => []
  | [x] => [x]
  | x :: y :: rest => if x = y then dedupAdjacent (y :: rest) else x :: dedupAdjacent (y :: rest)

/-- the unique-name loop of setImports -/
def assignUnique (used : List String) : List (String × String × String × List Function) → List Import
  | [] => []
  | (alias, name, path, funcs) :: rest =>
    let base := name ++ "_mageimport"
    let rec pick (fuel x : Nat) (cand : String) : String :=
      match fuel with
      | 0 => cand
      | fuel+1 => if used.contains cand then pick fuel (x+1) (s!"{name}_mageimport{x}") else cand
    let unique := pick (used.length + 1) 1 base
    { alias := alias, name := name, uniqueName := unique, path := path,
      funcs := funcs.map fun f => { f with package := unique } } :: assignUnique (unique :: used) rest

/-- parse.getFunction -/
def getFunction (own : List Function) (imports : List Import) : FnRef → Option Function
  | .ident f => own.find? fun g => g.name == f && g.receiver == ""
  | .sel x f =>
    match own.find? fun g => g.receiver == x && g.name == f with
    | some g => some g
    | none =>
      match imports.find? fun i => i.name == x with
      | some i => i.funcs.find? fun g => g.name == f && g.receiver == ""
      | none => none
  | .selsel pkg recv f =>
    match imports.find? fun i => i.name == pkg with
    | some i => i.funcs.find? fun g => g.name == f && g.receiver == recv
    | none => none
  | .other => none

structure Cfg where
  importTag : String := "mage:import"
  lenConst : Nat := 0
  fields : String → List String
  /-- `ast.CommentGroup.Text` of a doc comment as written (standard library; recorded) -/
  docText : String → String := id
  /-- `go/doc.Synopsis` of a comment text (standard library; recorded) -/
  docSynopsis : String → String := id

/-- unicode.IsSpace on the characters strings.TrimSpace removes -/
def isGoSpace (c : Char) : Bool :=
  c == ' ' || c == '\t' || c == '\n' || c == '\r' || c.toNat == 0x0B || c.toNat == 0x0C || c.toNat == 0x85 || c.toNat == 0xA0

/-- strings.TrimSpace -/
def trimSpace (s : String) : String :=
  String.ofList ((s.toList.dropWhile isGoSpace).reverse.dropWhile isGoSpace).reverse

/-- parse.toOneLine -/
def toOneLine (s : String) : String := trimSpace (s.replace "\n" " ")

/-- parse.sanitizeSynopsis, given `doc.Synopsis` of the text: a leading word equal to the function's name
(ignoring case) is dropped -/
def sanitizeSynopsis (name syn : String) : String :=
  match syn.splitOn " " with
  | first :: rest => if lower first == lower name then " ".intercalate rest else syn
  | [] => syn

/-- what setFuncs / setNamespaces record about the doc comment -/
def decorate (cfg : Cfg) (f : Function) : Function :=
  let text := cfg.docText f.doc
  { f with comment := toOneLine text, synopsis := sanitizeSynopsis f.name (cfg.docSynopsis text) }

/-- go/doc's package comment: the texts of the files' package comments in file-name order, joined by a newline -/
def packageDoc (cfg : Cfg) (p : Pkg) : String :=
  "\n".intercalate (((sortBy (·.name) p.files).map fun f => cfg.docText f.pkgDoc).filter (· ≠ ""))

/-- the (path, alias) pairs of the aliased `mage:import` tags, in order of first mention, each once: a package tagged
under two aliases contributes under both (D27) -/
def namedStep (acc : List (String × String)) (pt : String × Tagged) : List (String × String) :=
  match pt.2 with
  | .named a => if acc.contains (pt.1, a) then acc else acc ++ [(pt.1, a)]
  | _ => acc

def collectNamed (tagged : List (String × Tagged)) : List (String × String) := tagged.foldl namedStep []

/-- parse.PrimaryPackage (then `sort.Sort(info.Funcs)`, `sort.Sort(info.Imports)` of Invoke) -/
def primary (cfg : Cfg) (w : World) (p : Pkg) : Except BuildErr PkgInfo :=
  match package p with
  | .error e => .error e
  | .ok own0 =>
    let own := own0.map (decorate cfg)
    -- setImports: files in name order
    let specs := (sortBy (·.name) p.files).flatMap (·.imports)
    let tagged := specs.map fun sp => (sp.path, getImportTag cfg.importTag cfg.lenConst cfg.fields sp)
    -- importNames[path] = set of aliases: a package tagged under two aliases contributes under both (D27 fix);
    -- the same (path, alias) mentioned twice counts once
    let named : List (String × String) := collectNamed tagged
    let roots : List String := tagged.filterMap fun (path, t) => match t with | .root => some path | _ => none
    -- getNamedImports: paths in order, the aliases of one path in order (mergeSort is stable)
    let namedSorted := sortBy (·.1) (sortBy (·.2) named)
    let rootsSorted := dedupAdjacent (sortBy id roots)
    let wanted : List (String × String) := namedSorted.map (fun (path, a) => (a, path)) ++ rootsSorted.map (fun path => ("", path))
    let rec load (l : List (String × String)) : Except BuildErr (List (String × String × String × List Function)) :=
      match l with
      | [] => .ok []
      | (alias, path) :: rest =>
        match w path with
        | none => .error (.importNotFound path)
        | some imp =>
          match package imp.pkg with
          | .error e => .error e
          | .ok fs =>
            match load rest with
            | .error e => .error e
            | .ok more => .ok ((alias, imp.name, path, fs.map fun f => { decorate cfg f with pkgAlias := alias, importPath := path }) :: more)
    match load wanted with
    | .error e => .error e
    | .ok loaded =>
      let pre : List Import := loaded.map fun (a, n, pth, fs) => { alias := a, name := n, uniqueName := "", path := pth, funcs := fs }
      match checkDupes own pre [] with
      | .error e => .error e
      | .ok () =>
        let imports := assignUnique [] loaded
        let dflt := (p.files.findSome? (·.defaultVar)).bind (getFunction own imports)
        let aliasDecl := (p.files.findSome? (·.aliases)).getD []
        let aliases := aliasDecl.filterMap fun (k, ref) => (getFunction own imports ref).map fun f => (k, f)
        -- a repeated key overwrites (Go map), keep the last
        let aliases := aliases.foldl (fun acc (k, f) => acc.filter (·.1 ≠ k) ++ [(k, f)]) []
        match checkDupes own imports aliases with
        | .error e => .error e
        | .ok () =>
          .ok { funcs := sortBy (·.targetName) own,
                -- Invoke sorts `Funcs` and `Imports` only: an imported package's targets stay in the parser's order
                -- (namespace methods by type and name, then functions by name)
                imports := sortBy (·.uniqueName) imports,
                defaultFunc := dflt, aliases := sortBy (·.1) aliases, description := toOneLine (packageDoc cfg p) }

end MageModel.Parse
