import MageModel.Parse.Pkg
/-
`strings.Fields(strings.ToLower(text[2:]))` as `parse.getImportPathFromCommentGroup` applies it to the last comment of
a group — transcribed instead of recorded: `unicode.IsSpace` (the Latin-1 spaces and the Unicode space separators),
`strings.Fields` (maximal runs of non-space characters), lower-casing by `Parse.lower` (ASCII and Latin-1, the
characters the generators use in comments near a tag).  Go slices bytes, the marker `//` or `/*` is two ASCII bytes.
-/
namespace MageModel.Parse

/-- `unicode.IsSpace` -/
def goIsSpace (c : Char) : Bool :=
  let n := c.toNat
  n == 0x09 || n == 0x0A || n == 0x0B || n == 0x0C || n == 0x0D || n == 0x20 || n == 0x85 || n == 0xA0 ||
  n == 0x1680 || (0x2000 ≤ n && n ≤ 0x200A) || n == 0x2028 || n == 0x2029 || n == 0x202F || n == 0x205F || n == 0x3000

/-- `strings.Fields` on characters: `cur` is the word being read, reversed -/
def goFieldsL : List Char → List Char → List (List Char)
  | [], [] => []
  | [], cur => [cur.reverse]
  | c :: cs, cur =>
    if goIsSpace c then (if cur.isEmpty then goFieldsL cs [] else cur.reverse :: goFieldsL cs [])
    else goFieldsL cs (c :: cur)

def goFields (s : String) : List String := (goFieldsL s.toList []).map String.ofList

/-- what the tag recognition sees of one comment -/
def commentFields (c : String) : List String := goFields (lower (String.ofList (c.toList.drop 2)))

/-! ### facts -/

theorem goFieldsL_spaces (ws : List Char) (h : ∀ c ∈ ws, goIsSpace c = true) (rest : List Char) :
    goFieldsL (ws ++ rest) [] = goFieldsL rest [] := by
  induction ws with
  | nil => rfl
  | cons w ws ih =>
    have hw := h w (by simp)
    simp only [List.cons_append, goFieldsL, hw, if_true, List.isEmpty_nil]
    exact ih (fun c hc => h c (by simp [hc]))

theorem goFieldsL_word (w : List Char) (h : ∀ c ∈ w, goIsSpace c = false) (cur rest : List Char) :
    goFieldsL (w ++ rest) cur = goFieldsL rest (w.reverse ++ cur) := by
  induction w generalizing cur with
  | nil => rfl
  | cons c w ih =>
    have hc := h c (by simp)
    simp only [List.cons_append, goFieldsL, hc, Bool.false_eq_true, if_false]
    rw [ih (fun c' hc' => h c' (by simp [hc']))]
    simp

/-- a word between blanks is one field: leading blanks vanish, the word ends at the first blank or at the end -/
theorem goFieldsL_blank_word (ws w rest : List Char) (hws : ∀ c ∈ ws, goIsSpace c = true)
    (hw : ∀ c ∈ w, goIsSpace c = false) (hne : w ≠ []) :
    goFieldsL (ws ++ w) [] = [w] ∧
    ∀ s, goIsSpace s = true → goFieldsL (ws ++ w ++ s :: rest) [] = w :: goFieldsL rest [] := by
  constructor
  · rw [goFieldsL_spaces ws hws]
    have := goFieldsL_word w hw [] []
    simp only [List.append_nil] at this
    rw [this]
    cases hr : w.reverse with
    | nil => exact absurd (List.reverse_eq_nil_iff.mp hr) hne
    | cons a b => simp [goFieldsL, ← hr]
  · intro s hs
    rw [List.append_assoc, goFieldsL_spaces ws hws, goFieldsL_word w hw [] (s :: rest)]
    simp only [List.append_nil, goFieldsL, hs, if_true]
    cases hr : w.reverse with
    | nil => exact absurd (List.reverse_eq_nil_iff.mp hr) hne
    | cons a b => simp [← hr, hne]

end MageModel.Parse

namespace MageModel.Parse

theorem goFieldsL_only_spaces (ws : List Char) (h : ∀ c ∈ ws, goIsSpace c = true) : goFieldsL ws [] = [] := by
  have := goFieldsL_spaces ws h []
  simpa [goFieldsL] using this

/-- blanks, one word, blanks: exactly that word -/
theorem goFieldsL_one (ws w ws' : List Char) (hws : ∀ c ∈ ws, goIsSpace c = true)
    (hw : ∀ c ∈ w, goIsSpace c = false) (hne : w ≠ []) (hws' : ∀ c ∈ ws', goIsSpace c = true) :
    goFieldsL (ws ++ w ++ ws') [] = [w] := by
  cases ws' with
  | nil => simpa using (goFieldsL_blank_word ws w [] hws hw hne).1
  | cons s rest =>
    rw [(goFieldsL_blank_word ws w rest hws hw hne).2 s (hws' s (by simp))]
    rw [goFieldsL_only_spaces rest (fun c hc => hws' c (by simp [hc]))]

/-- blanks, word, blanks (at least one), word, blanks: the two words -/
theorem goFieldsL_two (ws w s : List Char) (b : Char) (w2 ws' : List Char) (hws : ∀ c ∈ ws, goIsSpace c = true)
    (hw : ∀ c ∈ w, goIsSpace c = false) (hne : w ≠ []) (hb : goIsSpace b = true) (hs : ∀ c ∈ s, goIsSpace c = true)
    (hw2 : ∀ c ∈ w2, goIsSpace c = false) (hne2 : w2 ≠ []) (hws' : ∀ c ∈ ws', goIsSpace c = true) :
    goFieldsL (ws ++ w ++ b :: (s ++ w2 ++ ws')) [] = [w, w2] := by
  rw [(goFieldsL_blank_word ws w _ hws hw hne).2 b hb, goFieldsL_one s w2 ws' hs hw2 hne2 hws']

end MageModel.Parse
