import MageModel.Parse.Pkg
/-
`ast.CommentGroup.Text` (src/go/ast/ast.go) transcribed: comment markers removed (one leading blank of a `//` comment
too), `//go:…`-style directives dropped, lines split, trailing white space stripped, leading blank lines removed, runs of
blank lines collapsed, a final newline added.  Go works on bytes; every character the function looks at is ASCII, so for
valid UTF-8 the character-level transcription agrees (bytes of multi-byte characters are never blanks, ':' or [a-z0-9]).
-/
namespace MageModel.Parse.DocText

def isWs (c : Char) : Bool := c == ' ' || c == '\t' || c == '\n' || c == '\r'

def stripTrailingWs (l : List Char) : List Char := (l.reverse.dropWhile isWs).reverse

def lowerAlnum (c : Char) : Bool := ('a' ≤ c && c ≤ 'z') || ('0' ≤ c && c ≤ '9')

/-- `isDirective` (the `//` already removed): `line `, `extern `, `export `, or `[a-z0-9]+:[a-z0-9]` -/
def isDirective (c : List Char) : Bool :=
  if "line ".toList.isPrefixOf c || "extern ".toList.isPrefixOf c || "export ".toList.isPrefixOf c then true
  else match c.findIdx? (· == ':') with
    | none => false
    | some k =>
      if k == 0 then false
      else match (c.drop (k + 1)).head? with
        | none => false
        | some a => (c.take k).all lowerAlnum && lowerAlnum a

/-- split at '\n' -/
def splitNl : List Char → List Char → List (List Char)
  | [], cur => [cur.reverse]
  | c :: cs, cur => if c == '\n' then cur.reverse :: splitNl cs [] else splitNl cs (c :: cur)

/-- the lines one comment contributes; `none` for a directive (skipped altogether) -/
def commentLines (c : List Char) : Option (List (List Char)) :=
  match c with
  | '/' :: '/' :: rest =>
    match rest with
    | [] => some [[]]
    | ' ' :: r => some ((splitNl r []).map stripTrailingWs)
    | _ => if isDirective rest then none else some ((splitNl rest []).map stripTrailingWs)
  | '/' :: '*' :: rest => some ((splitNl (rest.take (rest.length - 2)) []).map stripTrailingWs)
  | _ => some ((splitNl c []).map stripTrailingWs)

/-- leading blank lines removed, interior runs of blank lines collapsed to one (`kept` is reversed) -/
def squeeze : List (List Char) → List (List Char) → List (List Char)
  | [], kept => kept.reverse
  | l :: ls, kept =>
    if l ≠ [] || (match kept with | k :: _ => k ≠ [] | [] => false) then squeeze ls (l :: kept) else squeeze ls kept

/-- `(*ast.CommentGroup).Text` of the raw comments of a group -/
def groupText (comments : List String) : String :=
  let lines := (comments.filterMap fun c => commentLines c.toList).flatten
  let kept := squeeze lines []
  let final := match kept.getLast? with
    | some l => if l ≠ [] then kept ++ [[]] else kept
    | none => kept
  "\n".intercalate (final.map String.ofList)

/-- how the project generator writes a doc string: one `// ` comment per line -/
def renderDoc (doc : String) : List String := if doc = "" then [] else (doc.splitOn "\n").map ("// " ++ ·)

/-- the text of a generated doc string as go/ast hands it to mage -/
def docTextOf (doc : String) : String := groupText (renderDoc doc)

theorem groupText_nil : groupText [] = "" := by decide

example : groupText ["// Build does x.  ", "//", "//", "// Second paragraph."] = "Build does x.\n\nSecond paragraph.\n" := by decide
example : groupText ["//go:generate foo", "// Real text"] = "Real text\n" := by decide
example : groupText ["/* block\n   comment */"] = " block\n   comment\n" := by decide
example : groupText ["//nolint:x", "//export Foo", "//line 3"] = "" := by decide

end MageModel.Parse.DocText
