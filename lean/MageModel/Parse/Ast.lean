import MageModel.Base
/-
Abstract declaration syntax: what go/parser + go/doc hand to mage's parser, and nothing more.
-/
namespace MageModel.Parse

/-- a type expression as `parse.funcType` sees it (it only ever looks at the printed form) -/
inductive TExpr where
  | ident (s : String)              -- `string`, `int`, `error`, `Foo`
  | sel (x s : String)              -- `time.Duration`, `context.Context`, `mg.Namespace`
  | other (printed : String)        -- anything else: `*T`, `[]string`, `...string`, `func()`, `map[..]..`, generic instantiations
  deriving DecidableEq, Repr

/-- one field of a parameter or result list: `a, b string` has two names, `string` none -/
structure Field where
  names : List String
  ty : TExpr
  deriving DecidableEq, Repr

structure Recv where
  ptr : Bool
  base : String
  deriving DecidableEq, Repr

structure FuncDecl where
  name : String
  recv : Option Recv
  params : List Field
  results : List Field
  doc : String := ""
  typeParams : Bool := false      -- a generic function (`func F[T any](…)`): cannot be called without instantiation
  deriving DecidableEq, Repr

/-- `fmt.Sprint(param.Type)` for the cases `argTypes` distinguishes -/
def TExpr.printed : TExpr → String
  | .ident s => s
  | .sel x s => "&{" ++ x ++ " " ++ s ++ "}"
  | .other p => p

/-- parse.argTypes: printed type ↦ Go type used in the generated code -/
def argTypeOf (t : TExpr) : Option String :=
  match t with
  | .ident "string" => some "string"
  | .ident "int" => some "int"
  | .ident "bool" => some "bool"
  | .sel "time" "Duration" => some "time.Duration"
  | _ => none

def isContextTy (t : TExpr) : Bool := t == .sel "context" "Context"

/-- `FieldList.NumFields()`: an unnamed field counts once -/
def numFields (fs : List Field) : Nat := (fs.map fun f => if f.names.isEmpty then 1 else f.names.length).sum

structure Arg where
  name : String
  type : String
  deriving DecidableEq, Repr

/-- the part of parse.Function that funcType fills in -/
structure FnSig where
  isContext : Bool
  isError : Bool
  args : List Arg
  deriving DecidableEq, Repr

inductive SigErr where
  | tooManyContexts | tooManyReturns | tooManyErrors | badReturnType | unsupportedArg (printed : String)
  deriving DecidableEq, Repr

/-- parse.hasContextParam -/
def hasContextParam (params : List Field) : Except SigErr Bool :=
  if numFields params < 1 then .ok false
  else match params with
    | [] => .ok false
    | p :: _ =>
      if !isContextTy p.ty then .ok false
      else if p.names.length > 1 then .error .tooManyContexts
      else .ok true

/-- parse.hasErrorReturn -/
def hasErrorReturn (results : List Field) : Except SigErr Bool :=
  if numFields results = 0 then .ok false
  else if numFields results > 1 then .error .tooManyReturns
  else match results with
    | [] => .ok false
    | r :: _ =>
      if r.names.length > 1 then .error .tooManyErrors
      else if r.ty.printed = "error" then .ok true
      else .error .badReturnType

/-- the loop over `ft.Params.List[x:]` (with the D4 fix: an unnamed field is one argument) -/
def collectArgs : List Field → Nat → Except SigErr (List Arg)
  | [], _ => .ok []
  | p :: rest, n =>
    match argTypeOf p.ty with
    | none => .error (.unsupportedArg p.ty.printed)
    | some typ =>
      let here : List Arg :=
        if p.names.isEmpty then [⟨s!"arg{n}", typ⟩] else p.names.map fun nm => ⟨nm, typ⟩
      match collectArgs rest (n + here.length) with
      | .error e => .error e
      | .ok more => .ok (here ++ more)

/-- parse.funcType -/
def funcType (params results : List Field) : Except SigErr FnSig :=
  match hasContextParam params with
  | .error e => .error e
  | .ok isCtx =>
    match hasErrorReturn results with
    | .error e => .error e
    | .ok isErr =>
      match collectArgs (if isCtx then params.drop 1 else params) 0 with
      | .error e => .error e
      | .ok args => .ok ⟨isCtx, isErr, args⟩

/-! ### mage:import tags -/

/-- one `//` or `/* */` comment as go/ast stores it: the raw text including the marker -/
abbrev Comment := String

/-- `strings.Fields(strings.ToLower(s[2:]))` is delegated to the harness-recorded function `fields`
    (Unicode lower-casing and white-space splitting are the standard library's) -/
def tagOfGroup (importTag : String) (lenConst : Nat) (fields : String → List String)
    (group : Option (List Comment)) : Option (List String) :=
  match group with
  | none => none
  | some cs =>
    if cs.length = lenConst then none          -- `len(comments.List) == 0` in the current source
    else
      match cs.getLast? with
      | none => none                            -- would index out of range in Go; unreachable when lenConst = 0
      | some last =>
        let vals := fields last
        match vals with
        | [] => none
        | v :: _ => if v = importTag then some vals else none

structure ImportSpec where
  path : String                         -- the string literal's content
  pathIsPlainLit : Bool := true         -- `lit2string` succeeded (interpreted, double-quoted literal)
  doc : Option (List Comment)           -- leading comment group of the spec
  trailing : Option (List Comment)      -- line comment of the spec
  declDoc : Option (List Comment)       -- doc of the enclosing `import` declaration
  parenthesised : Bool
  specsInDecl : Nat
  deriving Repr

inductive Tagged where
  | no
  | root
  | named (alias : String)
  deriving DecidableEq, Repr

/-- the comment group that decides, after the doc hoisting of setImports for `import "x"` without parentheses:
    the leading group when it carries the tag, else the trailing comment -/
def importVals (importTag : String) (lenConst : Nat) (fields : String → List String) (sp : ImportSpec) : Option (List String) :=
  let doc := if sp.specsInDecl = 1 && !sp.parenthesised && sp.doc.isNone then sp.declDoc else sp.doc
  match tagOfGroup importTag lenConst fields doc with
  | some v => some v
  | none => tagOfGroup importTag lenConst fields sp.trailing

def classifyVals : Option (List String) → Tagged
  | none => .no
  | some [_] => .root
  | some [_, a] => .named a
  | some _ => .no

/-- parse.getImportPath -/
def getImportTag (importTag : String) (lenConst : Nat) (fields : String → List String) (sp : ImportSpec) : Tagged :=
  if !sp.pathIsPlainLit then .no else classifyVals (importVals importTag lenConst fields sp)

end MageModel.Parse
