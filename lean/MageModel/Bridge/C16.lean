import MageModel.Generated.Shapes
import MageModel.Generated.Facts
import MageModel.Bridge.Expected
import MageModel.Sh.Slices
/-! Bridge for C16: the two facts `Cfg.fixed` stands for, regenerated from sh/cmd.go, and the shapes. -/
namespace MageModel.Bridge.C16
open MageModel

/-- the configuration the current source denotes -/
def generatedCfg : Option Sh.Cfg :=
  match Generated.Facts.sh_RunCmd_copies, Generated.Facts.sh_OutCmd_copies,
        Generated.Facts.sh_Exec_noWrite, Generated.Facts.sh_run_noWrite with
  | some a, some b, some c, some d => some ⟨a && b, c && d⟩
  | _, _, _, _ => none

/-- the theorems of `Props/C16.lean` are about `Cfg.fixed`; the current source denotes exactly it -/
theorem cfg_is_fixed : generatedCfg = some Sh.Cfg.fixed := by decide

theorem shape_RunCmd : Generated.Shapes.sh_RunCmd = Bridge.Expected.sh_RunCmd := rfl
theorem shape_OutCmd : Generated.Shapes.sh_OutCmd = Bridge.Expected.sh_OutCmd := rfl
theorem shape_Run : Generated.Shapes.sh_Run = Bridge.Expected.sh_Run := rfl
theorem shape_Output : Generated.Shapes.sh_Output = Bridge.Expected.sh_Output := rfl
theorem shape_RunWith : Generated.Shapes.sh_RunWith = Bridge.Expected.sh_RunWith := rfl
theorem shape_Exec : Generated.Shapes.sh_Exec = Bridge.Expected.sh_Exec := rfl
theorem shape_run : Generated.Shapes.sh_run = Bridge.Expected.sh_run := rfl
end MageModel.Bridge.C16
