import MageModel.Generated.Shapes
import MageModel.Generated.Facts
import MageModel.Generated.Template
import MageModel.Bridge.Expected
import MageModel.Generated.TemplateAst
/-!
Bridge for the front end (C04 C06 C07 C18 C19): parse/parse.go and the generated-main template still have the shapes
`Parse/*.lean` and `Gen/Dispatch.lean` transcribe; the constants the theorems depend on have the proved values.
-/
namespace MageModel.Bridge.FE
open MageModel

/-- C19: the comment-group length test compares with 0 (`tag_any_length` is about this constant) -/
theorem commentGroupLen_zero : Generated.Facts.commentGroupLenConst = some 0 := by decide
theorem importTag : Generated.Facts.parse_importTag = "mage:import" := by decide
/-- C06: exactly the four supported parameter types, spelled as `argTypeOf` expects -/
theorem parse_argTypes : Generated.Facts.parse_argTypes =
    [("&{time Duration}", "time.Duration"), ("bool", "bool"), ("int", "int"), ("string", "string")] := by decide
/-- C06 (O3): every fixed import of the generated main is aliased with a leading underscore, so no package-level
identifier of a magefile can collide with it -/
theorem template_imports_aliased : Generated.Template.imports.all (fun i => i.1.toList.head? == some '_') = true := by decide
/-- C09/C10: the generated file carries the `ignore` constraint in both syntaxes -/
theorem template_header : Generated.Template.header = "//go:build ignore\n// +build ignore\n\n" := by decide
/-- the template text itself -/
theorem template_text : Generated.Template.tplString = Bridge.Expected.tplString := rfl

theorem shape_sanitizeSynopsis : Generated.Shapes.parse_sanitizeSynopsis = Bridge.Expected.parse_sanitizeSynopsis := rfl
theorem shape_toOneLine : Generated.Shapes.parse_toOneLine = Bridge.Expected.parse_toOneLine := rfl
theorem shape_getPackage : Generated.Shapes.parse_getPackage = Bridge.Expected.parse_getPackage := rfl
theorem shape_hasVoidReturn : Generated.Shapes.parse_hasVoidReturn = Bridge.Expected.parse_hasVoidReturn := rfl
theorem shape_TargetName : Generated.Shapes.parse_Function_TargetName = Bridge.Expected.parse_Function_TargetName := rfl
theorem shape_ID : Generated.Shapes.parse_Function_ID = Bridge.Expected.parse_Function_ID := rfl
theorem shape_ExecCode : Generated.Shapes.parse_Function_ExecCode = Bridge.Expected.parse_Function_ExecCode := rfl
theorem shape_PrimaryPackage : Generated.Shapes.parse_PrimaryPackage = Bridge.Expected.parse_PrimaryPackage := rfl
theorem shape_checkDupes : Generated.Shapes.parse_checkDupes = Bridge.Expected.parse_checkDupes := rfl
theorem shape_Package : Generated.Shapes.parse_Package = Bridge.Expected.parse_Package := rfl
theorem shape_getNamedImports : Generated.Shapes.parse_getNamedImports = Bridge.Expected.parse_getNamedImports := rfl
theorem shape_getImport : Generated.Shapes.parse_getImport = Bridge.Expected.parse_getImport := rfl
theorem shape_getImportFrom : Generated.Shapes.parse_getImportFrom = Bridge.Expected.parse_getImportFrom := rfl
theorem shape_setFuncs : Generated.Shapes.parse_setFuncs = Bridge.Expected.parse_setFuncs := rfl
theorem shape_setNamespaces : Generated.Shapes.parse_setNamespaces = Bridge.Expected.parse_setNamespaces := rfl
theorem shape_setImports : Generated.Shapes.parse_setImports = Bridge.Expected.parse_setImports := rfl
theorem shape_getImportPath : Generated.Shapes.parse_getImportPath = Bridge.Expected.parse_getImportPath := rfl
theorem shape_getImportPathFromCommentGroup : Generated.Shapes.parse_getImportPathFromCommentGroup = Bridge.Expected.parse_getImportPathFromCommentGroup := rfl
theorem shape_isNamespace : Generated.Shapes.parse_isNamespace = Bridge.Expected.parse_isNamespace := rfl
theorem shape_checkDupeTargets : Generated.Shapes.parse_checkDupeTargets = Bridge.Expected.parse_checkDupeTargets := rfl
theorem shape_setDefault : Generated.Shapes.parse_setDefault = Bridge.Expected.parse_setDefault := rfl
theorem shape_setAliases : Generated.Shapes.parse_setAliases = Bridge.Expected.parse_setAliases := rfl
theorem shape_getFunction : Generated.Shapes.parse_getFunction = Bridge.Expected.parse_getFunction := rfl
theorem shape_lit2string : Generated.Shapes.parse_lit2string = Bridge.Expected.parse_lit2string := rfl
theorem shape_hasContextParam : Generated.Shapes.parse_hasContextParam = Bridge.Expected.parse_hasContextParam := rfl
theorem shape_hasErrorReturn : Generated.Shapes.parse_hasErrorReturn = Bridge.Expected.parse_hasErrorReturn := rfl
theorem shape_funcType : Generated.Shapes.parse_funcType = Bridge.Expected.parse_funcType := rfl
theorem shape_Functions_Less : Generated.Shapes.parse_Functions_Less = Bridge.Expected.parse_Functions_Less := rfl
theorem shape_Imports_Less : Generated.Shapes.parse_Imports_Less = Bridge.Expected.parse_Imports_Less := rfl
theorem shape_lowerFirstWord : Generated.Shapes.mage_lowerFirstWord = Bridge.Expected.mage_lowerFirstWord := rfl
theorem shape_GenerateMainfile : Generated.Shapes.mage_GenerateMainfile = Bridge.Expected.mage_GenerateMainfile := rfl

/-- the template uses only constructs the Lean interpreter (`Gen/Tpl.lean`) gives meaning to, so the regenerated
`TemplateAst.nodes` *is* the template -/
theorem template_translatable : Generated.TemplateAst.translatable = true := by decide
/-- `ExecCode` is built from the 24 string literals `Gen/Emit.execCode` indexes; the ones it branches on are the four
argument types, in this order -/
theorem execCode_literals : Generated.TemplateAst.execCodeLits.length = 24 ∧
    [Generated.TemplateAst.execCodeLits.getD 7 "", Generated.TemplateAst.execCodeLits.getD 9 "",
     Generated.TemplateAst.execCodeLits.getD 11 "", Generated.TemplateAst.execCodeLits.getD 13 ""] =
      ["string", "int", "bool", "time.Duration"] ∧
    [Generated.TemplateAst.execCodeLits.getD 2 "", Generated.TemplateAst.execCodeLits.getD 3 "",
     Generated.TemplateAst.execCodeLits.getD 4 "", Generated.TemplateAst.execCodeLits.getD 6 "",
     Generated.TemplateAst.execCodeLits.getD 16 "", Generated.TemplateAst.execCodeLits.getD 17 "",
     Generated.TemplateAst.execCodeLits.getD 18 "", Generated.TemplateAst.execCodeLits.getD 19 "",
     Generated.TemplateAst.execCodeLits.getD 20 "", Generated.TemplateAst.execCodeLits.getD 21 ""] =
      [".", "(&", "{}).", ".", "return ", "(", "ctx", "arg%d", ", ", ")"] := by decide
end MageModel.Bridge.FE
