import MageModel.Generated.Shapes
import MageModel.Bridge.Expected
/-! Bridge for C17: the functions of package `target` still have the shape `MageModel/Target/Newer.lean` transcribes. -/
namespace MageModel.Bridge.C17
open MageModel
theorem shape_Path : Generated.Shapes.target_Path = Bridge.Expected.target_Path := rfl
theorem shape_Glob : Generated.Shapes.target_Glob = Bridge.Expected.target_Glob := rfl
theorem shape_Dir : Generated.Shapes.target_Dir = Bridge.Expected.target_Dir := rfl
theorem shape_PathNewer : Generated.Shapes.target_PathNewer = Bridge.Expected.target_PathNewer := rfl
theorem shape_GlobNewer : Generated.Shapes.target_GlobNewer = Bridge.Expected.target_GlobNewer := rfl
theorem shape_DirNewer : Generated.Shapes.target_DirNewer = Bridge.Expected.target_DirNewer := rfl
theorem shape_NewestModTime : Generated.Shapes.target_NewestModTime = Bridge.Expected.target_NewestModTime := rfl
theorem shape_OldestModTime : Generated.Shapes.target_OldestModTime = Bridge.Expected.target_OldestModTime := rfl
end MageModel.Bridge.C17
