import MageModel.Generated.Facts
import MageModel.Props.C08
/-! Bridge for C08: the rebuild key the decoding argument is about starts with `v` (not a hex digit). -/
namespace MageModel.Bridge.C08
open MageModel
theorem rebuild_key : Generated.Facts.mage_magicRebuildKey.toList = 'v' :: ['0', '.', '3'] := by decide
end MageModel.Bridge.C08
