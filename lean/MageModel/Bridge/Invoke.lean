import MageModel.Generated.Shapes
import MageModel.Generated.Facts
import MageModel.Generated.Template
import MageModel.Bridge.Expected
import MageModel.Invoke.Steps
/-!
Bridge for the invocation chain (C05 C08 C09 C10 C11 C12 C20): mage/main.go's ParseAndRun / Parse / Invoke /
RunCompiled / Magefiles / Compile / GenerateMainfile / ExeName, internal/run.go and the status helpers still have the
shapes `Invoke/*.lean` and `Gen/Main.lean` transcribe, and the generated-main template is the text the child model
(`childMain`, `handleError`, flag defaults) was written from.
-/
namespace MageModel.Bridge.Invoke
open MageModel

theorem template_text : Generated.Template.tplString = Bridge.Expected.tplString := rfl
theorem shape_ParseAndRun : Generated.Shapes.mage_ParseAndRun = Bridge.Expected.mage_ParseAndRun := rfl
theorem shape_Parse : Generated.Shapes.mage_Parse = Bridge.Expected.mage_Parse := rfl
theorem shape_Invoke : Generated.Shapes.mage_Invoke = Bridge.Expected.mage_Invoke := rfl
theorem shape_RunCompiled : Generated.Shapes.mage_RunCompiled = Bridge.Expected.mage_RunCompiled := rfl
theorem shape_Main : Generated.Shapes.mage_Main = Bridge.Expected.mage_Main := rfl
theorem shape_Magefiles : Generated.Shapes.mage_Magefiles = Bridge.Expected.mage_Magefiles := rfl
theorem shape_listGoFiles : Generated.Shapes.mage_listGoFiles = Bridge.Expected.mage_listGoFiles := rfl
theorem shape_Compile : Generated.Shapes.mage_Compile = Bridge.Expected.mage_Compile := rfl
theorem shape_GenerateMainfile : Generated.Shapes.mage_GenerateMainfile = Bridge.Expected.mage_GenerateMainfile := rfl
theorem shape_ExeName : Generated.Shapes.mage_ExeName = Bridge.Expected.mage_ExeName := rfl
theorem shape_hashFile : Generated.Shapes.mage_hashFile = Bridge.Expected.mage_hashFile := rfl
theorem shape_generateInit : Generated.Shapes.mage_generateInit = Bridge.Expected.mage_generateInit := rfl
theorem shape_removeContents : Generated.Shapes.mage_removeContents = Bridge.Expected.mage_removeContents := rfl
theorem shape_UsesMagefiles : Generated.Shapes.mage_Invocation_UsesMagefiles = Bridge.Expected.mage_Invocation_UsesMagefiles := rfl
theorem shape_sh_ExitStatus : Generated.Shapes.sh_ExitStatus = Bridge.Expected.sh_ExitStatus := rfl
theorem shape_sh_CmdRan : Generated.Shapes.sh_CmdRan = Bridge.Expected.sh_CmdRan := rfl
theorem shape_mg_ExitStatus : Generated.Shapes.mg_ExitStatus = Bridge.Expected.mg_ExitStatus := rfl
theorem shape_mg_Fatal : Generated.Shapes.mg_Fatal = Bridge.Expected.mg_Fatal := rfl
theorem shape_mg_Fatalf : Generated.Shapes.mg_Fatalf = Bridge.Expected.mg_Fatalf := rfl
theorem shape_mg_fatalErr_ExitStatus : Generated.Shapes.mg_fatalErr_ExitStatus = Bridge.Expected.mg_fatalErr_ExitStatus := rfl
theorem shape_mg_Verbose : Generated.Shapes.mg_Verbose = Bridge.Expected.mg_Verbose := rfl
theorem shape_mg_Debug : Generated.Shapes.mg_Debug = Bridge.Expected.mg_Debug := rfl
theorem shape_mg_GoCmd : Generated.Shapes.mg_GoCmd = Bridge.Expected.mg_GoCmd := rfl
theorem shape_mg_HashFast : Generated.Shapes.mg_HashFast = Bridge.Expected.mg_HashFast := rfl
theorem shape_mg_CacheDir : Generated.Shapes.mg_CacheDir = Bridge.Expected.mg_CacheDir := rfl
theorem shape_mg_onceFun_run : Generated.Shapes.mg_onceFun_run = Bridge.Expected.mg_onceFun_run := rfl
theorem shape_mg_runDeps : Generated.Shapes.mg_runDeps = Bridge.Expected.mg_runDeps := rfl
theorem shape_sh_run : Generated.Shapes.sh_run = Bridge.Expected.sh_run := rfl
theorem shape_sh_Exec : Generated.Shapes.sh_Exec = Bridge.Expected.sh_Exec := rfl
theorem shape_EnvWithGOOS : Generated.Shapes.internal_EnvWithGOOS = Bridge.Expected.internal_EnvWithGOOS := rfl
theorem shape_EnvWithCurrentGOOS : Generated.Shapes.internal_EnvWithCurrentGOOS = Bridge.Expected.internal_EnvWithCurrentGOOS := rfl
theorem shape_SplitEnv : Generated.Shapes.internal_SplitEnv = Bridge.Expected.internal_SplitEnv := rfl
theorem shape_joinEnv : Generated.Shapes.internal_joinEnv = Bridge.Expected.internal_joinEnv := rfl
theorem shape_OutputDebugDir : Generated.Shapes.internal_OutputDebugDir = Bridge.Expected.internal_OutputDebugDir := rfl
theorem mainfile_name : Generated.Facts.mage_mainfile = "mage_output_file.go" := by decide
theorem initfile_name : Generated.Facts.mage_initFile = "magefile.go" := by decide
theorem magefiles_dir_name : Generated.Facts.mage_MagefilesDirName = "magefiles" := by decide

/-- the configuration of the invocation model regenerated from mage/main.go -/
def generatedCfg : Option MageModel.Invoke.Cfg :=
  match Generated.Facts.invoke_deferBeforeGenerate, Generated.Facts.invoke_explicitRemove, Generated.Facts.listGoFiles_skipsMain with
  | some a, some b, some c => some ⟨a, b, c⟩
  | _, _, _ => none

/-- … is the constant the theorems of C05 C08 C09 C20 are about -/
theorem cfg_is_fixed : generatedCfg = some MageModel.Invoke.Cfg.fixed := by decide
end MageModel.Bridge.Invoke
