import MageModel.Generated.Shapes
import MageModel.Generated.Facts
import MageModel.Generated.Template
import MageModel.Bridge.Expected
import MageModel.Invoke.Steps
/-!
Bridge for the invocation model's configuration (C05 C08 C09 C20): the three facts about `Invoke` / `listGoFiles` that
`Invoke/Steps.lean` is parametrised by, regenerated from the source, are the ones the theorems assume.  The shapes of
the transcribed functions are bridged per property in `Bridge/P05.lean` … `P20.lean`.
-/
namespace MageModel.Bridge.Invoke
open MageModel

theorem mainfile_name : Generated.Facts.mage_mainfile = "mage_output_file.go" := by decide
theorem initfile_name : Generated.Facts.mage_initFile = "magefile.go" := by decide
theorem magefiles_dir_name : Generated.Facts.mage_MagefilesDirName = "magefiles" := by decide

/-- the configuration of the invocation model regenerated from mage/main.go -/
def generatedCfg : Option MageModel.Invoke.Cfg :=
  match Generated.Facts.invoke_deferBeforeGenerate, Generated.Facts.invoke_explicitRemove, Generated.Facts.listGoFiles_skipsMain with
  | some a, some b, some c => some ⟨a, b, c⟩
  | _, _, _ => none

/-- … is the constant the theorems of C05 C08 C09 C20 are about -/
theorem cfg_is_fixed : generatedCfg = some MageModel.Invoke.Cfg.fixed := by decide
end MageModel.Bridge.Invoke
