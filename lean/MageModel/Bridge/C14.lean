import MageModel.Generated.Shapes
import MageModel.Generated.Facts
import MageModel.Bridge.Expected
/-! Bridge for C14: mg/fn.go's `F` and `checkF` have the shape `Fn/CheckF.lean` transcribes; `argTypes` has exactly
the four supported keys. -/
namespace MageModel.Bridge.C14
open MageModel
theorem shape_F : Generated.Shapes.mg_F = Bridge.Expected.mg_F := rfl
theorem shape_checkF : Generated.Shapes.mg_checkF = Bridge.Expected.mg_checkF := rfl
theorem shape_fn_Name : Generated.Shapes.mg_fn_Name = Bridge.Expected.mg_fn_Name := rfl
theorem shape_fn_ID : Generated.Shapes.mg_fn_ID = Bridge.Expected.mg_fn_ID := rfl
theorem shape_fn_Run : Generated.Shapes.mg_fn_Run = Bridge.Expected.mg_fn_Run := rfl
theorem shape_funcName : Generated.Shapes.mg_funcName = Bridge.Expected.mg_funcName := rfl
theorem shape_LoadOrStore : Generated.Shapes.mg_onceMap_LoadOrStore = Bridge.Expected.mg_onceMap_LoadOrStore := rfl
theorem argTypes_keys : Generated.Facts.mg_argTypes =
    [("boolType", "true"), ("durType", "true"), ("intType", "true"), ("stringType", "true")] := by decide
end MageModel.Bridge.C14
