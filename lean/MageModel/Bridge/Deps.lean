import MageModel.Generated.Shapes
import MageModel.Generated.Facts
import MageModel.Generated.Lits
import MageModel.Bridge.Expected
import MageModel.Deps.Sem
/-!
Bridge for the dependency runtime (C01 C02 C03 C13): the configuration regenerated from mg/deps.go is `Cfg.fixed`
(the constant all theorems in `Props/C01 C02 C03 C13` are about), the literal translation of `changeExit` is the
model's, and the functions still have the shapes the semantics transcribes.
-/
namespace MageModel.Bridge.Deps
open MageModel

def generatedCfg : Option MageModel.Deps.Cfg :=
  match Generated.Facts.deps_storePanic, Generated.Facts.deps_atomicOnce,
        Generated.Facts.deps_waitAll, Generated.Facts.deps_serialOneByOne with
  | some a, some b, some c, some d => some ⟨a, b, c, d⟩
  | _, _, _, _ => none

theorem cfg_is_fixed : generatedCfg = some MageModel.Deps.Cfg.fixed := by decide

/-- `mg/deps.go:changeExit`, translated literally, is the model's `changeExit` -/
theorem changeExit_literal (a b : Int) : Generated.Lits.changeExit a b = MageModel.Deps.changeExit a b := by
  unfold Generated.Lits.changeExit MageModel.Deps.changeExit
  rfl

theorem shape_LoadOrStore : Generated.Shapes.mg_onceMap_LoadOrStore = Bridge.Expected.mg_onceMap_LoadOrStore := rfl
theorem shape_onceFun_run : Generated.Shapes.mg_onceFun_run = Bridge.Expected.mg_onceFun_run := rfl
theorem shape_runDeps : Generated.Shapes.mg_runDeps = Bridge.Expected.mg_runDeps := rfl
theorem shape_CtxDeps : Generated.Shapes.mg_CtxDeps = Bridge.Expected.mg_CtxDeps := rfl
theorem shape_Deps : Generated.Shapes.mg_Deps = Bridge.Expected.mg_Deps := rfl
theorem shape_SerialDeps : Generated.Shapes.mg_SerialDeps = Bridge.Expected.mg_SerialDeps := rfl
theorem shape_SerialCtxDeps : Generated.Shapes.mg_SerialCtxDeps = Bridge.Expected.mg_SerialCtxDeps := rfl
theorem shape_checkFns : Generated.Shapes.mg_checkFns = Bridge.Expected.mg_checkFns := rfl
theorem shape_changeExit : Generated.Shapes.mg_changeExit = Bridge.Expected.mg_changeExit := rfl
theorem shape_ExitStatus : Generated.Shapes.mg_ExitStatus = Bridge.Expected.mg_ExitStatus := rfl
theorem shape_Fatal : Generated.Shapes.mg_Fatal = Bridge.Expected.mg_Fatal := rfl
theorem shape_funcName : Generated.Shapes.mg_funcName = Bridge.Expected.mg_funcName := rfl
theorem shape_displayName : Generated.Shapes.mg_displayName = Bridge.Expected.mg_displayName := rfl
/- what a dependency *is* to the registry: mg.F and the three methods of its value -/
theorem shape_F : Generated.Shapes.mg_F = Bridge.Expected.mg_F := rfl
theorem shape_fn_Name : Generated.Shapes.mg_fn_Name = Bridge.Expected.mg_fn_Name := rfl
theorem shape_fn_ID : Generated.Shapes.mg_fn_ID = Bridge.Expected.mg_fn_ID := rfl
theorem shape_fn_Run : Generated.Shapes.mg_fn_Run = Bridge.Expected.mg_fn_Run := rfl
theorem shape_Fatalf : Generated.Shapes.mg_Fatalf = Bridge.Expected.mg_Fatalf := rfl
theorem shape_fatalErr_ExitStatus : Generated.Shapes.mg_fatalErr_ExitStatus = Bridge.Expected.mg_fatalErr_ExitStatus := rfl
theorem shape_fatalErr_Error : Generated.Shapes.mg_fatalErr_Error = Bridge.Expected.mg_fatalErr_Error := rfl
theorem shape_Verbose : Generated.Shapes.mg_Verbose = Bridge.Expected.mg_Verbose := rfl
end MageModel.Bridge.Deps
