import MageModel.Generated.Shapes
import MageModel.Bridge.Expected
/-! Bridge for C15: sh/cmd.go and mg/errors.go still have the shapes `MageModel/Sh/Exec.lean` transcribes. -/
namespace MageModel.Bridge.C15
open MageModel
theorem shape_Run : Generated.Shapes.sh_Run = Bridge.Expected.sh_Run := rfl
theorem shape_RunV : Generated.Shapes.sh_RunV = Bridge.Expected.sh_RunV := rfl
theorem shape_RunWith : Generated.Shapes.sh_RunWith = Bridge.Expected.sh_RunWith := rfl
theorem shape_RunWithV : Generated.Shapes.sh_RunWithV = Bridge.Expected.sh_RunWithV := rfl
theorem shape_Output : Generated.Shapes.sh_Output = Bridge.Expected.sh_Output := rfl
theorem shape_OutputWith : Generated.Shapes.sh_OutputWith = Bridge.Expected.sh_OutputWith := rfl
theorem shape_Exec : Generated.Shapes.sh_Exec = Bridge.Expected.sh_Exec := rfl
theorem shape_run : Generated.Shapes.sh_run = Bridge.Expected.sh_run := rfl
theorem shape_CmdRan : Generated.Shapes.sh_CmdRan = Bridge.Expected.sh_CmdRan := rfl
theorem shape_ExitStatus : Generated.Shapes.sh_ExitStatus = Bridge.Expected.sh_ExitStatus := rfl
theorem shape_mg_ExitStatus : Generated.Shapes.mg_ExitStatus = Bridge.Expected.mg_ExitStatus := rfl
theorem shape_mg_Fatalf : Generated.Shapes.mg_Fatalf = Bridge.Expected.mg_Fatalf := rfl
theorem shape_mg_fatalErr_ExitStatus : Generated.Shapes.mg_fatalErr_ExitStatus = Bridge.Expected.mg_fatalErr_ExitStatus := rfl
theorem shape_mg_Verbose : Generated.Shapes.mg_Verbose = Bridge.Expected.mg_Verbose := rfl
end MageModel.Bridge.C15
