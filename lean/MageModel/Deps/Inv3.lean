import MageModel.Deps.Inv2
/-! Preservation of `Inv2` by every move. -/
namespace MageModel.Deps

theorem mem_reqEvents {c : CallId} {j : Nat} {ks : List Key} {e : Event} (h : e ∈ reqEvents c j ks) :
    ∃ j' k', e = .req c j' k' := by
  induction ks generalizing j with
  | nil => simp [reqEvents] at h
  | cons k ks ih =>
    simp only [reqEvents, List.mem_append, List.mem_singleton] at h
    rcases h with h | h
    · exact ih h
    · exact ⟨j, k, h⟩

theorem getLast?_eq_getElem? {α} (l : List α) : l.getLast? = l[l.length - 1]? := by
  rw [List.getLast?_eq_getElem?]

theorem set_get_cases {rs : List RState} {j j' : Nat} {r r' : RState} (h : (rs.set j r)[j']? = some r') :
    (j' = j ∧ r' = r) ∨ (j' ≠ j ∧ rs[j']? = some r') := by
  by_cases e : j = j'
  · subst e
    left
    refine ⟨rfl, ?_⟩
    rw [List.getElem?_set] at h
    simp at h
    exact h.2.symm
  · right
    refine ⟨fun x => e x.symm, ?_⟩
    rwa [List.getElem?_set_ne e] at h

theorem key_of_lt {cs : CallSpec} {j : Nat} (h : j < cs.keys.length) : ∃ k, cs.keys[j]? = some k :=
  ⟨cs.keys[j], by simp [h]⟩

theorem Inv2.step (p : Prog) (s s' : State) (I1 : Inv1 p s) (I2 : Inv2 p s) (hm : Move p s s') : Inv2 p s' := by
  have finDone := I2.finDone
  have doneSame := I2.doneSame
  have stopCell := I2.stopCell
  have serPrefix := I2.serPrefix
  have lenLe := I2.lenLe
  cases hm with
  | finish o i hb hc => exact Inv2.ended I1 I2 o _ (by rw [hb]; exact active_ready i)
  | enterSer o i cs hb hc hser =>
    apply I2.frame1 o _ _ (by intro k r h; cases h)
    · intro i' rs cs' j k r h; cases h; simp
    · intro i' rs cs' h; cases h; intro _ _ j hj; simp at hj
    · intro i' rs cs' h; cases h; simp
    · trivial
  | enterPar o i cs hb hc hser =>
    apply I2.frame o _ _
    · intro k r h
      rcases List.mem_append.mp h with h | h
      · obtain ⟨j', k', e⟩ := mem_reqEvents h; cases e
      · simp at h
    · intro i' rs cs' j k r h hc' hk hr
      cases h
      simp at hr
    · intro i' rs cs' h hc' hs
      cases h
      rw [hc] at hc'; cases hc'
      rw [hser] at hs; cases hs
    · intro i' rs cs' h hc'
      cases h
      rw [hc] at hc'; cases hc'
      simp
    · intro pre e post h
      have hmem : e ∈ reqEvents ⟨o, i⟩ 0 cs.keys ++ [Event.enter ⟨o, i⟩] := by rw [h]; simp
      rcases List.mem_append.mp hmem with h1 | h1
      · obtain ⟨j', k', e1⟩ := mem_reqEvents h1
        subst e1
        intro cs' hc' hs
        simp only at hc'
        rw [hc] at hc'; cases hc'
        rw [hser] at hs; cases hs
      · simp at h1; subst h1; trivial
  | retPar o i rs cs hb hc hser hlen hfin hfs =>
    apply I2.frame1 o _ _ (by intro k r h; cases h)
    · intro i' rs' cs' j k r h; cases h
    · intro i' rs' cs' h; cases h
    · intro i' rs' cs' h; cases h
    · refine ⟨?_, ?_⟩
      · intro k hk
        obtain ⟨j, hj, hjk⟩ := List.getElem_of_mem hk
        have hjr : j < rs.length := by omega
        have hr : rs[j]? = some rs[j] := by simp [hjr]
        obtain ⟨res, hres⟩ := allFin_get hfin hr
        have hnone : res = none := by
          cases res with
          | none => rfl
          | some f =>
            have : f ∈ failures rs := mem_failures.mpr ⟨j, by rw [hr, hres]⟩
            rw [hfs] at this; cases this
        subst hnone
        have hcell := finDone o i rs cs j k none hb hc (by simp [hj, hjk]) (by rw [hr, hres])
        exact (doneSame k none none hcell).2
      · intro cs' hc'
        simp only at hc'
        rw [hc] at hc'; cases hc'; rfl
  | serRet o i rs cs hb hc hser hl hk =>
    have hge : cs.keys.length ≤ rs.length := by
      by_cases h : rs.length < cs.keys.length
      · simp [h] at hk
      · omega
    apply I2.frame1 o _ _ (by intro k r h; cases h)
    · intro i' rs' cs' j k r h; cases h
    · intro i' rs' cs' h; cases h
    · intro i' rs' cs' h; cases h
    · refine ⟨?_, ?_⟩
      · intro k hkm
        rw [List.take_of_length_le hge] at hkm
        obtain ⟨j, hj, hjk⟩ := List.getElem_of_mem hkm
        have hjr : j < rs.length := by omega
        have hrj : rs[j]? = some (RState.fin none) := by
          by_cases hlast : j + 1 < rs.length
          · exact serPrefix o i rs cs hb hc hser j hlast
          · have hjl : j = rs.length - 1 := by omega
            rcases hl with hl | hl
            · rw [List.getLast?_eq_none_iff] at hl; subst hl; simp at hjr
            · rw [getLast?_eq_getElem?] at hl; rw [hjl]; exact hl
        have hcell := finDone o i rs cs j k none hb hc (by simp [hj, hjk]) hrj
        exact (doneSame k none none hcell).2
      · intro cs' hc'
        simp only at hc'
        rw [hc] at hc'; cases hc'
        exact List.take_of_length_le hge
  | serNext o i rs cs k0 hb hc hser hl hk =>
    have hlt : rs.length < cs.keys.length := by
      by_cases h : rs.length < cs.keys.length
      · exact h
      · simp [List.getElem?_eq_none (by omega : cs.keys.length ≤ rs.length)] at hk
    apply I2.frame1 o _ _ (by intro k r h; cases h)
    · intro i' rs' cs' j k r h hc' hkj hr
      cases h
      rw [hc] at hc'; cases hc'
      have hj : j < rs.length := by
        by_cases hj : j < rs.length
        · exact hj
        · rw [List.getElem?_append_right (by omega)] at hr
          by_cases h0 : j - rs.length = 0
          · simp [h0] at hr
          · have : [RState.want][j - rs.length]? = none := by
              apply List.getElem?_eq_none; simp; omega
            rw [this] at hr; cases hr
      rw [List.getElem?_append_left hj] at hr
      exact finDone o i rs cs j k r hb hc hkj hr
    · intro i' rs' cs' h hc' hs j hj
      cases h
      simp at hj
      have hjl : j < rs.length := by omega
      rw [List.getElem?_append_left hjl]
      by_cases hlast : j + 1 < rs.length
      · exact serPrefix o i rs cs hb hc hser j hlast
      · have hjl' : j = rs.length - 1 := by omega
        rcases hl with hl | hl
        · rw [List.getLast?_eq_none_iff] at hl; subst hl; simp at hjl
        · rw [getLast?_eq_getElem?] at hl; rw [hjl']; exact hl
    · intro i' rs' cs' h hc'
      cases h
      rw [hc] at hc'; cases hc'
      simp; omega
    · intro cs' hc' hs j' hj'
      simp only at hc'
      rw [hc] at hc'; cases hc'
      have hj'l : j' < cs.keys.length := by omega
      obtain ⟨kp, hkp⟩ := key_of_lt hj'l
      refine ⟨kp, hkp, ?_⟩
      have hrj : rs[j']? = some (RState.fin none) := by
        rcases hl with hl | hl
        · rw [List.getLast?_eq_none_iff] at hl; subst hl; simp at hj'
        · rw [getLast?_eq_getElem?] at hl
          have : j' = rs.length - 1 := by omega
          rw [this]; exact hl
      have hcell := finDone o i rs cs j' kp none hb hc hkp hrj
      exact (doneSame kp none none hcell).2
  | panPar o i rs cs hb hc hser hlen hfin hfs =>
    have hkey : ∀ j, j < rs.length → ∃ k res, cs.keys[j]? = some k ∧ rs[j]? = some (RState.fin res) ∧ s.cell k = .done res res := by
      intro j hj
      obtain ⟨k, hk⟩ := key_of_lt (by omega : j < cs.keys.length)
      have hr : rs[j]? = some rs[j] := by simp [hj]
      obtain ⟨res, hres⟩ := allFin_get hfin hr
      exact ⟨k, res, hk, by rw [hr, hres], finDone o i rs cs j k res hb hc hk (by rw [hr, hres])⟩
    have I2' : Inv2 p (emit s (.pan ⟨o, i⟩ cs.keys (exitOf (failures rs)) ((failures rs).map Prod.snd))) := by
      have h := I2.frame1 o (s.body o) (.pan ⟨o, i⟩ cs.keys (exitOf (failures rs)) ((failures rs).map Prod.snd))
        (by intro k r h; cases h)
        (by intro i' rs' cs' j k r h hc' hk hr; exact finDone o i' rs' cs' j k r h hc' hk hr)
        (by intro i' rs' cs' h hc' hs; exact serPrefix o i' rs' cs' h hc' hs)
        (by intro i' rs' cs' h hc'; exact lenLe o i' rs' cs' h hc')
        (by
          refine ⟨?_, ⟨failures rs, hfs, rfl, rfl, ?_, ?_⟩, ?_⟩
          · intro k hk
            obtain ⟨j, hj, hjk⟩ := List.getElem_of_mem hk
            obtain ⟨k', res, h1, h2, h3⟩ := hkey j (by omega)
            have : k' = k := by simp [hj, hjk] at h1; exact h1.symm
            subst this
            exact ⟨res, (doneSame k' res res h3).2⟩
          · intro f hf
            obtain ⟨j, hj⟩ := mem_failures.mp hf
            have hjl : j < rs.length := by
              by_cases h : j < rs.length
              · exact h
              · simp [List.getElem?_eq_none (by omega : rs.length ≤ j)] at hj
            obtain ⟨k, res, h1, h2, h3⟩ := hkey j hjl
            rw [hj] at h2
            have : res = some f := by cases h2; rfl
            subst this
            exact ⟨k, List.mem_of_getElem? h1, (doneSame k _ _ h3).2⟩
          · intro k hk f hstop
            obtain ⟨j, hj, hjk⟩ := List.getElem_of_mem hk
            obtain ⟨k', res, h1, h2, h3⟩ := hkey j (by omega)
            have : k' = k := by simp [hj, hjk] at h1; exact h1.symm
            subst this
            have h4 := stopCell k' (some f) hstop
            rw [h3] at h4
            have : res = some f := by cases h4; rfl
            subst this
            exact mem_failures.mpr ⟨j, h2⟩
          · intro cs' hc'
            simp only at hc'
            rw [hc] at hc'; cases hc'
            exact ⟨fun _ => rfl, cs.keys.length, by simp⟩)
      rwa [setBody_self] at h
    exact Inv2.ended (I1.emit _ (by intro k h; cases h)) I2' o _ (by simp only [emit_body]; rw [hb]; exact active_inCall i rs)
  | serPan o i rs cs f hb hc hser hl =>
    have hne : rs ≠ [] := by intro h; subst h; simp at hl
    have hlen := lenLe o i rs cs hb hc
    have hpos : 0 < rs.length := List.length_pos_iff.mpr hne
    have hlastj : rs[rs.length - 1]? = some (RState.fin (some f)) := by rw [← getLast?_eq_getElem?]; exact hl
    have hkey : ∀ j, j < rs.length → ∃ k res, cs.keys[j]? = some k ∧ rs[j]? = some (RState.fin res) ∧ s.cell k = .done res res ∧
        (j + 1 < rs.length → res = none) ∧ (j + 1 = rs.length → res = some f) := by
      intro j hj
      obtain ⟨k, hk⟩ := key_of_lt (by omega : j < cs.keys.length)
      by_cases hlast : j + 1 < rs.length
      · have hr := serPrefix o i rs cs hb hc hser j hlast
        exact ⟨k, none, hk, hr, finDone o i rs cs j k none hb hc hk hr, fun _ => rfl, fun h => by omega⟩
      · have hjl : j = rs.length - 1 := by omega
        have hr : rs[j]? = some (RState.fin (some f)) := by rw [hjl]; exact hlastj
        exact ⟨k, some f, hk, hr, finDone o i rs cs j k (some f) hb hc hk hr, fun h => by omega, fun _ => rfl⟩
    have I2' : Inv2 p (emit s (.pan ⟨o, i⟩ (cs.keys.take rs.length) (exitOf [f]) [f.2])) := by
      have h := I2.frame1 o (s.body o) (.pan ⟨o, i⟩ (cs.keys.take rs.length) (exitOf [f]) [f.2])
        (by intro k r h; cases h)
        (by intro i' rs' cs' j k r h hc' hk hr; exact finDone o i' rs' cs' j k r h hc' hk hr)
        (by intro i' rs' cs' h hc' hs; exact serPrefix o i' rs' cs' h hc' hs)
        (by intro i' rs' cs' h hc'; exact lenLe o i' rs' cs' h hc')
        (by
          refine ⟨?_, ⟨[f], by simp, rfl, rfl, ?_, ?_⟩, ?_⟩
          · intro k hk
            obtain ⟨j, hj, hjk⟩ := List.getElem_of_mem hk
            have hj2 : j < rs.length ∧ j < cs.keys.length := by
              have := hj; simp only [List.length_take] at this; omega
            obtain ⟨k', res, h1, h2, h3, _, _⟩ := hkey j hj2.1
            have : k' = k := by
              rw [List.getElem_take] at hjk
              simp [hj2.2, hjk] at h1; exact h1.symm
            subst this
            exact ⟨res, (doneSame k' res res h3).2⟩
          · intro g hg
            simp at hg; subst hg
            obtain ⟨k, res, h1, h2, h3, _, h5⟩ := hkey (rs.length - 1) (by omega)
            have := h5 (by omega); subst this
            refine ⟨k, ?_, (doneSame k _ _ h3).2⟩
            rw [List.mem_take_iff_getElem]
            exact ⟨rs.length - 1, by omega, by
              have : rs.length - 1 < cs.keys.length := by omega
              simp [this] at h1; exact h1⟩
          · intro k hk g hstop
            obtain ⟨j, hj, hjk⟩ := List.getElem_of_mem hk
            have hj2 : j < rs.length ∧ j < cs.keys.length := by
              have := hj; simp only [List.length_take] at this; omega
            obtain ⟨k', res, h1, h2, h3, h4, h5⟩ := hkey j hj2.1
            have : k' = k := by
              rw [List.getElem_take] at hjk
              simp [hj2.2, hjk] at h1; exact h1.symm
            subst this
            have h6 := stopCell k' (some g) hstop
            rw [h3] at h6
            by_cases hlast : j + 1 < rs.length
            · have := h4 hlast; subst this; cases h6
            · have := h5 (by omega); subst this
              cases h6; simp
          · intro cs' hc'
            simp only at hc'
            rw [hc] at hc'; cases hc'
            exact ⟨(fun h => by rw [hser] at h; cases h), rs.length, rfl⟩)
      rwa [setBody_self] at h
    exact Inv2.ended (I1.emit _ (by intro k h; cases h)) I2' o _ (by simp only [emit_body]; rw [hb]; exact active_inCall i rs)
  | siteBlock o i rs cs j k0 hb hc hk hr hcell =>
    apply I2.frame0 o _
    · intro i' rs' cs' j' k r h hc' hk' hr'
      cases h
      rw [hc] at hc'; cases hc'
      rcases set_get_cases hr' with ⟨_, e⟩ | ⟨_, e⟩
      · cases e
      · exact finDone o i rs cs j' k r hb hc hk' e
    · intro i' rs' cs' h hc' hs j' hj'
      cases h
      rw [hc] at hc'; cases hc'
      simp at hj'
      have := serPrefix o i rs cs hb hc hs j' hj'
      by_cases e : j = j'
      · subst e; rw [hr] at this; cases this
      · rw [List.getElem?_set_ne e]; exact this
    · intro i' rs' cs' h hc'
      cases h
      rw [hc] at hc'; cases hc'
      simp; exact lenLe o i rs cs hb hc
  | siteRead o i rs cs j k0 st se hb hc hk hr hcell =>
    have hse := (doneSame k0 st se hcell).1
    apply I2.frame0 o _
    · intro i' rs' cs' j' k r h hc' hk' hr'
      cases h
      rw [hc] at hc'; cases hc'
      rcases set_get_cases hr' with ⟨e1, e2⟩ | ⟨_, e⟩
      · subst e1
        rw [hk] at hk'; cases hk'
        cases e2
        rw [hcell, ← hse]
      · exact finDone o i rs cs j' k r hb hc hk' e
    · intro i' rs' cs' h hc' hs j' hj'
      cases h
      rw [hc] at hc'; cases hc'
      simp at hj'
      have := serPrefix o i rs cs hb hc hs j' hj'
      by_cases e : j = j'
      · subst e; rcases hr with hr | hr <;> (rw [hr] at this; cases this)
      · rw [List.getElem?_set_ne e]; exact this
    · intro i' rs' cs' h hc'
      cases h
      rw [hc] at hc'; cases hc'
      simp; exact lenLe o i rs cs hb hc
  | siteDone o i rs cs j k0 st se hb hc hk hr hcell =>
    have hse := (doneSame k0 st se hcell).1
    apply I2.frame0 o _
    · intro i' rs' cs' j' k r h hc' hk' hr'
      cases h
      rw [hc] at hc'; cases hc'
      rcases set_get_cases hr' with ⟨e1, e2⟩ | ⟨_, e⟩
      · subst e1
        rw [hk] at hk'; cases hk'
        cases e2
        rw [hcell, hse]
      · exact finDone o i rs cs j' k r hb hc hk' e
    · intro i' rs' cs' h hc' hs j' hj'
      cases h
      rw [hc] at hc'; cases hc'
      simp at hj'
      have := serPrefix o i rs cs hb hc hs j' hj'
      by_cases e : j = j'
      · subst e; rw [hr] at this; cases this
      · rw [List.getElem?_set_ne e]; exact this
    · intro i' rs' cs' h hc'
      cases h
      rw [hc] at hc'; cases hc'
      simp; exact lenLe o i rs cs hb hc
  | siteWin o i rs cs j k0 hb hc hk hr =>
    have hwant : rs[j]? = some .want ∧ s.cell k0 = .absent := by
      rcases hr with h | h
      · exact h
      · exact absurd (List.mem_of_getElem? h) (I1.noSaw o i rs hb)
    have hidle := I1.bodyCell k0 hwant.2
    have hne : Owner.key k0 ≠ o := by
      intro e; rw [← e, hidle] at hb; cases hb
    obtain ⟨_, _, _, _, _, good⟩ := I2
    refine ⟨?_, ?_, ?_, ?_, ?_, ?_⟩
    · intro o' i' rs' cs' j' k r hb' hc' hk' hr'
      simp only [emit_body, setBody_body, setCell_body] at hb'
      simp only [emit_cell, setBody_cell, setCell_cell]
      have hold : s.cell k = .done r r := by
        split at hb'
        · cases hb'
        · split at hb'
          · rename_i h1 h2
            subst h2
            cases hb'
            rw [hc] at hc'; cases hc'
            rcases set_get_cases hr' with ⟨_, e⟩ | ⟨_, e⟩
            · cases e
            · exact finDone o' i rs cs j' k r hb hc hk' e
          · exact finDone o' i' rs' cs' j' k r hb' hc' hk' hr'
      have hkk : k ≠ k0 := by intro e; subst e; rw [hwant.2] at hold; cases hold
      simp [hkk, hold]
    · intro k st se h
      simp only [emit_cell, setBody_cell, setCell_cell] at h
      by_cases hkk : k = k0
      · simp [hkk] at h
      · simp [hkk] at h
        obtain ⟨h1, h2⟩ := doneSame k st se h
        refine ⟨h1, ?_⟩
        simp only [emit_log, setBody_log, setCell_log]
        exact List.mem_cons_of_mem _ h2
    · intro k r h
      simp only [emit_log, setBody_log, setCell_log] at h
      simp only [emit_cell, setBody_cell, setCell_cell]
      rcases List.mem_cons.mp h with h | h
      · cases h
      · have := stopCell k r h
        have hkk : k ≠ k0 := by intro e; subst e; rw [hwant.2] at this; cases this
        simp [hkk, this]
    · intro o' i' rs' cs' hb' hc' hs
      simp only [emit_body, setBody_body, setCell_body] at hb'
      split at hb'
      · cases hb'
      · split at hb'
        · rename_i h1 h2
          subst h2
          cases hb'
          rw [hc] at hc'; cases hc'
          intro j' hj'
          simp at hj'
          have := serPrefix o' i rs cs hb hc hs j' hj'
          by_cases e : j = j'
          · subst e; rw [hwant.1] at this; cases this
          · rw [List.getElem?_set_ne e]; exact this
        · exact serPrefix o' i' rs' cs' hb' hc' hs
    · intro o' i' rs' cs' hb' hc'
      simp only [emit_body, setBody_body, setCell_body] at hb'
      split at hb'
      · cases hb'
      · split at hb'
        · rename_i h1 h2
          subst h2
          cases hb'
          rw [hc] at hc'; cases hc'
          simp; exact lenLe o' i rs cs hb hc
        · exact lenLe o' i' rs' cs' hb' hc'
    · exact ⟨trivial, good⟩

end MageModel.Deps
