import MageModel.Deps.Sem
/-!
Executable monitors: the statements of the C01/C02/C03/C13 theorems evaluated on a concrete *observable* trace
(oldest first; no ghost `req` events, `reached` lists not trusted) of a known program.  The oracle applies them to
traces of the real `mg` package and, as a self-check, to the model's own traces.
-/
namespace MageModel.Deps

/-- observable events as the harness records them -/
inductive Obs where
  | start (k : Key)
  | stop (k : Key) (seen : Res)
  | enter (c : CallId)
  | ret (c : CallId)
  | pan (c : CallId) (code : Int) (msgs : List String)
  deriving DecidableEq, Repr

def obsOf : Event → Option Obs
  | .start k => some (.start k)
  | .stop k r => some (.stop k r)
  | .enter c => some (.enter c)
  | .req _ _ _ => none
  | .ret c _ => some (.ret c)
  | .pan c _ code msgs => some (.pan c code msgs)

/-- the observable trace of a model log (oldest first) -/
def obsTrace (log : List Event) : List Obs := log.reverse.filterMap obsOf

/-- result of key `k` according to the events in `seen` (the part of the trace before some point) -/
def stopOf (seen : List Obs) (k : Key) : Option Res :=
  seen.findSome? fun e => match e with
    | .stop k' r => if k' = k then some r else none
    | _ => none

def callSpec (p : Prog) (c : CallId) : Option CallSpec := (p c.owner).calls[c.idx]?

/-- sorted copy (insertion sort) for multiset comparison of message lists -/
def sortStrs (l : List String) : List String := l.foldr (fun x acc => (acc.takeWhile (· < x)) ++ x :: acc.dropWhile (· < x)) []

/-- message lines: a failure message may itself be a joined multi-line message (nested failures), and the
    join order is completion order, so messages are compared as multisets of lines -/
def linesOf (msgs : List String) : List String := msgs.flatMap (·.splitOn "\n")

/-- failures of the listed keys, in element order, as far as they have stopped -/
def failuresOf (seen : List Obs) (keys : List Key) : List (Int × String) :=
  keys.filterMap fun k => match stopOf seen k with
    | some (some f) => some f
    | _ => none

/-- the status the property prescribes: the common status of the failures, or 1 when they differ -/
def specExit : List (Int × String) → Int
  | [] => 0
  | f :: rest => if rest.all (fun g => g.1 == f.1) then f.1 else 1

inductive Verdict where
  | ok
  | bad (what : String)
  deriving DecidableEq, Repr

def Verdict.and (a : Verdict) (b : Unit → Verdict) : Verdict := match a with | .ok => b () | v => v

def checkAll {α} (l : List α) (f : α → Verdict) : Verdict :=
  l.foldl (fun v x => v.and fun _ => f x) .ok

/-- how many owners/elements request key `k` in the whole program (`owners`: the owners that exist) -/
def requestCount (p : Prog) (owners : List Owner) (k : Key) : Nat :=
  (owners.map fun o => ((p o).calls.map fun cs => cs.keys.count k).sum).sum

/-- check one event against everything seen before it -/
def checkEvent (p : Prog) (owners : List Owner) (seen : List Obs) (rest : List Obs) (e : Obs) : Verdict :=
  match e with
  | .start k =>
      -- C01: at most once
      if seen.contains (.start k) then .bad s!"C01 dependency {k} started twice" else .ok
  | .stop k _ =>
      if seen.contains (.start k) then .ok else .bad s!"stop of {k} without start"
  | .enter _ => .ok
  | .ret c =>
      match callSpec p c with
      | none => .bad "ret of unknown call"
      | some cs =>
        checkAll cs.keys fun k =>
          match stopOf seen k with
          | none => .bad s!"C02 call returned before dependency {k} finished"
          | some (some _) => .bad s!"C03 call returned although dependency {k} failed"
          | some none => if seen.contains (.start k) then .ok else .bad s!"C01 dependency {k} never ran"
  | .pan c code msgs =>
      match callSpec p c with
      | none => .bad "panic of unknown call"
      | some cs =>
        if cs.serial then
          -- reached = prefix up to the first failed element
          let rec go (ks : List Key) : Verdict :=
            match ks with
            | [] => .bad "C03 serial call panicked although no listed dependency failed"
            | k :: more =>
              match stopOf seen k with
              | none => .bad s!"C02 serial call panicked before dependency {k} finished"
              | some none => go more
              | some (some f) =>
                if sortStrs (linesOf msgs) ≠ sortStrs (linesOf [f.2]) then .bad s!"C03 serial panic message differs from the failure of {k}"
                else if code ≠ specExit [f] then .bad s!"C03 serial panic status {code} differs from the failure of {k}"
                else .ok
          go cs.keys
        else
          (checkAll cs.keys fun k =>
            match stopOf seen k with
            | none => .bad s!"C02 call panicked before dependency {k} finished"
            | some _ => .ok).and fun _ =>
          let fs := failuresOf seen cs.keys
          if fs.isEmpty then .bad "C03 call panicked although no listed dependency failed"
          else if sortStrs (linesOf msgs) ≠ sortStrs (linesOf (fs.map Prod.snd)) then .bad "C03 panic messages are not the messages of the failed dependencies"
          else if code ≠ specExit fs then .bad s!"C03 panic status {code} is not the common status of the failures (or 1 when they differ)"
          else .ok

/-- C13 (observable part): inside a serial call, a member that only this call requests starts after the previous
members stopped successfully, and never after a failed one. -/
def checkSerial (p : Prog) (owners : List Owner) (trace : List Obs) : Verdict :=
  checkAll owners fun o =>
    checkAll ((p o).calls.zipIdx) fun (cs, _) =>
      if !cs.serial then .ok else
      checkAll (cs.keys.zipIdx) fun (kj, j) =>
        if requestCount p owners kj ≠ 1 then .ok else
        match trace.idxOf? (.start kj) with
        | none => .ok
        | some pos =>
          let before := trace.take pos
          checkAll (cs.keys.take j) fun ki =>
            match stopOf before ki with
            | some none => .ok
            | some (some _) => .bad s!"C13 member {kj} started after member {ki} failed"
            | none => .bad s!"C13 member {kj} started before member {ki} finished"

def checkTraceFrom (p : Prog) (owners : List Owner) : List Obs → List Obs → Verdict
  | _, [] => .ok
  | seen, e :: rest => (checkEvent p owners seen rest e).and fun _ => checkTraceFrom p owners (seen ++ [e]) rest

/-- all monitors -/
def checkTrace (p : Prog) (owners : List Owner) (trace : List Obs) : Verdict :=
  (checkTraceFrom p owners [] trace).and fun _ => checkSerial p owners trace

/-- fair round-robin schedule: every agent once per round -/
def runRounds (cfg : Cfg) (p : Prog) (agents : List Agent) : Nat → State → State
  | 0, s => s
  | n+1, s => runRounds cfg p agents n (agents.foldl (step cfg p) s)

end MageModel.Deps
