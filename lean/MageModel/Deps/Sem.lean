/-
Interleaving semantics of mg/deps.go: the registry (`onces`), the per-dependency `sync.Once` with its stored
error (`onceFun`), the goroutines `runDeps` spawns, its WaitGroup barrier and error collection, and the loop of
the serial forms.

Because a dependency's body runs at most once, every call site and every spawned goroutine has a *static* name:
  * an `Owner` is a root goroutine (a target, or any user goroutine) or the body of a dependency `key k`;
  * a `CallId` is the `idx`-th Deps-family call made by an owner;
  * the goroutines `runDeps` spawned for the call an owner is currently in are part of that owner's state.
A step is taken by an *agent* (an owner, or the `j`-th goroutine of an owner's current call); every
`List Agent` is a schedule (disabled choices stutter).
-/
namespace MageModel.Deps

abbrev Key := Nat

inductive Owner where
  | root (r : Nat)
  | key (k : Key)
  deriving DecidableEq, Repr

structure CallId where
  owner : Owner
  idx : Nat
  deriving DecidableEq, Repr

/-- how a body ends when none of its own Deps calls fails -/
inductive Out where
  | ok
  | err (code : Int) (msg : String)        -- returns an error (mg.Fatal code, or 1 for a plain error)
  | panicErr (code : Int) (msg : String)   -- panics with an error value
  | panicVal (msg : String)                -- panics with a non-error value
  deriving DecidableEq, Repr

/-- a failure as callers see it: (exit status, message); `none` = success -/
abbrev Res := Option (Int × String)

def Out.seen : Out → Res
  | .ok => none
  | .err c m => some (c, m)
  | .panicErr c m => some (c, m)
  | .panicVal m => some (1, m)

structure CallSpec where
  serial : Bool
  keys : List Key
  deriving DecidableEq, Repr

structure Body where
  calls : List CallSpec
  out : Out
  deriving Repr

abbrev Prog := Owner → Body

/-- The facts about mg/deps.go the semantics depends on (regenerated and bridged in `Bridge/Deps.lean`). -/
structure Cfg where
  /-- `onceFun.run` stores the failure also when the body panics (false on the pinned tree: defect D1) -/
  storePanic : Bool
  /-- lookup-or-insert in the registry and entry into `once.Do` are atomic w.r.t. other requesters -/
  atomicOnce : Bool
  /-- `runDeps` inspects the errors only after `wg.Wait()` -/
  waitAll : Bool
  /-- the serial forms call `runDeps` for one element at a time -/
  serialOneByOne : Bool
  deriving DecidableEq, Repr

def Cfg.fixed : Cfg := ⟨true, true, true, true⟩

/-- what the once-cell remembers -/
def Cfg.stored (cfg : Cfg) : Out → Res
  | .ok => none
  | .err c m => some (c, m)
  | .panicErr c m => if cfg.storePanic then some (c, m) else none
  | .panicVal m => if cfg.storePanic then some (1, m) else none

/-- mg/deps.go:changeExit -/
def changeExit (old new : Int) : Int :=
  if new = 0 then old else if old = 0 then new else if old = new then old else 1

inductive Cell where
  | absent
  | running
  | done (stored : Res) (seenByWinner : Res)
  deriving DecidableEq, Repr

inductive RState where
  | want | sawAbsent | blocked | executing | fin (r : Res)
  deriving DecidableEq, Repr

inductive BState where
  | idle
  | ready (i : Nat)                        -- about to make its `i`-th call, or to finish if there is none
  | inCall (i : Nat) (rs : List RState)    -- inside its `i`-th call; `rs`: the goroutines created so far
  | ended (o : Out)
  deriving DecidableEq, Repr

inductive Event where
  | start (k : Key)
  | stop (k : Key) (seen : Res)
  | enter (c : CallId)
  | req (c : CallId) (elem : Nat) (k : Key)       -- goroutine for element `elem` created (ghost: not observable)
  | ret (c : CallId) (reached : List Key)
  | pan (c : CallId) (reached : List Key) (code : Int) (msgs : List String)
  deriving DecidableEq, Repr

structure State where
  cell : Key → Cell
  body : Owner → BState
  log : List Event            -- newest first

inductive Agent where
  | owner (o : Owner)
  | site (o : Owner) (j : Nat)              -- the `j`-th goroutine of `o`'s current call
  deriving DecidableEq, Repr

def State.init (roots : List Nat) : State :=
  { cell := fun _ => .absent
    body := fun o => match o with
      | .root r => if r ∈ roots then .ready 0 else .idle
      | .key _ => .idle
    log := [] }

def setCell (s : State) (k : Key) (c : Cell) : State := { s with cell := fun k' => if k' = k then c else s.cell k' }
def setBody (s : State) (o : Owner) (b : BState) : State := { s with body := fun o' => if o' = o then b else s.body o' }
def emit (s : State) (e : Event) : State := { s with log := e :: s.log }
def emits (s : State) (es : List Event) : State := { s with log := es ++ s.log }

/-- failures reported by the goroutines, in element order -/
def failures : List RState → List (Int × String)
  | [] => []
  | .fin (some f) :: rs => f :: failures rs
  | _ :: rs => failures rs

def RState.isFin : RState → Bool
  | .fin _ => true
  | _ => false

def exitOf (fs : List (Int × String)) : Int := fs.foldl (fun e f => changeExit e f.1) 0

/-- the panic value `runDeps` builds: Fatal(exit, join "\n" msgs) -/
def panicOut (fs : List (Int × String)) : Out := .panicErr (exitOf fs) ("\n".intercalate (fs.map Prod.snd))

/-- `req` events for elements `j, j+1, …` (newest first) -/
def reqEvents (c : CallId) : Nat → List Key → List Event
  | _, [] => []
  | j, k :: ks => reqEvents c (j+1) ks ++ [.req c j k]

/-- the body of owner `o` ends with outcome `out` -/
def endBody (cfg : Cfg) (s : State) (o : Owner) (out : Out) : State :=
  match o with
  | .root _ => setBody s o (.ended out)
  | .key k => emit (setCell (setBody s o (.ended out)) k (.done (cfg.stored out) out.seen)) (.stop k out.seen)

/-- the owner's move -/
def stepOwner (cfg : Cfg) (p : Prog) (s : State) (o : Owner) : State :=
  match s.body o with
  | .ready i =>
    match (p o).calls[i]? with
    | none => endBody cfg s o (p o).out                       -- no further call: the body finishes
    | some cs =>
      if cs.serial && cfg.serialOneByOne then
        emit (setBody s o (.inCall i [])) (.enter ⟨o, i⟩)
      else
        -- runDeps: one goroutine per listed function
        emits (setBody s o (.inCall i (cs.keys.map fun _ => .want))) (reqEvents ⟨o, i⟩ 0 cs.keys ++ [.enter ⟨o, i⟩])
  | .inCall i rs =>
    match (p o).calls[i]? with
    | none => s
    | some cs =>
      let c : CallId := ⟨o, i⟩
      if cs.serial && cfg.serialOneByOne then
        -- for i := range fns { runDeps(ctx, funcs[i:i+1]) }
        match rs.getLast? with
        | some (.fin (some f)) =>
          endBody cfg (emit s (.pan c (cs.keys.take rs.length) (exitOf [f]) [f.2])) o (panicOut [f])
        | some (.fin none) | none =>
          match cs.keys[rs.length]? with
          | none => emit (setBody s o (.ready (i+1))) (.ret c (cs.keys.take rs.length))
          | some k => emit (setBody s o (.inCall i (rs ++ [.want]))) (.req c rs.length k)
        | _ => s
      else
        if rs.length ≠ cs.keys.length then s
        else if cfg.waitAll && !rs.all RState.isFin then s            -- wg.Wait()
        else if (failures rs).isEmpty then
          if rs.all RState.isFin then emit (setBody s o (.ready (i+1))) (.ret c cs.keys) else s
        else endBody cfg (emit s (.pan c cs.keys (exitOf (failures rs)) ((failures rs).map Prod.snd))) o (panicOut (failures rs))
  | _ => s

/-- a spawned goroutine's move: `fn.run(ctx)` -/
def stepSite (cfg : Cfg) (p : Prog) (s : State) (o : Owner) (j : Nat) : State :=
  match s.body o with
  | .inCall i rs =>
    match (p o).calls[i]? with
    | none => s
    | some cs =>
      match cs.keys[j]?, rs[j]? with
      | some k, some r =>
        let setR (r' : RState) := setBody s o (.inCall i (rs.set j r'))
        let win := emit (setBody (setCell (setR .executing) k .running) (.key k) (.ready 0)) (.start k)
        match r with
        | .want =>
          match s.cell k with
          | .absent => if cfg.atomicOnce then win else setR .sawAbsent
          | .running => setR .blocked
          | .done st _ => setR (.fin st)
        | .sawAbsent => win
        | .blocked =>
          match s.cell k with
          | .done st _ => setR (.fin st)
          | _ => s
        | .executing =>
          match s.cell k with
          | .done _ se => setR (.fin se)      -- the winner sees the failure itself (a panic reaches its recover)
          | _ => s
        | .fin _ => s
      | _, _ => s
  | _ => s

def step (cfg : Cfg) (p : Prog) (s : State) : Agent → State
  | .owner o => stepOwner cfg p s o
  | .site o j => stepSite cfg p s o j

def run (cfg : Cfg) (p : Prog) (s : State) (sched : List Agent) : State :=
  sched.foldl (step cfg p) s

end MageModel.Deps
