import MageModel.Deps.Reach
/-! A further invariant of the event log: a call ends (`ret` / `pan`) only while its owner's body is still running —
for a dependency `k` as owner, before `stop k`.  With the barrier of C02 this gives the transitive statement: when a
call ends, everything the dependencies it named had themselves waited on has finished too. -/
namespace MageModel.Deps

def LiveEvent (e : Event) (earlier : List Event) : Prop :=
  match e with
  | .ret c _ => ∀ k, c.owner = .key k → ∀ r, Event.stop k r ∉ earlier
  | .pan c _ _ _ => ∀ k, c.owner = .key k → ∀ r, Event.stop k r ∉ earlier
  | _ => True

def LiveLog : List Event → Prop
  | [] => True
  | e :: earlier => LiveEvent e earlier ∧ LiveLog earlier

theorem LiveLog.append {es log : List Event} (hlog : LiveLog log)
    (hes : ∀ pre e post, es = pre ++ e :: post → LiveEvent e (post ++ log)) : LiveLog (es ++ log) := by
  induction es with
  | nil => exact hlog
  | cons e rest ih =>
    refine ⟨hes [] e rest rfl, ih ?_⟩
    intro pre e' post h
    exact hes (e :: pre) e' post (by simp [h])

theorem LiveLog.suffix {later l : List Event} (h : LiveLog (later ++ l)) : LiveLog l := by
  induction later with
  | nil => exact h
  | cons e rest ih => exact ih h.2

/-- an owner in the middle of a call has not stopped -/
theorem not_stopped_inCall {p : Prog} {s : State} (I1 : Inv1 p s) (I2 : Inv2 p s) {k : Key} {i : Nat} {rs : List RState}
    (hb : s.body (.key k) = .inCall i rs) (r : Res) : Event.stop k r ∉ s.log := by
  intro h
  have hcell := I2.stopCell k r h
  obtain ⟨out, hout⟩ := I1.doneEnded k r r hcell
  rw [hb] at hout; cases hout

theorem LiveLog.step (p : Prog) (s s' : State) (I1 : Inv1 p s) (I2 : Inv2 p s) (L : LiveLog s.log) (hm : Move p s s') :
    LiveLog s'.log := by
  cases hm with
  | finish o i hb hc =>
    rw [ended_log]
    cases o with
    | root r => exact L
    | key k => exact ⟨trivial, L⟩
  | enterSer o i cs hb hc hser => exact ⟨trivial, L⟩
  | enterPar o i cs hb hc hser =>
    simp only [emits_log, setBody_log]
    apply LiveLog.append L
    intro pre e post h
    have hmem : e ∈ reqEvents ⟨o, i⟩ 0 cs.keys ++ [Event.enter ⟨o, i⟩] := by rw [h]; simp
    rcases List.mem_append.mp hmem with h1 | h1
    · obtain ⟨j', k', e1⟩ := mem_reqEvents h1; subst e1; trivial
    · simp at h1; subst h1; trivial
  | retPar o i rs cs hb hc hser hlen hfin hfs =>
    refine ⟨?_, L⟩
    intro k hk r
    simp only at hk; subst hk
    simp only [setBody_log]
    exact not_stopped_inCall I1 I2 hb r
  | panPar o i rs cs hb hc hser hlen hfin hfs =>
    rw [ended_log]
    have hlive : LiveEvent (.pan ⟨o, i⟩ cs.keys (exitOf (failures rs)) ((failures rs).map Prod.snd)) s.log := by
      intro k hk r
      simp only at hk; subst hk
      exact not_stopped_inCall I1 I2 hb r
    cases o with
    | root r => exact ⟨hlive, L⟩
    | key k => exact ⟨trivial, hlive, L⟩
  | serNext o i rs cs k hb hc hser hl hk => exact ⟨trivial, L⟩
  | serRet o i rs cs hb hc hser hl hk =>
    refine ⟨?_, L⟩
    intro k hk' r
    simp only at hk'; subst hk'
    simp only [setBody_log]
    exact not_stopped_inCall I1 I2 hb r
  | serPan o i rs cs f hb hc hser hl =>
    rw [ended_log]
    have hlive : LiveEvent (.pan ⟨o, i⟩ (cs.keys.take rs.length) (exitOf [f]) [f.2]) s.log := by
      intro k hk r
      simp only at hk; subst hk
      exact not_stopped_inCall I1 I2 hb r
    cases o with
    | root r => exact ⟨hlive, L⟩
    | key k => exact ⟨trivial, hlive, L⟩
  | siteWin o i rs cs j k hb hc hk hr => exact ⟨trivial, L⟩
  | siteBlock o i rs cs j k hb hc hk hr hcell => exact L
  | siteRead o i rs cs j k st se hb hc hk hr hcell => exact L
  | siteDone o i rs cs j k st se hb hc hk hr hcell => exact L

theorem reach_live (p : Prog) (roots : List Nat) (sched : List Agent) : LiveLog (reach p roots sched).log := by
  have h : Inv1 p (reach p roots sched) ∧ Inv2 p (reach p roots sched) ∧ LiveLog (reach p roots sched).log := by
    unfold reach
    apply run_invariant p (fun s => Inv1 p s ∧ Inv2 p s ∧ LiveLog s.log)
    · intro s s' h hm
      exact ⟨Inv1.step p s s' h.1 hm, Inv2.step p s s' h.1 h.2.1 hm, LiveLog.step p s s' h.1 h.2.1 h.2.2 hm⟩
    · exact ⟨Inv1.init p roots, Inv2.init p roots, trivial⟩
  exact h.2.2

end MageModel.Deps
