import MageModel.Deps.Reach
/-! A further invariant of the event log: a call ends (`ret` / `pan`) only while its owner's body is still running —
for a dependency `k` as owner, before `stop k`.  With the barrier of C02 this gives the transitive statement: when a
call ends, everything the dependencies it named had themselves waited on has finished too. -/
namespace MageModel.Deps

def LiveEvent (e : Event) (earlier : List Event) : Prop :=
  match e with
  | .ret c _ => ∀ k, c.owner = .key k → ∀ r, Event.stop k r ∉ earlier
  | .pan c _ _ _ => ∀ k, c.owner = .key k → ∀ r, Event.stop k r ∉ earlier
  | _ => True

def LiveLog : List Event → Prop
  | [] => True
  | e :: earlier => LiveEvent e earlier ∧ LiveLog earlier

theorem LiveLog.append {es log : List Event} (hlog : LiveLog log)
    (hes : ∀ pre e post, es = pre ++ e :: post → LiveEvent e (post ++ log)) : LiveLog (es ++ log) := by
  induction es with
  | nil => exact hlog
  | cons e rest ih =>
    refine ⟨hes [] e rest rfl, ih ?_⟩
    intro pre e' post h
    exact hes (e :: pre) e' post (by simp [h])

theorem LiveLog.suffix {later l : List Event} (h : LiveLog (later ++ l)) : LiveLog l := by
  induction later with
  | nil => exact h
  | cons e rest ih => exact ih h.2

/-- an owner in the middle of a call has not stopped -/
theorem not_stopped_inCall {p : Prog} {s : State} (I1 : Inv1 p s) (I2 : Inv2 p s) {k : Key} {i : Nat} {rs : List RState}
    (hb : s.body (.key k) = .inCall i rs) (r : Res) : Event.stop k r ∉ s.log := by
  intro h
  have hcell := I2.stopCell k r h
  obtain ⟨out, hout⟩ := I1.doneEnded k r r hcell
  rw [hb] at hout; cases hout

theorem LiveLog.step (p : Prog) (s s' : State) (I1 : Inv1 p s) (I2 : Inv2 p s) (L : LiveLog s.log) (hm : Move p s s') :
    LiveLog s'.log := by
  cases hm with
  | finish o i hb hc =>
    rw [ended_log]
    cases o with
    | root r => exact L
    | key k => exact ⟨trivial, L⟩
  | enterSer o i cs hb hc hser => exact ⟨trivial, L⟩
  | enterPar o i cs hb hc hser =>
    simp only [emits_log, setBody_log]
    apply LiveLog.append L
    intro pre e post h
    have hmem : e ∈ reqEvents ⟨o, i⟩ 0 cs.keys ++ [Event.enter ⟨o, i⟩] := by rw [h]; simp
    rcases List.mem_append.mp hmem with h1 | h1
    · obtain ⟨j', k', e1⟩ := mem_reqEvents h1; subst e1; trivial
    · simp at h1; subst h1; trivial
  | retPar o i rs cs hb hc hser hlen hfin hfs =>
    refine ⟨?_, L⟩
    intro k hk r
    simp only at hk; subst hk
    simp only [setBody_log]
    exact not_stopped_inCall I1 I2 hb r
  | panPar o i rs cs hb hc hser hlen hfin hfs =>
    rw [ended_log]
    have hlive : LiveEvent (.pan ⟨o, i⟩ cs.keys (exitOf (failures rs)) ((failures rs).map Prod.snd)) s.log := by
      intro k hk r
      simp only at hk; subst hk
      exact not_stopped_inCall I1 I2 hb r
    cases o with
    | root r => exact ⟨hlive, L⟩
    | key k => exact ⟨trivial, hlive, L⟩
  | serNext o i rs cs k hb hc hser hl hk => exact ⟨trivial, L⟩
  | serRet o i rs cs hb hc hser hl hk =>
    refine ⟨?_, L⟩
    intro k hk' r
    simp only at hk'; subst hk'
    simp only [setBody_log]
    exact not_stopped_inCall I1 I2 hb r
  | serPan o i rs cs f hb hc hser hl =>
    rw [ended_log]
    have hlive : LiveEvent (.pan ⟨o, i⟩ (cs.keys.take rs.length) (exitOf [f]) [f.2]) s.log := by
      intro k hk r
      simp only at hk; subst hk
      exact not_stopped_inCall I1 I2 hb r
    cases o with
    | root r => exact ⟨hlive, L⟩
    | key k => exact ⟨trivial, hlive, L⟩
  | siteWin o i rs cs j k hb hc hk hr => exact ⟨trivial, L⟩
  | siteBlock o i rs cs j k hb hc hk hr hcell => exact L
  | siteRead o i rs cs j k st se hb hc hk hr hcell => exact L
  | siteDone o i rs cs j k st se hb hc hk hr hcell => exact L

/-- a dependency whose own call panicked has itself failed: the panic ends its body -/
def PanStops (log : List Event) : Prop :=
  ∀ c reached code msgs k, Event.pan c reached code msgs ∈ log → c.owner = .key k → ∃ f, Event.stop k (some f) ∈ log

theorem PanStops.step (p : Prog) (s s' : State) (P : PanStops s.log) (hm : Move p s s') : PanStops s'.log := by
  -- every move only prepends events; the two that prepend a `pan` prepend the owner's failing `stop` with it
  have mono : ∀ es : List Event, (∀ c reached code msgs, Event.pan c reached code msgs ∉ es) → PanStops (es ++ s.log) := by
    intro es hes c reached code msgs k hmem hown
    rcases List.mem_append.mp hmem with h | h
    · exact absurd h (hes c reached code msgs)
    · obtain ⟨f, hf⟩ := P c reached code msgs k h hown
      exact ⟨f, List.mem_append_right _ hf⟩
  have withPan : ∀ (o : Owner) (e : Event) (fs : List (Int × String)), (∃ i reached code msgs, e = .pan ⟨o, i⟩ reached code msgs) →
      PanStops (ended (emit s e) o (panicOut fs)).log := by
    intro o e fs ⟨i, reached, code, msgs, he⟩ c reached' code' msgs' k hmem hown
    rw [ended_log] at hmem ⊢
    cases o with
    | root r =>
      simp only [emit_log] at hmem ⊢
      rcases List.mem_cons.mp hmem with h | h
      · subst he; cases h; cases hown
      · obtain ⟨f, hf⟩ := P c reached' code' msgs' k h hown
        exact ⟨f, List.mem_cons_of_mem _ hf⟩
    | key k0 =>
      simp only [emit_log] at hmem ⊢
      rcases List.mem_cons.mp hmem with h | h
      · cases h
      · rcases List.mem_cons.mp h with h | h
        · subst he; cases h; cases hown
          exact ⟨_, List.mem_cons_self⟩
        · obtain ⟨f, hf⟩ := P c reached' code' msgs' k h hown
          exact ⟨f, List.mem_cons_of_mem _ (List.mem_cons_of_mem _ hf)⟩
  cases hm with
  | finish o i hb hc =>
    rw [ended_log]
    cases o with
    | root r => exact P
    | key k => exact mono [_] (by intro c r cd m h; simp at h)
  | enterSer o i cs hb hc hser => exact mono [_] (by intro c r cd m h; simp at h)
  | enterPar o i cs hb hc hser =>
    simp only [emits_log, setBody_log]
    apply mono
    intro c r cd m h
    rcases List.mem_append.mp h with h1 | h1
    · obtain ⟨j', k', e1⟩ := mem_reqEvents h1; cases e1
    · simp at h1
  | retPar o i rs cs hb hc hser hlen hfin hfs => exact mono [_] (by intro c r cd m h; simp at h)
  | panPar o i rs cs hb hc hser hlen hfin hfs => exact withPan o _ _ ⟨i, _, _, _, rfl⟩
  | serNext o i rs cs k hb hc hser hl hk => exact mono [_] (by intro c r cd m h; simp at h)
  | serRet o i rs cs hb hc hser hl hk => exact mono [_] (by intro c r cd m h; simp at h)
  | serPan o i rs cs f hb hc hser hl => exact withPan o _ [f] ⟨i, _, _, _, rfl⟩
  | siteWin o i rs cs j k hb hc hk hr => exact mono [_] (by intro c r cd m h; simp at h)
  | siteBlock o i rs cs j k hb hc hk hr hcell => exact P
  | siteRead o i rs cs j k st se hb hc hk hr hcell => exact P
  | siteDone o i rs cs j k st se hb hc hk hr hcell => exact P

theorem reach_panStops (p : Prog) (roots : List Nat) (sched : List Agent) : PanStops (reach p roots sched).log := by
  unfold reach
  apply run_invariant p (fun s => PanStops s.log)
  · intro s s' h hm; exact PanStops.step p s s' h hm
  · intro c reached code msgs k h; simp [State.init] at h

theorem reach_live (p : Prog) (roots : List Nat) (sched : List Agent) : LiveLog (reach p roots sched).log := by
  have h : Inv1 p (reach p roots sched) ∧ Inv2 p (reach p roots sched) ∧ LiveLog (reach p roots sched).log := by
    unfold reach
    apply run_invariant p (fun s => Inv1 p s ∧ Inv2 p s ∧ LiveLog s.log)
    · intro s s' h hm
      exact ⟨Inv1.step p s s' h.1 hm, Inv2.step p s s' h.1 h.2.1 hm, LiveLog.step p s s' h.1 h.2.1 h.2.2 hm⟩
    · exact ⟨Inv1.init p roots, Inv2.init p roots, trivial⟩
  exact h.2.2

end MageModel.Deps
