import MageModel.Deps.Sem
/-!
The moves of `step Cfg.fixed` as an inductive relation with one constructor per kind of move, and the proof
that the executable `step` only ever stutters or takes one of these moves.  All invariants are proved by cases
on this relation.
-/
namespace MageModel.Deps

@[simp] theorem setCell_cell (s : State) (k : Key) (c : Cell) (k' : Key) :
    (setCell s k c).cell k' = if k' = k then c else s.cell k' := rfl
@[simp] theorem setCell_body (s : State) (k : Key) (c : Cell) : (setCell s k c).body = s.body := rfl
@[simp] theorem setCell_log (s : State) (k : Key) (c : Cell) : (setCell s k c).log = s.log := rfl
@[simp] theorem setBody_cell (s : State) (o : Owner) (b : BState) : (setBody s o b).cell = s.cell := rfl
@[simp] theorem setBody_body (s : State) (o : Owner) (b : BState) (o' : Owner) :
    (setBody s o b).body o' = if o' = o then b else s.body o' := rfl
@[simp] theorem setBody_log (s : State) (o : Owner) (b : BState) : (setBody s o b).log = s.log := rfl
@[simp] theorem emit_cell (s : State) (e : Event) : (emit s e).cell = s.cell := rfl
@[simp] theorem emit_body (s : State) (e : Event) : (emit s e).body = s.body := rfl
@[simp] theorem emit_log (s : State) (e : Event) : (emit s e).log = e :: s.log := rfl
@[simp] theorem emits_cell (s : State) (es : List Event) : (emits s es).cell = s.cell := rfl
@[simp] theorem emits_body (s : State) (es : List Event) : (emits s es).body = s.body := rfl
@[simp] theorem emits_log (s : State) (es : List Event) : (emits s es).log = es ++ s.log := rfl

/-- the state after owner `o`'s body ended with `out` (fixed configuration: stored = seen) -/
def ended (s : State) (o : Owner) (out : Out) : State := endBody Cfg.fixed s o out

/-- One move of the fixed configuration. -/
inductive Move (p : Prog) : State → State → Prop where
  /-- a body with no further call finishes -/
  | finish (s o i) : s.body o = .ready i → (p o).calls[i]? = none → Move p s (ended s o (p o).out)
  /-- parallel call: all goroutines are created -/
  | enterPar (s o i cs) : s.body o = .ready i → (p o).calls[i]? = some cs → cs.serial = false →
      Move p s (emits (setBody s o (.inCall i (cs.keys.map fun _ => .want))) (reqEvents ⟨o, i⟩ 0 cs.keys ++ [.enter ⟨o, i⟩]))
  | enterSer (s o i cs) : s.body o = .ready i → (p o).calls[i]? = some cs → cs.serial = true →
      Move p s (emit (setBody s o (.inCall i [])) (.enter ⟨o, i⟩))
  /-- parallel call returns: every goroutine finished, none failed -/
  | retPar (s o i rs cs) : s.body o = .inCall i rs → (p o).calls[i]? = some cs → cs.serial = false →
      rs.length = cs.keys.length → rs.all RState.isFin = true → failures rs = [] →
      Move p s (emit (setBody s o (.ready (i+1))) (.ret ⟨o, i⟩ cs.keys))
  /-- parallel call panics: every goroutine finished, some failed; the owner's body ends with that panic -/
  | panPar (s o i rs cs) : s.body o = .inCall i rs → (p o).calls[i]? = some cs → cs.serial = false →
      rs.length = cs.keys.length → rs.all RState.isFin = true → failures rs ≠ [] →
      Move p s (ended (emit s (.pan ⟨o, i⟩ cs.keys (exitOf (failures rs)) ((failures rs).map Prod.snd))) o (panicOut (failures rs)))
  /-- serial call: the next element's goroutine is created (the previous one, if any, finished without failure) -/
  | serNext (s o i rs cs k) : s.body o = .inCall i rs → (p o).calls[i]? = some cs → cs.serial = true →
      (rs.getLast? = none ∨ rs.getLast? = some (.fin none)) → cs.keys[rs.length]? = some k →
      Move p s (emit (setBody s o (.inCall i (rs ++ [.want]))) (.req ⟨o, i⟩ rs.length k))
  | serRet (s o i rs cs) : s.body o = .inCall i rs → (p o).calls[i]? = some cs → cs.serial = true →
      (rs.getLast? = none ∨ rs.getLast? = some (.fin none)) → cs.keys[rs.length]? = none →
      Move p s (emit (setBody s o (.ready (i+1))) (.ret ⟨o, i⟩ (cs.keys.take rs.length)))
  | serPan (s o i rs cs f) : s.body o = .inCall i rs → (p o).calls[i]? = some cs → cs.serial = true →
      rs.getLast? = some (.fin (some f)) →
      Move p s (ended (emit s (.pan ⟨o, i⟩ (cs.keys.take rs.length) (exitOf [f]) [f.2])) o (panicOut [f]))
  /-- a goroutine wins the once and starts the body -/
  | siteWin (s o i rs cs j k) : s.body o = .inCall i rs → (p o).calls[i]? = some cs → cs.keys[j]? = some k →
      (rs[j]? = some .want ∧ s.cell k = .absent ∨ rs[j]? = some .sawAbsent) →
      Move p s (emit (setBody (setCell (setBody s o (.inCall i (rs.set j .executing))) k .running) (.key k) (.ready 0)) (.start k))
  | siteBlock (s o i rs cs j k) : s.body o = .inCall i rs → (p o).calls[i]? = some cs → cs.keys[j]? = some k →
      rs[j]? = some .want → s.cell k = .running →
      Move p s (setBody s o (.inCall i (rs.set j .blocked)))
  /-- a goroutine that did not run the body reads the stored error -/
  | siteRead (s o i rs cs j k st se) : s.body o = .inCall i rs → (p o).calls[i]? = some cs → cs.keys[j]? = some k →
      (rs[j]? = some .want ∨ rs[j]? = some .blocked) → s.cell k = .done st se →
      Move p s (setBody s o (.inCall i (rs.set j (.fin st))))
  /-- the goroutine that ran the body gets the body's own outcome -/
  | siteDone (s o i rs cs j k st se) : s.body o = .inCall i rs → (p o).calls[i]? = some cs → cs.keys[j]? = some k →
      rs[j]? = some .executing → s.cell k = .done st se →
      Move p s (setBody s o (.inCall i (rs.set j (.fin se))))

theorem stepSite_sound (p : Prog) (s : State) (o : Owner) (j : Nat) :
    stepSite Cfg.fixed p s o j = s ∨ Move p s (stepSite Cfg.fixed p s o j) := by
  unfold stepSite
  cases hb : s.body o with
  | idle => left; rfl
  | ready i => left; rfl
  | ended out => left; rfl
  | inCall i rs =>
    simp only []
    cases hc : (p o).calls[i]? with
    | none => left; rfl
    | some cs =>
      simp only []
      cases hk : cs.keys[j]? with
      | none => left; rfl
      | some k =>
        cases hr : rs[j]? with
        | none => left; rfl
        | some r =>
          simp only []
          cases r with
          | want =>
            simp only []
            cases hcell : s.cell k with
            | absent => right; simp only [Cfg.fixed, if_true]; exact Move.siteWin s o i rs cs j k hb hc hk (Or.inl ⟨hr, hcell⟩)
            | running => right; exact Move.siteBlock s o i rs cs j k hb hc hk hr hcell
            | done st se => right; exact Move.siteRead s o i rs cs j k st se hb hc hk (Or.inl hr) hcell
          | sawAbsent => right; exact Move.siteWin s o i rs cs j k hb hc hk (Or.inr hr)
          | blocked =>
            simp only []
            cases hcell : s.cell k with
            | absent => left; rfl
            | running => left; rfl
            | done st se => right; exact Move.siteRead s o i rs cs j k st se hb hc hk (Or.inr hr) hcell
          | executing =>
            simp only []
            cases hcell : s.cell k with
            | absent => left; rfl
            | running => left; rfl
            | done st se => right; exact Move.siteDone s o i rs cs j k st se hb hc hk hr hcell
          | fin r => left; rfl

theorem stepOwner_sound (p : Prog) (s : State) (o : Owner) :
    stepOwner Cfg.fixed p s o = s ∨ Move p s (stepOwner Cfg.fixed p s o) := by
  unfold stepOwner
  cases hb : s.body o with
  | idle => left; rfl
  | ended out => left; rfl
  | ready i =>
    simp only []
    cases hc : (p o).calls[i]? with
    | none => right; exact Move.finish s o i hb hc
    | some cs =>
      simp only [Cfg.fixed, Bool.and_true]
      cases hser : cs.serial with
      | true => right; simp only [if_true]; exact Move.enterSer s o i cs hb hc hser
      | false => right; simp only [Bool.false_eq_true, if_false]; exact Move.enterPar s o i cs hb hc hser
  | inCall i rs =>
    simp only []
    cases hc : (p o).calls[i]? with
    | none => left; rfl
    | some cs =>
      simp only [Cfg.fixed, Bool.and_true, Bool.true_and]
      cases hser : cs.serial with
      | true =>
        simp only [if_true]
        cases hl : rs.getLast? with
        | none =>
          simp only []
          cases hk : cs.keys[rs.length]? with
          | none => right; exact Move.serRet s o i rs cs hb hc hser (Or.inl hl) hk
          | some k => right; exact Move.serNext s o i rs cs k hb hc hser (Or.inl hl) hk
        | some r =>
          cases r with
          | want => left; rfl
          | sawAbsent => left; rfl
          | blocked => left; rfl
          | executing => left; rfl
          | fin res =>
            cases res with
            | none =>
              simp only []
              cases hk : cs.keys[rs.length]? with
              | none => right; exact Move.serRet s o i rs cs hb hc hser (Or.inr hl) hk
              | some k => right; exact Move.serNext s o i rs cs k hb hc hser (Or.inr hl) hk
            | some f => right; exact Move.serPan s o i rs cs f hb hc hser hl
      | false =>
        simp only [Bool.false_eq_true, if_false]
        split
        · left; rfl
        · rename_i hlen
          have hlen' : rs.length = cs.keys.length := by
            by_cases h : rs.length = cs.keys.length
            · exact h
            · exact absurd h (by simpa using hlen)
          split
          · left; rfl
          · rename_i hfin
            have hfin' : rs.all RState.isFin = true := by
              cases h : rs.all RState.isFin
              · simp [h] at hfin
              · rfl
            split
            · rename_i hfs
              right
              try simp only [hfin', if_true]
              exact Move.retPar s o i rs cs hb hc hser hlen' hfin' (by simpa using hfs)
            · rename_i hfs
              right
              exact Move.panPar s o i rs cs hb hc hser hlen' hfin' (by intro h; simp [h] at hfs)

theorem step_sound (p : Prog) (s : State) (a : Agent) :
    step Cfg.fixed p s a = s ∨ Move p s (step Cfg.fixed p s a) := by
  cases a with
  | owner o => exact stepOwner_sound p s o
  | site o j => exact stepSite_sound p s o j

/-- An invariant of all moves holds in every state reached by any schedule. -/
theorem run_invariant (p : Prog) (I : State → Prop) (hstep : ∀ s s', I s → Move p s s' → I s')
    (s : State) (h0 : I s) (sched : List Agent) : I (run Cfg.fixed p s sched) := by
  induction sched generalizing s with
  | nil => exact h0
  | cons a rest ih =>
    simp only [run, List.foldl_cons]
    apply ih
    rcases step_sound p s a with h | h
    · rw [h]; exact h0
    · exact hstep _ _ h0 h

end MageModel.Deps
