import MageModel.Deps.Rel
/-! Invariants of the dependency runtime, preserved by every move (hence true under every schedule). -/
namespace MageModel.Deps

theorem stored_fixed (out : Out) : Cfg.fixed.stored out = out.seen := by
  cases out <;> simp [Cfg.stored, Cfg.fixed, Out.seen]

theorem ended_cell (s : State) (o : Owner) (out : Out) (k' : Key) :
    (ended s o out).cell k' = match o with
      | .root _ => s.cell k'
      | .key k => if k' = k then .done out.seen out.seen else s.cell k' := by
  cases o <;> simp [ended, endBody, stored_fixed]

theorem ended_body (s : State) (o : Owner) (out : Out) (o' : Owner) :
    (ended s o out).body o' = if o' = o then .ended out else s.body o' := by
  cases o <;> simp [ended, endBody]

theorem ended_log (s : State) (o : Owner) (out : Out) :
    (ended s o out).log = match o with
      | .root _ => s.log
      | .key k => .stop k out.seen :: s.log := by
  cases o <;> simp [ended, endBody]

def starts (k : Key) (log : List Event) : Nat := log.count (.start k)

@[simp] theorem starts_cons (k : Key) (e : Event) (log : List Event) :
    starts k (e :: log) = starts k log + if e = .start k then 1 else 0 := by
  simp [starts, List.count_cons]

theorem starts_append_noStart (k : Key) (es log : List Event) (h : .start k ∉ es) :
    starts k (es ++ log) = starts k log := by
  simp [starts, List.count_append, List.count_eq_zero_of_not_mem h]

theorem start_not_mem_reqEvents (k : Key) (c : CallId) (j : Nat) (ks : List Key) :
    Event.start k ∉ reqEvents c j ks := by
  induction ks generalizing j with
  | nil => simp [reqEvents]
  | cons k' ks ih => simp [reqEvents, ih]

/-- part 1: registry/once bookkeeping -/
structure Inv1 (p : Prog) (s : State) : Prop where
  once : ∀ k, starts k s.log = if s.cell k = .absent then 0 else 1
  noSaw : ∀ o i rs, s.body o = .inCall i rs → RState.sawAbsent ∉ rs
  bodyCell : ∀ k, s.cell k = .absent → s.body (.key k) = .idle
  doneEnded : ∀ k st se, s.cell k = .done st se → ∃ out, s.body (.key k) = .ended out

theorem mem_set_of {α} {l : List α} {j : Nat} {a b : α} (h : b ∈ l.set j a) : b = a ∨ b ∈ l := by
  rcases List.mem_or_eq_of_mem_set h with h | h
  · exact Or.inr h
  · exact Or.inl h

theorem Inv1.init (p : Prog) (roots : List Nat) : Inv1 p (State.init roots) := by
  refine ⟨?_, ?_, ?_, ?_⟩
  · intro k; simp [State.init, starts]
  · intro o i rs h
    cases o with
    | root r => simp only [State.init] at h; split at h <;> cases h
    | key k => simp [State.init] at h
  · intro k _; rfl
  · intro k st se h; simp [State.init] at h

def Active (b : BState) : Prop := b ≠ .idle ∧ ∀ out, b ≠ .ended out

theorem Inv1.emits {p : Prog} {s : State} (I : Inv1 p s) (es : List Event) (hes : ∀ k, Event.start k ∉ es) :
    Inv1 p (emits s es) := by
  obtain ⟨once, noSaw, bodyCell, doneEnded⟩ := I
  exact ⟨fun k => by simp only [emits_log, emits_cell]; rw [starts_append_noStart _ _ _ (hes k)]; exact once k,
    noSaw, bodyCell, doneEnded⟩

theorem Inv1.emit {p : Prog} {s : State} (I : Inv1 p s) (e : Event) (he : ∀ k, e ≠ Event.start k) :
    Inv1 p (emit s e) :=
  Inv1.emits I [e] (fun k h => he k (by have := List.mem_singleton.mp h; exact this.symm))

/-- an active owner changes its own state (not to idle) -/
theorem Inv1.setBody {p : Prog} {s : State} (I : Inv1 p s) (o : Owner) (b : BState) (hact : Active (s.body o))
    (hb' : ∀ i rs, b = .inCall i rs → RState.sawAbsent ∉ rs) (hb2 : b ≠ .idle) (hb3 : ∀ out, b = .ended out → ∀ k, o = .key k → ∃ st se, s.cell k = .done st se) :
    Inv1 p (setBody s o b) := by
  obtain ⟨once, noSaw, bodyCell, doneEnded⟩ := I
  refine ⟨once, ?_, ?_, ?_⟩
  · intro o' i' rs h
    simp only [setBody_body] at h
    split at h
    · exact hb' i' rs h
    · exact noSaw o' i' rs h
  · intro k h
    simp only [setBody_cell] at h
    simp only [setBody_body]
    have := bodyCell k h
    split
    · rename_i he; rw [← he] at hact; exact absurd this hact.1
    · exact this
  · intro k st se h
    simp only [setBody_cell] at h
    simp only [setBody_body]
    obtain ⟨out, ho⟩ := doneEnded k st se h
    split
    · rename_i he; rw [← he] at hact; exact absurd ho (hact.2 out)
    · exact ⟨out, ho⟩

theorem Inv1.ended {p : Prog} {s : State} (I : Inv1 p s) (o : Owner) (out : Out) (hact : Active (s.body o)) :
    Inv1 p (ended s o out) := by
  obtain ⟨once, noSaw, bodyCell, doneEnded⟩ := I
  refine ⟨?_, ?_, ?_, ?_⟩
  · intro k
    rw [ended_log, ended_cell]
    cases o with
    | root r => exact once k
    | key k0 =>
      simp only [starts_cons]
      by_cases hk : k = k0
      · subst hk
        have : s.cell k ≠ .absent := by
          intro h; exact hact.1 (bodyCell k h)
        have h1 := once k; simp [this] at h1 ⊢; exact h1
      · simp [hk]; exact once k
  · intro o' i' rs h
    rw [ended_body] at h
    split at h
    · cases h
    · exact noSaw o' i' rs h
  · intro k h
    rw [ended_cell] at h
    rw [ended_body]
    cases o with
    | root r => simp; exact bodyCell k h
    | key k0 =>
      simp only at h
      by_cases hk : k = k0
      · simp [hk] at h
      · simp [hk] at h; simp [hk]; exact bodyCell k h
  · intro k st se h
    rw [ended_cell] at h
    rw [ended_body]
    cases o with
    | root r => simp; exact doneEnded k st se h
    | key k0 =>
      simp only at h
      by_cases hk : k = k0
      · subst hk; exact ⟨out, by simp⟩
      · simp [hk] at h; simp [hk]; exact doneEnded k st se h

theorem active_ready (i : Nat) : Active (.ready i) := ⟨(fun h => by cases h), (fun o h => by cases h)⟩
theorem active_inCall (i : Nat) (rs) : Active (.inCall i rs) := ⟨(fun h => by cases h), (fun o h => by cases h)⟩

theorem noSaw_set {rs : List RState} {j : Nat} {r : RState} (h : RState.sawAbsent ∉ rs) (hr : r ≠ .sawAbsent) :
    RState.sawAbsent ∉ rs.set j r := by
  intro hm
  rcases mem_set_of hm with e | e
  · exact hr e.symm
  · exact h e

theorem Inv1.step (p : Prog) (s s' : State) (I : Inv1 p s) (hm : Move p s s') : Inv1 p s' := by
  have noSaw := I.noSaw
  cases hm with
  | finish o i hb hc => exact I.ended o _ (by rw [hb]; exact active_ready i)
  | enterPar o i cs hb hc hser =>
    apply Inv1.emits
    · apply I.setBody o _ (by rw [hb]; exact active_ready i)
      · intro i' rs h; cases h; simp
      · intro h; cases h
      · intro out h; cases h
    · intro k; simp [start_not_mem_reqEvents]
  | enterSer o i cs hb hc hser =>
    apply Inv1.emit
    · apply I.setBody o _ (by rw [hb]; exact active_ready i)
      · intro i' rs h; cases h; simp
      · intro h; cases h
      · intro out h; cases h
    · intro k h; cases h
  | retPar o i rs cs hb hc hser hlen hfin hfs =>
    apply Inv1.emit
    · apply I.setBody o _ (by rw [hb]; exact active_inCall i rs)
      · intro i' rs h; cases h
      · intro h; cases h
      · intro out h; cases h
    · intro k h; cases h
  | serRet o i rs cs hb hc hser hl hk =>
    apply Inv1.emit
    · apply I.setBody o _ (by rw [hb]; exact active_inCall i rs)
      · intro i' rs h; cases h
      · intro h; cases h
      · intro out h; cases h
    · intro k h; cases h
  | serNext o i rs cs k0 hb hc hser hl hk =>
    apply Inv1.emit
    · apply I.setBody o _ (by rw [hb]; exact active_inCall i rs)
      · intro i' rs' h; cases h
        have := noSaw o i rs hb
        simp [this]
      · intro h; cases h
      · intro out h; cases h
    · intro k h; cases h
  | panPar o i rs cs hb hc hser hlen hfin hfs =>
    apply Inv1.ended
    · exact I.emit _ (by intro k h; cases h)
    · simp only [emit_body]; rw [hb]; exact active_inCall i rs
  | serPan o i rs cs f hb hc hser hl =>
    apply Inv1.ended
    · exact I.emit _ (by intro k h; cases h)
    · simp only [emit_body]; rw [hb]; exact active_inCall i rs
  | siteBlock o i rs cs j k0 hb hc hk hr hcell =>
    apply I.setBody o _ (by rw [hb]; exact active_inCall i rs)
    · intro i' rs' h; cases h; exact noSaw_set (noSaw o i rs hb) (by intro h; cases h)
    · intro h; cases h
    · intro out h; cases h
  | siteRead o i rs cs j k0 st se hb hc hk hr hcell =>
    apply I.setBody o _ (by rw [hb]; exact active_inCall i rs)
    · intro i' rs' h; cases h; exact noSaw_set (noSaw o i rs hb) (by intro h; cases h)
    · intro h; cases h
    · intro out h; cases h
  | siteDone o i rs cs j k0 st se hb hc hk hr hcell =>
    apply I.setBody o _ (by rw [hb]; exact active_inCall i rs)
    · intro i' rs' h; cases h; exact noSaw_set (noSaw o i rs hb) (by intro h; cases h)
    · intro h; cases h
    · intro out h; cases h
  | siteWin o i rs cs j k0 hb hc hk hr =>
    have hwant : rs[j]? = some .want ∧ s.cell k0 = .absent := by
      rcases hr with h | h
      · exact h
      · exact absurd (List.mem_of_getElem? h) (noSaw o i rs hb)
    obtain ⟨once, _, bodyCell, doneEnded⟩ := I
    have hidle := bodyCell k0 hwant.2
    have hne : Owner.key k0 ≠ o := by
      intro e; rw [← e, hidle] at hb; cases hb
    refine ⟨?_, ?_, ?_, ?_⟩
    · intro k
      simp only [emit_log, emit_cell, setBody_cell, setBody_log, setCell_log, setCell_cell, starts_cons]
      by_cases hkk : k = k0
      · subst hkk; have := once k; simp [hwant.2] at this; simp [this]
      · have h1 : Event.start k0 ≠ Event.start k := by intro e; cases e; exact hkk rfl
        simp [hkk, h1]; exact once k
    · intro o' i' rs' h
      simp only [emit_body, setBody_body, setCell_body] at h
      split at h
      · cases h
      · split at h
        · cases h; exact noSaw_set (noSaw o i rs hb) (by intro h; cases h)
        · exact noSaw o' i' rs' h
    · intro k h
      simp only [emit_cell, setBody_cell, setCell_cell] at h
      simp only [emit_body, setBody_body, setCell_body]
      by_cases hkk : k = k0
      · simp [hkk] at h
      · simp [hkk] at h
        have hb1 := bodyCell k h
        have h1 : Owner.key k ≠ Owner.key k0 := by intro e; cases e; exact hkk rfl
        have h2 : Owner.key k ≠ o := by intro e; rw [← e, hb1] at hb; cases hb
        simp [h1, h2, hb1]
    · intro k st se h
      simp only [emit_cell, setBody_cell, setCell_cell] at h
      simp only [emit_body, setBody_body, setCell_body]
      by_cases hkk : k = k0
      · simp [hkk] at h
      · simp [hkk] at h
        obtain ⟨out, ho⟩ := doneEnded k st se h
        have h1 : Owner.key k ≠ Owner.key k0 := by intro e; cases e; exact hkk rfl
        have h2 : Owner.key k ≠ o := by intro e; rw [← e, ho] at hb; cases hb
        exact ⟨out, by simp [h1, h2, ho]⟩

end MageModel.Deps
