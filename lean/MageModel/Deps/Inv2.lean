import MageModel.Deps.Inv
/-! Second layer of invariants: what finished goroutines know, and the shape of the event log. -/
namespace MageModel.Deps

/-- What must hold of an event with respect to everything logged before it (`earlier`, newest first). -/
def GoodEvent (p : Prog) (e : Event) (earlier : List Event) : Prop :=
  match e with
  | .stop k _ => Event.start k ∈ earlier
  | .ret c reached =>
      (∀ k ∈ reached, Event.stop k none ∈ earlier) ∧
      (∀ cs, (p c.owner).calls[c.idx]? = some cs → reached = cs.keys)
  | .pan c reached code msgs =>
      (∀ k ∈ reached, ∃ r, Event.stop k r ∈ earlier) ∧
      (∃ fs : List (Int × String), fs ≠ [] ∧ code = exitOf fs ∧ msgs = fs.map Prod.snd ∧
        (∀ f ∈ fs, ∃ k ∈ reached, Event.stop k (some f) ∈ earlier) ∧
        (∀ k ∈ reached, ∀ f, Event.stop k (some f) ∈ earlier → f ∈ fs)) ∧
      (∀ cs, (p c.owner).calls[c.idx]? = some cs →
        (cs.serial = false → reached = cs.keys) ∧ (∃ n, reached = cs.keys.take n))
  | .req c j _ =>
      ∀ cs, (p c.owner).calls[c.idx]? = some cs → cs.serial = true → ∀ j', j = j' + 1 →
        ∃ kp, cs.keys[j']? = some kp ∧ Event.stop kp none ∈ earlier
  | _ => True

def GoodLog (p : Prog) : List Event → Prop
  | [] => True
  | e :: earlier => GoodEvent p e earlier ∧ GoodLog p earlier

theorem GoodLog.append {p : Prog} {es log : List Event} (hlog : GoodLog p log)
    (hes : ∀ pre e post, es = pre ++ e :: post → GoodEvent p e (post ++ log)) : GoodLog p (es ++ log) := by
  induction es with
  | nil => exact hlog
  | cons e rest ih =>
    refine ⟨hes [] e rest rfl, ih ?_⟩
    intro pre e' post h
    exact hes (e :: pre) e' post (by simp [h])

structure Inv2 (p : Prog) (s : State) : Prop where
  finDone : ∀ (o : Owner) (i : Nat) (rs : List RState) (cs : CallSpec) (j : Nat) (k : Key) (r : Res), s.body o = .inCall i rs → (p o).calls[i]? = some cs → cs.keys[j]? = some k →
      rs[j]? = some (RState.fin r) → s.cell k = .done r r
  doneSame : ∀ k st se, s.cell k = .done st se → st = se ∧ Event.stop k st ∈ s.log
  stopCell : ∀ k r, Event.stop k r ∈ s.log → s.cell k = .done r r
  serPrefix : ∀ (o : Owner) (i : Nat) (rs : List RState) (cs : CallSpec), s.body o = .inCall i rs → (p o).calls[i]? = some cs → cs.serial = true →
      ∀ j : Nat, j + 1 < rs.length → rs[j]? = some (RState.fin none)
  lenLe : ∀ o i rs cs, s.body o = .inCall i rs → (p o).calls[i]? = some cs → rs.length ≤ cs.keys.length
  good : GoodLog p s.log

theorem Inv2.init (p : Prog) (roots : List Nat) : Inv2 p (State.init roots) := by
  have hb : ∀ o i rs, (State.init roots).body o ≠ .inCall i rs := by
    intro o i rs h
    cases o with
    | root r => simp only [State.init] at h; split at h <;> cases h
    | key k => simp [State.init] at h
  refine ⟨?_, ?_, ?_, ?_, ?_, trivial⟩
  · intro o i rs cs j k r h; exact absurd h (hb o i rs)
  · intro k st se h; simp [State.init] at h
  · intro k r h; simp [State.init] at h
  · intro o i rs cs h; exact absurd h (hb o i rs)
  · intro o i rs cs h; exact absurd h (hb o i rs)

theorem mem_failures {rs : List RState} {f : Int × String} :
    f ∈ failures rs ↔ ∃ j : Nat, rs[j]? = some (RState.fin (some f)) := by
  induction rs with
  | nil => simp [failures]
  | cons r rest ih =>
    have hshift : (∃ j : Nat, (r :: rest)[j]? = some (RState.fin (some f))) ↔
        (r = RState.fin (some f) ∨ ∃ j : Nat, rest[j]? = some (RState.fin (some f))) := by
      constructor
      · rintro ⟨j, hj⟩
        cases j with
        | zero => left; simpa using hj
        | succ j => right; exact ⟨j, by simpa using hj⟩
      · rintro (h | ⟨j, hj⟩)
        · exact ⟨0, by simp [h]⟩
        · exact ⟨j+1, by simpa using hj⟩
    rw [hshift]
    cases r with
    | fin res =>
      cases res with
      | none => simp [failures, ih]
      | some g =>
        simp only [failures, List.mem_cons, ih]
        constructor
        · rintro (h | h)
          · left; rw [h]
          · right; exact h
        · rintro (h | h)
          · left; cases h; rfl
          · right; exact h
    | want => simp [failures, ih]
    | sawAbsent => simp [failures, ih]
    | blocked => simp [failures, ih]
    | executing => simp [failures, ih]

theorem allFin_get {rs : List RState} (h : rs.all RState.isFin = true) {j : Nat} {r : RState} (hj : rs[j]? = some r) :
    ∃ res, r = .fin res := by
  have := List.all_eq_true.mp h r (List.mem_of_getElem? hj)
  cases r <;> simp [RState.isFin] at this
  exact ⟨_, rfl⟩

theorem getElem?_set_ne' {rs : List RState} {j j' : Nat} {r : RState} (h : j ≠ j') : (rs.set j r)[j']? = rs[j']? := by
  simp [List.getElem?_set, h]

theorem getElem?_set_self' {rs : List RState} {j : Nat} {r r' : RState} (h : rs[j]? = some r') : (rs.set j r)[j]? = some r := by
  have : j < rs.length := by
    by_cases hl : j < rs.length
    · exact hl
    · simp [List.getElem?_eq_none (by omega : rs.length ≤ j)] at h
  simp [List.getElem?_set, this]

end MageModel.Deps

namespace MageModel.Deps

theorem setBody_self (s : State) (o : Owner) : setBody s o (s.body o) = s := by
  cases s with
  | mk cell body log =>
    simp only [setBody]
    congr
    funext o'
    split
    · rename_i h; rw [h]
    · rfl

/-- cells unchanged, owner `o` moves to `b`, events `es` logged -/
theorem Inv2.frame {p : Prog} {s : State} (I2 : Inv2 p s) (o : Owner) (b : BState) (es : List Event)
    (hnostop : ∀ k r, Event.stop k r ∉ es)
    (hfin : ∀ (i : Nat) (rs : List RState) (cs : CallSpec) (j : Nat) (k : Key) (r : Res), b = .inCall i rs →
      (p o).calls[i]? = some cs → cs.keys[j]? = some k → rs[j]? = some (RState.fin r) → s.cell k = .done r r)
    (hser : ∀ (i : Nat) (rs : List RState) (cs : CallSpec), b = .inCall i rs → (p o).calls[i]? = some cs →
      cs.serial = true → ∀ j : Nat, j + 1 < rs.length → rs[j]? = some (RState.fin none))
    (hlen : ∀ (i : Nat) (rs : List RState) (cs : CallSpec), b = .inCall i rs → (p o).calls[i]? = some cs →
      rs.length ≤ cs.keys.length)
    (hgood : ∀ pre e post, es = pre ++ e :: post → GoodEvent p e (post ++ s.log)) :
    Inv2 p (emits (setBody s o b) es) := by
  obtain ⟨finDone, doneSame, stopCell, serPrefix, lenLe, good⟩ := I2
  refine ⟨?_, ?_, ?_, ?_, ?_, ?_⟩
  · intro o' i rs cs j k r hb hc hk hr
    simp only [emits_body, setBody_body] at hb
    simp only [emits_cell, setBody_cell]
    split at hb
    · rename_i he; subst he; exact hfin i rs cs j k r hb hc hk hr
    · exact finDone o' i rs cs j k r hb hc hk hr
  · intro k st se h
    simp only [emits_cell, setBody_cell] at h
    obtain ⟨h1, h2⟩ := doneSame k st se h
    exact ⟨h1, by simp only [emits_log, setBody_log]; exact List.mem_append_right _ h2⟩
  · intro k r h
    simp only [emits_log, setBody_log] at h
    simp only [emits_cell, setBody_cell]
    rcases List.mem_append.mp h with h | h
    · exact absurd h (hnostop k r)
    · exact stopCell k r h
  · intro o' i rs cs hb hc hs
    simp only [emits_body, setBody_body] at hb
    split at hb
    · rename_i he; subst he; exact hser i rs cs hb hc hs
    · exact serPrefix o' i rs cs hb hc hs
  · intro o' i rs cs hb hc
    simp only [emits_body, setBody_body] at hb
    split at hb
    · rename_i he; subst he; exact hlen i rs cs hb hc
    · exact lenLe o' i rs cs hb hc
  · simp only [emits_log, setBody_log]
    exact GoodLog.append good hgood

theorem Inv2.frame1 {p : Prog} {s : State} (I2 : Inv2 p s) (o : Owner) (b : BState) (e : Event)
    (hnostop : ∀ k r, e ≠ Event.stop k r)
    (hfin : ∀ (i : Nat) (rs : List RState) (cs : CallSpec) (j : Nat) (k : Key) (r : Res), b = .inCall i rs →
      (p o).calls[i]? = some cs → cs.keys[j]? = some k → rs[j]? = some (RState.fin r) → s.cell k = .done r r)
    (hser : ∀ (i : Nat) (rs : List RState) (cs : CallSpec), b = .inCall i rs → (p o).calls[i]? = some cs →
      cs.serial = true → ∀ j : Nat, j + 1 < rs.length → rs[j]? = some (RState.fin none))
    (hlen : ∀ (i : Nat) (rs : List RState) (cs : CallSpec), b = .inCall i rs → (p o).calls[i]? = some cs →
      rs.length ≤ cs.keys.length)
    (hgood : GoodEvent p e s.log) :
    Inv2 p (emit (setBody s o b) e) := by
  have := I2.frame o b [e] (by intro k r h; exact hnostop k r (List.mem_singleton.mp h).symm) hfin hser hlen
    (by
      intro pre e' post h
      cases pre with
      | nil => simp at h; obtain ⟨rfl, rfl⟩ := h; simpa using hgood
      | cons a pre' => simp at h)
  exact this

/-- silent change of the owner's state -/
theorem Inv2.frame0 {p : Prog} {s : State} (I2 : Inv2 p s) (o : Owner) (b : BState)
    (hfin : ∀ (i : Nat) (rs : List RState) (cs : CallSpec) (j : Nat) (k : Key) (r : Res), b = .inCall i rs →
      (p o).calls[i]? = some cs → cs.keys[j]? = some k → rs[j]? = some (RState.fin r) → s.cell k = .done r r)
    (hser : ∀ (i : Nat) (rs : List RState) (cs : CallSpec), b = .inCall i rs → (p o).calls[i]? = some cs →
      cs.serial = true → ∀ j : Nat, j + 1 < rs.length → rs[j]? = some (RState.fin none))
    (hlen : ∀ (i : Nat) (rs : List RState) (cs : CallSpec), b = .inCall i rs → (p o).calls[i]? = some cs →
      rs.length ≤ cs.keys.length) :
    Inv2 p (setBody s o b) := by
  have := I2.frame o b [] (by simp) hfin hser hlen (by intro pre e post h; simp at h)
  exact this

theorem start_mem_of_cell {p : Prog} {s : State} (I1 : Inv1 p s) (k : Key) (h : s.cell k ≠ .absent) :
    Event.start k ∈ s.log := by
  have := I1.once k
  simp [h] at this
  have hpos : 0 < List.count (Event.start k) s.log := by simp [starts] at this; omega
  exact List.count_pos_iff.mp hpos

/-- the body of an active owner ends -/
theorem Inv2.ended {p : Prog} {s : State} (I1 : Inv1 p s) (I2 : Inv2 p s) (o : Owner) (out : Out)
    (hact : Active (s.body o)) : Inv2 p (ended s o out) := by
  obtain ⟨finDone, doneSame, stopCell, serPrefix, lenLe, good⟩ := I2
  cases o with
  | root r =>
    have h := Inv2.frame0 ⟨finDone, doneSame, stopCell, serPrefix, lenLe, good⟩ (.root r) (.ended out)
      (by intro i rs cs j k r h; cases h) (by intro i rs cs h; cases h) (by intro i rs cs h; cases h)
    simpa [MageModel.Deps.ended, endBody] using h
  | key k0 =>
    have hnd : ∀ st se, s.cell k0 ≠ .done st se := by
      intro st se h
      obtain ⟨out', ho⟩ := I1.doneEnded k0 st se h
      exact hact.2 out' ho
    have hna : s.cell k0 ≠ .absent := fun h => hact.1 (I1.bodyCell k0 h)
    refine ⟨?_, ?_, ?_, ?_, ?_, ?_⟩
    · intro o' i rs cs j k r hb hc hk hr
      rw [ended_body] at hb
      split at hb
      · cases hb
      · have := finDone o' i rs cs j k r hb hc hk hr
        rw [ended_cell]
        simp only
        by_cases hkk : k = k0
        · subst hkk; exact absurd this (hnd r r)
        · simp [hkk, this]
    · intro k st se h
      rw [ended_cell] at h
      rw [ended_log]
      simp only at h ⊢
      by_cases hkk : k = k0
      · subst hkk
        simp at h
        obtain ⟨h1, h2⟩ := h
        exact ⟨by rw [← h1, ← h2], by rw [← h1]; simp⟩
      · simp [hkk] at h
        obtain ⟨h1, h2⟩ := doneSame k st se h
        exact ⟨h1, List.mem_cons_of_mem _ h2⟩
    · intro k r h
      rw [ended_log] at h
      rw [ended_cell]
      simp only at h ⊢
      rcases List.mem_cons.mp h with h | h
      · cases h; simp
      · have := stopCell k r h
        by_cases hkk : k = k0
        · subst hkk; exact absurd this (hnd r r)
        · simp [hkk, this]
    · intro o' i rs cs hb hc hs
      rw [ended_body] at hb
      split at hb
      · cases hb
      · exact serPrefix o' i rs cs hb hc hs
    · intro o' i rs cs hb hc
      rw [ended_body] at hb
      split at hb
      · cases hb
      · exact lenLe o' i rs cs hb hc
    · rw [ended_log]
      exact ⟨start_mem_of_cell I1 k0 hna, good⟩

end MageModel.Deps
