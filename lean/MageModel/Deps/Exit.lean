import MageModel.Deps.Sem
/-! Algebra of `changeExit` / `exitOf` (the exit-status combination rule). -/
namespace MageModel.Deps

theorem changeExit_zero_left (n : Int) : changeExit 0 n = n := by unfold changeExit; split <;> simp_all
theorem changeExit_zero_right (o : Int) : changeExit o 0 = o := by simp [changeExit]
theorem changeExit_self (c : Int) : changeExit c c = c := by unfold changeExit; split <;> simp_all
theorem changeExit_comm (a b : Int) : changeExit a b = changeExit b a := by
  unfold changeExit
  by_cases ha : a = 0 <;> by_cases hb : b = 0 <;> by_cases hab : a = b <;> simp_all
  · intro h; exact absurd h.symm hab
theorem changeExit_one_absorb (b : Int) (hb : b ≠ 0) : changeExit 1 b = 1 := by
  unfold changeExit; by_cases h : (1 : Int) = b <;> simp_all

def foldExit (e : Int) (fs : List (Int × String)) : Int := fs.foldl (fun e f => changeExit e f.1) e

theorem exitOf_eq (fs : List (Int × String)) : exitOf fs = foldExit 0 fs := rfl

/-- all failures carry the same non-zero status `c` ⇒ the combined status is `c` -/
theorem foldExit_common (c : Int) (fs : List (Int × String)) (h : ∀ f ∈ fs, f.1 = c) (e : Int) (he : e = 0 ∨ e = c) :
    foldExit e fs = if fs = [] then e else c := by
  induction fs generalizing e with
  | nil => simp [foldExit]
  | cons f rest ih =>
    have hf : f.1 = c := h f (by simp)
    simp only [foldExit, List.foldl_cons]
    have hstep : changeExit e f.1 = c := by
      rw [hf]; rcases he with he | he
      · rw [he, changeExit_zero_left]
      · rw [he, changeExit_self]
    have := ih (fun g hg => h g (by simp [hg])) (changeExit e f.1) (Or.inr hstep)
    simp only [foldExit] at this
    rw [this, hstep]; simp

theorem exitOf_common (c : Int) (fs : List (Int × String)) (hne : fs ≠ []) (h : ∀ f ∈ fs, f.1 = c) : exitOf fs = c := by
  rw [exitOf_eq, foldExit_common c fs h 0 (Or.inl rfl)]; simp [hne]

/-- once the running status is 1 it stays 1 (all statuses non-zero) -/
theorem foldExit_one (fs : List (Int × String)) (h : ∀ f ∈ fs, f.1 ≠ 0) : foldExit 1 fs = 1 := by
  induction fs with
  | nil => rfl
  | cons f rest ih =>
    simp only [foldExit, List.foldl_cons]
    rw [changeExit_one_absorb _ (h f (by simp))]
    exact ih (fun g hg => h g (by simp [hg]))

/-- two different non-zero statuses among the failures ⇒ the combined status is 1 -/
theorem foldExit_mixed (fs : List (Int × String)) (h : ∀ f ∈ fs, f.1 ≠ 0) (e : Int) (he : e ≠ 0)
    (hd : ∃ f ∈ fs, f.1 ≠ e) : foldExit e fs = 1 := by
  induction fs generalizing e with
  | nil => obtain ⟨f, hf, _⟩ := hd; cases hf
  | cons f rest ih =>
    simp only [foldExit, List.foldl_cons]
    have hf0 : f.1 ≠ 0 := h f (by simp)
    by_cases hfe : f.1 = e
    · have : changeExit e f.1 = e := by rw [hfe, changeExit_self]
      rw [this]
      apply ih (fun g hg => h g (by simp [hg])) e he
      obtain ⟨g, hg, hge⟩ := hd
      rcases List.mem_cons.mp hg with hg | hg
      · subst hg; exact absurd hfe hge
      · exact ⟨g, hg, hge⟩
    · have : changeExit e f.1 = 1 := by
        unfold changeExit; simp [hf0, he]; intro h'; exact absurd h'.symm hfe
      rw [this]
      exact foldExit_one rest (fun g hg => h g (by simp [hg]))

theorem exitOf_mixed (fs : List (Int × String)) (h : ∀ f ∈ fs, f.1 ≠ 0)
    (hd : ∃ f ∈ fs, ∃ g ∈ fs, f.1 ≠ g.1) : exitOf fs = 1 := by
  cases fs with
  | nil => obtain ⟨f, hf, _⟩ := hd; cases hf
  | cons a rest =>
    rw [exitOf_eq]
    simp only [foldExit, List.foldl_cons, changeExit_zero_left]
    have ha : a.1 ≠ 0 := h a (by simp)
    apply foldExit_mixed rest (fun g hg => h g (by simp [hg])) a.1 ha
    obtain ⟨f, hf, g, hg, hfg⟩ := hd
    by_cases hfa : f.1 = a.1
    · -- then g differs from a
      have hga : g.1 ≠ a.1 := fun e => hfg (by rw [hfa, e])
      rcases List.mem_cons.mp hg with hg | hg
      · subst hg; exact absurd rfl hga
      · exact ⟨g, hg, hga⟩
    · rcases List.mem_cons.mp hf with hf | hf
      · subst hf; exact absurd rfl hfa
      · exact ⟨f, hf, hfa⟩

/-- **Status rule** (all failure statuses non-zero): the common status, or 1 when they differ —
in particular independent of the order in which the failures were collected. -/
theorem status_rule (fs : List (Int × String)) (hne : fs ≠ []) (h : ∀ f ∈ fs, f.1 ≠ 0) :
    exitOf fs = if fs.all (fun f => f.1 == (fs.head hne).1) then (fs.head hne).1 else 1 := by
  split
  · rename_i hc
    have hc' : ∀ f ∈ fs, f.1 = (fs.head hne).1 := by
      intro f hf
      have := List.all_eq_true.mp hc f hf
      simpa using this
    exact exitOf_common _ fs hne hc'
  · rename_i hc
    apply exitOf_mixed fs h
    have : ∃ f ∈ fs, f.1 ≠ (fs.head hne).1 := by
      apply Classical.byContradiction
      intro hno
      apply hc
      apply List.all_eq_true.mpr
      intro f hf
      have : f.1 = (fs.head hne).1 := Classical.byContradiction (fun hfe => hno ⟨f, hf, hfe⟩)
      simpa using this
    obtain ⟨f, hf, hfe⟩ := this
    exact ⟨f, hf, fs.head hne, List.head_mem hne, hfe⟩

theorem status_perm (fs fs' : List (Int × String)) (hp : fs.Perm fs') (h : ∀ f ∈ fs, f.1 ≠ 0) :
    exitOf fs = exitOf fs' := by
  by_cases hne : fs = []
  · subst hne; rw [List.nil_perm.mp hp]
  · have hne' : fs' ≠ [] := fun e => hne (by subst e; exact List.perm_nil.mp hp)
    have h' : ∀ f ∈ fs', f.1 ≠ 0 := fun f hf => h f (hp.mem_iff.mpr hf)
    by_cases hc : ∃ c, ∀ f ∈ fs, f.1 = c
    · obtain ⟨c, hc⟩ := hc
      rw [exitOf_common c fs hne hc, exitOf_common c fs' hne' (fun f hf => hc f (hp.mem_iff.mpr hf))]
    · have hd : ∃ f ∈ fs, ∃ g ∈ fs, f.1 ≠ g.1 := by
        apply Classical.byContradiction
        intro hno
        apply hc
        refine ⟨(fs.head hne).1, fun f hf => ?_⟩
        exact Classical.byContradiction (fun hfe => hno ⟨f, hf, fs.head hne, List.head_mem hne, hfe⟩)
      obtain ⟨f, hf, g, hg, hfg⟩ := hd
      rw [exitOf_mixed fs h ⟨f, hf, g, hg, hfg⟩,
          exitOf_mixed fs' h' ⟨f, hp.mem_iff.mp hf, g, hp.mem_iff.mp hg, hfg⟩]

end MageModel.Deps
