import MageModel.Deps.Inv3
/-! Every state reachable under any schedule satisfies the invariants; consequences about the log. -/
namespace MageModel.Deps

/-- the state after running `sched` from the initial state with root goroutines `roots` -/
def reach (p : Prog) (roots : List Nat) (sched : List Agent) : State :=
  run Cfg.fixed p (State.init roots) sched

theorem reach_inv (p : Prog) (roots : List Nat) (sched : List Agent) :
    Inv1 p (reach p roots sched) ∧ Inv2 p (reach p roots sched) := by
  unfold reach
  apply run_invariant p (fun s => Inv1 p s ∧ Inv2 p s)
  · intro s s' h hm
    exact ⟨Inv1.step p s s' h.1 hm, Inv2.step p s s' h.1 h.2 hm⟩
  · exact ⟨Inv1.init p roots, Inv2.init p roots⟩

theorem GoodLog.suffix {p : Prog} {later l : List Event} (h : GoodLog p (later ++ l)) : GoodLog p l := by
  induction later with
  | nil => exact h
  | cons e rest ih => exact ih h.2

theorem GoodLog.at {p : Prog} {later earlier : List Event} {e : Event} (h : GoodLog p (later ++ e :: earlier)) :
    GoodEvent p e earlier ∧ GoodLog p earlier := GoodLog.suffix h

theorem starts_append (k : Key) (a b : List Event) : starts k (a ++ b) = starts k a + starts k b := by
  simp [starts, List.count_append]

theorem starts_pos_of_mem {k : Key} {l : List Event} (h : Event.start k ∈ l) : 0 < starts k l :=
  List.count_pos_iff.mpr h

/-- a `stop k` anywhere in a good log is preceded by `start k` -/
theorem start_before_stop {p : Prog} {later earlier : List Event} {k : Key} {r : Res}
    (h : GoodLog p (later ++ Event.stop k r :: earlier)) : Event.start k ∈ earlier := (GoodLog.at h).1

theorem mem_split {α} {a : α} {l : List α} (h : a ∈ l) : ∃ pre post, l = pre ++ a :: post :=
  List.append_of_mem h

end MageModel.Deps
