import MageModel.Base
/-
Model of mg/fn.go: `checkF` (signature and argument validation, with its index arithmetic) and the call vector `F`
assembles, over a reflect-level universe of types.
-/
namespace MageModel.Fn

inductive Ty where
  | int | str | bool | dur            -- the four supported argument types (exactly: `int`, `string`, `bool`, `time.Duration`)
  | ctx                               -- context.Context
  | err                               -- error
  | ns                                -- any type assignable to struct{} (struct{}, mg.Namespace, types defined from it)
  | other (n : Nat)                   -- anything else (look-alike named types, int64, interfaces, …)
  | slice (t : Ty)
  deriving DecidableEq, Repr

/-- `argTypes[t]` -/
def Ty.supported : Ty → Bool
  | .int | .str | .bool | .dur => true
  | _ => false

/-- a function type as reflect shows it -/
structure Sig where
  ins : List Ty
  variadic : Bool
  outs : List Ty
  deriving DecidableEq, Repr

/-- reflect's guarantee: a variadic function's last parameter is a slice -/
def Sig.WF (s : Sig) : Prop := s.variadic = true → ∃ e pre, s.ins = pre ++ [Ty.slice e]

inductive Target where
  | notFunc                 -- nil, or a value whose kind is not Func
  | func (s : Sig)
  deriving Repr

/-- dynamic type of an argument value; `none` = untyped nil (`reflect.TypeOf(nil) == nil`) -/
abbrev ArgTy := Option Ty

inductive Err where
  | notFunc | tooManyReturns | badReturn | tooManyArgs | tooFewArgs | wrongNumber
  | unsupported (i : Nat) | mismatch (i : Nat)
  | reflectPanic              -- `t.In(x)` out of range: would be a run-time panic inside reflect
  deriving DecidableEq, Repr

/-- `t.In(x)`, with the variadic element-type adjustment of the two loops -/
def paramTy (s : Sig) (x : Nat) : Option Ty :=
  match s.ins[x]? with
  | none => none
  | some t =>
    if s.variadic && x == s.ins.length - 1 then
      match t with
      | .slice e => some e
      | _ => none                      -- `.Elem()` of a non-slice: reflect panics (excluded by `Sig.WF`)
    else some t

/-- the loop added by the D14a fix: every parameter from `x` on has a supported type -/
def checkParams (s : Sig) : Nat → Nat → Except Err Unit
  | 0, _ => .ok ()
  | n+1, i =>
    match paramTy s i with
    | none => .error .reflectPanic
    | some t => if t.supported then checkParams s n (i+1) else .error (.unsupported i)

/-- `for _, arg := range args { … }` with the running index `x` -/
def checkArgs (s : Sig) : Nat → List ArgTy → Except Err Unit
  | _, [] => .ok ()
  | x, a :: rest =>
    match paramTy s x with
    | none => .error .reflectPanic
    | some t =>
      if !t.supported then .error (.unsupported x)
      else if a ≠ some t then .error (.mismatch x)
      else checkArgs s (if x < s.ins.length - 1 then x + 1 else x) rest

/-- what the index computation of `checkF` yields: `isNamespace`, `hasContext` and the first index `x` the
    loops look at -/
structure Idx where
  isNs : Bool
  hasCtx : Bool
  x : Nat

def idxOf (ins : List Ty) : Idx :=
  let isNs := ins[0]? == some Ty.ns                                  -- t.In(0).AssignableTo(emptyType)
  let x0 := if isNs then 1 else 0
  let hasCtx := decide (ins.length > x0) && ins[x0]? == some Ty.ctx  -- t.NumIn() > x && t.In(x) == ctxType
  ⟨isNs, hasCtx, if hasCtx then x0 + 1 else x0⟩

/-- mg/fn.go:checkF — returns (hasContext, isNamespace) -/
def checkF (t : Target) (args : List ArgTy) : Except Err (Bool × Bool) :=
  match t with
  | .notFunc => .error .notFunc
  | .func s =>
    if s.outs.length > 1 then .error .tooManyReturns
    else if s.outs.length = 1 ∧ s.outs[0]? ≠ some Ty.err then .error .badReturn
    else if args.length > s.ins.length ∧ s.variadic = false then .error .tooManyArgs
    else if s.ins.length = 0 then .ok (false, false)
    else
      -- inputs := t.NumIn() minus the receiver and the context
      if s.variadic = true ∧ args.length < s.ins.length - (idxOf s.ins).x - 1 then .error .tooFewArgs
      else if s.variadic = false ∧ args.length ≠ s.ins.length - (idxOf s.ins).x then .error .wrongNumber
      else
        match checkParams s (s.ins.length - (idxOf s.ins).x) (idxOf s.ins).x with
        | .error e => .error e
        | .ok () =>
          match checkArgs s (idxOf s.ins).x args with
          | .error e => .error e
          | .ok () => .ok ((idxOf s.ins).hasCtx, (idxOf s.ins).isNs)

/-- the argument vector `F`'s closure passes to `reflect.Value.Call`: types of the values, in order -/
def callVec (flags : Bool × Bool) (args : List ArgTy) : List ArgTy :=
  (if flags.2 then [some Ty.ns] else []) ++ (if flags.1 then [some Ty.ctx] else []) ++ args

/-- Go's call rule for a (possibly variadic) signature, on exact types (`ns` accepts the struct{}{} value) -/
def conforms (ins : List Ty) (variadic : Bool) (vec : List ArgTy) : Prop :=
  if variadic then
    ∃ pre e, ins = pre ++ [Ty.slice e] ∧ vec.take pre.length = pre.map some ∧ ∀ a ∈ vec.drop pre.length, a = some e
  else vec = ins.map some

end MageModel.Fn
