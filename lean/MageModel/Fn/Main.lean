import MageModel.Fn.Loops
/-! `checkF` accepts exactly the well-typed argument lists. -/
namespace MageModel.Fn

theorem outs_ok_iff (outs : List Ty) :
    (¬ outs.length > 1 ∧ ¬ (outs.length = 1 ∧ outs[0]? ≠ some Ty.err)) ↔ (outs = [] ∨ outs = [Ty.err]) := by
  match outs with
  | [] => simp
  | [t] => cases t <;> simp
  | a :: b :: rest => simp

/-- `checkF` unfolded into its guards -/
theorem checkF_ok_unfold (s : Sig) (args : List ArgTy) (r : Bool × Bool) :
    checkF (.func s) args = .ok r ↔
      (s.outs = [] ∨ s.outs = [Ty.err]) ∧ ¬ (args.length > s.ins.length ∧ s.variadic = false) ∧
      ((s.ins.length = 0 ∧ r = (false, false)) ∨
       (s.ins.length ≠ 0 ∧
        ¬ (s.variadic = true ∧ args.length < s.ins.length - (idxOf s.ins).x - 1) ∧
        ¬ (s.variadic = false ∧ args.length ≠ s.ins.length - (idxOf s.ins).x) ∧
        checkParams s (s.ins.length - (idxOf s.ins).x) (idxOf s.ins).x = .ok () ∧
        checkArgs s (idxOf s.ins).x args = .ok () ∧ r = ((idxOf s.ins).hasCtx, (idxOf s.ins).isNs))) := by
  rw [← outs_ok_iff]
  unfold checkF
  simp only []
  generalize idxOf s.ins = ix
  by_cases h1 : s.outs.length > 1
  · rw [if_pos h1]; constructor
    · intro h; cases h
    · intro h; exact absurd h1 h.1.1
  rw [if_neg h1]
  by_cases h2 : s.outs.length = 1 ∧ s.outs[0]? ≠ some Ty.err
  · rw [if_pos h2]; constructor
    · intro h; cases h
    · intro h; exact absurd h2 h.1.2
  rw [if_neg h2]
  by_cases h3 : args.length > s.ins.length ∧ s.variadic = false
  · rw [if_pos h3]; constructor
    · intro h; cases h
    · intro h; exact absurd h3 h.2.1
  rw [if_neg h3]
  by_cases h4 : s.ins.length = 0
  · rw [if_pos h4]; constructor
    · intro h; cases h; exact ⟨⟨h1, h2⟩, h3, Or.inl ⟨h4, rfl⟩⟩
    · rintro ⟨_, _, h | h⟩
      · rw [h.2]
      · exact absurd h4 h.1
  rw [if_neg h4]
  by_cases h5 : s.variadic = true ∧ args.length < s.ins.length - ix.x - 1
  · rw [if_pos h5]; constructor
    · intro h; cases h
    · rintro ⟨_, _, h | h⟩
      · exact absurd h.1 h4
      · exact absurd h5 h.2.1
  rw [if_neg h5]
  by_cases h6 : s.variadic = false ∧ args.length ≠ s.ins.length - ix.x
  · rw [if_pos h6]; constructor
    · intro h; cases h
    · rintro ⟨_, _, h | h⟩
      · exact absurd h.1 h4
      · exact absurd h6 h.2.2.1
  rw [if_neg h6]
  cases hp : checkParams s (s.ins.length - ix.x) ix.x with
  | error e =>
    simp only []
    constructor
    · intro h; cases h
    · rintro ⟨_, _, h | h⟩
      · exact absurd h.1 h4
      · have := h.2.2.2.1; cases this
  | ok u =>
    simp only []
    cases ha : checkArgs s ix.x args with
    | error e =>
      simp only []
      constructor
      · intro h; cases h
      · rintro ⟨_, _, h | h⟩
        · exact absurd h.1 h4
        · have := h.2.2.2.2.1; cases this
    | ok u' =>
      simp only []
      constructor
      · intro h; cases h; exact ⟨⟨h1, h2⟩, h3, Or.inr ⟨h4, h5, h6, trivial, trivial, rfl⟩⟩
      · rintro ⟨_, _, h | h⟩
        · exact absurd h.1 h4
        · rw [h.2.2.2.2.2]

end MageModel.Fn
