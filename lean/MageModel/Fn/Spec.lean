import MageModel.Fn.CheckF
/-! Structural specification of "well-typed argument list" and its equivalence with the index-based `checkF`. -/
namespace MageModel.Fn

/-- (hasContext, isNamespace, remaining parameters) after the optional leading receiver and context -/
def stripPrefix : List Ty → Bool × Bool × List Ty
  | .ns :: .ctx :: rest => (true, true, rest)
  | .ns :: rest => (false, true, rest)
  | .ctx :: rest => (true, false, rest)
  | rest => (false, false, rest)

/-- The property's notion: valid result list; after the optional namespace receiver and context only supported
types; the arguments are values of exactly these types, in order, a variadic tail absorbing any number. -/
def WellTyped (s : Sig) (args : List ArgTy) : Prop :=
  (s.outs = [] ∨ s.outs = [Ty.err]) ∧
  (if s.variadic then
    ∃ fixed e tail, (stripPrefix s.ins).2.2 = fixed ++ [Ty.slice e] ∧ (∀ t ∈ fixed, t.supported = true) ∧
      e.supported = true ∧ args = fixed.map some ++ tail ∧ ∀ a ∈ tail, a = some e
  else (∀ t ∈ (stripPrefix s.ins).2.2, t.supported = true) ∧ args = (stripPrefix s.ins).2.2.map some)

/-- number of parameters consumed by the prefix -/
def prefixLen (ins : List Ty) : Nat := ins.length - (stripPrefix ins).2.2.length

theorem stripPrefix_drop (ins : List Ty) : ins.drop (prefixLen ins) = (stripPrefix ins).2.2 := by
  unfold prefixLen
  match ins with
  | [] => simp [stripPrefix]
  | [.ns] => simp [stripPrefix]
  | .ns :: .ctx :: rest =>
    have : rest.length + 1 + 1 - rest.length = 2 := by omega
    simp [stripPrefix, this]
  | .ns :: .ns :: rest => simp [stripPrefix]
  | .ns :: .int :: rest => simp [stripPrefix]
  | .ns :: .str :: rest => simp [stripPrefix]
  | .ns :: .bool :: rest => simp [stripPrefix]
  | .ns :: .dur :: rest => simp [stripPrefix]
  | .ns :: .err :: rest => simp [stripPrefix]
  | .ns :: .other n :: rest => simp [stripPrefix]
  | .ns :: .slice t :: rest => simp [stripPrefix]
  | .ctx :: rest => simp [stripPrefix]
  | .int :: rest => simp [stripPrefix]
  | .str :: rest => simp [stripPrefix]
  | .bool :: rest => simp [stripPrefix]
  | .dur :: rest => simp [stripPrefix]
  | .err :: rest => simp [stripPrefix]
  | .other n :: rest => simp [stripPrefix]
  | .slice t :: rest => simp [stripPrefix]

theorem idxOf_eq (ins : List Ty) :
    (idxOf ins).hasCtx = (stripPrefix ins).1 ∧ (idxOf ins).isNs = (stripPrefix ins).2.1 ∧ (idxOf ins).x = prefixLen ins := by
  unfold prefixLen
  match ins with
  | [] => simp [stripPrefix, idxOf]
  | [.ns] => simp [stripPrefix, idxOf]
  | .ns :: .ctx :: rest => simp [stripPrefix, idxOf]; omega
  | .ns :: .ns :: rest => simp [stripPrefix, idxOf]
  | .ns :: .int :: rest => simp [stripPrefix, idxOf]
  | .ns :: .str :: rest => simp [stripPrefix, idxOf]
  | .ns :: .bool :: rest => simp [stripPrefix, idxOf]
  | .ns :: .dur :: rest => simp [stripPrefix, idxOf]
  | .ns :: .err :: rest => simp [stripPrefix, idxOf]
  | .ns :: .other n :: rest => simp [stripPrefix, idxOf]
  | .ns :: .slice t :: rest => simp [stripPrefix, idxOf]
  | .ctx :: rest => simp [stripPrefix, idxOf]
  | .int :: rest => simp [stripPrefix, idxOf]
  | .str :: rest => simp [stripPrefix, idxOf]
  | .bool :: rest => simp [stripPrefix, idxOf]
  | .dur :: rest => simp [stripPrefix, idxOf]
  | .err :: rest => simp [stripPrefix, idxOf]
  | .other n :: rest => simp [stripPrefix, idxOf]
  | .slice t :: rest => simp [stripPrefix, idxOf]

end MageModel.Fn
